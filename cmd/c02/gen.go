package main

import (
	"sort"
	"strings"

	"verif/internal/extsem"
)

// Enumeration of annotated grammar SHAPES by weight (simplest first). A shape is a grammar
// whose terminal occurrences are still anonymous; labelings (gen.go: labelings) turn it into
// concrete grammars over {a,b,c} with the terminals first occurring in the order a, b, c.
//
// Weight: terminal / nonterminal reference 1; `?` `+` `*` +1; separator +1; every arrow +1
// (`-> __ignoreContent` +2, %interface default +2); every alternative after the first +1;
// an empty alternative 1.
//
// Bounds: <= 2 nonterminals (S, Y; Y is referenced from S only and has no groups deeper than
// 1), <= 3 parts per sequence, <= 2 alternatives per group / nonterminal, groups nested <= 2
// deep, total weight <= W.

const ph = '?' // anonymous terminal

type shapeGen struct {
	maxDepth int
	maxParts int
	partMemo map[[3]int][]*extsem.Expr
	seqMemo  map[[4]int][][]*extsem.Expr
	altMemo  map[[4]int][]*extsem.Alt
}

func b2i(b bool) int {
	if b {
		return 1
	}
	return 0
}

func (s *shapeGen) atoms(allowRef bool) []*extsem.Expr {
	out := []*extsem.Expr{{Kind: extsem.KTok, Ch: ph}}
	if allowRef {
		out = append(out, &extsem.Expr{Kind: extsem.KRef, NT: 1})
	}
	return out
}

// part: single parts of exact weight w written at group depth `depth`.
func (s *shapeGen) part(w, depth int, allowRef bool) []*extsem.Expr {
	if w < 1 {
		return nil
	}
	key := [3]int{w, depth, b2i(allowRef)}
	if r, ok := s.partMemo[key]; ok {
		return r
	}
	var out []*extsem.Expr
	switch w {
	case 1:
		out = s.atoms(allowRef)
	case 2:
		for _, a := range s.atoms(allowRef) {
			out = append(out, &extsem.Expr{Kind: extsem.KOpt, Sub: a},
				&extsem.Expr{Kind: extsem.KList, Sub: a, Plus: true},
				&extsem.Expr{Kind: extsem.KList, Sub: a})
		}
	case 3:
		for _, a := range s.atoms(allowRef) {
			out = append(out, &extsem.Expr{Kind: extsem.KList, Sub: a, Sep: ph, Plus: true},
				&extsem.Expr{Kind: extsem.KList, Sub: a, Sep: ph})
		}
	}
	if depth < s.maxDepth {
		out = append(out, s.group(w, depth+1, allowRef, false)...)
		for _, g := range s.group(w-1, depth+1, allowRef, true) {
			out = append(out, &extsem.Expr{Kind: extsem.KOpt, Sub: g},
				&extsem.Expr{Kind: extsem.KList, Sub: g, Plus: true},
				&extsem.Expr{Kind: extsem.KList, Sub: g})
		}
		for _, g := range s.group(w-2, depth+1, allowRef, true) {
			out = append(out, &extsem.Expr{Kind: extsem.KList, Sub: g, Sep: ph, Plus: true},
				&extsem.Expr{Kind: extsem.KList, Sub: g, Sep: ph})
		}
	}
	s.partMemo[key] = out
	return out
}

// seq: non-empty sequences of <= maxParts parts with total weight w.
func (s *shapeGen) seq(w, maxParts, depth int, allowRef bool) [][]*extsem.Expr {
	if w < 1 || maxParts < 1 {
		return nil
	}
	key := [4]int{w, maxParts, depth, b2i(allowRef)}
	if r, ok := s.seqMemo[key]; ok {
		return r
	}
	var out [][]*extsem.Expr
	for _, p := range s.part(w, depth, allowRef) {
		out = append(out, []*extsem.Expr{p})
	}
	for w1 := 1; w1 < w; w1++ {
		firsts := s.part(w1, depth, allowRef)
		if len(firsts) == 0 {
			continue
		}
		rests := s.seq(w-w1, maxParts-1, depth, allowRef)
		for _, f := range firsts {
			for _, r := range rests {
				out = append(out, append([]*extsem.Expr{f}, r...))
			}
		}
	}
	s.seqMemo[key] = out
	return out
}

// alt: one alternative of exact weight w. top: a top-level alternative (may be ignored).
func (s *shapeGen) alt(w, depth int, allowRef, top bool) []*extsem.Alt {
	key := [4]int{w, depth, b2i(allowRef), b2i(top)}
	if r, ok := s.altMemo[key]; ok {
		return r
	}
	var out []*extsem.Alt
	if w == 1 {
		out = append(out, &extsem.Alt{}) // %empty
	}
	for _, sq := range s.seq(w, s.maxParts, depth, allowRef) {
		out = append(out, &extsem.Alt{Parts: sq})
	}
	if w == 2 {
		out = append(out, &extsem.Alt{Arrow: &extsem.Arrow{}}) // %empty -> N
	}
	for _, sq := range s.seq(w-1, s.maxParts, depth, allowRef) {
		out = append(out, &extsem.Alt{Parts: sq, Arrow: &extsem.Arrow{}})
	}
	if top {
		for _, sq := range s.seq(w-2, s.maxParts, depth, allowRef) {
			out = append(out, &extsem.Alt{Parts: sq, Arrow: &extsem.Arrow{Kind: extsem.IgnoreArrow}})
		}
	}
	s.altMemo[key] = out
	return out
}

// group: groups of exact weight w written at depth `depth`. bare: the group is the operand
// of ? + *, so a single unannotated alternative of >= 2 parts makes sense.
func (s *shapeGen) group(w, depth int, allowRef, bare bool) []*extsem.Expr {
	var out []*extsem.Expr
	for _, a := range s.alt(w, depth, allowRef, false) {
		if a.Arrow != nil || (bare && len(a.Parts) >= 2) {
			out = append(out, &extsem.Expr{Kind: extsem.KGroup, Alts: []*extsem.Alt{a}})
		}
	}
	for w1 := 1; 2*w1+1 <= w; w1++ {
		w2 := w - 1 - w1
		a1s := s.alt(w1, depth, allowRef, false)
		a2s := s.alt(w2, depth, allowRef, false)
		for i, a1 := range a1s {
			for j, a2 := range a2s {
				if w1 == w2 && j <= i {
					continue
				}
				out = append(out, &extsem.Expr{Kind: extsem.KGroup, Alts: []*extsem.Alt{a1, a2}})
			}
		}
	}
	return out
}

// ntAlts: the alternative lists (1 or 2 alternatives) of a nonterminal with total weight w.
func (s *shapeGen) ntAlts(w int, allowRef bool) [][]*extsem.Alt {
	var out [][]*extsem.Alt
	for _, a := range s.alt(w, 0, allowRef, true) {
		out = append(out, []*extsem.Alt{a})
	}
	for w1 := 1; 2*w1+1 <= w; w1++ {
		w2 := w - 1 - w1
		a1s := s.alt(w1, 0, allowRef, true)
		a2s := s.alt(w2, 0, allowRef, true)
		for i, a1 := range a1s {
			for j, a2 := range a2s {
				if w1 == w2 && j <= i {
					continue
				}
				out = append(out, []*extsem.Alt{a1, a2})
			}
		}
	}
	return out
}

type shape struct {
	g      *extsem.Grammar
	weight int
	feats  []string
	slots  int
	nested int // arrows that are not rule-level
	family bool
	fam    string   // family shapes: the name of their class
	opts   []string // family shapes: table options every parser of this shape is generated with (nil = rotation)
	fixed  []string // family shapes: the only labelings to use (nil = all canonical labelings)
	// selection state
	nextLabel int
	done      bool
}

func hasRef(alts []*extsem.Alt) bool {
	g := &extsem.Grammar{NTs: []*extsem.Nonterm{{Alts: alts}}}
	found := false
	var we func(e *extsem.Expr)
	we = func(e *extsem.Expr) {
		if e.Kind == extsem.KRef {
			found = true
		}
		for _, a := range e.Alts {
			for _, p := range a.Parts {
				we(p)
			}
		}
		if e.Sub != nil {
			we(e.Sub)
		}
	}
	for _, a := range g.NTs[0].Alts {
		for _, p := range a.Parts {
			we(p)
		}
	}
	return found
}

var droppedNullableList int

// shapes enumerates every shape with weight <= W, ordered by weight then generation order.
func shapes(W int) []*shape {
	sS := &shapeGen{maxDepth: 2, maxParts: 3, partMemo: map[[3]int][]*extsem.Expr{}, seqMemo: map[[4]int][][]*extsem.Expr{}, altMemo: map[[4]int][]*extsem.Alt{}}
	sY := &shapeGen{maxDepth: 1, maxParts: 2, partMemo: map[[3]int][]*extsem.Expr{}, seqMemo: map[[4]int][][]*extsem.Expr{}, altMemo: map[[4]int][]*extsem.Alt{}}
	type def struct {
		a *extsem.Arrow
		w int
	}
	defsS := []def{{nil, 0}, {&extsem.Arrow{}, 1}, {&extsem.Arrow{Kind: extsem.CategoryArrow}, 2}}
	defsY := []def{{nil, 0}, {&extsem.Arrow{}, 1}}
	var out []*shape
	droppedNullableList = 0
	add := func(g *extsem.Grammar, w int) {
		c := g.Clone()
		nodeArrows := 0
		for _, a := range c.Arrows() {
			if a.Kind == extsem.NodeArrow {
				nodeArrows++
			}
		}
		if nodeArrows == 0 {
			return
		}
		if c.NullableListElement() {
			// a list whose element can be empty has infinitely many derivations for every
			// sentence: never in the property's domain, whatever the terminals are
			droppedNullableList++
			return
		}
		out = append(out, &shape{g: c, weight: w})
	}
	for w := 2; w <= W; w++ {
		// S alone
		for _, d := range defsS {
			for _, alts := range sS.ntAlts(w-d.w, false) {
				add(&extsem.Grammar{NTs: []*extsem.Nonterm{{Name: "S", Default: d.a, Alts: alts}}}, w)
			}
		}
		// S and Y
		for wY := 1; wY <= 3 && wY < w; wY++ {
			for _, dY := range defsY {
				for _, dS := range defsS {
					wS := w - wY - dY.w - dS.w
					if wS < 1 {
						continue
					}
					ys := sY.ntAlts(wY, false)
					for _, sa := range sS.ntAlts(wS, true) {
						if !hasRef(sa) {
							continue
						}
						for _, ya := range ys {
							add(&extsem.Grammar{NTs: []*extsem.Nonterm{
								{Name: "S", Default: dS.a, Alts: sa},
								{Name: "Y", Default: dY.a, Alts: ya},
							}}, w)
						}
					}
				}
			}
		}
	}
	out = append(out, familyShapes()...)
	out = append(out, sameClassShapes()...)
	out = append(out, sameNamesShapes()...)
	out = append(out, markerShapes()...)
	out = append(out, inputShapes()...)
	for _, sh := range out {
		finishShape(sh)
	}
	return out
}

// familyShapes: "two extracted constructs over the same element". syntax.Expand turns every list
// into a nonterminal of its own, named after the element (arrows do not take part in the name)
// and shared between occurrences that are equal. These grammars contain two lists over the same
// element that differ only in the node name of an arrow inside the element (or in whether the
// element is annotated at all, or in an inner arrow of a longer element), in two alternatives
// and within one rule, for + * and both separator forms, over a terminal and over an annotated
// nonterminal. They are heavier than the weight bound of the general enumeration, so they are
// listed explicitly (concrete terminals) and form the class "family:same-element-extracted-twice",
// visited in the first round. (Optionals and nested choices are expanded in place, never
// extracted, so they have no such family.)
func familyShapes() []*shape {
	type lk struct {
		plus bool
		sep  byte
	}
	kinds := []lk{{true, 0}, {false, 0}, {true, 'b'}, {false, 'b'}}
	tok := func(ch byte) *extsem.Expr { return &extsem.Expr{Kind: extsem.KTok, Ch: ch} }
	arrow := func() *extsem.Arrow { return &extsem.Arrow{} }
	grp := func(a *extsem.Arrow, parts ...*extsem.Expr) *extsem.Expr {
		return &extsem.Expr{Kind: extsem.KGroup, Alts: []*extsem.Alt{{Parts: parts, Arrow: a}}}
	}
	var out []*shape
	for variant := 0; variant < 6; variant++ {
		for _, k := range kinds {
			list := func(sub *extsem.Expr) *extsem.Expr {
				return &extsem.Expr{Kind: extsem.KList, Sub: sub, Plus: k.plus, Sep: k.sep}
			}
			delim := byte('b')
			if k.sep != 0 {
				delim = 'c'
			}
			g := &extsem.Grammar{NTs: []*extsem.Nonterm{{Name: "S"}}}
			elem := func() *extsem.Expr { return tok('a') }
			if variant == 4 {
				elem = func() *extsem.Expr { return &extsem.Expr{Kind: extsem.KRef, NT: 1} }
				g.NTs = append(g.NTs, &extsem.Nonterm{Name: "Y", Default: arrow(), Alts: []*extsem.Alt{{Parts: []*extsem.Expr{tok('a')}}}})
			}
			l1 := list(grp(arrow(), elem()))
			l2 := list(grp(arrow(), elem()))
			switch variant {
			case 0, 4: // S : (e -> N1)K d | d (e -> N2)K
				g.NTs[0].Alts = []*extsem.Alt{{Parts: []*extsem.Expr{l1, tok(delim)}}, {Parts: []*extsem.Expr{tok(delim), l2}}}
			case 1: // S : (e -> N1)K d (e -> N2)K
				g.NTs[0].Alts = []*extsem.Alt{{Parts: []*extsem.Expr{l1, tok(delim), l2}}}
			case 2: // S : (e -> N1)K d | d eK           (annotated and bare element)
				g.NTs[0].Alts = []*extsem.Alt{{Parts: []*extsem.Expr{l1, tok(delim)}}, {Parts: []*extsem.Expr{tok(delim), list(elem())}}}
			case 3: // S : ((e -> N1)K -> N2) d | d (e -> N3)K
				g.NTs[0].Alts = []*extsem.Alt{{Parts: []*extsem.Expr{grp(arrow(), l1), tok(delim)}}, {Parts: []*extsem.Expr{tok(delim), l2}}}
			case 5: // S : (a (a -> N1))K d | d (a (a -> N2))K   (longer element, inner arrow differs)
				e1 := list(grp(nil, tok('a'), grp(arrow(), tok('a'))))
				e2 := list(grp(nil, tok('a'), grp(arrow(), tok('a'))))
				g.NTs[0].Alts = []*extsem.Alt{{Parts: []*extsem.Expr{e1, tok(delim)}}, {Parts: []*extsem.Expr{tok(delim), e2}}}
			}
			c := g.Clone()
			var lab []byte
			for _, p := range c.TermSlots() {
				lab = append(lab, *p)
			}
			out = append(out, &shape{g: c, weight: 9, fixed: []string{string(lab)}, family: true, fam: famTwice})
		}
	}
	return out
}

const (
	famTwice     = "family:same-element-extracted-twice"
	famSameClass = "family:same-class-rules-one-ends-in-empty-symbol"
	famSameNames = "family:same-node-names-whole-rule-vs-prefix"
	famMarkers   = "family:state-markers-in-and-after-annotated-parts"
	famInputs    = "family:second-input-with-node-names-of-its-own"
)

func famShape(g *extsem.Grammar, fam string) *shape {
	c := g.Clone()
	var lab []byte
	for _, p := range c.TermSlots() {
		lab = append(lab, *p)
	}
	return &shape{g: c, weight: 9, fixed: []string{string(lab)}, family: true, fam: fam}
}

// markerShapes: state markers (`.name`) occupy no stack slot and are no symbols: a marker after a
// symbol that can be empty must not hide that tail from the fixWhitespace trimming, a marker
// inside / at the start / at the end of an annotated part must not shift the part's symbol
// positions, a part that holds nothing but a marker is an arrow over nothing.
func markerShapes() []*shape {
	tok := func(ch byte) *extsem.Expr { return &extsem.Expr{Kind: extsem.KTok, Ch: ch} }
	ref := func(nt int) *extsem.Expr { return &extsem.Expr{Kind: extsem.KRef, NT: nt} }
	mk := func(n string) *extsem.Expr { return &extsem.Expr{Kind: extsem.KMarker, Name: n} }
	star := func(e *extsem.Expr) *extsem.Expr { return &extsem.Expr{Kind: extsem.KList, Sub: e} }
	plus := func(e *extsem.Expr) *extsem.Expr { return &extsem.Expr{Kind: extsem.KList, Sub: e, Plus: true} }
	ar := func() *extsem.Arrow { return &extsem.Arrow{} }
	grp := func(a *extsem.Arrow, parts ...*extsem.Expr) *extsem.Expr {
		return &extsem.Expr{Kind: extsem.KGroup, Alts: []*extsem.Alt{{Parts: parts, Arrow: a}}}
	}
	alt := func(a *extsem.Arrow, parts ...*extsem.Expr) *extsem.Alt { return &extsem.Alt{Parts: parts, Arrow: a} }
	nt := func(name string, def *extsem.Arrow, alts ...*extsem.Alt) *extsem.Nonterm {
		return &extsem.Nonterm{Name: name, Default: def, Alts: alts}
	}
	gr := func(nts ...*extsem.Nonterm) *extsem.Grammar { return &extsem.Grammar{NTs: nts} }
	zb := func() *extsem.Nonterm { return nt("Z", nil, alt(nil, tok('b')), alt(nil)) } // Z : b | %empty
	yb := func() *extsem.Nonterm { return nt("Y", nil, alt(nil, tok('b')), alt(nil)) } // Y : b | %empty
	gs := []*extsem.Grammar{
		// S -> N1 : Y c ;  Y -> N2 : a Z .m1 ;  Z : b | %empty ;
		gr(nt("S", ar(), alt(nil, ref(1), tok('c'))), nt("Y", ar(), alt(nil, tok('a'), ref(2), mk("m1"))), zb()),
		// S : (a Y .m1 -> N1) c ;  Y : b | %empty ;         (marker closes an annotated inner part)
		gr(nt("S", nil, alt(nil, grp(ar(), tok('a'), ref(1), mk("m1")), tok('c'))), yb()),
		// S : a Y .m1 -> N1 ;  Y : b | %empty ;              (rule-level arrow, tail at the end of input)
		gr(nt("S", nil, alt(ar(), tok('a'), ref(1), mk("m1"))), yb()),
		// S -> N1 : Y c ;  Y -> N2 : a b* .m1 ;              (the tail is a list)
		gr(nt("S", ar(), alt(nil, ref(1), tok('c'))), nt("Y", ar(), alt(nil, tok('a'), star(tok('b')), mk("m1")))),
		// S -> N1 : Y c ;  Y -> N2 : a Z .m1 .m2 ;  Z : b | %empty ;   (two markers)
		gr(nt("S", ar(), alt(nil, ref(1), tok('c'))), nt("Y", ar(), alt(nil, tok('a'), ref(2), mk("m1"), mk("m2"))), zb()),
		// S -> N1 : Y c ;  Y -> N2 : a .m1 Z ;  Z : b | %empty ;       (marker before the tail)
		gr(nt("S", ar(), alt(nil, ref(1), tok('c'))), nt("Y", ar(), alt(nil, tok('a'), mk("m1"), ref(2))), zb()),
		// S : (a .m1 b -> N1) c ;                                       (marker inside a part)
		gr(nt("S", nil, alt(nil, grp(ar(), tok('a'), mk("m1"), tok('b')), tok('c')))),
		// S : a (.m1 b -> N1) c ;                                       (marker opens a part)
		gr(nt("S", nil, alt(nil, tok('a'), grp(ar(), mk("m1"), tok('b')), tok('c')))),
		// S : a .m1 (b -> N1) .m2 c -> N2 ;                             (markers around a part)
		gr(nt("S", nil, alt(ar(), tok('a'), mk("m1"), grp(ar(), tok('b')), mk("m2"), tok('c')))),
		// S : (.m1 -> N1) a ;                                           (a part that is only a marker)
		gr(nt("S", nil, alt(nil, grp(ar(), mk("m1")), tok('a')))),
		// S : (a .m1 -> N1)+ b ;                                        (marker in a list element)
		gr(nt("S", nil, alt(nil, plus(grp(ar(), tok('a'), mk("m1"))), tok('b')))),
		// S : ((a Y .m1 -> N1) -> N2) c ;  Y : b | %empty ;
		gr(nt("S", nil, alt(nil, grp(ar(), grp(ar(), tok('a'), ref(1), mk("m1"))), tok('c'))), yb()),
	}
	var out []*shape
	for _, g := range gs {
		out = append(out, famShape(g, famMarkers))
	}
	return out
}

// inputShapes: more than one %input, inputs declared no-eoi, node names that occur only below
// one of the inputs; every input is parsed through its own Parse function. For a no-eoi input
// only exact sentences are fed (what follows a sentence is outside this property).
func inputShapes() []*shape {
	tok := func(ch byte) *extsem.Expr { return &extsem.Expr{Kind: extsem.KTok, Ch: ch} }
	ref := func(nt int) *extsem.Expr { return &extsem.Expr{Kind: extsem.KRef, NT: nt} }
	opt := func(e *extsem.Expr) *extsem.Expr { return &extsem.Expr{Kind: extsem.KOpt, Sub: e} }
	plus := func(e *extsem.Expr) *extsem.Expr { return &extsem.Expr{Kind: extsem.KList, Sub: e, Plus: true} }
	ar := func() *extsem.Arrow { return &extsem.Arrow{} }
	grp := func(a *extsem.Arrow, parts ...*extsem.Expr) *extsem.Expr {
		return &extsem.Expr{Kind: extsem.KGroup, Alts: []*extsem.Alt{{Parts: parts, Arrow: a}}}
	}
	alt := func(a *extsem.Arrow, parts ...*extsem.Expr) *extsem.Alt { return &extsem.Alt{Parts: parts, Arrow: a} }
	nt := func(name string, def *extsem.Arrow, alts ...*extsem.Alt) *extsem.Nonterm {
		return &extsem.Nonterm{Name: name, Default: def, Alts: alts}
	}
	e := func(nt int, noeoi bool) extsem.Entry { return extsem.Entry{NT: nt, NoEoi: noeoi} }
	gs := []*extsem.Grammar{
		// %input S, Y no-eoi;  S -> N1 : a ;  Y -> N2 : b ;
		{Entries: []extsem.Entry{e(0, false), e(1, true)}, NTs: []*extsem.Nonterm{nt("S", ar(), alt(nil, tok('a'))), nt("Y", ar(), alt(nil, tok('b')))}},
		// %input S, Y no-eoi;  S -> N1 : a ;  Y : (b -> N2) c -> N3 ;
		{Entries: []extsem.Entry{e(0, false), e(1, true)}, NTs: []*extsem.Nonterm{nt("S", ar(), alt(nil, tok('a'))), nt("Y", nil, alt(ar(), grp(ar(), tok('b')), tok('c')))}},
		// %input S, Y;  S -> N1 : a ;  Y : (b -> N2)+ -> N3 ;           (two ordinary inputs)
		{Entries: []extsem.Entry{e(0, false), e(1, false)}, NTs: []*extsem.Nonterm{nt("S", ar(), alt(nil, tok('a'))), nt("Y", nil, alt(ar(), plus(grp(ar(), tok('b')))))}},
		// %input S, Y no-eoi;  S : a Y -> N1 ;  Y : b -> N2 ;           (Y below both inputs)
		{Entries: []extsem.Entry{e(0, false), e(1, true)}, NTs: []*extsem.Nonterm{nt("S", nil, alt(ar(), tok('a'), ref(1))), nt("Y", nil, alt(ar(), tok('b')))}},
		// %input S, Y no-eoi, Z;  S -> N1 : a ;  Y -> N2 : b ;  Z -> N3 : c (c -> N4)? ;
		{Entries: []extsem.Entry{e(0, false), e(1, true), e(2, false)}, NTs: []*extsem.Nonterm{nt("S", ar(), alt(nil, tok('a'))), nt("Y", ar(), alt(nil, tok('b'))), nt("Z", ar(), alt(nil, tok('c'), opt(grp(ar(), tok('c')))))}},
		// %input S no-eoi, Y;  S -> N1 : a ;  Y : b (%empty -> N2) c ;  (the no-eoi input comes first)
		{Entries: []extsem.Entry{e(0, true), e(1, false)}, NTs: []*extsem.Nonterm{nt("S", ar(), alt(nil, tok('a'))), nt("Y", nil, alt(nil, tok('b'), grp(ar()), tok('c')))}},
		// %input S no-eoi;  S : (a -> N1) b -> N2 ;                      (the only input is no-eoi)
		{Entries: []extsem.Entry{e(0, true)}, NTs: []*extsem.Nonterm{nt("S", nil, alt(ar(), grp(ar(), tok('a')), tok('b')))}},
		// %input S, Y no-eoi;  S -> N1 : a ;  Y -> N2 : Z c ;  Z : (b -> N3) b ;   (names two levels below the no-eoi input)
		{Entries: []extsem.Entry{e(0, false), e(1, true)}, NTs: []*extsem.Nonterm{nt("S", ar(), alt(nil, tok('a'))), nt("Y", ar(), alt(nil, ref(2), tok('c'))), nt("Z", nil, alt(nil, grp(ar(), tok('b')), tok('b')))}},
	}
	var out []*shape
	for _, g := range gs {
		out = append(out, famShape(g, famInputs))
	}
	return out
}

// sameNamesShapes: the same node names used in two rules of one grammar, once as arrows that cover
// the whole rule (the outermost one becomes the rule's own node type) and once as the very same
// arrows over a proper prefix of a longer rule (nothing is the rule's own type, all are in-rule
// reports). Both rules list the same ranges (same types, same symbol positions) and differ only in
// what follows, so any sharing of per-rule report lists between rules must take the promotion into
// account. The general enumeration gives every arrow its own name (N1, N2, ...), hence these are
// listed explicitly: both textual orders, one and two nested levels, inside one nonterminal and
// through a second / third nonterminal, with a nonterminal-level arrow and with an arrow over
// nothing. Node names X1, X2 are preset (finishShape keeps non-empty names).
func sameNamesShapes() []*shape {
	tok := func(ch byte) *extsem.Expr { return &extsem.Expr{Kind: extsem.KTok, Ch: ch} }
	ref := func(nt int) *extsem.Expr { return &extsem.Expr{Kind: extsem.KRef, NT: nt} }
	x := func(n int) *extsem.Arrow { return &extsem.Arrow{Name: "X" + itoa(n)} }
	grp := func(a *extsem.Arrow, parts ...*extsem.Expr) *extsem.Expr {
		return &extsem.Expr{Kind: extsem.KGroup, Alts: []*extsem.Alt{{Parts: parts, Arrow: a}}}
	}
	alt := func(a *extsem.Arrow, parts ...*extsem.Expr) *extsem.Alt { return &extsem.Alt{Parts: parts, Arrow: a} }
	nt := func(name string, alts ...*extsem.Alt) *extsem.Nonterm { return &extsem.Nonterm{Name: name, Alts: alts} }
	gr := func(nts ...*extsem.Nonterm) *extsem.Grammar { return &extsem.Grammar{NTs: nts} }
	// building blocks (fresh copies on every call)
	whole1 := func() *extsem.Alt { return alt(x(1), tok('a')) }                      // a -> X1
	prefix1 := func() *extsem.Alt { return alt(nil, grp(x(1), tok('a')), tok('b')) } // (a -> X1) b
	whole2 := func() *extsem.Alt { return alt(x(2), grp(x(1), tok('a')), tok('b')) } // (a -> X1) b -> X2
	prefix2 := func() *extsem.Alt {                                                  // ((a -> X1) b -> X2) c
		return alt(nil, grp(x(2), grp(x(1), tok('a')), tok('b')), tok('c'))
	}
	gs := []*extsem.Grammar{
		// S : (a -> X1) b | c Y ;  Y : a -> X1 ;              (prefix first)
		gr(nt("S", prefix1(), alt(nil, tok('c'), ref(1))), nt("Y", whole1())),
		// S : Y | Z ;  Y : (a -> X1) b -> X2 ;  Z : ((a -> X1) b -> X2) c ;   (whole first, two levels)
		gr(nt("S", alt(nil, ref(1)), alt(nil, ref(2))), nt("Y", whole2()), nt("Z", prefix2())),
		// S : Y | Z ;  Y : ((a -> X1) b -> X2) c ;  Z : (a -> X1) b -> X2 ;   (prefix first, two levels)
		gr(nt("S", alt(nil, ref(1)), alt(nil, ref(2))), nt("Y", prefix2()), nt("Z", whole2())),
		// S : Y | Z ;  Y : a -> X1 ;  Z : (a -> X1) b ;       (whole first, one level)
		gr(nt("S", alt(nil, ref(1)), alt(nil, ref(2))), nt("Y", whole1()), nt("Z", prefix1())),
		// one nonterminal, both orders, one and two levels
		gr(nt("S", whole1(), prefix1())),
		gr(nt("S", prefix1(), whole1())),
		gr(nt("S", whole2(), prefix2())),
		gr(nt("S", prefix2(), whole2())),
		// S : (a -> X1) b | c Y ;  Y -> X1 : a ;              (whole rule through the nonterminal's arrow)
		gr(nt("S", prefix1(), alt(nil, tok('c'), ref(1))), &extsem.Nonterm{Name: "Y", Default: x(1), Alts: []*extsem.Alt{alt(nil, tok('a'))}}),
		// S : (%empty -> X1) a | b Y ;  Y : %empty -> X1 ;    (arrow over nothing: whole empty rule vs prefix)
		gr(nt("S", alt(nil, grp(x(1)), tok('a')), alt(nil, tok('b'), ref(1))), nt("Y", alt(x(1)))),
		// S : c Y | (a -> X1) b (a -> X1) ;  Y : a -> X1 ;    (the prefix rule repeats the name further right)
		gr(nt("S", alt(nil, tok('c'), ref(1)), alt(nil, grp(x(1), tok('a')), tok('b'), grp(x(1), tok('a')))), nt("Y", whole1())),
		// S : Y b | c Y ;  Y : a -> X1 | (a -> X1) a ;        (both shapes behind one nonterminal used twice)
		gr(nt("S", alt(nil, ref(1), tok('b')), alt(nil, tok('c'), ref(1))), nt("Y", whole1(), alt(nil, grp(x(1), tok('a')), tok('a')))),
	}
	var out []*shape
	for _, g := range gs {
		c := g.Clone()
		var lab []byte
		for _, p := range c.TermSlots() {
			lab = append(lab, *p)
		}
		out = append(out, &shape{g: c, weight: 9, fixed: []string{string(lab)}, family: true, fam: famSameNames})
	}
	return out
}

// sameClassShapes: two rules of one nonterminal that the table minimizer may treat as one class
// (same left-hand side, length and node type, through a nonterminal-level arrow) although only
// one of them ends in a symbol that can be empty, so only that one has its range trimmed under
// fixWhitespace. The general enumeration names every arrow differently and rotates the table
// options, so this combination is listed explicitly and always generated with minimizeDFA.
func sameClassShapes() []*shape {
	tok := func(ch byte) *extsem.Expr { return &extsem.Expr{Kind: extsem.KTok, Ch: ch} }
	opt := func(e *extsem.Expr) *extsem.Expr { return &extsem.Expr{Kind: extsem.KOpt, Sub: e} }
	star := func(e *extsem.Expr) *extsem.Expr { return &extsem.Expr{Kind: extsem.KList, Sub: e} }
	ref := func(nt int) *extsem.Expr { return &extsem.Expr{Kind: extsem.KRef, NT: nt} }
	alt := func(parts ...*extsem.Expr) *extsem.Alt { return &extsem.Alt{Parts: parts} }
	// Y : c | %empty ;   (an optional part `Y?` would be expanded in place and a list `c*` keeps a
	// shift in its state: only an explicitly nullable nonterminal leaves a pure reduce state)
	yc := func() *extsem.Nonterm { return &extsem.Nonterm{Name: "Y", Alts: []*extsem.Alt{alt(tok('c')), alt()}} }
	_, _ = opt, star
	type v struct {
		g    *extsem.Grammar
		opts []string
	}
	min := []string{"minimizeDFA = true"}
	minOpt := []string{"minimizeDFA = true", "optimizeTables = true"}
	sN := func(alts ...*extsem.Alt) *extsem.Nonterm {
		return &extsem.Nonterm{Name: "S", Default: &extsem.Arrow{}, Alts: alts}
	}
	vs := []v{
		// S -> N : b b | a Y ;  Y : c | %empty ;
		{&extsem.Grammar{NTs: []*extsem.Nonterm{sN(alt(tok('b'), tok('b')), alt(tok('a'), ref(1))), yc()}}, min},
		// S -> N : a Y | b b ;  Y : c | %empty ;
		{&extsem.Grammar{NTs: []*extsem.Nonterm{sN(alt(tok('a'), ref(1)), alt(tok('b'), tok('b'))), yc()}}, min},
		// S -> N : a | Y ;  Y : b | %empty ;   (length 1)
		{&extsem.Grammar{NTs: []*extsem.Nonterm{sN(alt(tok('a')), alt(ref(1))), {Name: "Y", Alts: []*extsem.Alt{alt(tok('b')), alt()}}}}, min},
		// S -> N : a b b | a a Y ;  Y : c | %empty ;   (length 3)
		{&extsem.Grammar{NTs: []*extsem.Nonterm{sN(alt(tok('a'), tok('b'), tok('b')), alt(tok('a'), tok('a'), ref(1))), yc()}}, min},
		{&extsem.Grammar{NTs: []*extsem.Nonterm{sN(alt(tok('b'), tok('b')), alt(tok('a'), ref(1))), yc()}}, minOpt},
		{&extsem.Grammar{NTs: []*extsem.Nonterm{sN(alt(tok('a'), ref(1)), alt(tok('b'), tok('b'))), yc()}}, minOpt},
	}
	var out []*shape
	for _, x := range vs {
		c := x.g.Clone()
		var lab []byte
		for _, p := range c.TermSlots() {
			lab = append(lab, *p)
		}
		out = append(out, &shape{g: c, weight: 9, fixed: []string{string(lab)}, family: true, fam: famSameClass, opts: x.opts})
	}
	return out
}

// finishShape names the arrows (N1.. / I1.. in text order), assigns shapes and features.
func finishShape(sh *shape) {
	g := sh.g
	n, c := 0, 0
	for _, a := range g.Arrows() {
		switch a.Kind {
		case extsem.NodeArrow:
			n++
			if a.Name == "" { // families preset names that must coincide
				a.Name = "N" + itoa(n)
			}
		case extsem.CategoryArrow:
			c++
			a.Name = "I" + itoa(c)
		case extsem.IgnoreArrow:
			a.Name = "__ignoreContent"
		}
	}
	g.AssignShapes()
	sh.slots = len(g.TermSlots())
	feats := map[string]bool{}
	for _, a := range g.Arrows() {
		switch a.Kind {
		case extsem.IgnoreArrow:
			feats["ignoreContent"] = true
			continue
		case extsem.CategoryArrow:
			feats["category"] = true
			continue
		}
		feats["arrow:"+a.Shape] = true
		if a.Shape != "rule" && a.Shape != "empty-alt" && a.Shape != "nt-default" && a.Shape != "rule/nullable" {
			sh.nested++
		}
	}
	// what annotated alternatives contain, and alternatives that end in a symbol that can be
	// empty (where fixWhitespace matters)
	nullableNT := map[int]bool{}
	for i, nt := range g.NTs {
		for _, a := range nt.Alts {
			if len(a.Parts) == 0 {
				nullableNT[i] = true
			}
			allOpt := len(a.Parts) > 0
			for _, p := range a.Parts {
				if !(p.Kind == extsem.KOpt || (p.Kind == extsem.KList && !p.Plus)) {
					allOpt = false
				}
			}
			if allOpt {
				nullableNT[i] = true
			}
		}
	}
	if nullableNT[1] {
		feats["nullable-Y"] = true
	}
	var we func(e *extsem.Expr, inArrow bool)
	var wa func(a *extsem.Alt, inArrow bool)
	emptySym := func(e *extsem.Expr) bool {
		return (e.Kind == extsem.KRef && nullableNT[e.NT]) || (e.Kind == extsem.KList && !e.Plus)
	}
	we = func(e *extsem.Expr, inArrow bool) {
		if inArrow {
			switch e.Kind {
			case extsem.KRef:
				feats["around:ref"] = true
			case extsem.KOpt:
				feats["around:opt"] = true
			case extsem.KList:
				feats["around:list"] = true
			case extsem.KGroup:
				if len(e.Alts) > 1 {
					feats["around:choice"] = true
				}
			}
		}
		for _, a := range e.Alts {
			wa(a, inArrow)
		}
		if e.Sub != nil {
			we(e.Sub, inArrow)
		}
	}
	wa = func(a *extsem.Alt, inArrow bool) {
		in := inArrow || (a.Arrow != nil && a.Arrow.Kind == extsem.NodeArrow)
		if k := len(a.Parts); k > 0 && emptySym(a.Parts[k-1]) {
			if a.Arrow != nil && a.Arrow.Kind == extsem.NodeArrow {
				feats["trailing-empty-symbol:annotated"] = true
			} else {
				feats["trailing-empty-symbol"] = true
			}
		}
		if k := len(a.Parts); k > 1 && emptySym(a.Parts[0]) {
			feats["leading-empty-symbol"] = true
		}
		for _, p := range a.Parts {
			we(p, in)
			// an annotated inner part of >= 2 symbols that ends in a symbol that can be empty and
			// is not the whole rule: the place where reportRange has to trim under fixWhitespace
			inner := p
			if p.Kind == extsem.KOpt {
				inner = p.Sub
			}
			if inner.Kind == extsem.KGroup && len(a.Parts) > 1 {
				for _, ga := range inner.Alts {
					if k := len(ga.Parts); k >= 2 && emptySym(ga.Parts[k-1]) && ga.Arrow != nil && ga.Arrow.Kind == extsem.NodeArrow {
						feats["inner-part-ends-in-empty-symbol"] = true
					}
				}
			}
		}
	}
	for _, nt := range g.NTs {
		for _, a := range nt.Alts {
			in := nt.Default != nil && nt.Default.Kind == extsem.NodeArrow && a.Arrow == nil
			if in {
				// wa looks at a.Arrow only; emulate the default
				for _, p := range a.Parts {
					we(p, true)
				}
			}
			if k := len(a.Parts); k >= 2 && emptySym(a.Parts[k-1]) && (in || (a.Arrow != nil && a.Arrow.Kind == extsem.NodeArrow)) {
				// a reported rule that ends in a symbol that can be empty after other symbols:
				// fixWhitespace changes the range of the rule itself
				feats["fixWhitespace-matters:rule-level"] = true
			}
			wa(a, false)
		}
	}
	// interplay of S's nested arrows with an annotated Y
	if len(g.NTs) > 1 {
		yNode := g.NTs[1].Default != nil && g.NTs[1].Default.Kind == extsem.NodeArrow
		for _, a := range g.NTs[1].Alts {
			for _, ar := range (&extsem.Grammar{NTs: []*extsem.Nonterm{{Alts: []*extsem.Alt{a}}}}).Arrows() {
				if ar.Kind == extsem.NodeArrow {
					yNode = true
				}
			}
		}
		if yNode {
			feats["Y:annotated"] = true
			if sh.nested > 0 {
				feats["Y:annotated+nested-arrow-in-S"] = true
			}
			// a nested arrow of S that is closed before a later reference to Y in the same
			// rule: reduce order differs from the order by position
			for _, a := range g.NTs[0].Alts {
				closed := false
				var oe func(e *extsem.Expr)
				var oa func(a *extsem.Alt, top bool)
				oe = func(e *extsem.Expr) {
					if e.Kind == extsem.KRef && closed {
						feats["order:nested-arrow-left-of-annotated-Y"] = true
					}
					for _, x := range e.Alts {
						oa(x, false)
					}
					if e.Sub != nil {
						oe(e.Sub)
					}
				}
				oa = func(a *extsem.Alt, top bool) {
					for _, p := range a.Parts {
						oe(p)
					}
					if !top && a.Arrow != nil && a.Arrow.Kind == extsem.NodeArrow {
						closed = true
					}
				}
				oa(a, true)
			}
		}
	}
	if sh.family {
		// only its own class: the general classes stay ordered by weight
		feats = map[string]bool{sh.fam: true}
	}
	for f := range feats {
		sh.feats = append(sh.feats, f)
	}
	sort.Strings(sh.feats)
}

func itoa(n int) string {
	if n == 0 {
		return "0"
	}
	var b []byte
	for n > 0 {
		b = append([]byte{byte('0' + n%10)}, b...)
		n /= 10
	}
	return string(b)
}

// labelings: every assignment of terminals a, b, c to k occurrences in which the terminals
// first occur in the order a, b, c (restricted growth strings), lexicographic: fewest distinct
// terminals first.
var labelCache = map[int][]string{}

func labelings(k int) []string {
	if r, ok := labelCache[k]; ok {
		return r
	}
	var out []string
	buf := make([]byte, k)
	var rec func(pos, used int)
	rec = func(pos, used int) {
		if pos == k {
			out = append(out, string(buf))
			return
		}
		for t := 0; t <= used && t < 3; t++ {
			buf[pos] = byte('a' + t)
			nu := used
			if t == used {
				nu++
			}
			rec(pos+1, nu)
		}
	}
	rec(0, 0)
	labelCache[k] = out
	return out
}

// instantiate returns the concrete grammar of a shape under a labeling.
func instantiate(sh *shape, label string) *extsem.Grammar {
	g := sh.g.Clone()
	for i, p := range g.TermSlots() {
		*p = label[i]
	}
	return g
}

func featureString(sh *shape) string { return strings.Join(sh.feats, ",") }
