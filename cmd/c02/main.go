// C02 — parser listener events reproduce the unique derivation.
//
// Layer B only: every grammar is generated with the real compiler.Compile + gen.Generate, built
// with `go build` and run (internal/genharness). The listener calls of the generated parser are
// compared with the reference semantics of internal/extsem (events.go), which evaluates the
// extended, annotated notation directly and never looks at the compiler's expansion.
//
// Two enumerations:
//
//  1. plain CFGs from internal/gramenum with `-> R<i>` on every rule (the fragment where the
//     answer is obvious; a second tiny derivation enumerator in cfg.go cross-checks extsem);
//  2. annotated grammar shapes over S, Y and terminals a, b, c (gen.go) with every arrow shape:
//     rule-level, nonterminal default, nested `(a b -> M) c`, inside optionals, nested choices,
//     list elements (+, *, with separators), arrows without symbols, arrows on empty
//     alternatives, two deep, around optionals/lists/nullable nonterminals, plus the
//     non-reporting `-> __ignoreContent` and %interface arrows.
//
// Every grammar is run on every sentence of length <= 4 with every pattern of single blanks
// before/between/after the tokens (2^(n+1) patterns), with fixWhitespace off and on (both when
// the reference says the option matters for the grammar, otherwise alternating), and on every
// non-sentence of length <= 3 (verdict only: this guards the reference's idea of the language).
package main

import (
	"context"
	"encoding/json"
	"fmt"
	"os"
	"path/filepath"
	"slices"
	"sort"
	"strconv"
	"strings"
	"time"

	"github.com/inspirer/textmapper/compiler"

	"verif/internal/core"
	"verif/internal/extsem"
	"verif/internal/genharness"
	"verif/internal/gramenum"
)

const (
	L       = 4 // sentence length bound
	LReject = 3 // non-sentences up to this length are fed for the verdict
)

func main() { core.Main("C02", "exploration", run, replay, nil) }

// pcase is one input of a prepared grammar.
type pcase struct {
	entry string // input nonterminal ("" = the only input)
	root  int
	text  string
	tree  *extsem.Node // nil: not a sentence
	cfg   *cfgNode     // plain-CFG fragment: the tree of the second enumerator
}

// prepared is one grammar that passed the reference filters.
type prepared struct {
	kind      string // "ext" | "cfg"
	g         *extsem.Grammar
	cfg       *gramenum.Gram
	cases     []pcase
	sentences int
	nested    int
	feats     string
	weight    int
	modes     []bool   // fixWhitespace settings to generate
	opts      []string // table options forced by the shape's family (nil = rotation)
}

// replayCase is what a violation records.
type replayCase struct {
	Kind     string          `json:"kind"`
	TM       string          `json:"tm"`
	Text     string          `json:"text"`
	Entry    string          `json:"entry,omitempty"` // the %input parsed ("" = first)
	Check    string          `json:"check,omitempty"` // "flat-post-order": compare the order with the strict post-order
	FixWS    bool            `json:"fixWhitespace"`
	Grammar  *extsem.Grammar `json:"grammar,omitempty"`
	CFG      *gramenum.Gram  `json:"cfg,omitempty"`
	Expected []string        `json:"expected,omitempty"`
	Got      []string        `json:"got,omitempty"`
}

func spacings(word string) []string {
	n := len(word)
	var out []string
	for mask := 0; mask < 1<<(n+1); mask++ {
		var sb strings.Builder
		for i := 0; i <= n; i++ {
			if mask&(1<<i) != 0 {
				sb.WriteByte(' ')
			}
			if i < n {
				sb.WriteByte(word[i])
			}
		}
		out = append(out, sb.String())
	}
	return out
}

// prepareExt runs the reference over every word and decides whether g is in scope.
func prepareExt(g *extsem.Grammar) (*prepared, string) {
	if g.NullableListElement() {
		return nil, "nullable-list-element"
	}
	T := len(g.Terminals())
	p := &prepared{kind: "ext", g: g}
	reject := ""
	for _, in := range g.Inputs() {
		entry := ""
		if len(g.Inputs()) > 1 || in.NT != 0 {
			entry = g.NTs[in.NT].Name
		}
		gramenum.AllStrings(T, L, func(w string) {
			if reject != "" {
				return
			}
			trees, giveUp := g.TreesFrom(in.NT, w)
			switch {
			case giveUp:
				reject = "cyclic-or-too-many-derivations"
			case len(trees) > 1:
				reject = "ambiguous"
			case len(trees) == 1:
				p.sentences++
				for _, text := range spacings(w) {
					p.cases = append(p.cases, pcase{entry: entry, root: in.NT, text: text, tree: trees[0]})
				}
			case len(w) <= LReject && !in.NoEoi:
				// (a no-eoi input accepts a sentence followed by anything: only exact sentences
				// are fed through it)
				p.cases = append(p.cases, pcase{entry: entry, root: in.NT, text: w})
			}
		})
	}
	if reject != "" {
		return nil, reject
	}
	if p.sentences == 0 {
		return nil, "empty-language"
	}
	p.decideModes()
	return p, ""
}

// decideModes: both settings of fixWhitespace when the reference predicts different events
// for some input, otherwise one.
func (p *prepared) decideModes() {
	differs := false
	for _, cs := range p.cases {
		if cs.tree == nil {
			continue
		}
		in := extsem.Tokenize(cs.text)
		a := extsem.Events(cs.tree, in, false)
		b := extsem.Events(cs.tree, in, true)
		if fmt.Sprint(a) != fmt.Sprint(b) {
			differs = true
			break
		}
	}
	if differs {
		p.modes = []bool{false, true}
	}
}

func (p *prepared) tm(name string, fix bool, extra ...string) string {
	if p.kind == "cfg" {
		var opts []string
		if fix {
			opts = append(opts, "fixWhitespace = true")
		}
		opts = append(opts, extra...)
		return p.cfg.ToTM([]gramenum.Input{{NT: p.cfg.T + 1, Eoi: true}}, gramenum.TMOpts{Name: name, Events: true, Space: true, Options: opts})
	}
	return p.g.TM(name, fix, extra...)
}

// tableOptions are table-construction options that must not change any reported event; they are
// rotated over the generated parsers (deterministically, by sequence number within each
// fixWhitespace mode), so every option set meets every grammar class without extra builds.
var tableOptions = [][]string{
	nil,
	{"minimizeDFA = true"},
	{"optimizeTables = true"},
	{"minimizeDFA = true", "optimizeTables = true"},
}

// compiles runs the front end only; "" = accepted without conflicts.
func compiles(tm string) (msg string) {
	err := core.Guard(func() {
		_, cerr := compiler.Compile(context.Background(), "precheck.tm", tm, compiler.Params{CheckOnly: true})
		if cerr != nil {
			msg = cerr.Error()
		}
	})
	if err != nil {
		return "panic: " + err.Error()
	}
	return msg
}

func rejectClass(msg string) string {
	switch {
	case strings.Contains(msg, "conflict"):
		return "conflicts"
	case strings.Contains(msg, "reporting empty ranges at the end of a rule"):
		return "empty-range-at-end-of-rule"
	case strings.HasPrefix(msg, "panic:"):
		return "panic"
	}
	return "other"
}

// ---------------------------------------------------------------------------------------------

type runner struct {
	c       *core.Ctx
	seq     int
	pending []job
	modeSeq [2]int // parsers requested so far without / with fixWhitespace (rotates tableOptions)
	// evidence
	specs      int
	grammars   map[*prepared]bool
	nontrivial map[*prepared]bool
	stop       bool
	batchLimit int // parsers per RunBatch call; adapted to the measured build cost so that a
	// batch in flight never overshoots the soft budget by much (coverage only, never an oracle)
	sampled map[*prepared]bool
	// orderIsKnownFinding: known_findings.json lists orderKey for C02. The statement read literally
	// ("exactly the post-order list of the annotations") is contradicted by reporting nested arrows
	// at reduce time; that is inherent to the design (generated AST builders re-insert by offset),
	// so it is recorded as a known finding rather than repaired. All other comparisons use the
	// reduce order. Until the entry exists the difference is only counted
	// (cases_where_reduce_order_differs_from_flat_postorder), so that the check's exit code on the
	// unchanged tree does not depend on the order in which check and entry are committed.
	orderIsKnownFinding bool
}

const orderKey = "order:nested-arrow-reported-at-reduce-not-in-post-order"

func orderFindingListed() bool {
	data, err := os.ReadFile(filepath.Join(core.Root(), "known_findings.json"))
	if err != nil {
		return false
	}
	var all []core.Finding
	if json.Unmarshal(data, &all) != nil {
		return false
	}
	for _, f := range all {
		if f.Property == "C02" && f.Status == "known" && (f.Key == orderKey || strings.HasPrefix(orderKey, f.Key+":")) {
			return true
		}
	}
	return false
}

type job struct {
	p    *prepared
	fix  bool
	name string
	tm   string
}

func (r *runner) add(p *prepared, fix bool) {
	r.seq++
	name := fmt.Sprintf("g%05d", r.seq)
	k := 0
	if fix {
		k = 1
	}
	extra := p.opts
	if extra == nil {
		extra = tableOptions[r.modeSeq[k]%len(tableOptions)]
		r.modeSeq[k]++
	}
	r.c.Add("parsers_requested_with:"+strings.Join(append([]string{"table-options"}, extra...), " "), 1)
	r.pending = append(r.pending, job{p: p, fix: fix, name: name, tm: p.tm(name, fix, extra...)})
	if len(r.pending) >= r.batchLimit {
		r.flush()
	}
}

func (r *runner) flush() {
	jobs := r.pending
	r.pending = nil
	if len(jobs) == 0 || r.stop {
		return
	}
	c := r.c
	var specs []genharness.Spec
	for _, j := range jobs {
		cases := make([]genharness.Case, len(j.p.cases))
		for k, cs := range j.p.cases {
			cases[k] = genharness.Case{Entry: cs.entry, Text: cs.text, Mode: "parse"}
		}
		specs = append(specs, genharness.Spec{Name: j.name, TM: j.tm, Cases: cases})
	}
	t0 := time.Now()
	outs, err := genharness.RunBatch(specs, genharness.BatchOpts{})
	if err != nil {
		c.Violate("harness:run-batch", err.Error(), nil)
		r.stop = true
		return
	}
	if per := time.Since(t0) / time.Duration(len(jobs)); per > 0 {
		left := time.Until(c.Deadline)
		n := int(left * 7 / 10 / per)
		r.batchLimit = max(12, min(n, 120))
	}
	for k, out := range outs {
		r.check(jobs[k], out)
	}
}

func (r *runner) check(j job, out genharness.Outcome) {
	c := r.c
	p := j.p
	base := replayCase{Kind: p.kind, TM: j.tm, FixWS: j.fix, Grammar: p.g, CFG: p.cfg}
	if out.GenPanic != "" {
		c.Violate("generate:panic", out.GenPanic, base)
		return
	}
	if out.GenErr != "" {
		// the front-end precheck accepted this text: only gen.Generate can have failed
		c.Violate("generate:error-after-successful-compile", out.GenErr, base)
		return
	}
	if out.BuildErr != "" {
		c.Violate("generate:generated-code-does-not-build", out.BuildErr, base)
		return
	}
	r.specs++
	c.Add("parsers_built", 1)
	if j.fix {
		c.Add("parsers_built_fixWhitespace", 1)
	}
	r.grammars[p] = true
	if p.kind == "ext" && p.sentences >= 2 && p.nested >= 1 {
		r.nontrivial[p] = true
	}
	if p.kind == "cfg" {
		c.Add("cfg_fragment_parsers", 1)
	}
	mode := "nofix"
	if j.fix {
		mode = "fixws"
	}
	hasActions := out.Grammar != nil && out.Grammar.Parser != nil && out.Grammar.Parser.HasActions()
	for k, cs := range p.cases {
		res := out.Results[k]
		rc := base
		rc.Text, rc.Entry = cs.text, cs.entry
		c.Eval(1)
		if cs.entry != "" {
			c.Add("cases_through_a_named_input", 1)
		}
		if res.Panic != "" || res.Hang || res.Aborted {
			c.Violate("parser:crash-or-hang:"+mode, fmt.Sprintf("panic=%q hang=%v aborted=%v on %q", res.Panic, res.Hang, res.Aborted, cs.text), rc)
			continue
		}
		if cs.tree == nil {
			if res.Accept {
				c.Violate("language:non-sentence-accepted", fmt.Sprintf("%q is not in the language of the reference but the generated parser accepts it\n%s", cs.text, j.tm), rc)
			} else {
				c.Add("non_sentences_rejected", 1)
			}
			continue
		}
		if !res.Accept {
			c.Violate("language:sentence-rejected", fmt.Sprintf("%q is a sentence (unique derivation in the reference) but the generated parser reports a syntax error at %d\n%s", cs.text, res.ErrOff, j.tm), rc)
			continue
		}
		in := extsem.Tokenize(cs.text)
		var exp []extsem.Event
		if err := core.Guard(func() { exp = extsem.Events(cs.tree, in, j.fix) }); err != nil {
			c.Violate("reference:self-check", err.Error(), rc)
			continue
		}
		if p.kind == "cfg" {
			// the fragment where the answer is obvious: second, independent reference
			var exp2 []extsem.Event
			cfgEvents(cs.cfg, in, j.fix, &exp2)
			if eventsText(exp) != eventsText(exp2) {
				c.Violate("reference:extsem-vs-cfg-enumerator", fmt.Sprintf("the two references disagree on %q: extsem %s, leftmost-derivation enumerator %s\n%s", cs.text, eventsText(exp), eventsText(exp2), j.tm), rc)
				continue
			}
			c.Add("cfg_fragment_cases_two_references_agree", 1)
		}
		got := res.Events
		if sameEvents(exp, got) {
			for _, e := range exp {
				cl := e.Shape
				switch {
				case e.NoSyms:
					cl += ":no-symbols"
				case e.NoTokens:
					cl += ":no-tokens"
				}
				c.Outcome(cl, 1)
				if e.Extends {
					// fixWhitespace off, the part ends in an empty symbol: its end offset is the
					// start of the next token. The statement's "first to last token" does not
					// cover this; the implementation's behaviour is accepted (see extsem).
					c.Add("events_extended_to_next_token_without_fixWhitespace", 1)
				}
			}
			if len(exp) == 0 {
				c.Outcome("no-events", 1)
			}
			c.Add("events_compared", int64(len(exp)))
			if strings.Join(extsem.Types(exp), " ") != strings.Join(extsem.FlatPostOrder(cs.tree), " ") {
				// reduce order differs from the order by nesting/position alone
				c.Add("cases_where_reduce_order_differs_from_flat_postorder", 1)
				if r.orderIsKnownFinding {
					oc := rc
					oc.Check = "flat-post-order"
					oc.Expected = extsem.FlatPostOrder(cs.tree)
					oc.Got = gotStrings(got)
					c.Violate(orderKey, fmt.Sprintf("the listener order is not the post-order of the annotations: input %q: post-order of the derivation's annotations %v, listener got %s (arrows nested in a rule are reported when the rule is reduced, after the events of all its nonterminals, also of those to their right)\n%s", cs.text, oc.Expected, strings.Join(oc.Got, " "), ruleText(p)), oc)
				}
			}
			if !r.sampled[p] && len(exp) >= 3 && p.kind == "ext" && p.nested > 0 && strings.Count(cs.text, " ") >= 2 {
				r.sampled[p] = true
				c.Sample(map[string]any{"grammar": strings.TrimSpace(p.g.RulesText()), "fixWhitespace": j.fix, "input": cs.text, "events": eventsText(exp)})
			}
			continue
		}
		rc.Expected = eventStrings(exp)
		rc.Got = gotStrings(got)
		rules := ruleText(p)
		callsFix := false
		for name, content := range out.Files {
			if strings.HasSuffix(name, "parser.go") && strings.Contains(content, "\tfixTrailingWS(lhs, stack") {
				callsFix = true
			}
		}
		if j.fix && callsFix && strings.Contains(j.tm, "minimizeDFA = true") {
			var alt []extsem.Event
			core.Guard(func() { alt = extsem.Events(cs.tree, in, false) })
			if sameEvents(alt, got) {
				c.Violate("fixWhitespace-ignored:minimizeDFA-reduces-untrimmed-rule-of-same-class",
					fmt.Sprintf("fixWhitespace = true + minimizeDFA = true: the generated applyRule trims some rule, but on input %q the parser reduced a rule that is not trimmed: expected %s, got %s (= the ranges without fixWhitespace)\n%s", cs.text, eventsText(exp), strings.Join(rc.Got, " "), rules), rc)
				continue
			}
		}
		if j.fix && !hasActions && !callsFix {
			var alt []extsem.Event
			core.Guard(func() { alt = extsem.Events(cs.tree, in, false) })
			if sameEvents(alt, got) {
				c.Violate("fixWhitespace-ignored:grammar-without-rule-actions",
					fmt.Sprintf("fixWhitespace = true has no effect on this grammar: the generated applyRule never calls fixTrailingWS (no rule is trimmed; historically: no `switch rule` at all when no rule has an in-rule report or code) although a reported rule ends in an empty symbol. input %q: expected %s, got %s (= the ranges without the option)\n%s", cs.text, eventsText(exp), strings.Join(rc.Got, " "), rules), rc)
				continue
			}
		}
		cl, shape := classify(exp, got)
		c.Violate(fmt.Sprintf("events:%s:%s:%s", cl, shape, mode),
			fmt.Sprintf("input %q (fixWhitespace=%v): expected %s, listener got %s\n%s", cs.text, j.fix, eventsText(exp), strings.Join(rc.Got, " "), rules), rc)
	}
}

func ruleText(p *prepared) string {
	if p.kind == "cfg" {
		return p.cfg.String() + " (rule i -> R<i>)"
	}
	return strings.TrimSpace(p.g.RulesText())
}

func sameEvents(exp []extsem.Event, got []genharness.Event) bool {
	if len(exp) != len(got) {
		return false
	}
	for i := range exp {
		if exp[i].Type != got[i].Type || exp[i].Off != got[i].Off || exp[i].End != got[i].End {
			return false
		}
	}
	return true
}

func eventStrings(ev []extsem.Event) []string {
	out := make([]string, len(ev))
	for i, e := range ev {
		out[i] = e.String()
	}
	return out
}

func eventsText(ev []extsem.Event) string { return "[" + strings.Join(eventStrings(ev), " ") + "]" }

func gotStrings(ev []genharness.Event) []string {
	out := make([]string, len(ev))
	for i, e := range ev {
		out[i] = fmt.Sprintf("%s[%d,%d)", e.Type, e.Off, e.End)
	}
	return out
}

// classify names the first difference: missing-event / extra-event / order / type / start / end,
// and the shape of the expected event at that position.
func classify(exp []extsem.Event, got []genharness.Event) (class, shape string) {
	k := 0
	for k < len(exp) && k < len(got) && exp[k].Type == got[k].Type && exp[k].Off == got[k].Off && exp[k].End == got[k].End {
		k++
	}
	shape = "-"
	if k < len(exp) {
		shape = exp[k].Shape
		switch {
		case exp[k].NoSyms:
			shape += ":no-symbols"
		case exp[k].NoTokens:
			shape += ":no-tokens"
		}
	}
	switch {
	case len(got) < len(exp):
		return "missing-event", shape
	case len(got) > len(exp):
		return "extra-event", shape
	case exp[k].Type != got[k].Type:
		var a, b []string
		for _, e := range exp {
			a = append(a, e.Type)
		}
		for _, e := range got {
			b = append(b, e.Type)
		}
		sort.Strings(a)
		sort.Strings(b)
		if strings.Join(a, " ") == strings.Join(b, " ") {
			return "order", shape
		}
		return "type", shape
	case exp[k].Off != got[k].Off:
		return "start", shape
	}
	return "end", shape
}

// ---------------------------------------------------------------------------------------------

func run(c *core.Ctx) {
	c.Rule("Layer B (real compiler + generated Go parser). Enumerated: (1) plain CFGs (gramenum, <=2 nonterminals, 2 terminals, <=3 rules, RHS<=2, every rule `-> R<i>`), stride over the unambiguous ones; (2) annotated extended-notation grammar shapes by weight (S, optional Y; <=3 parts per sequence, groups <=2 deep, <=2 alternatives; arrows on rules, nonterminals, nested groups, optionals, choices, list elements, empty parts), terminal labelings a,b,c in canonical order, visited simplest-first round-robin over arrow-shape classes. In scope: compiles without conflicts and every word of length <=4 has at most one derivation in the reference. Inputs: every sentence of length <=4 x every pattern of single blanks around the tokens, fixWhitespace off/on; non-sentences of length <=3 for the verdict. evaluations = (generated parser, input) pairs compared; nontrivial = distinct annotated grammars with >=2 sentences and >=1 arrow that is not rule-level.")
	c.Assume("internal/extsem/events.go is the reference: symbols = terminal occurrences, nonterminal instances, list instances; absent optionals contribute no symbol; events in post-order of rule applications (reduce order), arrows of one rule in post-order")
	c.Assume("without fixWhitespace a part that ends in an empty symbol extends to the start of the next token (implementation's behaviour accepted, counted in events_extended_to_next_token_without_fixWhitespace)")
	c.Assume("genharness.StdDriver reports listener calls faithfully (NodeType.String(), offset, endoffset)")

	if os.Getenv("VERIF_C02_DEBUG") == "picks" {
		runExt(c, &runner{c: c}, 260, 6, func() bool { return false })
		return
	}
	if os.Getenv("VERIF_C02_DEBUG") == "shapes" {
		debugShapes()
		return
	}

	r := &runner{c: c, grammars: map[*prepared]bool{}, nontrivial: map[*prepared]bool{}, sampled: map[*prepared]bool{}, batchLimit: 24, orderIsKnownFinding: orderFindingListed()}
	cfgTarget, extTarget, W := 50, 260, 6
	if !c.Quick() {
		cfgTarget, extTarget = 300, 2700
	}
	// development knobs (not used by ./run)
	if v, err := strconv.Atoi(os.Getenv("VERIF_C02_CFG")); err == nil {
		cfgTarget = v
	}
	if v, err := strconv.Atoi(os.Getenv("VERIF_C02_EXT")); err == nil {
		extTarget = v
	}
	// the plain-CFG fragment is interleaved (1 grammar after every 4 annotated ones) so that a
	// budget cut leaves both enumerations covered proportionally
	feed, finished := cfgFeeder(c, r, cfgTarget)
	runExt(c, r, extTarget, W, feed)
	for !c.Expired() && !r.stop && feed() {
	}
	r.flush()
	if !finished() {
		c.Capped("plain-CFG fragment: stopped early (budget)")
	}
	c.Capped(fmt.Sprintf("plain-CFG fragment: a stride of <= %d parsers over the unambiguous candidate grammars", cfgTarget))
	c.Set("distinct_grammars_run", len(r.grammars))
	c.Nontrivial(int64(len(r.nontrivial)))
}

// cfgFeeder prepares the plain-CFG fragment and returns a function that queues the next
// grammar of a stride over the candidates (false when the target is reached / nothing is left).
func cfgFeeder(c *core.Ctx, r *runner, target int) (feed func() bool, finished func() bool) {
	var all []*prepared
	rejected := map[string]int{}
	for _, sc := range []gramenum.Scope{{N: 1, T: 2, R: 3, K: 2, Reduced: true}, {N: 2, T: 2, R: 3, K: 2, Reduced: true}} {
		gramenum.Enumerate(sc, func(idx int, g0 *gramenum.Gram) bool {
			g := g0.Clone()
			ext := cfgToExt(g)
			p := &prepared{kind: "cfg", g: ext, cfg: g}
			reject := ""
			gramenum.AllStrings(g.T, L, func(w string) {
				if reject != "" {
					return
				}
				trees, giveUp := ext.Trees(w)
				trees2, giveUp2 := cfgTrees(g, g.T+1, w)
				if giveUp || giveUp2 {
					reject = "cyclic"
					return
				}
				if len(trees) != len(trees2) && (len(trees) < 2 || len(trees2) < 2) {
					c.Violate("reference:derivation-count", fmt.Sprintf("%s on %q: extsem finds %d derivations, the leftmost-derivation enumerator %d", g, w, len(trees), len(trees2)), nil)
					reject = "reference-disagreement"
					return
				}
				switch {
				case len(trees) > 1:
					reject = "ambiguous"
				case len(trees) == 1:
					p.sentences++
					for _, text := range spacings(w) {
						p.cases = append(p.cases, pcase{text: text, tree: trees[0], cfg: trees2[0]})
					}
				case len(w) <= LReject:
					p.cases = append(p.cases, pcase{text: w})
				}
			})
			if reject == "" && p.sentences < 2 {
				reject = "fewer-than-2-sentences"
			}
			if reject != "" {
				rejected[reject]++
				return true
			}
			p.decideModes()
			all = append(all, p)
			return true
		})
	}
	c.Set("cfg_fragment_candidates", len(all))
	c.Set("cfg_fragment_out_of_scope", rejected)
	// stride over the candidates (all sizes stay represented); conflict check by the real front end
	n := len(all)
	want := min(target, n)
	picked, i := 0, 0
	seen := map[int]bool{}
	finished = func() bool { return want == 0 || i >= 3*want || picked >= target }
	feed = func() bool {
		for ; want > 0 && i < 3*want && picked < target; i++ {
			idx := (i * n) / (3 * want)
			if seen[idx] {
				continue
			}
			seen[idx] = true
			p := all[idx]
			if msg := compiles(p.tm("precheck", false)); msg != "" {
				c.Add("cfg_fragment_rejected_by_compiler:"+rejectClass(msg), 1)
				continue
			}
			modes := p.modes
			if modes == nil {
				modes = []bool{picked%2 == 1}
			}
			for _, fix := range modes {
				r.add(p, fix)
				picked++
			}
			i++
			c.Set("cfg_fragment_parsers_requested", picked)
			return true
		}
		return false
	}
	return feed, finished
}

// runExt: the annotated shapes.
func runExt(c *core.Ctx, r *runner, target, W int, feedCFG func() bool) {
	shs := shapes(W)
	c.Set("shapes_enumerated", len(shs))
	c.Set("shapes_dropped_list_with_nullable_element", droppedNullableList)
	c.Set("shape_weight_bound", W)
	// classes in order of first appearance
	var classes []string
	byClass := map[string][]int{}
	for i, sh := range shs {
		for _, f := range sh.feats {
			if _, ok := byClass[f]; !ok {
				classes = append(classes, f)
			}
			byClass[f] = append(byClass[f], i)
		}
	}
	// classes where range arithmetic is most delicate go first, so that a run that is cut short by
	// the budget on a busy machine has seen them
	first := []string{"fixWhitespace-matters:rule-level", famSameNames, famMarkers, famInputs, famSameClass, "family:same-element-extracted-twice", "inner-part-ends-in-empty-symbol", "trailing-empty-symbol:annotated", "leading-empty-symbol", "order:nested-arrow-left-of-annotated-Y", "arrow:nested/d2", "arrow:list+", "arrow:empty-nested", "arrow:nested/nullable"}
	var ordered []string
	for _, f := range first {
		if _, ok := byClass[f]; ok {
			ordered = append(ordered, f)
		}
	}
	for _, f := range classes {
		if !slices.Contains(first, f) {
			ordered = append(ordered, f)
		}
	}
	// the explicit family is visited three times per cycle (its members are all distinct lists)
	for _, fam := range []string{famTwice, famSameNames, famMarkers, famInputs} {
		if _, ok := byClass[fam]; ok {
			n := len(ordered)
			ordered = slices.Insert(ordered, 2*n/3, fam)
			ordered = slices.Insert(ordered, n/3, fam)
		}
	}
	classes = ordered
	c.Set("shape_classes", classes)
	outOfScope := map[string]int{}
	rejectedByCompiler := map[string]int{}
	picked, visits := 0, 0
	labelsTried := 0
	// next returns the next in-scope grammar of a shape (nil when its labelings are exhausted)
	next := func(sh *shape) *prepared {
		labs := labelings(sh.slots)
		if sh.fixed != nil {
			labs = sh.fixed
		}
		for !sh.done {
			if sh.nextLabel >= len(labs) {
				sh.done = true
				break
			}
			lab := labs[sh.nextLabel]
			sh.nextLabel++
			labelsTried++
			g := instantiate(sh, lab)
			p, why := prepareExt(g)
			if p == nil {
				outOfScope[why]++
				continue
			}
			if msg := compiles(p.tm("precheck", false)); msg != "" {
				rejectedByCompiler[rejectClass(msg)]++
				continue
			}
			p.nested, p.feats, p.weight, p.opts = sh.nested, featureString(sh), sh.weight, sh.opts
			if sh.opts != nil {
				p.modes = []bool{true, false} // the family is about fixWhitespace under forced table options
			}
			return p
		}
		return nil
	}
	exhausted := false
	for pass := 0; picked < target && !exhausted && !r.stop; pass++ {
		visited := map[int]bool{}
		cursor := map[string]int{}
		exhausted = true
		for progress := true; progress && picked < target && !r.stop; {
			progress = false
			for _, cl := range classes {
				if picked >= target || r.stop {
					break
				}
				if c.Expired() {
					c.Capped(fmt.Sprintf("annotated shapes: stopped after %d parsers (budget)", picked))
					goto done
				}
				list := byClass[cl]
				var p *prepared
				for cursor[cl] < len(list) && p == nil {
					si := list[cursor[cl]]
					cursor[cl]++
					if visited[si] || shs[si].done {
						continue
					}
					visited[si] = true
					p = next(shs[si])
				}
				if p == nil {
					continue
				}
				progress = true
				exhausted = false
				modes := p.modes
				if modes == nil {
					modes = []bool{picked%2 == 1}
				}
				if os.Getenv("VERIF_C02_DEBUG") == "picks" {
					fmt.Printf("%3d w=%d modes=%v sent=%d class=%s :: %s\n", picked, p.weight, modes, p.sentences, cl, strings.Join(strings.Fields(p.g.RulesText()), " "))
					picked += len(modes)
					continue
				}
				for _, fix := range modes {
					r.add(p, fix)
					picked++
				}
				if visits++; visits%4 == 0 {
					feedCFG()
				}
			}
		}
	}
done:
	c.Set("annotated_parsers_requested", picked)
	c.Set("labelings_tried", labelsTried)
	c.Set("annotated_out_of_scope_by_reference", outOfScope)
	c.Set("annotated_rejected_by_compiler", rejectedByCompiler)
	if !exhausted {
		total := 0
		for _, sh := range shs {
			total += len(labelings(sh.slots))
		}
		c.Capped(fmt.Sprintf("annotated shapes: %d parsers generated; the enumeration has %d shapes / %d labelled grammars up to weight %d, visited simplest-first round-robin over %d shape classes", picked, len(shs), total, W, len(classes)))
	}
}

func debugShapes() {
	for W := 2; W <= 7; W++ {
		shs := shapes(W)
		byW := map[int]int{}
		feats := map[string]int{}
		labs := 0
		for _, sh := range shs {
			byW[sh.weight]++
			labs += len(labelings(sh.slots))
			for _, f := range sh.feats {
				feats[f]++
			}
		}
		fmt.Println("W", W, "shapes", len(shs), "labelled", labs, byW)
		if W == 6 {
			var fs []string
			for f, n := range feats {
				fs = append(fs, fmt.Sprintf("%s=%d", f, n))
			}
			sort.Strings(fs)
			fmt.Println(strings.Join(fs, "\n"))
			for i, sh := range shs {
				if i < 60 || i%997 == 0 {
					fmt.Printf("--- #%d w=%d %s\n%s", i, sh.weight, featureString(sh), sh.g.RulesText())
				}
			}
		}
	}
}

// ---------------------------------------------------------------------------------------------

func replay(c *core.Ctx, raw json.RawMessage) error {
	var rc replayCase
	if err := json.Unmarshal(raw, &rc); err != nil {
		return err
	}
	if rc.TM == "" {
		return fmt.Errorf("no grammar recorded")
	}
	word := extsem.Tokenize(rc.Text).Word()
	var g *extsem.Grammar
	if rc.Kind == "cfg" {
		g = cfgToExt(rc.CFG)
	} else {
		g = rc.Grammar
	}
	root := 0
	for i, nt := range g.NTs {
		if rc.Entry != "" && nt.Name == rc.Entry {
			root = i
		}
	}
	trees, giveUp := g.TreesFrom(root, word)
	if giveUp || len(trees) > 1 {
		return fmt.Errorf("recorded grammar is not in scope (ambiguous)")
	}
	// the recorded text names its package; keep it
	name := "g00001"
	if i := strings.Index(rc.TM, "language "); i >= 0 {
		rest := rc.TM[i+len("language "):]
		if j := strings.Index(rest, "("); j > 0 {
			name = rest[:j]
		}
	}
	outs, err := genharness.RunBatch([]genharness.Spec{{Name: name, TM: rc.TM, Cases: []genharness.Case{{Entry: rc.Entry, Text: rc.Text, Mode: "parse"}}}}, genharness.BatchOpts{})
	if err != nil {
		return err
	}
	out := outs[0]
	if out.GenPanic != "" || out.GenErr != "" || out.BuildErr != "" {
		return fmt.Errorf("generation failed: %s %s %s", out.GenPanic, out.GenErr, out.BuildErr)
	}
	res := out.Results[0]
	if res.Panic != "" || res.Hang || res.Aborted {
		return fmt.Errorf("parser crashed or hung: %s", res.Panic)
	}
	if len(trees) == 0 {
		if res.Accept {
			return fmt.Errorf("%q is not a sentence but is accepted", rc.Text)
		}
		return nil
	}
	if !res.Accept {
		return fmt.Errorf("sentence %q rejected at %d", rc.Text, res.ErrOff)
	}
	exp := extsem.Events(trees[0], extsem.Tokenize(rc.Text), rc.FixWS)
	if rc.Check == "flat-post-order" {
		var got []string
		for _, e := range res.Events {
			got = append(got, e.Type)
		}
		if flat := extsem.FlatPostOrder(trees[0]); strings.Join(flat, " ") != strings.Join(got, " ") {
			return fmt.Errorf("input %q: post-order of the annotations %v, listener order %v", rc.Text, flat, got)
		}
		return nil
	}
	if !sameEvents(exp, res.Events) {
		return fmt.Errorf("input %q fixWhitespace=%v: expected %s, listener got %s", rc.Text, rc.FixWS, eventsText(exp), strings.Join(gotStrings(res.Events), " "))
	}
	return nil
}
