package main

import (
	"fmt"

	"verif/internal/extsem"
	"verif/internal/gramenum"
)

// The plain-CFG fragment: grammars from internal/gramenum printed with `-> R<i>` on every rule.
// Here the answer is obvious (one event per rule application, post-order of the derivation
// tree), so it is computed by a second, deliberately different and tiny procedure — a search
// over leftmost derivations — and compared both with the generated parser and with the
// extsem evaluator (which works on spans). A disagreement between the two references is
// reported as a harness error, never silently resolved.

type cfgNode struct {
	rule int // -1 for tokens
	i, j int // token span
	kids []*cfgNode
}

// cfgTrees enumerates the derivation trees of w from nonterminal start by exploring leftmost
// derivations. giveUp: a size bound was hit (grammars with X =>+ X), result meaningless.
func cfgTrees(g *gramenum.Gram, start int, w string) (trees []*cfgNode, giveUp bool) {
	maxForm := 2*len(w) + 6
	const maxSteps = 48
	var found [][]int
	var rec func(form []int, pos int, rules []int)
	rec = func(form []int, pos int, rules []int) {
		if giveUp || len(found) > 4 {
			return
		}
		for len(form) > 0 && form[0] <= g.T {
			if pos < len(w) && w[pos] == gramenum.TermChar(form[0]) {
				pos++
				form = form[1:]
			} else {
				return
			}
		}
		if len(form) == 0 {
			if pos == len(w) {
				found = append(found, append([]int{}, rules...))
			}
			return
		}
		terms := 0
		for _, s := range form {
			if s <= g.T {
				terms++
			}
		}
		if terms > len(w)-pos {
			return
		}
		if len(form) > maxForm || len(rules) > maxSteps {
			giveUp = true
			return
		}
		for ri, r := range g.Rules {
			if r.LHS != form[0] {
				continue
			}
			next := append(append([]int{}, r.RHS...), form[1:]...)
			rec(next, pos, append(rules, ri))
		}
	}
	rec([]int{start}, 0, nil)
	if giveUp {
		return nil, true
	}
	for _, pre := range found {
		k, pos := 0, 0
		var build func(sym int) *cfgNode
		build = func(sym int) *cfgNode {
			if sym <= g.T {
				n := &cfgNode{rule: -1, i: pos, j: pos + 1}
				pos++
				return n
			}
			ri := pre[k]
			k++
			n := &cfgNode{rule: ri, i: pos}
			for _, s := range g.Rules[ri].RHS {
				n.kids = append(n.kids, build(s))
			}
			n.j = pos
			return n
		}
		trees = append(trees, build(start))
	}
	return trees, false
}

// cfgEvents: one event R<rule> per rule application in post-order, ranges by the rule of the
// property statement (token: its bytes; nothing: at the next token; otherwise first symbol's
// start to last symbol's end, trailing empty symbols dropped under fixWhitespace).
func cfgEvents(n *cfgNode, in extsem.Input, fix bool, out *[]extsem.Event) (off, end int) {
	if n.rule < 0 {
		return in.Toks[n.i].Off, in.Toks[n.i].End
	}
	off, end = in.At(n.i), in.At(n.i)
	set := false
	for k, kid := range n.kids {
		o, e := cfgEvents(kid, in, fix, out)
		if k == 0 {
			off = o
		}
		if fix && o == e {
			continue // an empty symbol does not move the end
		}
		end = e
		set = true
	}
	if !set {
		end = off
	}
	*out = append(*out, extsem.Event{Type: fmt.Sprintf("R%d", n.rule), Off: off, End: end, Shape: "rule", NoSyms: len(n.kids) == 0, NoTokens: n.i == n.j})
	return off, end
}

// cfgToExt converts a plain grammar to the extended representation (rule i -> R<i>).
func cfgToExt(g *gramenum.Gram) *extsem.Grammar {
	out := &extsem.Grammar{}
	for nt := g.T + 1; nt <= g.T+g.N; nt++ {
		out.NTs = append(out.NTs, &extsem.Nonterm{Name: g.SymName(nt)})
	}
	for i, r := range g.Rules {
		a := &extsem.Alt{Arrow: &extsem.Arrow{Name: fmt.Sprintf("R%d", i), Shape: "rule"}}
		for _, s := range r.RHS {
			if s <= g.T {
				a.Parts = append(a.Parts, &extsem.Expr{Kind: extsem.KTok, Ch: gramenum.TermChar(s)})
			} else {
				a.Parts = append(a.Parts, &extsem.Expr{Kind: extsem.KRef, NT: s - g.T - 1})
			}
		}
		nt := out.NTs[r.LHS-g.T-1]
		nt.Alts = append(nt.Alts, a)
	}
	return out
}
