package main

import (
	"fmt"
	"os"
	"strings"

	"verif/internal/genharness"
)

const hdr = `language %s(go);

package = "scratch/%s"
eventBased = true
%s

:: lexer

WhiteSpace: /[ ]+/ (space)
ta: /a/
tb: /b/
tc: /c/

:: parser

%%input S;

`

func main() {
	// args: file with blocks separated by lines "====" ; each block: first line = options ; then inputs line (| separated) ; rest grammar
	data, _ := os.ReadFile(os.Args[1])
	blocks := strings.Split(string(data), "\n====\n")
	var specs []genharness.Spec
	for i, b := range blocks {
		lines := strings.SplitN(strings.TrimLeft(b, "\n"), "\n", 3)
		name := fmt.Sprintf("g%04d", i)
		tm := fmt.Sprintf(hdr, name, name, lines[0]) + lines[2]
		var cases []genharness.Case
		for _, in := range strings.Split(lines[1], "|") {
			cases = append(cases, genharness.Case{Text: in, Mode: "parse"})
		}
		specs = append(specs, genharness.Spec{Name: name, TM: tm, Cases: cases})
	}
	outs, err := genharness.RunBatch(specs, genharness.BatchOpts{KeepDir: os.Getenv("KEEP") != ""})
	if err != nil {
		fmt.Println("ERR", err)
	}
	for i, o := range outs {
		fmt.Printf("---- %s\n%s\n", o.Name, strings.TrimSpace(strings.SplitN(blocks[i], "\n", 3)[2]))
		if o.GenErr != "" || o.GenPanic != "" || o.BuildErr != "" {
			fmt.Println("  GENERR", o.GenErr, o.GenPanic, o.BuildErr)
			continue
		}
		for j, r := range o.Results {
			fmt.Printf("  %q accept=%v err=%d ev=", specs[i].Cases[j].Text, r.Accept, r.ErrOff)
			for _, e := range r.Events {
				fmt.Printf(" %s[%d,%d)", e.Type, e.Off, e.End)
			}
			if r.Panic != "" {
				fmt.Printf(" PANIC %s", r.Panic)
			}
			fmt.Println()
		}
	}
}
