// C09: lexer tables implement longest match with rule priority.
//
// Bounded exhaustive enumeration of rule sets (<= 3 rules, pattern ASTs of <= 4 nodes, priorities,
// start conditions, fold / byte modes) x every input over {a, b, c, A, é, \xff} up to a length bound
// x every start condition. lex.Compile + Tables.Scan are compared with a reference built on the
// Brzozowski-derivative matcher of internal/rxref (no code shared with /repo/lex).
//
// Reference semantics (from the property statement):
//   - candidates = rules active in the start condition;
//   - result = the longest non-empty prefix matched by a candidate together with the candidate of
//     the highest priority among those matching that prefix (a tie at the top priority means Compile
//     had to reject the rule set: "two rules are identical");
//   - otherwise action 0 ("invalid token") and size = the longest prefix that is still a prefix of
//     a word of some candidate.
//
// Points the statement does not pin down, where the reference sides with the implementation:
//   - rune mode: a byte that does not start a valid UTF-8 sequence is the symbol U+FFFD, 1 byte wide;
//   - {eoi} is a pseudo symbol that follows the text (as often as needed); it has no width, a match
//     that consumed more pseudo symbols is "longer"; "can still be extended" is meant over the
//     alphabet extended with that pseudo symbol (so `a{eoi}b` keeps the prefix "a" alive);
//   - byte mode: a literal above 0x7f (é, \xe9) stands for its UTF-8 bytes, class members are byte
//     values, case folding only concerns ASCII letters;
//   - "two rules are identical" is required when two candidates of the top priority accept the same
//     realizable input, allowed whenever two candidates of equal priority accept the same word
//     (Compile reports a tie before it has seen a later higher-priority rule), forbidden otherwise;
//   - if a rule accepts the empty text no statement is made about further "identical" errors.
package main

import (
	"encoding/json"
	"fmt"
	"sort"
	"strings"
	"sync"
	"time"

	"github.com/inspirer/textmapper/lex"
	"github.com/inspirer/textmapper/status"

	"verif/internal/core"
	"verif/internal/rxref"
)

func main() { core.Main("C09", "exploration", run, replay, nil) }

// ---------------------------------------------------------------------------------------------
// case description

type ruleSpec struct {
	Pattern string      `json:"pattern"` // printed form of AST (what lex.ParseRegexp gets)
	AST     *rxref.Node `json:"ast"`
	Prio    int         `json:"prio"`
	SC      []int       `json:"sc"`
}

type ruleSet struct {
	Bytes bool       `json:"bytes"`
	Fold  bool       `json:"fold"`
	Rules []ruleSpec `json:"rules"` // action of rule i is i+1
}

type rcase struct {
	ruleSet
	Named map[string]string `json:"named"`
	Input []int             `json:"input,omitempty"` // bytes of the input text
	Text  string            `json:"text,omitempty"`  // the same, quoted (informational)
	Cond  int               `json:"cond"`
	Stage string            `json:"stage"` // compile | scan
}

func (rs *ruleSet) describe() string {
	var sb strings.Builder
	fmt.Fprintf(&sb, "{bytes=%v fold=%v", rs.Bytes, rs.Fold)
	for i, r := range rs.Rules {
		fmt.Fprintf(&sb, " /%s/->%d prio=%d sc=%v", r.Pattern, i+1, r.Prio, r.SC)
	}
	sb.WriteString("}")
	return sb.String()
}

type origin struct{ i int }

func (o origin) SourceRange() status.SourceRange {
	return status.SourceRange{Filename: "rules", Line: o.i + 1, Column: 1}
}

type resolver map[string]*lex.Pattern

func (r resolver) Resolve(name string) *lex.Pattern { return r[name] }

// ---------------------------------------------------------------------------------------------
// per-worker state

type mode struct {
	opts     rxref.Opts
	m        *rxref.Matcher
	res      resolver
	reCache  map[*rxref.Node]*lex.Regexp
	txtCache map[*rxref.Node]string
	bounds   map[*rxref.Node][]int32
}

type worker struct {
	modes [4]*mode
	named map[string]*rxref.Node
	stats stats
}

func modeIndex(bytes, fold bool) int {
	i := 0
	if bytes {
		i |= 2
	}
	if fold {
		i |= 1
	}
	return i
}

func newWorker() *worker {
	w := &worker{named: rxref.NamedPatterns()}
	w.stats.outcomes = map[string]int64{}
	return w
}

func (w *worker) mode(bytes, fold bool) (*mode, error) {
	i := modeIndex(bytes, fold)
	if w.modes[i] != nil {
		return w.modes[i], nil
	}
	md := &mode{opts: rxref.Opts{Fold: fold, Bytes: bytes}, res: resolver{},
		reCache: map[*rxref.Node]*lex.Regexp{}, txtCache: map[*rxref.Node]string{}, bounds: map[*rxref.Node][]int32{}}
	md.m = rxref.NewMatcher(md.opts, w.named)
	for _, name := range rxref.NamedOrder {
		text := w.named[name].String()
		re, err := lex.ParseRegexp(text, lex.CharsetOptions{Fold: fold, ScanBytes: bytes})
		if err != nil {
			return nil, fmt.Errorf("named pattern %s = /%s/: %v", name, text, err)
		}
		md.res[name] = &lex.Pattern{Name: name, RE: re, Text: text, Origin: origin{100}}
	}
	w.modes[i] = md
	return md, nil
}

func (md *mode) text(n *rxref.Node) string {
	if t, ok := md.txtCache[n]; ok {
		return t
	}
	t := n.String()
	md.txtCache[n] = t
	return t
}

func (md *mode) parse(n *rxref.Node) (*lex.Regexp, error) {
	if re, ok := md.reCache[n]; ok {
		return re, nil
	}
	re, err := lex.ParseRegexp(md.text(n), lex.CharsetOptions{Fold: md.opts.Fold, ScanBytes: md.opts.Bytes})
	if err != nil {
		return nil, err
	}
	md.reCache[n] = re
	return re, nil
}

// boundaries returns the start points of the symbol intervals on which the leaves of n are
// constant (one representative per interval is enough to explore the reference automaton).
func (md *mode) boundaries(n *rxref.Node) []int32 {
	if b, ok := md.bounds[n]; ok {
		return b
	}
	sets, _ := md.m.LeafSets(n)
	var out []int32
	max := md.opts.MaxSym()
	for _, s := range sets {
		for i := 0; i < len(s); i += 2 {
			if s[i] < 0 {
				continue // EOI is handled separately
			}
			out = append(out, s[i])
			if s[i+1] < max {
				out = append(out, s[i+1]+1)
			}
		}
	}
	md.bounds[n] = out
	return out
}

type stats struct {
	evals       int64
	rulesets    int64
	compiled    int64
	nontrivial  int64
	unspecified int64
	classes     [2 * numClasses]int64 // scan outcome classes (x2: an end-of-input symbol was consumed)
	outcomes    map[string]int64      // compile-level outcome classes
}

func safeScan(t *lex.Tables, cond int, text string) (size, action int, err error) {
	defer func() {
		if r := recover(); r != nil {
			err = core.Guard(func() { panic(r) })
		}
	}()
	size, action = t.Scan(cond, text)
	return
}

func (s *stats) addTo(c *core.Ctx) {
	c.Eval(s.evals)
	c.Nontrivial(s.nontrivial)
	c.Add("rule_sets", s.rulesets)
	c.Add("rule_sets_compiled", s.compiled)
	for k, v := range s.outcomes {
		c.Outcome(k, v)
	}
	for i, v := range s.classes {
		if v > 0 {
			name := "scan:" + className[i/2]
			if i%2 == 1 {
				name += "+eoi"
			}
			c.Outcome(name, v)
		}
	}
	if s.unspecified > 0 {
		c.Outcome("scan:eoi-cycle-unspecified", s.unspecified)
	}
	*s = stats{outcomes: map[string]int64{}}
}

// ---------------------------------------------------------------------------------------------
// inputs

type input struct {
	text string
	syms [2][]rxref.Sym // [0] rune mode, [1] byte mode
}

var alphabet = []string{"a", "b", "c", "A", "é", "\xff"}

func allInputs(maxLen int) []input {
	var out []input
	for _, s := range rxref.Words(alphabet, maxLen) {
		out = append(out, input{text: s, syms: [2][]rxref.Sym{rxref.Decode(s, false), rxref.Decode(s, true)}})
	}
	return out
}

// ---------------------------------------------------------------------------------------------
// reference

type tup [3]rxref.State

// eoiDepth bounds how many end-of-input pseudo symbols the reference feeds after the text. A
// pattern of <= 4 nodes (plus named patterns without {eoi}) that is still alive after that many
// can only be cycling ({eoi}* / {eoi}+), in which case "the longest match" does not exist.
const eoiDepth = 6

const (
	clMatch = iota
	clBacktrack
	clInvalid
	clInvalidEmpty
	numClasses
)

var className = [numClasses]string{"match", "backtrack", "invalid", "invalid-empty"}

type expect struct {
	size, action int
	class        int  // clMatch: the longest live prefix is the match; clBacktrack: a longer attempt failed; clInvalid; clInvalidEmpty: size 0
	eoiLive      bool // some candidate consumed an end-of-input symbol after the text
	unspecified  bool // end-of-input cycle, no expectation
	tie          bool // two candidates of the top priority match the winning prefix
}

type refRules struct {
	m      *rxref.Matcher
	start  []rxref.State
	prio   []int
	active [][]bool // [cond][rule]
}

func (r *refRules) initial(cond int) tup {
	var t tup
	for i, s := range r.start {
		if r.active[cond][i] {
			t[i] = s
		}
	}
	return t
}

func (r *refRules) step(t tup, sym int32) tup {
	var n tup
	for i := range r.start {
		n[i] = r.m.Derive(t[i], sym)
	}
	return n
}

func (r *refRules) dead(t tup) bool {
	for i := range r.start {
		if !r.m.Dead(t[i]) {
			return false
		}
	}
	return true
}

// winner returns the action of the accepting rule with the highest priority (0 if none) and
// whether that priority is shared by two accepting rules; anyTie reports two accepting rules of
// equal priority at any level.
func (r *refRules) winner(t tup) (action int, tie, anyTie bool) {
	best := -1
	for i := range r.start {
		if !r.m.Nullable(t[i]) {
			continue
		}
		for j := 0; j < i; j++ {
			if r.m.Nullable(t[j]) && r.prio[j] == r.prio[i] {
				anyTie = true
			}
		}
		switch {
		case best == -1 || r.prio[i] > r.prio[best]:
			best, tie = i, false
		case r.prio[i] == r.prio[best]:
			tie = true
		}
	}
	return best + 1, tie, anyTie
}

func (r *refRules) scan(cond int, syms []rxref.Sym, textLen int) expect {
	cur := r.initial(cond)
	var e expect
	have := false
	pos := 0
	finish := func(alive int) expect {
		if have {
			if e.size < alive {
				e.class = clBacktrack
			} else {
				e.class = clMatch
			}
			return e
		}
		e.size, e.action, e.tie = alive, 0, false
		e.class = clInvalid
		if alive == 0 {
			e.class = clInvalidEmpty
		}
		return e
	}
	for _, s := range syms {
		cur = r.step(cur, s.Val)
		if r.dead(cur) {
			return finish(pos) // pos = the longest prefix that could still be extended
		}
		pos += s.Width
		if a, tie, _ := r.winner(cur); a != 0 {
			e.size, e.action, e.tie, have = pos, a, tie, true
		}
	}
	// end of input: end-of-input pseudo symbols follow
	for k := 0; ; k++ {
		cur = r.step(cur, rxref.EOISym)
		if r.dead(cur) {
			break
		}
		e.eoiLive = true
		if k == eoiDepth {
			e.unspecified = true
			return e
		}
		if a, tie, _ := r.winner(cur); a != 0 {
			e.size, e.action, e.tie, have = textLen, a, tie, true
		}
	}
	return finish(textLen)
}

// tieAnalysis explores the reference automaton of the rule set. must: two candidates of the top
// priority accept the same realizable input (text followed by end-of-input symbols only); may:
// two candidates of equal priority accept the same word over symbols and end-of-input symbols.
func (r *refRules) tieAnalysis(reps []int32) (must, may bool) {
	type rstate struct {
		t     tup
		atEnd bool
	}
	seenF := map[tup]bool{}
	seenR := map[rstate]bool{}
	var queueF []tup
	var queueR []rstate
	for cond := range r.active {
		t := r.initial(cond)
		if !seenF[t] {
			seenF[t] = true
			queueF = append(queueF, t)
		}
		if rs := (rstate{t, false}); !seenR[rs] {
			seenR[rs] = true
			queueR = append(queueR, rs)
		}
	}
	all := append([]int32{rxref.EOISym}, reps...)
	for len(queueF) > 0 {
		t := queueF[0]
		queueF = queueF[1:]
		if _, _, anyTie := r.winner(t); anyTie {
			may = true
		}
		for _, sym := range all {
			n := r.step(t, sym)
			if !r.dead(n) && !seenF[n] {
				seenF[n] = true
				queueF = append(queueF, n)
			}
		}
	}
	for len(queueR) > 0 {
		s := queueR[0]
		queueR = queueR[1:]
		if _, tie, _ := r.winner(s.t); tie {
			must = true
		}
		for _, sym := range all {
			if s.atEnd && sym != rxref.EOISym {
				continue
			}
			n := rstate{r.step(s.t, sym), sym == rxref.EOISym}
			if !r.dead(n.t) && !seenR[n] {
				seenR[n] = true
				queueR = append(queueR, n)
			}
		}
	}
	return must, may
}

// ---------------------------------------------------------------------------------------------
// the check for one rule set

type finding struct {
	key, what string
	c         rcase
}

type checker struct {
	inputs []input
	report func(f finding)
}

func namedTexts(named map[string]*rxref.Node) map[string]string {
	out := map[string]string{}
	for k, v := range named {
		out[k] = v.String()
	}
	return out
}

func bytesOf(s string) []int {
	out := make([]int, len(s))
	for i := 0; i < len(s); i++ {
		out[i] = int(s[i])
	}
	return out
}

// checkRuleSet runs the whole comparison for one rule set. onlyInput/onlyCond (>= 0 / non-nil)
// restrict the scan phase (used by replay).
func (ck *checker) checkRuleSet(w *worker, rs *ruleSet, onlyInput *string, onlyCond int) {
	st := &w.stats
	st.rulesets++
	fail := func(key, what, stage string, text *string, cond int) {
		c := rcase{ruleSet: *rs, Named: namedTexts(w.named), Cond: cond, Stage: stage}
		if text != nil {
			c.Input = bytesOf(*text)
			c.Text = fmt.Sprintf("%q", *text)
		}
		ck.report(finding{key, what + " :: " + rs.describe(), c})
	}
	md, err := w.mode(rs.Bytes, rs.Fold)
	if err != nil {
		fail("harness:named-pattern", err.Error(), "compile", nil, 0)
		return
	}

	// --- reference side
	k := len(rs.Rules)
	ref := &refRules{m: md.m}
	maxSC := 0
	nullable := make([]bool, k)
	anyNullable := false
	var reps []int32
	for i, r := range rs.Rules {
		s, err := md.m.Compile(r.AST)
		if err != nil {
			fail("harness:reference-compile", err.Error(), "compile", nil, 0)
			return
		}
		ref.start = append(ref.start, s)
		ref.prio = append(ref.prio, r.Prio)
		nullable[i] = md.m.Nullable(s)
		anyNullable = anyNullable || nullable[i]
		for _, sc := range r.SC {
			if sc > maxSC {
				maxSC = sc
			}
		}
		reps = append(reps, md.boundaries(r.AST)...)
	}
	reps = append(reps, 0)
	sort.Slice(reps, func(i, j int) bool { return reps[i] < reps[j] })
	uniq := reps[:0]
	for i, v := range reps {
		if i == 0 || v != reps[i-1] {
			uniq = append(uniq, v)
		}
	}
	reps = uniq
	ref.active = make([][]bool, maxSC+1)
	for c := range ref.active {
		ref.active[c] = make([]bool, k)
	}
	for i, r := range rs.Rules {
		for _, sc := range r.SC {
			ref.active[sc][i] = true
		}
	}

	// --- implementation side
	var rules []*lex.Rule
	for i, r := range rs.Rules {
		re, err := md.parse(r.AST)
		if err != nil {
			fail("harness:pattern-does-not-parse", fmt.Sprintf("/%s/: %v", r.Pattern, err), "compile", nil, 0)
			return
		}
		rules = append(rules, &lex.Rule{
			Pattern:         &lex.Pattern{Name: fmt.Sprintf("r%d", i), RE: re, Text: r.Pattern, Origin: origin{i}},
			Resolver:        md.res,
			StartConditions: r.SC,
			Precedence:      r.Prio,
			Action:          i + 1,
			Origin:          origin{i},
		})
	}
	var tables *lex.Tables
	var cerr error
	if perr := core.Guard(func() { tables, cerr = lex.Compile(rules, rs.Bytes, true /*allowBacktracking*/) }); perr != nil {
		fail("compile:panic:"+core.PanicSite(perr), perr.Error(), "compile", nil, 0)
		return
	}

	// --- compile errors
	gotEmpty := make([]bool, k)
	gotIdentical := false
	if cerr != nil {
		var msgs []string
		if s, ok := cerr.(status.Status); ok {
			for _, e := range s {
				msgs = append(msgs, e.Msg)
			}
		} else {
			msgs = []string{cerr.Error()}
		}
		for _, msg := range msgs {
			switch {
			case strings.Contains(msg, "accepts empty text"):
				found := false
				for i := range rs.Rules {
					if strings.Contains(msg, fmt.Sprintf("`r%d`", i)) {
						gotEmpty[i], found = true, true
					}
				}
				if !found {
					fail("compile:unexpected-error", "cannot attribute: "+msg, "compile", nil, 0)
					return
				}
			case strings.Contains(msg, "two rules are identical"):
				gotIdentical = true
			default:
				fail("compile:unexpected-error", msg, "compile", nil, 0)
				return
			}
		}
	}
	for i := range rs.Rules {
		if nullable[i] && !gotEmpty[i] {
			fail("compile:missing-empty-error", fmt.Sprintf("rule %d matches the empty text but Compile does not say so (err=%v)", i+1, cerr), "compile", nil, 0)
			return
		}
		if !nullable[i] && gotEmpty[i] {
			fail("compile:spurious-empty-error", fmt.Sprintf("rule %d does not match the empty text but Compile says it does", i+1), "compile", nil, 0)
			return
		}
	}
	if anyNullable {
		st.outcomes["compile:rejected-empty-match"]++
		return
	}
	must, may := ref.tieAnalysis(reps)
	if must && !gotIdentical {
		fail("compile:missing-identical-error", "two rules of the top priority match the same input but Compile accepts the rule set", "compile", nil, 0)
		return
	}
	if gotIdentical && !may {
		fail("compile:spurious-identical-error", "Compile reports identical rules but no word is matched by two rules of equal priority: "+cerr.Error(), "compile", nil, 0)
		return
	}
	if cerr != nil {
		st.outcomes["compile:rejected-identical"]++
		return
	}
	st.compiled++
	st.outcomes["compile:ok"]++
	if len(tables.Backtrack) > 0 {
		st.outcomes["tables:with-backtracking"]++
	}
	if len(tables.StateMap) != maxSC+1 {
		fail("compile:state-map-size", fmt.Sprintf("StateMap has %d entries for %d start conditions", len(tables.StateMap), maxSC+1), "compile", nil, 0)
		return
	}

	// --- scanning
	mi := 0
	if rs.Bytes {
		mi = 1
	}
	firstSize, firstAction, haveFirst, varied := 0, 0, false, false
	reported := map[string]bool{}
	one := func(cond int, text string, syms []rxref.Sym) {
		e := ref.scan(cond, syms, len(text))
		st.evals++
		if e.unspecified {
			st.unspecified++
			return
		}
		size, action, perr := safeScan(tables, cond, text)
		if perr != nil {
			key := "scan:panic:" + core.PanicSite(perr)
			if !reported[key] {
				reported[key] = true
				fail(key, perr.Error(), "scan", &text, cond)
			}
			return
		}
		ci := e.class * 2
		if e.eoiLive {
			ci++
		}
		st.classes[ci]++
		if !haveFirst {
			firstSize, firstAction, haveFirst = e.size, e.action, true
		} else if e.size != firstSize || e.action != firstAction {
			varied = true
		}
		if size == e.size && action == e.action && !e.tie {
			return
		}
		cls := className[e.class]
		if e.eoiLive {
			cls += "+eoi"
		}
		if e.tie {
			// Unreachable if tieAnalysis is right (kept as an independent cross-check).
			key := "compile:missing-identical-error:at-scan"
			if !reported[key] {
				reported[key] = true
				fail(key, fmt.Sprintf("rules of the top priority tie on a prefix of %q in condition %d", text, cond), "scan", &text, cond)
			}
			return
		}
		site := "scan:" + className[e.class]
		if e.eoiLive {
			// A candidate consumed the end-of-input symbol after the text: separate site, see the
			// defect of Tables.Scan (single end-of-input transition).
			site = "scan-eoi"
		}
		var kind string
		switch {
		case action < 0:
			kind = "negative-action"
		case e.action == 0 && action != 0:
			kind = "spurious-match"
		case e.action == 0:
			kind = "invalid-size"
		case action == 0:
			kind = "missed-match"
		case size > e.size:
			kind = "too-long"
		case size < e.size:
			kind = "too-short"
		default:
			kind = "wrong-rule"
		}
		key := site + ":" + kind
		if reported[key] {
			return
		}
		reported[key] = true
		fail(key, fmt.Sprintf("Scan(cond=%d, %q) = (size %d, action %d), reference (size %d, action %d, %s)", cond, text, size, action, e.size, e.action, cls), "scan", &text, cond)
	}
	if onlyInput != nil {
		if onlyCond <= maxSC {
			one(onlyCond, *onlyInput, rxref.Decode(*onlyInput, rs.Bytes))
		}
		return
	}
	for cond := 0; cond <= maxSC; cond++ {
		for i := range ck.inputs {
			in := &ck.inputs[i]
			one(cond, in.text, in.syms[mi])
		}
	}
	if varied {
		st.nontrivial++
	}
}

// ---------------------------------------------------------------------------------------------
// enumeration

var scSets = [][]int{{0}, {1}, {0, 1}}

// scVectors: every assignment of a non-empty subset of {0,1} to each rule (full), or a fixed
// short list (lite): everything in condition 0; rule i alone in both conditions and the rest in 0.
func scVectors(k int, full bool) [][]int {
	var out [][]int
	if full {
		total := 1
		for i := 0; i < k; i++ {
			total *= 3
		}
		for code := 0; code < total; code++ {
			v := make([]int, k)
			x := code
			for i := range v {
				v[i] = x % 3
				x /= 3
			}
			out = append(out, v)
		}
		return out
	}
	out = append(out, make([]int, k)) // all {0}
	if k >= 2 {
		for i := 0; i < k; i++ {
			v := make([]int, k)
			for j := range v {
				v[j] = 1 // {1}
			}
			v[i] = 2 // {0,1}
			out = append(out, v)
		}
	}
	return out
}

type level struct {
	k, total int
	fullSC   bool
	modes    []int // mode indexes (bit 1 = bytes, bit 0 = fold)
}

func (l level) String() string {
	return fmt.Sprintf("k=%d nodes=%d fullSC=%v modes=%v", l.k, l.total, l.fullSC, l.modes)
}

const maxNodes = 4

// levels lists what is enumerated, simplest first. fullSC = every assignment of start-condition
// subsets to the rules; otherwise the short list of scVectors. The tiers are sized for roughly
// 300 (quick) / 5000 (thorough) core-seconds; a soft deadline caps them on a loaded machine.
func levels(quick bool) []level {
	all := []int{0, 1, 2, 3} // rune, rune+fold, byte, byte+fold
	noFold := []int{0, 2}
	if quick {
		return []level{
			{1, 1, true, all}, {1, 2, true, all}, {2, 2, true, all}, {1, 3, true, all},
			{2, 3, true, all}, {3, 3, false, all}, {1, 4, true, all}, {2, 4, false, all},
			{3, 4, false, noFold},
		}
	}
	return []level{
		{1, 1, true, all}, {1, 2, true, all}, {2, 2, true, all}, {1, 3, true, all},
		{2, 3, true, all}, {1, 4, true, all}, {2, 4, true, all}, {3, 3, true, all},
		{3, 4, false, all}, {2, 5, false, all},
	}
}

type job struct {
	lv     level
	mode   int
	sizes  []int
	lo, hi int // tuple index range
}

func run(c *core.Ctx) {
	maxLen := 5
	if c.Quick() {
		maxLen = 4
	}
	inputs := allInputs(maxLen)
	soft := 60 * time.Second // own soft deadline (never an oracle): later shards are skipped and reported as capped
	if !c.Quick() {
		soft = 15 * time.Minute
	}
	c.Rule(fmt.Sprintf("rule sets by (number of rules k<=3, total AST nodes), patterns of <=%d nodes over atoms a b [ab] . {eoi} {p} {q} {r} (+ \\xe9 é [\\x80-\\xff] in byte mode) with * + ? {1,2} cat alt; x relative priorities x start-condition subsets x fold x byte mode; every input over {a,b,c,A,é,\\xff} of length <=%d (%d texts) in every start condition. One evaluation = one (rule set, condition, text) scan compared with the derivative reference. non-trivial = distinct rule set that compiled and whose scans show >=2 different (size, action) results", maxNodes, maxLen, len(inputs)))
	c.Assume("reference conventions where the statement is silent: malformed UTF-8 byte = U+FFFD of width 1 in rune mode; {eoi} = zero-width pseudo symbol repeated after the text; byte-mode literal >0x7f = its UTF-8 bytes; Go's unicode.SimpleFold defines case folding")
	c.Set("input_texts", len(inputs))
	c.Set("max_input_len", maxLen)

	atoms := [2][]*rxref.Node{rxref.AtomsC09(false), rxref.AtomsC09(true)}
	bySize := [2][][]*rxref.Node{rxref.Regexes(atoms[0], maxNodes), rxref.Regexes(atoms[1], maxNodes)}

	var mu sync.Mutex
	ck := &checker{inputs: inputs}
	// Shards run in parallel: keep, per key, the simplest failing case (fewest AST nodes, fewest
	// rules, shortest text, then the textual order) so that the recorded example is deterministic.
	type kept struct {
		f     finding
		count int
	}
	best := map[string]*kept{}
	cost := func(f finding) string {
		nodes := 0
		for _, r := range f.c.Rules {
			nodes += r.AST.Size()
		}
		return fmt.Sprintf("%03d/%d/%d/%d/%s", nodes, len(f.c.Rules), len(f.c.Input), f.c.Cond, f.what)
	}
	ck.report = func(f finding) {
		mu.Lock()
		defer mu.Unlock()
		k := best[f.key]
		if k == nil {
			best[f.key] = &kept{f, 1}
			return
		}
		k.count++
		if cost(f) < cost(k.f) {
			k.f = f
		}
	}
	defer func() {
		for key, k := range best {
			c.Violate(key, fmt.Sprintf("%s [%d failing rule sets]", k.f.what, k.count), k.f.c)
		}
	}()
	pool := make(chan *worker, 16)
	for i := 0; i < 16; i++ {
		pool <- newWorker()
	}

	// Letter family: case folding must work for EVERY letter, not only for the atoms a/b of the
	// enumeration (the SimpleFold orbits of k and s contain non-ASCII members: U+212A, U+017F).
	// For every ASCII letter x: /x/, /[x]/ and next to them /[a-z]+/, /[A-Z]+/ in all four
	// fold x byte modes, scanned on every single ASCII letter, the non-ASCII orbit members and
	// all two-letter words over {k,K,s,S}.
	{
		var texts []string
		for ch := 'A'; ch <= 'Z'; ch++ {
			texts = append(texts, string(ch), string(ch+32))
		}
		texts = append(texts, "\u017f", "\u212a", "é", "")
		texts = append(texts, rxref.Words([]string{"k", "K", "s", "S"}, 2)...)
		var fin []input
		for _, t := range texts {
			fin = append(fin, input{text: t, syms: [2][]rxref.Sym{rxref.Decode(t, false), rxref.Decode(t, true)}})
		}
		ck2 := &checker{inputs: fin, report: ck.report}
		w := <-pool
		n := 0
		for _, bytesMode := range []bool{false, true} {
			for _, fold := range []bool{false, true} {
				var sets [][]ruleSpec
				for ch := 'A'; ch <= 'Z'; ch++ {
					for _, r := range []rune{ch, ch + 32} {
						lit := rxref.Lit(r)
						cls := rxref.Class(false, [2]rune{r, r})
						sets = append(sets, []ruleSpec{{AST: lit, SC: []int{0}}}, []ruleSpec{{AST: cls, SC: []int{0}}},
							[]ruleSpec{{AST: rxref.Cat(lit, lit), Prio: 1, SC: []int{0}}, {AST: rxref.Rep(rxref.Class(false, [2]rune{'a', 'z'}), 1, -1), SC: []int{0}}})
					}
				}
				sets = append(sets, []ruleSpec{{AST: rxref.Rep(rxref.Class(false, [2]rune{'a', 'z'}), 1, -1), SC: []int{0}}},
					[]ruleSpec{{AST: rxref.Rep(rxref.Class(false, [2]rune{'A', 'Z'}), 1, -1), SC: []int{0}}})
				md, err := w.mode(bytesMode, fold)
				if err != nil {
					continue
				}
				for _, rules := range sets {
					for i := range rules {
						rules[i].Pattern = md.text(rules[i].AST)
					}
					ck2.checkRuleSet(w, &ruleSet{Bytes: bytesMode, Fold: fold, Rules: rules}, nil, -1)
					n++
				}
			}
		}
		w.stats.addTo(c)
		pool <- w
		c.Set("letter_family_rule_sets", n)
	}

	var levelInfo []string
	stopped := false
	for _, lv := range levels(c.Quick()) {
		if stopped {
			c.Capped("level not started: " + lv.String())
			continue
		}
		var jobs []job
		for _, mi := range lv.modes {
			bs := bySize[mi>>1]
			for _, sizes := range rxref.Compositions(lv.k, lv.total, maxNodes) {
				n := rxref.TupleCount(bs, sizes)
				chunk := 64
				if lv.k == 1 {
					chunk = 16
				}
				for lo := 0; lo < n; lo += chunk {
					hi := lo + chunk
					if hi > n {
						hi = n
					}
					jobs = append(jobs, job{lv, mi, sizes, lo, hi})
				}
			}
		}
		prios := rxref.PrioVectors(lv.k)
		scs := scVectors(lv.k, lv.fullSC)
		var done, skipped int64
		var lmu sync.Mutex
		core.ParallelFor(len(jobs), 16, func(ji int) {
			if c.Expired() || time.Since(c.Start) > soft {
				lmu.Lock()
				skipped++
				lmu.Unlock()
				return
			}
			j := jobs[ji]
			w := <-pool
			defer func() { pool <- w }()
			bs := bySize[j.mode>>1]
			tuple := make([]*rxref.Node, lv.k)
			var n int64
			for idx := j.lo; idx < j.hi; idx++ {
				rxref.Tuple(bs, j.sizes, idx, tuple)
				for _, pv := range prios {
					for _, sv := range scs {
						rs := &ruleSet{Bytes: j.mode&2 != 0, Fold: j.mode&1 != 0}
						for i, ast := range tuple {
							rs.Rules = append(rs.Rules, ruleSpec{Pattern: ast.String(), AST: ast, Prio: pv[i], SC: scSets[sv[i]]})
						}
						ck.checkRuleSet(w, rs, nil, -1)
						n++
						if n == 1 && idx == j.lo && c.SampleCount() < 8 && ji%97 == 0 {
							c.Sample(rs.describe())
						}
					}
				}
			}
			w.stats.addTo(c)
			lmu.Lock()
			done += n
			lmu.Unlock()
		})
		levelInfo = append(levelInfo, fmt.Sprintf("%s: %d rule sets (t=%.0fs)", lv.String(), done, time.Since(c.Start).Seconds()))
		if skipped > 0 {
			c.Capped(fmt.Sprintf("budget expired in level %s: %d of %d shards skipped", lv.String(), skipped, len(jobs)))
			stopped = true
		}
	}
	c.Set("levels", levelInfo)
}

func replay(c *core.Ctx, raw json.RawMessage) error {
	var rc rcase
	if err := json.Unmarshal(raw, &rc); err != nil {
		return err
	}
	var got []finding
	ck := &checker{report: func(f finding) { got = append(got, f) }}
	w := newWorker()
	rs := rc.ruleSet
	for i := range rs.Rules {
		rs.Rules[i].Pattern = rs.Rules[i].AST.String()
	}
	if rc.Stage == "scan" {
		b := make([]byte, len(rc.Input))
		for i, v := range rc.Input {
			b[i] = byte(v)
		}
		text := string(b)
		ck.checkRuleSet(w, &rs, &text, rc.Cond)
	} else {
		ck.inputs = nil
		ck.checkRuleSet(w, &rs, nil, -1)
	}
	if len(got) > 0 {
		return fmt.Errorf("%s: %s", got[0].key, got[0].what)
	}
	return nil
}
