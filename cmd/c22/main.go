// C22: the grammar compiler never crashes and reports in-range diagnostics.
//
// Enumerated (deterministic, simplest first; every case is a complete grammar text):
//
//	phase 0  the seed grammars unchanged: parsers/{json,simple,test,tm}/*.tm, a hand cut-down of js.tm,
//	         compiler/testdata/*.tmerr with the «» markers stripped, 10 hand-written feature grammars;
//	phase 1  every byte string of length <= 3 over 18 bytes inserted in 7 minimal contexts;
//	phase 2  every 1-token deviation of every seed: deletion, duplication, swap with the next token,
//	         replacement by each of the replacement tokens below (token boundaries come from the real
//	         tm lexer; comments count as white space);
//	phase 3  (thorough) every combination of two 1-token deviations at different positions of every
//	         seed shorter than 60 tokens.
//
// Each case runs compiler.Compile with CheckOnly off (tables are built and optimized) and, when the
// text mentions optimizeTables (the only option whose effect CheckOnly changes), with CheckOnly on.
// Cases run in worker subprocesses (core.RunShards): a log.Fatal/os.Exit, a crash in another
// goroutine, a stack overflow or a hang kills only the worker and is attributed to the announced case.
//
// Oracle: Compile returns (no panic, no process exit, no hang); every status.Error that carries a
// file name has 0 <= Offset <= EndOffset <= len(text) and (Line, Column) equal to the 1-based line and
// 1-based *byte* column of Offset (status.SourceRange documents Column as "in bytes"); a tm.SyntaxError
// (returned as is when the text does not parse) has 0 <= Offset <= Endoffset <= len(text) and Line equal
// to the line of Offset.
package main

import (
	"context"
	"encoding/base64"
	"encoding/binary"
	"encoding/json"
	"fmt"
	"hash/fnv"
	"log"
	"os"
	"os/exec"
	"path/filepath"
	"regexp"
	"runtime"
	"runtime/debug"
	"sort"
	"strconv"
	"strings"
	"sync"
	"time"

	"github.com/inspirer/textmapper/compiler"
	"github.com/inspirer/textmapper/parsers/tm"
	"github.com/inspirer/textmapper/parsers/tm/token"
	"github.com/inspirer/textmapper/status"

	"verif/internal/core"
)

func main() { core.Main("C22", "fault_enumeration", run, replay, worker) }

// ---------------------------------------------------------------------------------------------
// Seeds and tokenization.

type seed struct {
	Name string
	Text string
	pre  string
	toks []string
	gaps []string // gaps[i] follows toks[i]
	// locals are the distinct identifier tokens of the seed itself (seeds < localMaxTokens tokens): a
	// token is also replaced by each of them, which rewires references (e.g. a named set to itself).
	locals []string
}

const localMaxTokens = 150

var identTokRE = regexp.MustCompile(`^([A-Za-z_][A-Za-z0-9_-]*|'([^'\\\n]|\\.)+')$`)

const maxTemplateStub = 80

func newSeed(name, text string) *seed {
	// The templates section (everything after %%) is one token for the tm lexer and is only copied by
	// the compiler; keep a short stub of it.
	if i := strings.Index(text, "\n%%"); i >= 0 && len(text) > i+3+maxTemplateStub {
		text = text[:i+3+maxTemplateStub] + "\n"
	}
	s := &seed{Name: name, Text: text}
	var l tm.Lexer
	l.Init(text)
	type span struct{ s, e int }
	var spans []span
	for {
		t := l.Next()
		if t == token.EOI {
			break
		}
		st, en := l.Pos()
		if t == token.COMMENT || t == token.MULTILINECOMMENT {
			continue
		}
		if en <= st { // defensive: never loop on an empty token
			break
		}
		spans = append(spans, span{st, en})
	}
	if len(spans) == 0 {
		s.pre = text
		return s
	}
	s.pre = text[:spans[0].s]
	for i, sp := range spans {
		s.toks = append(s.toks, text[sp.s:sp.e])
		end := len(text)
		if i+1 < len(spans) {
			end = spans[i+1].s
		}
		s.gaps = append(s.gaps, text[sp.e:end])
	}
	if len(s.toks) < localMaxTokens {
		seen := map[string]bool{}
		for _, r := range replacements {
			seen[r] = true
		}
		for _, t := range s.toks {
			if identTokRE.MatchString(t) && !seen[t] {
				seen[t] = true
				s.locals = append(s.locals, t)
			}
		}
	}
	return s
}

func loadSeeds() []*seed {
	repo := core.RepoDir()
	var out []*seed
	read := func(rel string) string {
		data, err := os.ReadFile(filepath.Join(repo, rel))
		if err != nil {
			fmt.Fprintln(os.Stderr, "C22: cannot read seed:", err)
			os.Exit(2)
		}
		return string(data)
	}
	for _, f := range featureSeeds {
		out = append(out, newSeed(f.Name, f.Text))
	}
	tmerrs, _ := filepath.Glob(filepath.Join(repo, "compiler/testdata/*.tmerr"))
	sort.Strings(tmerrs)
	for _, p := range tmerrs {
		data, err := os.ReadFile(p)
		if err != nil {
			fmt.Fprintln(os.Stderr, "C22: cannot read seed:", err)
			os.Exit(2)
		}
		text := strings.NewReplacer("«", "", "»", "").Replace(string(data))
		out = append(out, newSeed("tmerr-"+strings.TrimSuffix(filepath.Base(p), ".tmerr"), text))
	}
	out = append(out, newSeed("json", read("parsers/json/json.tm")))
	out = append(out, newSeed("simple", read("parsers/simple/simple.tm")))
	out = append(out, newSeed("jsmini", jsMini))
	out = append(out, newSeed("test", read("parsers/test/test.tm")))
	out = append(out, newSeed("tm", read("parsers/tm/textmapper.tm")))
	// simplest first
	sort.SliceStable(out, func(i, j int) bool { return len(out[i].toks) < len(out[j].toks) })
	return out
}

// Replacement tokens for the "replace" deviation (tm tokens of every lexical class).
var replacements = []string{
	";", ":", "|", "(", ")", "[", "]", "{}", "{", "}", "->", "=", ",", "*", "+", "?", "%", "::", "<", ">",
	"~", "&", "(?=", ".", "!", "/x/", "\"s\"", "'q'", "1", "a", "zzz", "input", "set", "separator", "true",
	"%empty", "error", "lexer", "parser", "-1",
}

// Bytes for the byte-string phase.
var byteAlphabet = []byte{'a', '1', ' ', '\n', ':', ';', '/', '\'', '"', '{', '}', '(', '[', '%', '<', '\\', 0xc3, 0x00}

var byteContexts = []struct{ name, before, after string }{
	{"prepend", "", "language l(go);\n:: lexer\na: /a/\n"},
	{"header", "language l(go);\n", ""},
	{"lexer", "language l(go);\n:: lexer\n", ""},
	{"parser", "language l(go);\n:: lexer\na: /a/\n:: parser\ninput: a ", ""},
	// the bytes are the body of a regular expression that ends the text: exercises the mapping of
	// regexp error positions (compiler/lexer.go:parsePattern) right at the end of the input
	{"regexp", "language l(go);\n:: lexer\na: /", "/"},
	// the same after a multi-byte character inside the pattern: byte columns and rune counts differ
	{"regexp-after-nonascii", "language l(go);\n:: lexer\na: /é", "/"},
	// and inside a named pattern
	{"named-pattern-after-nonascii", "language l(go);\n:: lexer\np = /é", "/\na: /{p}/\n"},
}

type edit struct {
	Op  byte // d u s r
	Pos int
	Rep int
}

func (e edit) span() int {
	if e.Op == 's' {
		return 2
	}
	return 1
}

func (e edit) String() string {
	if e.Op == 'l' {
		return fmt.Sprintf("l%d:#%d", e.Pos, e.Rep)
	}
	if e.Op == 'r' {
		return fmt.Sprintf("r%d:%s", e.Pos, replacements[e.Rep])
	}
	return fmt.Sprintf("%c%d", e.Op, e.Pos)
}

// edits enumerates the 1-token deviations of s at positions >= from, skipping no-ops. withLocals adds
// the replacements by the seed's own identifier tokens (op 'l').
func (s *seed) edits(from int, withLocals bool, f func(e edit) bool) bool {
	for p := from; p < len(s.toks); p++ {
		if !f(edit{Op: 'd', Pos: p}) || !f(edit{Op: 'u', Pos: p}) {
			return false
		}
		if p+1 < len(s.toks) && s.toks[p] != s.toks[p+1] {
			if !f(edit{Op: 's', Pos: p}) {
				return false
			}
		}
		for r, rep := range replacements {
			if rep == s.toks[p] {
				continue
			}
			if !f(edit{Op: 'r', Pos: p, Rep: r}) {
				return false
			}
		}
		if withLocals {
			for r, rep := range s.locals {
				if rep == s.toks[p] {
					continue
				}
				if !f(edit{Op: 'l', Pos: p, Rep: r}) {
					return false
				}
			}
		}
	}
	return true
}

func (s *seed) apply(es []edit) string {
	var b strings.Builder
	b.Grow(len(s.Text) + 32)
	b.WriteString(s.pre)
	tokAt := func(i int) string {
		for _, e := range es {
			switch {
			case e.Pos == i && e.Op == 'd':
				return ""
			case e.Pos == i && e.Op == 'u':
				return s.toks[i] + " " + s.toks[i]
			case e.Pos == i && e.Op == 'r':
				return replacements[e.Rep]
			case e.Pos == i && e.Op == 'l':
				return s.locals[e.Rep]
			case e.Pos == i && e.Op == 's':
				return s.toks[i+1]
			case e.Pos+1 == i && e.Op == 's':
				return s.toks[i-1]
			}
		}
		return s.toks[i]
	}
	for i := range s.toks {
		b.WriteString(tokAt(i))
		b.WriteString(s.gaps[i])
	}
	return b.String()
}

type caseRef struct {
	phase int
	s     *seed
	es    []edit
	ctx   int
	bytes []byte
}

func (c *caseRef) Text() string {
	if c.phase == 1 {
		x := byteContexts[c.ctx]
		return x.before + string(c.bytes) + x.after
	}
	return c.s.apply(c.es)
}

func (c *caseRef) Desc() string {
	if c.phase == 1 {
		return fmt.Sprintf("bytes %s %q", byteContexts[c.ctx].name, c.bytes)
	}
	var parts []string
	for _, e := range c.es {
		if e.Op == 'l' {
			parts = append(parts, fmt.Sprintf("l%d:%s", e.Pos, c.s.locals[e.Rep]))
			continue
		}
		parts = append(parts, e.String())
	}
	return fmt.Sprintf("seed %s [%s]", c.s.Name, strings.Join(parts, " "))
}

const twoDevMaxTokens = 60

// quickBigSeed: seeds above this many tokens get only deletions/duplications/swaps plus a reduced
// replacement set in the quick tier (all replacements in thorough): the js cut-down, parsers/test and parsers/tm.
const quickBigSeed = 600

var quickBigReps = map[string]bool{";": true, "(": true, "a": true}

// enumerate calls visit for every case of the tier in the fixed order. visit returns false to stop.
// The caseRef (and its slices) is only valid during the call.
func enumerate(seeds []*seed, quick bool, visit func(idx int, c *caseRef) bool) {
	idx := 0
	emit := func(c *caseRef) bool {
		ok := visit(idx, c)
		idx++
		return ok
	}
	// phase 0
	for _, s := range seeds {
		if !emit(&caseRef{phase: 0, s: s}) {
			return
		}
	}
	// phase 1: byte strings
	for ci := range byteContexts {
		for n := 0; n <= 3; n++ {
			buf := make([]byte, n)
			total := 1
			for i := 0; i < n; i++ {
				total *= len(byteAlphabet)
			}
			for code := 0; code < total; code++ {
				x := code
				for i := n - 1; i >= 0; i-- {
					buf[i] = byteAlphabet[x%len(byteAlphabet)]
					x /= len(byteAlphabet)
				}
				if !emit(&caseRef{phase: 1, ctx: ci, bytes: buf}) {
					return
				}
			}
		}
	}
	// phase 2: one deviation
	for _, s := range seeds {
		big := quick && len(s.toks) > quickBigSeed
		es := make([]edit, 1)
		if !s.edits(0, true, func(e edit) bool {
			if big && e.Op == 'r' && !quickBigReps[replacements[e.Rep]] {
				return true
			}
			es[0] = e
			return emit(&caseRef{phase: 2, s: s, es: es})
		}) {
			return
		}
	}
	if quick {
		return
	}
	// phase 3
	for _, s := range seeds {
		if len(s.toks) >= twoDevMaxTokens {
			continue
		}
		es := make([]edit, 2)
		if !s.edits(0, false, func(e1 edit) bool {
			es[0] = e1
			return s.edits(e1.Pos+e1.span(), false, func(e2 edit) bool {
				es[1] = e2
				return emit(&caseRef{phase: 3, s: s, es: es})
			})
		}) {
			return
		}
	}
}

// ---------------------------------------------------------------------------------------------
// Running one case.

// fatalSignal is what the log hook panics with when the code under test calls log.Fatal*:
// the process would exit right after the message is written.
type fatalSignal struct {
	msg  string
	site string
}

type logHook struct{}

func (logHook) Write(p []byte) (int, error) {
	pcs := make([]uintptr, 48)
	n := runtime.Callers(2, pcs)
	frames := runtime.CallersFrames(pcs[:n])
	fatal := false
	for {
		f, more := frames.Next()
		fn := f.Function
		if fn == "log.Fatal" || fn == "log.Fatalf" || fn == "log.Fatalln" || strings.HasPrefix(fn, "log.(*Logger).Fatal") {
			fatal = true
		} else if fatal && !strings.HasPrefix(fn, "log.") {
			panic(fatalSignal{msg: strings.TrimSpace(string(p)), site: shortFunc(fn)})
		}
		if !more {
			break
		}
	}
	if fatal {
		panic(fatalSignal{msg: strings.TrimSpace(string(p)), site: "unknown"})
	}
	return len(p), nil // log.Print*: not an exit
}

func installHook() {
	if os.Getenv("C22_NOHOOK") != "" {
		return // debugging aid: let log.Fatal exit the worker (exercises the death path)
	}
	log.SetFlags(0)
	log.SetOutput(logHook{})
}

var closureRE = regexp.MustCompile(`(\.func[0-9]+|\.[0-9]+|\.gowrap[0-9]+)+$`)

// shortFunc turns a qualified function name into "pkg.Func" / "pkg.(*T).Method"; closure suffixes
// (.func2, .func1.1) are dropped because their numbering changes with unrelated edits.
func shortFunc(fn string) string {
	if i := strings.LastIndex(fn, "/"); i >= 0 {
		fn = fn[i+1:]
	}
	return closureRE.ReplaceAllString(fn, "")
}

// stackSite returns the innermost textmapper function in a Go stack dump ("pkg.Func" or
// "pkg.(*T).Method"), or "". When that function belongs to a helper package (status, util/...), the
// calling textmapper function is appended ("status.Errorf<syntax.Expand") so that different crash
// sites stay distinct.
func stackSite(stack string) string {
	var frames []string
	var helper []bool
	for _, l := range strings.Split(stack, "\n") {
		if strings.HasPrefix(l, "\t") || !strings.Contains(l, "inspirer/textmapper/") {
			continue
		}
		l = strings.TrimPrefix(l, "created by ")
		if j := strings.LastIndex(l, "("); j > 0 && strings.HasSuffix(strings.TrimSpace(l), ")") {
			l = l[:j]
		}
		l = strings.TrimSpace(l)
		frames = append(frames, shortFunc(l))
		helper = append(helper, strings.Contains(l, "/textmapper/status.") || strings.Contains(l, "/textmapper/util/"))
		if !helper[len(helper)-1] || len(frames) >= 4 {
			break
		}
	}
	return strings.Join(frames, "<")
}

type finding struct {
	Key       string `json:"key"`
	What      string `json:"what"`
	CheckOnly bool   `json:"checkOnly"`
}

var normRE = regexp.MustCompile(`'[^']*'|"[^"]*"|[0-9]+|\([^)]*\)`)

// msgClass reduces a diagnostic to its message template (names and numbers removed).
func msgClass(msg string) string {
	if t := templateOf(msg); t != "" {
		return t
	}
	if i := strings.IndexByte(msg, '\n'); i >= 0 {
		msg = msg[:i]
	}
	words := strings.Fields(normRE.ReplaceAllString(msg, "#"))
	if len(words) > 6 {
		words = words[:6]
	}
	return "~" + strings.Join(words, " ")
}

// Message templates: the string literals of the compiler packages under check that look like
// diagnostics. A message is classified by the longest literal whose verb-separated pieces occur in
// it in order, i.e. by the format string of the Errorf call that produced it. This keeps violation
// keys free of symbol names.
type msgTemplate struct {
	format string
	pieces []string
	weight int
}

var (
	templates     []msgTemplate
	templatesOnce sync.Once
	templateCache = map[string]string{}
	literalRE     = regexp.MustCompile("\"(?:[^\"\\\\\n]|\\\\.)*\"")
	verbRE        = regexp.MustCompile(`%[-+# 0-9.]*[a-zA-Z]`)
)

func loadTemplates() {
	for _, dir := range []string{"compiler", "syntax", "lalr", "lex", "grammar"} {
		files, _ := filepath.Glob(filepath.Join(core.RepoDir(), dir, "*.go"))
		sort.Strings(files)
		for _, f := range files {
			if strings.HasSuffix(f, "_test.go") {
				continue
			}
			data, err := os.ReadFile(f)
			if err != nil {
				continue
			}
			for _, lit := range literalRE.FindAllString(string(data), -1) {
				v, err := strconv.Unquote(lit)
				if err != nil || len(v) < 8 || !strings.Contains(v, " ") {
					continue
				}
				v = strings.ReplaceAll(v, "%%", "\x00")
				var pieces []string
				weight := 0
				for _, p := range verbRE.Split(v, -1) {
					p = strings.ReplaceAll(p, "\x00", "%")
					if p != "" {
						pieces = append(pieces, p)
						weight += len(p)
					}
				}
				if weight >= 8 {
					templates = append(templates, msgTemplate{strings.ReplaceAll(v, "\x00", "%%"), pieces, weight})
				}
			}
		}
	}
	sort.SliceStable(templates, func(i, j int) bool { return templates[i].weight > templates[j].weight })
}

func templateOf(msg string) string {
	templatesOnce.Do(loadTemplates)
	if t, ok := templateCache[msg]; ok {
		return t
	}
	res := ""
	for _, t := range templates {
		rest := msg
		ok := true
		for _, p := range t.pieces {
			i := strings.Index(rest, p)
			if i < 0 {
				ok = false
				break
			}
			rest = rest[i+len(p):]
		}
		if ok {
			res = t.format
			break
		}
	}
	if len(templateCache) < 100000 {
		templateCache[msg] = res
	}
	return res
}

func lineCol(text string, off int) (int, int) {
	line := 1 + strings.Count(text[:off], "\n")
	col := off - (strings.LastIndexByte(text[:off], '\n') + 1) + 1
	return line, col
}

// checkDiagnostics applies the range oracle to the error returned by Compile.
func checkDiagnostics(text string, err error, classes map[string]bool) (key, what string) {
	if err == nil {
		return "", ""
	}
	if se, ok := err.(tm.SyntaxError); ok {
		classes["tm.SyntaxError"] = true
		if se.Offset < 0 || se.Offset > se.Endoffset || se.Endoffset > len(text) {
			return "syntax-error:range", fmt.Sprintf("tm.SyntaxError range [%d,%d) outside the text of length %d", se.Offset, se.Endoffset, len(text))
		}
		if line, _ := lineCol(text, se.Offset); line != se.Line {
			return "syntax-error:line", fmt.Sprintf("tm.SyntaxError at offset %d reports line %d, offset is on line %d", se.Offset, se.Line, line)
		}
		return "", ""
	}
	var list status.Status
	switch e := err.(type) {
	case status.Status:
		list = e
	case *status.Error:
		list = status.Status{e}
	default:
		// An error without any source range. The statement speaks about the ranges of the errors that
		// have one; the implementation is given the benefit of the doubt.
		classes[fmt.Sprintf("untyped:%T", err)] = true
		return "", ""
	}
	for _, e := range list {
		if e == nil {
			return "diag:nil-error", "status.Status contains a nil *Error"
		}
		cls := msgClass(e.Msg)
		classes[cls] = true
		r := e.Origin
		if r.Filename == "" {
			// status.Error documents an empty file name as "no location" (I/O style errors).
			if r != (status.SourceRange{}) {
				return "diag:partial-location:" + cls, fmt.Sprintf("diagnostic %q has no file name but a position %+v", e.Msg, r)
			}
			classes["(no location) "+cls] = true
			continue
		}
		if r.Offset < 0 || r.Offset > r.EndOffset || r.EndOffset > len(text) {
			return "diag:range:" + cls, fmt.Sprintf("diagnostic %q has range [%d,%d), text length is %d", e.Msg, r.Offset, r.EndOffset, len(text))
		}
		line, col := lineCol(text, r.Offset)
		if r.Line != line || r.Column != col {
			return "diag:linecol:" + cls, fmt.Sprintf("diagnostic %q at offset %d reports %d:%d, the offset is at %d:%d", e.Msg, r.Offset, r.Line, r.Column, line, col)
		}
	}
	return "", ""
}

type caseResult struct {
	findings []finding
	outcome  string
	parsed   bool
	classes  map[string]bool
}

func compileOnce(text string, checkOnly bool, res *caseResult) {
	var err error
	var rec any
	var stack string
	func() {
		defer func() {
			if r := recover(); r != nil {
				rec = r
				stack = string(debug.Stack())
			}
		}()
		_, err = compiler.Compile(context.Background(), "c22.tm", text, compiler.Params{CheckOnly: checkOnly})
	}()
	add := func(key, what string) {
		res.findings = append(res.findings, finding{key, what, checkOnly})
	}
	if rec != nil {
		res.parsed = true
		if fs, ok := rec.(fatalSignal); ok {
			res.outcome = "fatal"
			add("exit:"+fs.site, fmt.Sprintf("log.Fatal(%q) in %s: the process would exit", fs.msg, fs.site))
			return
		}
		res.outcome = "panic"
		perr := fmt.Errorf("panic: %v\n%s", rec, stack)
		site := stackSite(stack)
		if site == "" {
			site = core.PanicSite(perr)
		}
		if len(stack) > 2500 {
			stack = stack[:2500]
		}
		add("panic:"+site, fmt.Sprintf("panic: %v\n%s", rec, stack))
		return
	}
	if _, ok := err.(tm.SyntaxError); !ok {
		res.parsed = true
	}
	switch {
	case err == nil:
		res.outcome = "ok"
	case !res.parsed:
		res.outcome = "syntax-error"
	default:
		res.outcome = "diagnostics"
	}
	if key, what := checkDiagnostics(text, err, res.classes); key != "" {
		add(key, what)
	}
}

func runCase(text string) *caseResult {
	res := &caseResult{classes: map[string]bool{}}
	compileOnce(text, false, res)
	if strings.Contains(text, "optimizeTables") && res.parsed {
		// CheckOnly only changes whether lalr.Optimize runs, which needs the optimizeTables option.
		first := res.outcome
		compileOnce(text, true, res)
		res.outcome = first + "+" + res.outcome
	}
	return res
}

// ---------------------------------------------------------------------------------------------
// Worker side.

type record struct {
	T         string         `json:"t"` // v | s | cap
	Idx       int            `json:"idx,omitempty"`
	Key       string         `json:"key,omitempty"`
	What      string         `json:"what,omitempty"`
	Desc      string         `json:"desc,omitempty"`
	Text      string         `json:"text,omitempty"`
	CheckOnly bool           `json:"checkOnly,omitempty"`
	N         int            `json:"n,omitempty"`
	H         string         `json:"h,omitempty"` // base64 of 8-byte text hashes, low bit = passed the tm parser
	Out       map[string]int `json:"out,omitempty"`
	Msgs      []string       `json:"msgs,omitempty"`
	Us        map[string]int `json:"us,omitempty"` // CPU microseconds per seed
}

func textHash(text string, parsed bool) uint64 {
	h := fnv.New64a()
	h.Write([]byte(text))
	v := h.Sum64() &^ 1
	if parsed {
		v |= 1
	}
	return v
}

const statsBatch = 256

func worker(w *core.Worker) {
	debug.SetMaxStack(8 << 20) // a runaway recursion dies quickly instead of eating 1 GB per worker
	installHook()
	if len(w.Args) >= 2 && w.Args[0] == "file" {
		if w.Only < 0 && w.Start > 0 {
			return // restarted after the single case killed the previous worker: nothing is left
		}
		data, err := os.ReadFile(w.Args[1])
		if err != nil {
			fmt.Fprintln(os.Stderr, err)
			os.Exit(3)
		}
		w.Case(0, "replay")
		if os.Getenv("C22_SHOWERR") != "" { // debugging aid: show what Compile reports
			func() {
				defer func() { recover() }()
				_, err := compiler.Compile(context.Background(), "c22.tm", string(data), compiler.Params{CheckOnly: true})
				status.Print(os.Stderr, err)
			}()
		}
		res := runCase(string(data))
		for _, f := range res.findings {
			w.Emit(record{T: "v", Key: f.Key, What: f.What, CheckOnly: f.CheckOnly})
		}
		return
	}
	var deadline time.Time
	if len(w.Args) >= 1 {
		if n, err := strconv.ParseInt(w.Args[0], 10, 64); err == nil {
			deadline = time.Unix(n, 0)
		}
	}
	seeds := loadSeeds()
	var hashes []byte
	out := map[string]int{}
	us := map[string]int{}
	seenMsg := map[string]bool{}
	var newMsgs []string
	n := 0
	flush := func() {
		if n == 0 {
			return
		}
		w.Emit(record{T: "s", N: n, H: base64.RawStdEncoding.EncodeToString(hashes), Out: out, Msgs: newMsgs, Us: us})
		hashes, out, newMsgs, n = hashes[:0], map[string]int{}, nil, 0
		us = map[string]int{}
	}
	enumerate(seeds, w.Quick(), func(idx int, c *caseRef) bool {
		if w.Only >= 0 && idx > w.Only {
			return false
		}
		if !w.Mine(idx) {
			return true
		}
		if w.Only < 0 && !deadline.IsZero() && time.Now().After(deadline) {
			flush()
			w.Emit(record{T: "cap", Idx: idx})
			return false
		}
		text := c.Text()
		if n >= statsBatch {
			flush()
		}
		w.Case(idx, c.Desc())
		t0 := time.Now()
		res := runCase(text)
		if c.s != nil {
			us[c.s.Name] += int(time.Since(t0).Microseconds())
		} else {
			us["(bytes)"] += int(time.Since(t0).Microseconds())
		}
		for _, f := range res.findings {
			w.Emit(record{T: "v", Idx: idx, Key: f.Key, What: f.What, Desc: c.Desc(), Text: text, CheckOnly: f.CheckOnly})
		}
		n++
		out[fmt.Sprintf("p%d:%s", c.phase, res.outcome)]++
		hashes = binary.LittleEndian.AppendUint64(hashes, textHash(text, res.parsed))
		for m := range res.classes {
			if !seenMsg[m] {
				seenMsg[m] = true
				newMsgs = append(newMsgs, m)
			}
		}
		return true
	})
	flush()
}

// ---------------------------------------------------------------------------------------------
// Parent side.

type replayCase struct {
	Desc      string `json:"desc"`
	Text      string `json:"text"`
	CheckOnly bool   `json:"checkOnly"`
}

// Workers are single-threaded (Compile starts no goroutines); one OS thread per worker and a lazier
// GC avoid 16 processes x 16 GC threads fighting for 16 cores (2.5x faster overall).
var workerEnv = []string{"GOMAXPROCS=1", "GOGC=400"}

// diagnoseDeath re-runs a case that kills the worker once more in a subprocess of its own with the
// complete stderr captured (the shard protocol keeps only the last 4 KB, which for a Go fatal error
// is the tail of the dump of all goroutines, not the crash site) and derives a stable key from it:
// death:<class>:<site>, where site is the function the crash happened in (for a stack overflow: the
// most frequent textmapper function among the innermost frames, i.e. the recursion).
func diagnoseDeath(text, how, tail string) (key, excerpt string) {
	stderr := tail
	if dir, err := os.MkdirTemp("", "c22-death"); err == nil {
		defer os.RemoveAll(dir)
		p := filepath.Join(dir, "case.tm")
		if os.WriteFile(p, []byte(text), 0o644) == nil {
			ctx, cancel := context.WithTimeout(context.Background(), 90*time.Second)
			defer cancel()
			cmd := exec.CommandContext(ctx, os.Args[0], "worker", "quick", "0", "1", "0", "-1", "file", p)
			cmd.Env = append(os.Environ(), workerEnv...)
			var buf cappedBuf
			cmd.Stderr = &buf
			if cmd.Run() != nil && len(buf.data) > 0 {
				stderr = string(buf.data)
			}
		}
	}
	class := "crash"
	switch {
	case strings.Contains(how, "no progress"):
		class = "hang"
	case strings.Contains(stderr, "stack overflow") || strings.Contains(stderr, "stack exceeds"):
		class = "stack-overflow"
	case strings.Contains(how, "exit status 1"), strings.Contains(how, "exited 0"):
		class = "exit"
	}
	// the crashing goroutine is dumped first; look at its innermost frames only
	head := stderr
	if i := strings.Index(head, "\ngoroutine "); i >= 0 {
		head = head[i+1:]
		if j := strings.Index(head, "\n\ngoroutine "); j >= 0 {
			head = head[:j]
		}
	}
	site := ""
	if class == "stack-overflow" {
		count := map[string]int{}
		var order []string
		for _, l := range strings.Split(head, "\n") {
			if strings.HasPrefix(l, "\t") || !strings.Contains(l, "inspirer/textmapper/") {
				continue
			}
			if fn := stackSite(l); fn != "" {
				if count[fn] == 0 {
					order = append(order, fn)
				}
				count[fn]++
			}
			if strings.Contains(l, "frames elided") {
				break
			}
		}
		for _, fn := range order {
			if site == "" || count[fn] > count[site] {
				site = fn
			}
		}
	} else {
		site = stackSite(head)
	}
	if site == "" {
		// no stack (plain os.Exit / log.Fatal with the hook disabled): use the last message line
		lines := strings.Split(strings.TrimSpace(stderr), "\n")
		site = msgClass(lines[len(lines)-1])
		if site == "" {
			site = "unknown"
		}
	}
	if len(head) > 2500 {
		head = head[:2500]
	}
	return "death:" + class + ":" + site, head
}

type cappedBuf struct{ data []byte }

func (b *cappedBuf) Write(p []byte) (int, error) {
	if room := 1<<20 - len(b.data); room > 0 {
		if len(p) < room {
			room = len(p)
		}
		b.data = append(b.data, p[:room]...)
	}
	return len(p), nil
}

func run(c *core.Ctx) {
	seeds := loadSeeds()
	quick := c.Quick()
	c.Rule("seed grammars x {0, 1 (thorough: 2 for seeds < 60 tokens)} token deviations (delete, duplicate, swap-with-next, replace by one of " +
		strconv.Itoa(len(replacements)) + " tm tokens; no-op edits skipped; with exactly one deviation in seeds < " + strconv.Itoa(localMaxTokens) + " tokens also replace by each identifier token of the same seed; quick: seeds > " + strconv.Itoa(quickBigSeed) + " tokens use only the replacement tokens ; ( a) + all byte strings <= 3 over 18 bytes in 7 contexts; " +
		"every case through compiler.Compile (CheckOnly off; also on when the text mentions optimizeTables). " +
		"Non-trivial = the text passes the tm parser, i.e. reaches the semantic phases; distinct by FNV-64 of the text")
	c.Assume("log.Fatal* is observed by a log output hook that panics with the caller's identity (the process would exit right after writing the message); everything else that kills or stalls a worker is detected by the shard protocol (45 s without progress on a single case = hang)")
	c.Assume("CheckOnly changes compiler behaviour only through lalr.Options.Optimize (compiler.go), which also needs the optimizeTables option to appear in the text")

	planned := 0
	perPhase := map[int]int{}
	enumerate(seeds, quick, func(idx int, cr *caseRef) bool {
		planned++
		perPhase[cr.phase]++
		return true
	})
	c.Set("planned_cases", planned)
	for p, n := range perPhase {
		c.Set(fmt.Sprintf("planned_phase%d", p), n)
	}
	var seedInfo []string
	short := 0
	for _, s := range seeds {
		seedInfo = append(seedInfo, fmt.Sprintf("%s:%d", s.Name, len(s.toks)))
		if len(s.toks) < twoDevMaxTokens {
			short++
		}
	}
	c.Set("seeds", seedInfo)
	c.Set("seeds_in_two_deviation_phase", short)
	c.Sample(map[string]string{"seed": seeds[0].Name, "text": seeds[0].Text})

	if os.Getenv("C22_PROBE") != "" {
		installHook()
		for _, s := range seeds {
			t0 := time.Now()
			res := runCase(s.Text)
			fmt.Printf("%-28s toks=%5d bytes=%6d compile=%8.2fms outcome=%s findings=%d\n", s.Name, len(s.toks), len(s.Text), float64(time.Since(t0).Microseconds())/1000, res.outcome, len(res.findings))
			if os.Getenv("C22_PROBE") == "3" && len(s.toks) < 200 {
				t1 := time.Now()
				for i := 0; i < 300; i++ {
					runCase(s.Text)
				}
				fmt.Printf("    steady: %.3f ms\n", float64(time.Since(t1).Microseconds())/300000)
			}
			if os.Getenv("C22_PROBE") == "2" && !strings.HasPrefix(s.Name, "tmerr-") {
				_, err := compiler.Compile(context.Background(), s.Name, s.Text, compiler.Params{CheckOnly: true})
				status.Print(os.Stdout, err)
			}
		}
		return
	}

	// Worker deadline: leave time for confirmation runs and the report.
	budget := 75 * time.Second
	if !quick {
		budget = 17 * time.Minute
	}
	deadline := c.Start.Add(budget)
	if c.Deadline.Before(deadline) || os.Getenv("VERIF_BUDGET_S") != "" {
		deadline = c.Deadline
	}

	var hashes []uint64
	cappedAt := -1
	msgs := map[string]bool{}
	cpu := map[string]int{}
	textOf := func(target int) (string, string) {
		var text, desc string
		enumerate(seeds, quick, func(idx int, cr *caseRef) bool {
			if idx == target {
				text, desc = cr.Text(), cr.Desc()
				return false
			}
			return true
		})
		return text, desc
	}
	// Violations are reported after the run, lowest case index first, so that the recorded
	// counterexample of a key does not depend on worker scheduling.
	type pending struct {
		idx   int
		what  string
		rc    replayCase
		count int
	}
	found := map[string]*pending{}
	addViolation := func(idx int, key, what string, rc replayCase) {
		p := found[key]
		if p == nil {
			found[key] = &pending{idx, what, rc, 1}
			return
		}
		p.count++
		if idx < p.idx {
			p.idx, p.what, p.rc = idx, what, rc
		}
	}
	c.RunShards(core.ShardOpts{
		N:       16,
		Args:    []string{strconv.FormatInt(deadline.Unix(), 10)},
		Silence: 45 * time.Second,
		Confirm: 1, // a death is confirmed once (alone) and then re-run by diagnoseDeath: 3 deterministic runs
		Env:     workerEnv,
		OnRecord: func(shard int, raw json.RawMessage) {
			var r record
			if err := json.Unmarshal(raw, &r); err != nil {
				c.Capped("unparsable worker record: " + err.Error())
				return
			}
			switch r.T {
			case "v":
				addViolation(r.Idx, r.Key, r.What+"\ncase: "+r.Desc, replayCase{Desc: r.Desc, Text: r.Text, CheckOnly: r.CheckOnly})
			case "s":
				c.Eval(int64(r.N))
				for k, v := range r.Out {
					c.Outcome(k, int64(v))
				}
				for _, m := range r.Msgs {
					msgs[m] = true
				}
				for k, v := range r.Us {
					cpu[k] += v
				}
				if data, err := base64.RawStdEncoding.DecodeString(r.H); err == nil {
					for i := 0; i+8 <= len(data); i += 8 {
						hashes = append(hashes, binary.LittleEndian.Uint64(data[i:]))
					}
				}
			case "cap":
				if cappedAt < 0 || r.Idx < cappedAt {
					cappedAt = r.Idx
				}
			}
		},
		OnDeath: func(idx int, desc, how, tail string) {
			text, d := textOf(idx)
			c.Eval(1)
			c.Outcome("death", 1)
			c.Add("stats_lost_upper_bound", statsBatch)
			key, excerpt := diagnoseDeath(text, how, tail)
			addViolation(idx, key, fmt.Sprintf("worker died (%s) while compiling case %d (%s); stderr:\n%s", how, idx, d, excerpt), replayCase{Desc: d, Text: text})
		},
	})
	var keys []string
	for k := range found {
		keys = append(keys, k)
	}
	sort.Slice(keys, func(i, j int) bool { return found[keys[i]].idx < found[keys[j]].idx })
	for _, k := range keys {
		p := found[k]
		for i := 0; i < p.count; i++ {
			c.Violate(k, p.what, p.rc)
		}
	}
	if cappedAt >= 0 {
		c.Capped(fmt.Sprintf("time budget: enumeration stopped near case %d of %d", cappedAt, planned))
	}
	// distinct texts / distinct texts that passed the parser
	sort.Slice(hashes, func(i, j int) bool { return hashes[i] < hashes[j] })
	distinct, nontrivial := 0, 0
	for i := 0; i < len(hashes); {
		j := i
		parsed := false
		for j < len(hashes) && hashes[j]&^1 == hashes[i]&^1 {
			if hashes[j]&1 == 1 {
				parsed = true
			}
			j++
		}
		distinct++
		if parsed {
			nontrivial++
		}
		i = j
	}
	cpuMs := map[string]int{}
	for k, v := range cpu {
		cpuMs[k] = v / 1000
	}
	c.Set("cpu_ms_per_seed", cpuMs)
	c.Nontrivial(int64(nontrivial))
	c.Set("distinct_texts", distinct)
	var ml []string
	for m := range msgs {
		ml = append(ml, m)
	}
	sort.Strings(ml)
	c.Set("distinct_diagnostic_templates", len(ml))
	if len(ml) > 400 {
		ml = ml[:400]
	}
	c.Set("diagnostic_templates", ml)
}

func replay(c *core.Ctx, raw json.RawMessage) error {
	var r replayCase
	if err := json.Unmarshal(raw, &r); err != nil {
		return err
	}
	dir, err := os.MkdirTemp("", "c22-replay")
	if err != nil {
		return err
	}
	defer os.RemoveAll(dir)
	p := filepath.Join(dir, "case.tm")
	if err := os.WriteFile(p, []byte(r.Text), 0o644); err != nil {
		return err
	}
	var fails []string
	c.RunShards(core.ShardOpts{
		N:       1,
		Args:    []string{"file", p},
		Silence: 45 * time.Second,
		Env:     workerEnv,
		Confirm: 1,
		OnRecord: func(shard int, raw json.RawMessage) {
			var rec record
			if json.Unmarshal(raw, &rec) == nil && rec.T == "v" {
				fails = append(fails, rec.Key+": "+rec.What)
			}
		},
		OnDeath: func(idx int, desc, how, tail string) {
			key, excerpt := diagnoseDeath(r.Text, how, tail)
			fails = append(fails, key+": worker died ("+how+")\n"+excerpt)
		},
	})
	if len(fails) > 0 {
		return fmt.Errorf("%s", strings.Join(fails, "\n"))
	}
	return nil
}
