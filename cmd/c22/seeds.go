package main

// Hand-written feature grammars (seeds). Each is small (well below 60 tm tokens where possible so that
// it takes part in the 2-deviation enumeration) and exercises one area of the compiler.

type namedText struct {
	Name string
	Text string
}

var featureSeeds = []namedText{
	// The known defect: optimizeTables + lalr(2) + a reduce/reduce conflict resolved by the second
	// lookahead token -> log.Fatal in lalr.Optimize.
	{"f-optla2", `language optla(go);
optimizeTables = true
:: lexer
ta: /a/
tb: /b/
tc: /c/
:: parser lalr(2)
%input S;
S: A ta tb | B ta tc;
A: ta;
B: ta;
`},
	{"f-lookahead", `language la(go);
maxLookahead = 2
:: lexer
a: /a/
b: /b/
:: parser
input: (?= P & !Q) a b | (?= Q) a a;
P: a b;
Q: a a;
`},
	{"f-templates", `language tpl(go);
:: lexer
a: /a/
b: /b/
:: parser
%flag F;
%flag G = false;
%lookahead flag L = false;
input: N<+F> M<~F>;
N<F>: [F] a | [!F] b;
M<F, G>: [F && !G] a | [!F || G] b K<+L>;
K: [L] a | [!L] b;
`},
	{"f-sets", `language sets(go);
:: lexer
a: /a/
b: /b/
c: /c/
:: parser
%generate s = set(first X | ~follow Y & a);
%assert nonempty set(X);
input: X Y set(~(a | eoi))*;
X: a | b;
Y: c;
`},
	{"f-prec", `language prec(go);
:: lexer
n: /[0-9]+/
'+': /\+/
'*': /\*/
'-': /-/
:: parser
%left '+';
%left '*';
%nonassoc '-';
input: e;
e: e '+' e | e '*' e | '-' e %prec '*' | n;
`},
	{"f-midrule", `language mid(go);
:: lexer
a {int}: /a/
b: /b/
:: parser
input {int}: a { mid($a) } b { $$ = $a } | x=b .mark y=a { use($x, $y) };
`},
	{"f-recover", `language rec(go);
eventBased = true
:: lexer
error:
invalid_token:
a: /a/
';': /;/
:: parser
%inject invalid_token -> Bad;
input -> File: stmt+;
stmt -> Stmt: a ';' | error ';' -> Broken;
`},
	{"f-inject", `language inj(go);
eventBased = true
eventFields = true
:: lexer
ws: /[ \t]+/ (space)
cm: /#[^\n]*/ (space)
id: /[a-z]+/ (class)
'if': /if/
:: parser
%inject cm -> Comment;
%interface Node;
input -> Root: (x+=item)+ ;
item -> Node: id -> Name | 'if' id -> If/Cond;
`},
	{"f-startconds", `language sc(go);
:: lexer
%s initial, inside;
%x str;
hex = /[0-9a-f]/
<initial, inside> a: /a{hex}/
<*> q: /"/ { l.State = StateStr }
<str> {
  ch: /[^"]/
  e: /\\{hex}{2}/ 1
}
:: parser
input: a q ch* e? q;
`},
	{"f-lists", `language lists(go);
optInstantiationSuffix = "opt"
:: lexer
a: /a/
',': /,/
';': /;/
'+': /\+/
:: parser
%expect 0;
input: (a separator ',')+ ';' tail? ';' Uopt;
tail: ('+' a)* '+' | extra;
inline extra: a a a;
U: a;
extend tail: a a;
`},
	// named token sets that refer to each other, with and without template parameters in the grammar
	// (templates route the sets through syntax.Instantiate, inline use through syntax.Expand)
	{"f-namedsets-tpl", `language ns(go);
:: lexer
a: /a/
b: /b/
c: /c/
:: parser
%flag F;
%generate s1 = set(a | b);
%generate s2 = set(s1 | c);
input: q<+F> set(s2 | a);
q<F>: [F] a | [!F] b;
`},
	{"f-namedsets", `language ns(go);
:: lexer
a: /a/
b: /b/
c: /c/
:: parser
%generate s1 = set(a | b);
%generate s2 = set(s1 | c);
input: q set(s2 | a);
q: a | c set(s1 & ~b);
`},
}

// jsMini is a hand cut-down of parsers/js/js.tm (header options, start conditions, flags,
// lookahead flags, runtime lookaheads, precedence, reporting, error recovery, sets).
const jsMini = `language jsmini(go);

lang = "js"
package = "example.com/jsmini"
nonBacktracking = true
eventBased = true
eventFields = true
eventAST = true
fileNode = "File"
recursiveLookaheads = true
optimizeTables = true
extraTypes = ["InsertedSemicolon"]

:: lexer

%s initial, div;

<*> eoi: /{eoi}/

invalid_token:
error:

<initial, div> {
  WhiteSpace: /[\t\x20\n\r]/ (space)
  SingleLineComment: /\/\/[^\n\r]*/ (space)
}

Identifier: /[a-zA-Z_$][a-zA-Z_0-9$]*/ (class)
'let': /let/
'in': /in/
'yield': /yield/
'function': /function/
'{': /\{/
'}': /\}/
'(': /\(/
')': /\)/
'[': /\[/
']': /\]/
';': /;/
',': /,/
'=': /=/
'=>': /=>/
'+': /\+/
'*': /\*/
'?': /\?/
':': /:/
NumericLiteral: /[0-9]+/
<div> '/': /\//

:: parser

%input Module, ExpressionSnippet;

%inject SingleLineComment -> SingleLineComment;
%inject invalid_token -> InvalidToken;

ExpressionSnippet:
    Expression<+In, ~Yield> ;

%assert empty set(follow error & ~('}' | ')' | ',' | ';' | ']'));
%generate beforeSemi = set(precede ';');

%flag In;
%flag Yield;
%flag NoAsync = false;
%lookahead flag NoLet = false;
%lookahead flag NoObjLiteral = false;

SyntaxError -> SyntaxProblem:
    error ;

IdentifierReference<Yield> -> ReferenceIdent:
    Identifier
  | [!Yield] 'yield'
  | [!NoLet] 'let'
;

BindingIdentifier -> NameIdent:
    Identifier ;

%interface Expr, Stmt;

PrimaryExpression<Yield> -> Expr /* interface */:
    (?= !StartOfArrowFunction) IdentifierReference
  | NumericLiteral                                      -> Literal
  | '[' (AssignmentExpression<+In> separator ',')* ']'  -> ArrayLiteral
  | [!NoObjLiteral] '{' (Property separator ',')* '}'   -> ObjectLiteral
  | (?= !StartOfArrowFunction) '(' Expression<+In> ')'  -> Parenthesized
;

Property<Yield> -> Property:
    BindingIdentifier ':' value=AssignmentExpression<+In>
  | SyntaxError
;

StartOfArrowFunction:
    BindingIdentifier '=>'
  | '(' (BindingIdentifier separator ',')* ')' '=>'
;

%left 'in';
%left '+';
%left '*';

BinaryExpression<In, Yield> -> Expr /* interface */:
    PrimaryExpression
  | left=BinaryExpression '+' right=BinaryExpression    -> AdditiveExpr
  | left=BinaryExpression '*' right=BinaryExpression    -> MultiplicativeExpr
  | [In] left=BinaryExpression 'in' right=PrimaryExpression -> InExpr
;

AssignmentExpression<In, Yield> -> Expr /* interface */:
    BinaryExpression
  | cond=BinaryExpression '?' then=AssignmentExpression<+In> ':' else=AssignmentExpression -> ConditionalExpr
  | [Yield] 'yield' AssignmentExpression                 -> Yield
  | (?= StartOfArrowFunction) ArrowParameters '=>' ConciseBody -> ArrowFunc
  | left=PrimaryExpression '=' right=AssignmentExpression -> AssignmentExpr
;

ArrowParameters -> Parameters:
    BindingIdentifier
  | '(' (BindingIdentifier separator ',')* ')'
;

ConciseBody<In> -> Body:
    AssignmentExpression<~Yield, +NoObjLiteral>
  | Block<~Yield>
;

Expression<In, Yield> -> Expr /* interface */:
    AssignmentExpression
  | left=Expression ',' right=AssignmentExpression       -> CommaExpr
;

Block<Yield> -> Block:
    '{' .recoveryScope Statement* '}' ;

Statement<Yield> -> Stmt /* interface */:
    Block
  | 'let' (LexicalBinding<+In> separator ',')+ ';'       -> LetStmt
  | Expression<+In, +NoLet, +NoObjLiteral> ';'           -> ExprStmt
  | 'function' BindingIdentifier '(' ')' Block<+Yield>   -> Func
  | ';' .emptyStatement                                  -> EmptyStmt
  | SyntaxError ';'
;

LexicalBinding<In, Yield> -> LexicalBinding:
    BindingIdentifier ('=' AssignmentExpression)? ;

Module -> Module:
    Statement<~Yield>* ;

%%

{{define "onAfterParser"}}
func parserEnd() {}
{{end}}
`
