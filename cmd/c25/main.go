// C25: integer set algebra (util/container.IntSet: Merge, Intersect, Complement, Equals, Empty) and
// set-equation closure (util/set.Closure) against a bitmask reference.
//
// Reference model: a set over the universe U = {0..u-1} is a bitmask with u+1 bits; bit e < u says
// "e is a member", bit u (written ω below) says "every integer outside U is a member". This is exact
// for finite and co-finite sets whose listed elements all lie in U. Union = OR, intersection = AND,
// complement = XOR with all ones. The least solution of an equation system is computed SCC by SCC
// (dependencies first) with Kleene iteration from the empty set; a system is erroneous iff some
// complement node can reach itself.
//
// All code under test runs in worker subprocesses (shard protocol): util/set calls log.Fatal on
// broken invariants and slowClosure iterates "until nothing changes", so a regression may exit or
// never return; the parent only aggregates.
package main

import (
	"encoding/json"
	"fmt"
	"os"
	"sort"
	"strconv"
	"strings"
	"sync/atomic"
	"time"

	"github.com/inspirer/textmapper/util/container"
	"github.com/inspirer/textmapper/util/set"

	"verif/internal/core"
)

func main() { core.Main("C25", "exploration", run, replay, worker) }

// ---------------------------------------------------------------------------------------------
// Case description (also the replay value).

type setv struct {
	Inv bool  `json:"inv,omitempty"`
	Set []int `json:"set"`
}

func (s setv) String() string {
	p := ""
	if s.Inv {
		p = "~"
	}
	return fmt.Sprintf("%s%v", p, s.Set)
}

// node of an equation system, built through the public API in index order:
//
//	"u": X = Const ∪ ⋃ Refs      c.Add(Const) ... X.Include(Refs...)   (Refs may point anywhere, also to X)
//	"i": X = ⋂ Refs              c.Intersect(Refs...)                  (Refs < own index: API needs existing sets)
//	"c": X = ¬Refs[0]            c.Complement(Refs[0], nil)            (Refs[0] < own index)
type node struct {
	Op    string `json:"op"`
	Const []int  `json:"const,omitempty"`
	Refs  []int  `json:"refs,omitempty"`
}

type tcase struct {
	Kind string `json:"kind"` // "intset" | "closure"
	U    int    `json:"u"`    // universe size
	// intset
	Op    string `json:"op,omitempty"` // merge | intersect | complement | equals | empty
	A     *setv  `json:"a,omitempty"`
	B     *setv  `json:"b,omitempty"`
	Reuse string `json:"reuse,omitempty"` // nil | cap0 | cap1 | exact | big | alias-a | alias-b
	// closure
	Buf   int    `json:"buf,omitempty"` // NewClosure(bufSize)
	Nodes []node `json:"nodes,omitempty"`
}

// ---------------------------------------------------------------------------------------------
// Reference: bitmasks.

func maskToSet(mask uint, u int) setv {
	inv := mask>>uint(u)&1 == 1
	s := setv{Inv: inv, Set: []int{}}
	for e := 0; e < u; e++ {
		if (mask>>uint(e)&1 == 1) != inv {
			s.Set = append(s.Set, e)
		}
	}
	return s
}

func setvMask(s setv, u int) uint {
	var m uint
	for _, e := range s.Set {
		m |= 1 << uint(e)
	}
	if s.Inv {
		m ^= 1<<uint(u+1) - 1
	}
	return m
}

// intsetMask converts a result of the code under test; it must be strictly sorted and list only
// elements of U (anything else is not the exact representation of a finite/co-finite set over U).
func intsetMask(s container.IntSet, u int) (uint, error) {
	var m uint
	for i, e := range s.Set {
		if e < 0 || e >= u {
			return 0, fmt.Errorf("element %d outside the universe {0..%d} in %v", e, u-1, s)
		}
		if i > 0 && s.Set[i-1] >= e {
			return 0, fmt.Errorf("not strictly sorted: %v", s)
		}
		m |= 1 << uint(e)
	}
	if s.Inverse {
		m ^= 1<<uint(u+1) - 1
	}
	return m, nil
}

func clone(s []int) []int { return append([]int(nil), s...) }

func sameInts(a, b []int) bool {
	if len(a) != len(b) {
		return false
	}
	for i := range a {
		if a[i] != b[i] {
			return false
		}
	}
	return true
}

// ---------------------------------------------------------------------------------------------
// IntSet algebra.

const sentinel = -7 // pre-fills reuse buffers; never a member of U

var reuseVariants = []string{"nil", "cap0", "cap1", "exact", "big", "alias-a", "alias-b"}

func kindName(inv bool) string {
	if inv {
		return "inv"
	}
	return "fin"
}

// aliasDemanded: the statement is silent about `reuse` overlapping an operand. We demand exactness
// only for in-place filtering, i.e. when the element list of the result is by set algebra a
// sub-list of the aliased operand's list (A∩B ⊆ A,B; A\B ⊆ A; ~A∪~B = ~(A∩B)); there the output can
// never overtake the input. The remaining overlaps (result list = union of both lists, or the
// aliased operand is the subtrahend) are executed and only classified (outcome "hazard:...").
func aliasDemanded(op string, aInv, bInv bool, which byte) bool {
	if op == "merge" {
		aInv, bInv = !aInv, !bInv // De Morgan: same table on the complements
	}
	switch {
	case !aInv && !bInv:
		return true
	case !aInv && bInv:
		return which == 'a'
	case aInv && !bInv:
		return which == 'b'
	}
	return false
}

// checkIntset runs one IntSet case. hazard is a classification of a non-demanded aliasing variant.
func checkIntset(tc *tcase) (key, msg, hazard string) {
	u := tc.U
	full := uint(1)<<uint(u+1) - 1
	a := *tc.A
	am := setvMask(a, u)
	aSet := clone(a.Set)
	A := container.IntSet{Inverse: a.Inv, Set: aSet}
	switch tc.Op {
	case "empty":
		var got bool
		if err := core.Guard(func() { got = A.Empty() }); err != nil {
			return "intset:empty:panic", err.Error(), ""
		}
		if got != (am == 0) {
			return "intset:empty:wrong", fmt.Sprintf("%v.Empty() = %v", a, got), ""
		}
		return "", "", ""
	case "complement":
		var r, rr container.IntSet
		if err := core.Guard(func() { r = A.Complement(); rr = r.Complement() }); err != nil {
			return "intset:complement:panic", err.Error(), ""
		}
		gm, err := intsetMask(r, u)
		if err != nil {
			return "intset:complement:malformed", err.Error(), ""
		}
		if gm != am^full {
			return "intset:complement:wrong", fmt.Sprintf("%v.Complement() = %v", a, r), ""
		}
		if g2, err := intsetMask(rr, u); err != nil || g2 != am {
			return "intset:complement:involution", fmt.Sprintf("complement of complement of %v = %v", a, rr), ""
		}
		if !sameInts(aSet, a.Set) {
			return "intset:complement:input-mutated", fmt.Sprintf("operand %v became %v", a.Set, aSet), ""
		}
		return "", "", ""
	}
	b := *tc.B
	bm := setvMask(b, u)
	bSet := clone(b.Set)
	B := container.IntSet{Inverse: b.Inv, Set: bSet}
	if tc.Op == "equals" {
		var got bool
		if err := core.Guard(func() { got = A.Equals(B) }); err != nil {
			return "intset:equals:panic", err.Error(), ""
		}
		if got != (am == bm) {
			return "intset:equals:wrong", fmt.Sprintf("%v.Equals(%v) = %v", a, b, got), ""
		}
		return "", "", ""
	}
	var want uint
	switch tc.Op {
	case "merge":
		want = am | bm
	case "intersect":
		want = am & bm
	default:
		return "case:invalid", "unknown op " + tc.Op, ""
	}
	wantSet := maskToSet(want, u)
	var reuse []int
	filled := func(n int) []int {
		r := make([]int, n)
		for i := range r {
			r[i] = sentinel
		}
		return r
	}
	demanded := true
	switch tc.Reuse {
	case "nil", "":
	case "cap0":
		reuse = make([]int, 0)
	case "cap1":
		reuse = filled(1)
	case "exact":
		reuse = filled(len(wantSet.Set))
	case "big":
		reuse = filled(2*u + 3)
	case "alias-a":
		reuse = aSet
		demanded = aliasDemanded(tc.Op, a.Inv, b.Inv, 'a')
	case "alias-b":
		reuse = bSet
		demanded = aliasDemanded(tc.Op, a.Inv, b.Inv, 'b')
	default:
		return "case:invalid", "unknown reuse variant " + tc.Reuse, ""
	}
	site := fmt.Sprintf("intset:%s:%s-%s", tc.Op, kindName(a.Inv), kindName(b.Inv))
	suffix := ""
	if strings.HasPrefix(tc.Reuse, "alias-") {
		suffix = ":inplace-reuse"
	}
	call := fmt.Sprintf("%s(%v, %v, reuse=%s)", tc.Op, a, b, tc.Reuse)
	var res container.IntSet
	err := core.Guard(func() {
		if tc.Op == "merge" {
			res = container.Merge(A, B, reuse)
		} else {
			res = container.Intersect(A, B, reuse)
		}
	})
	fail := func(class, m string) (string, string, string) {
		if !demanded {
			return "", "", fmt.Sprintf("hazard:%s:%s-%s:%s:%s", tc.Op, kindName(a.Inv), kindName(b.Inv), tc.Reuse, class)
		}
		return site + ":" + class + suffix, call + ": " + m, ""
	}
	if err != nil {
		return fail("panic", err.Error())
	}
	gm, merr := intsetMask(res, u)
	if merr != nil {
		return fail("malformed", merr.Error())
	}
	if gm != want {
		return fail("wrong", fmt.Sprintf("= %v, want %v", res, wantSet))
	}
	if tc.Reuse != "alias-a" && !sameInts(aSet, a.Set) {
		return fail("input-mutated", fmt.Sprintf("first operand %v became %v", a.Set, aSet))
	}
	if tc.Reuse != "alias-b" && !sameInts(bSet, b.Set) {
		return fail("input-mutated", fmt.Sprintf("second operand %v became %v", b.Set, bSet))
	}
	if !demanded {
		return "", "", fmt.Sprintf("hazard:%s:%s-%s:%s:exact", tc.Op, kindName(a.Inv), kindName(b.Inv), tc.Reuse)
	}
	return "", "", ""
}

// ---------------------------------------------------------------------------------------------
// Closure: reference solver.

// solve returns the least solution as masks, or isErr when a complement node lies on a cycle.
func solve(u int, nodes []node) (vals []uint, isErr bool) {
	n := len(nodes)
	full := uint(1)<<uint(u+1) - 1
	reach := make([][]bool, n)
	for i := range reach {
		reach[i] = make([]bool, n)
		for _, r := range nodes[i].Refs {
			reach[i][r] = true
		}
	}
	for k := 0; k < n; k++ {
		for i := 0; i < n; i++ {
			if reach[i][k] {
				for j := 0; j < n; j++ {
					if reach[k][j] {
						reach[i][j] = true
					}
				}
			}
		}
	}
	for i, nd := range nodes {
		if nd.Op == "c" && reach[i][i] {
			return nil, true
		}
	}
	comp := make([]int, n)
	for i := range comp {
		comp[i] = i
		for j := 0; j < i; j++ {
			if reach[i][j] && reach[j][i] {
				comp[i] = comp[j]
				break
			}
		}
	}
	vals = make([]uint, n)
	done := make([]bool, n)
	eval := func(i int) uint {
		nd := nodes[i]
		switch nd.Op {
		case "u":
			var v uint
			for _, e := range nd.Const {
				v |= 1 << uint(e)
			}
			for _, r := range nd.Refs {
				v |= vals[r]
			}
			return v
		case "i":
			v := full
			for _, r := range nd.Refs {
				v &= vals[r]
			}
			return v
		default:
			return full ^ vals[nd.Refs[0]]
		}
	}
	for left := n; left > 0; {
		progress := false
		for k := 0; k < n; k++ {
			if comp[k] != k || done[k] {
				continue
			}
			ready := true
			for i := 0; i < n && ready; i++ {
				if comp[i] != k {
					continue
				}
				for _, r := range nodes[i].Refs {
					if comp[r] != k && !done[r] {
						ready = false
					}
				}
			}
			if !ready {
				continue
			}
			// Kleene iteration from bottom; all operators inside an SCC are monotone here because a
			// complement node on a cycle was rejected above (a complement is always a singleton SCC).
			for changed := true; changed; {
				changed = false
				for i := 0; i < n; i++ {
					if comp[i] == k {
						if v := eval(i); v != vals[i] {
							vals[i] = v
							changed = true
						}
					}
				}
			}
			for i := 0; i < n; i++ {
				if comp[i] == k {
					done[i] = true
					left--
				}
			}
			progress = true
		}
		if !progress {
			panic("reference solver: no ready component")
		}
	}
	return vals, false
}

func validSystem(u int, nodes []node) error {
	for i, nd := range nodes {
		for _, e := range nd.Const {
			if e < 0 || e >= u {
				return fmt.Errorf("node %d: constant outside universe", i)
			}
		}
		for _, r := range nd.Refs {
			if r < 0 || r >= len(nodes) {
				return fmt.Errorf("node %d: bad reference", i)
			}
			if nd.Op != "u" && r >= i {
				return fmt.Errorf("node %d: %s can only refer to earlier sets", i, nd.Op)
			}
		}
		switch nd.Op {
		case "u", "i":
		case "c":
			if len(nd.Refs) != 1 {
				return fmt.Errorf("node %d: complement needs one reference", i)
			}
		default:
			return fmt.Errorf("node %d: unknown op", i)
		}
		if nd.Op != "u" && len(nd.Const) != 0 {
			return fmt.Errorf("node %d: only unions carry constants", i)
		}
	}
	return nil
}

// runSys builds the system through the public API and computes it.
func runSys(buf int, nodes []node) (vals []container.IntSet, cerr error, mutated string, perr error) {
	n := len(nodes)
	vals = make([]container.IntSet, n)
	perr = core.Guard(func() {
		c := set.NewClosure(buf)
		fs := make([]*set.FutureSet, n)
		consts := make([][]int, n)
		args := func(refs []int) []*set.FutureSet {
			out := make([]*set.FutureSet, len(refs))
			for i, r := range refs {
				out[i] = fs[r]
			}
			return out
		}
		for i, nd := range nodes {
			switch nd.Op {
			case "u":
				consts[i] = clone(nd.Const)
				fs[i] = c.Add(consts[i])
			case "i":
				fs[i] = c.Intersect(args(nd.Refs)...)
			case "c":
				fs[i] = c.Complement(fs[nd.Refs[0]], nil)
			}
		}
		for i, nd := range nodes {
			if nd.Op == "u" && len(nd.Refs) > 0 {
				fs[i].Include(args(nd.Refs)...)
			}
		}
		cerr = c.Compute()
		for i := range fs {
			vals[i] = fs[i].IntSet
			if nodes[i].Op == "u" && !sameInts(consts[i], nodes[i].Const) {
				mutated = fmt.Sprintf("slice passed to Add for node %d became %v", i, consts[i])
			}
		}
	})
	return
}

func sysString(nodes []node) string {
	var sb strings.Builder
	for i, nd := range nodes {
		if i > 0 {
			sb.WriteString("; ")
		}
		fmt.Fprintf(&sb, "X%d=", i)
		var parts []string
		for _, r := range nd.Refs {
			parts = append(parts, "X"+strconv.Itoa(r))
		}
		switch nd.Op {
		case "u":
			s := fmt.Sprint(append([]int{}, nd.Const...))
			if len(parts) > 0 {
				s += "∪" + strings.Join(parts, "∪")
			}
			sb.WriteString(s)
		case "i":
			sb.WriteString("∩(" + strings.Join(parts, ",") + ")")
		case "c":
			sb.WriteString("~" + strings.Join(parts, ""))
		}
	}
	return sb.String()
}

// compare returns the indices of nodes whose computed value differs from the reference.
func compare(u int, vals []container.IntSet, want []uint) (wrong []int, detail string) {
	for i := range want {
		gm, err := intsetMask(vals[i], u)
		if err != nil || gm != want[i] {
			wrong = append(wrong, i)
			if detail == "" {
				detail = fmt.Sprintf("X%d = %v, want %v", i, vals[i], maskToSet(want[i], u))
				if err != nil {
					detail += " (" + err.Error() + ")"
				}
			}
		}
	}
	return
}

// reachability is the transitive closure of the dependency relation (i depends on its Refs).
func reachability(nodes []node) [][]bool {
	n := len(nodes)
	reach := make([][]bool, n)
	for i := range reach {
		reach[i] = make([]bool, n)
		for _, r := range nodes[i].Refs {
			reach[i][r] = true
		}
	}
	for k := 0; k < n; k++ {
		for i := 0; i < n; i++ {
			if reach[i][k] {
				for j := 0; j < n; j++ {
					if reach[k][j] {
						reach[i][j] = true
					}
				}
			}
		}
	}
	return reach
}

// sccPath names the code path that computes the strongly connected component of node i:
// Closure.closure hands a component containing an intersection to slowClosure ("slow-path") and
// merges everything else itself ("complement-node" for the singleton component of a complement,
// "union-path" otherwise).
func sccPath(nodes []node, reach [][]bool, i int) (path string, wideIntersection bool) {
	path = "union-path"
	if nodes[i].Op == "c" {
		path = "complement-node"
	}
	for j, nd := range nodes {
		if (j == i || (reach[i][j] && reach[j][i])) && nd.Op == "i" {
			path = "slow-path"
			if len(nd.Refs) >= 2 {
				wideIntersection = true
			}
		}
	}
	return
}

// checkClosure runs one equation system. class is the outcome class for the evidence.
func checkClosure(tc *tcase) (key, msg, class string) {
	if err := validSystem(tc.U, tc.Nodes); err != nil {
		return "case:invalid", err.Error(), ""
	}
	nodes := tc.Nodes
	hasI, hasC := false, false
	for _, nd := range nodes {
		hasI = hasI || nd.Op == "i"
		hasC = hasC || nd.Op == "c"
	}
	shape := "unions"
	if hasI {
		shape = "intersection"
		if hasC {
			shape = "intersection+complement"
		}
	} else if hasC {
		shape = "complement"
	}
	desc := func() string {
		return fmt.Sprintf("NewClosure(%d) {%s} over {0..%d}: ", tc.Buf, sysString(nodes), tc.U-1)
	}
	want, wantErr := solve(tc.U, nodes)
	vals, cerr, mutated, perr := runSys(tc.Buf, nodes)
	if perr != nil {
		return "closure:panic:" + core.PanicSite(perr), desc() + perr.Error(), ""
	}
	if wantErr != (cerr != nil) {
		if !wantErr {
			return "closure:error-spurious:" + shape, desc() + "no complement on a cycle but Compute() = " + cerr.Error(), ""
		}
		// name the code path of the (first) offending complement's component
		reach := reachability(nodes)
		path := "?"
		for i, nd := range nodes {
			if nd.Op == "c" && reach[i][i] {
				path, _ = sccPath(nodes, reach, i)
				if path == "complement-node" {
					path = "union-path"
				}
				break
			}
		}
		return "closure:error-missing:" + path, desc() + "a complement lies on a dependency cycle but Compute() returned nil", ""
	}
	if mutated != "" {
		return "closure:input-mutated", desc() + mutated, ""
	}
	if wantErr {
		return "", "", "error:complement-on-cycle:" + shape
	}
	wrong, detail := compare(tc.U, vals, want)
	if len(wrong) == 0 {
		return "", "", "solved:" + shape
	}
	// Localize: a wrong node is a root cause candidate when everything it depends on outside its own
	// strongly connected component is exact; the component's code path goes into the key.
	reach := reachability(nodes)
	isWrong := make([]bool, len(nodes))
	for _, i := range wrong {
		isWrong[i] = true
	}
	path, wide := "", false
	for _, i := range wrong {
		root := true
		for j := range nodes {
			if reach[i][j] && isWrong[j] && !(j == i || reach[j][i]) {
				root = false
			}
		}
		if root {
			path, wide = sccPath(nodes, reach, i)
			break
		}
	}
	if path == "" {
		path = "unlocalized"
	}
	// The reuse buffer can only be overwritten while it is shared, which needs cap(c.buf) >= result
	// length; with NewClosure(0) every append reallocates. A system solved exactly with bufSize 0 but
	// not with this bufSize is therefore a buffer-aliasing failure. In slowClosure only the loop over
	// the operands of an intersection keeps a result in c.buf between two steps (unions intern, i.e.
	// copy, after every Merge), and it needs >= 2 operands to do harm: that is the class
	// closure:intersect-aliasing; any other buffer dependence gets closure:buffer-dependent:<path>.
	if tc.Buf != 0 {
		v0, e0, _, p0 := runSys(0, nodes)
		if p0 == nil && e0 == nil {
			if w0, _ := compare(tc.U, v0, want); len(w0) == 0 {
				if path == "slow-path" && wide {
					return "closure:intersect-aliasing", desc() + detail + " (exact with NewClosure(0))", ""
				}
				return "closure:buffer-dependent:" + path, desc() + detail + " (exact with NewClosure(0))", ""
			}
		}
	}
	return "closure:wrong-solution:" + path, desc() + detail, ""
}

func check(tc *tcase) (key, msg, class string) {
	switch tc.Kind {
	case "intset":
		if tc.A == nil || (tc.B == nil && tc.Op != "empty" && tc.Op != "complement") {
			return "case:invalid", "missing operand", ""
		}
		return checkIntset(tc)
	case "closure":
		return checkClosure(tc)
	}
	return "case:invalid", "unknown kind", ""
}

// ---------------------------------------------------------------------------------------------
// Enumeration: a deterministic list of blocks; every block is a deterministic list of cases.

type block struct {
	desc  string
	count int64 // cases in the block (for the parent's completeness accounting)
	each  func(f func(tc *tcase, nontrivial bool))
}

var bufSizes = []int{0, 2, 16}

type sysFamily struct {
	n, u        int
	reversed    bool // union reference pairs also in descending order
	unionRefMax int
	interMax    int   // max arity of an intersection
	bufs        []int // NewClosure(bufSize) values; nil = bufSizes
}

func (f sysFamily) bufSizes() []int {
	if f.bufs != nil {
		return f.bufs
	}
	return bufSizes
}

func (f sysFamily) String() string {
	return fmt.Sprintf("systems n=%d u=%d unionRefs<=%d%s interArity<=%d", f.n, f.u, f.unionRefMax, map[bool]string{true: "+reversed", false: ""}[f.reversed], f.interMax)
}

// options lists the possible equations for node i, simplest first.
func (f sysFamily) options(i int) []node {
	var out []node
	var refLists [][]int
	refLists = append(refLists, nil)
	for r := 0; r < f.n; r++ {
		refLists = append(refLists, []int{r})
	}
	if f.unionRefMax >= 2 {
		for r := 0; r < f.n; r++ {
			for s := r + 1; s < f.n; s++ {
				refLists = append(refLists, []int{r, s})
				if f.reversed {
					refLists = append(refLists, []int{s, r})
				}
			}
		}
	}
	if f.unionRefMax >= 3 {
		for r := 0; r < f.n; r++ {
			for s := r + 1; s < f.n; s++ {
				for t := s + 1; t < f.n; t++ {
					refLists = append(refLists, []int{r, s, t})
					if f.reversed {
						refLists = append(refLists, []int{t, s, r})
					}
				}
			}
		}
	}
	for _, refs := range refLists {
		for m := uint(0); m < 1<<uint(f.u); m++ {
			out = append(out, node{Op: "u", Const: maskToSet(m, f.u).Set, Refs: refs})
		}
	}
	// Intersections: ordered tuples (with repetition) of earlier nodes. The intersection of zero sets
	// is the universal set ~[] in the implementation (for >= 2 nodes); the statement is silent, so
	// that convention is adopted, and the degenerate one-node system consisting of an empty
	// intersection alone (Compute does nothing for fewer than 2 nodes) is not enumerated.
	if f.n >= 2 {
		out = append(out, node{Op: "i"})
	}
	// by arity so that simpler equations come first
	for ar := 1; ar <= f.interMax; ar++ {
		var gen func(prefix []int)
		gen = func(prefix []int) {
			if len(prefix) == ar {
				out = append(out, node{Op: "i", Refs: clone(prefix)})
				return
			}
			for r := 0; r < i; r++ {
				gen(append(prefix, r))
			}
		}
		gen(nil)
	}
	for r := 0; r < i; r++ {
		out = append(out, node{Op: "c", Refs: []int{r}})
	}
	return out
}

const sysChunk = 8192

func (f sysFamily) blocks() []block {
	opts := make([][]node, f.n)
	total := int64(1)
	for i := range opts {
		opts[i] = f.options(i)
		total *= int64(len(opts[i]))
	}
	var out []block
	for lo := int64(0); lo < total; lo += sysChunk {
		lo, hi := lo, lo+sysChunk
		if hi > total {
			hi = total
		}
		out = append(out, block{
			desc:  fmt.Sprintf("%v codes [%d,%d)", f, lo, hi),
			count: (hi - lo) * int64(len(f.bufSizes())),
			each: func(fn func(tc *tcase, nontrivial bool)) {
				nodes := make([]node, f.n)
				for code := lo; code < hi; code++ {
					x := code
					nt := false
					for i := 0; i < f.n; i++ {
						k := int64(len(opts[i]))
						nodes[i] = opts[i][x%k]
						x /= k
						if nodes[i].Op != "u" || len(nodes[i].Refs) > 0 {
							nt = true
						}
					}
					for _, b := range f.bufSizes() {
						fn(&tcase{Kind: "closure", U: f.u, Buf: b, Nodes: nodes}, nt)
					}
				}
			},
		})
	}
	return out
}

// exprFamily: m operands, each a constant over {0..u-1} or the complement of one (separate complement
// node), combined by one intersection or one union, operands in the given order. Reaches 2m+1 nodes
// and in particular ~A ∩ ~B with unrelated A, B, which needs 5 nodes.
type exprFamily struct{ u, m int }

func (f exprFamily) blocks() []block {
	per := int64(2) << uint(f.u) // constant x complemented?
	total := int64(2)
	for j := 0; j < f.m; j++ {
		total *= per
	}
	var out []block
	for lo := int64(0); lo < total; lo += sysChunk {
		lo, hi := lo, lo+sysChunk
		if hi > total {
			hi = total
		}
		out = append(out, block{
			desc:  fmt.Sprintf("expressions u=%d operands=%d codes [%d,%d)", f.u, f.m, lo, hi),
			count: (hi - lo) * int64(len(bufSizes)),
			each: func(fn func(tc *tcase, nontrivial bool)) {
				for code := lo; code < hi; code++ {
					x := code
					op := "i"
					if x%2 == 1 {
						op = "u"
					}
					x /= 2
					var nodes []node
					var refs []int
					for j := 0; j < f.m; j++ {
						v := x % per
						x /= per
						nodes = append(nodes, node{Op: "u", Const: maskToSet(uint(v>>1), f.u).Set})
						if v&1 == 1 {
							nodes = append(nodes, node{Op: "c", Refs: []int{len(nodes) - 1}})
						}
						refs = append(refs, len(nodes)-1)
					}
					nodes = append(nodes, node{Op: op, Refs: refs})
					for _, b := range bufSizes {
						fn(&tcase{Kind: "closure", U: f.u, Buf: b, Nodes: nodes}, true)
					}
				}
			},
		})
	}
	return out
}

func intsetBlocks(u int) []block {
	nsets := uint(2) << uint(u)
	var out []block
	// unary operations and Equals
	out = append(out, block{
		desc:  fmt.Sprintf("intset u=%d unary+equals", u),
		count: int64(nsets)*2 + int64(nsets)*int64(nsets),
		each: func(fn func(tc *tcase, nontrivial bool)) {
			for a := uint(0); a < nsets; a++ {
				sa := maskToSet(a, u)
				fn(&tcase{Kind: "intset", U: u, Op: "empty", A: &sa}, len(sa.Set) > 0)
				fn(&tcase{Kind: "intset", U: u, Op: "complement", A: &sa}, len(sa.Set) > 0)
			}
			for a := uint(0); a < nsets; a++ {
				for b := uint(0); b < nsets; b++ {
					sa, sb := maskToSet(a, u), maskToSet(b, u)
					fn(&tcase{Kind: "intset", U: u, Op: "equals", A: &sa, B: &sb}, len(sa.Set) > 0 && len(sb.Set) > 0)
				}
			}
		},
	})
	for _, op := range []string{"merge", "intersect"} {
		for a := uint(0); a < nsets; a++ {
			op, a := op, a
			out = append(out, block{
				desc:  fmt.Sprintf("intset u=%d %s a=%v", u, op, maskToSet(a, u)),
				count: int64(nsets) * int64(len(reuseVariants)),
				each: func(fn func(tc *tcase, nontrivial bool)) {
					for b := uint(0); b < nsets; b++ {
						sa, sb := maskToSet(a, u), maskToSet(b, u)
						for _, rv := range reuseVariants {
							// non-trivial: neither operand is the empty or the universal set, so one
							// of the sorted-slice primitives really runs
							fn(&tcase{Kind: "intset", U: u, Op: op, A: &sa, B: &sb, Reuse: rv}, len(sa.Set) > 0 && len(sb.Set) > 0)
						}
					}
				},
			})
		}
	}
	return out
}

func buildBlocks(quick bool) []block {
	var out []block
	// simplest first: set algebra on small universes, then equation systems by node count
	for u := 0; u <= 4; u++ {
		out = append(out, intsetBlocks(u)...)
	}
	if !quick {
		out = append(out, intsetBlocks(5)...)
		out = append(out, intsetBlocks(6)...)
	} else {
		out = append(out, intsetBlocks(5)...)
	}
	for n := 0; n <= 3; n++ {
		out = append(out, sysFamily{n: n, u: 3, reversed: true, unionRefMax: 2, interMax: 2}.blocks()...)
	}
	if quick {
		// over {0,1} no set lists more than 2 elements, so bufSize 2 already shares the buffer always
		out = append(out, sysFamily{n: 4, u: 2, reversed: false, unionRefMax: 2, interMax: 2, bufs: []int{0, 2}}.blocks()...)
	} else {
		out = append(out, sysFamily{n: 4, u: 2, reversed: true, unionRefMax: 2, interMax: 3, bufs: []int{0, 2}}.blocks()...)
	}
	out = append(out, exprFamily{u: 3, m: 2}.blocks()...)
	out = append(out, exprFamily{u: 3, m: 3}.blocks()...)
	out = append(out, exprFamily{u: 4, m: 2}.blocks()...)
	if !quick {
		out = append(out, exprFamily{u: 4, m: 3}.blocks()...)
		out = append(out, exprFamily{u: 2, m: 4}.blocks()...)
		out = append(out, sysFamily{n: 2, u: 4, reversed: true, unionRefMax: 2, interMax: 3}.blocks()...)
		out = append(out, sysFamily{n: 3, u: 3, reversed: true, unionRefMax: 3, interMax: 3}.blocks()...)
	}
	return out
}

// ---------------------------------------------------------------------------------------------
// Worker / parent protocol.

type vrec struct {
	Key   string `json:"key"`
	What  string `json:"what"`
	Case  tcase  `json:"case"`
	Seq   int64  `json:"seq"`
	Count int64  `json:"count"`
}

type summary struct {
	Block      int              `json:"block"`
	Evals      int64            `json:"evals"`
	Nontrivial int64            `json:"nontrivial"`
	Closure    int64            `json:"closure"`
	Outcomes   map[string]int64 `json:"outcomes"`
	Viol       []*vrec          `json:"viol,omitempty"`
	Sample     *tcase           `json:"sample,omitempty"`
	Stopped    bool             `json:"stopped,omitempty"`   // soft budget reached before this block
	Abandoned  bool             `json:"abandoned,omitempty"` // shard given up after a worker death (see worker)
	Hang       bool             `json:"hang,omitempty"`      // the worker gave up at a case that never returned
}

// hangAfter: a case (microseconds of work) that has not returned after this long is reported as a
// hang by the worker itself, which then ends its shard. This is a liveness guard like the shard
// protocol's silence kill, not a timing oracle; it only makes a systematic hang cheap to report.
const hangAfter = 20 * time.Second

// watchdog reports the case in flight when no case completes for hangAfter.
func watchdog(w *core.Worker, progress *atomic.Int64, cur *atomic.Pointer[tcase], block *atomic.Int64) {
	last, stale := int64(-1), 0
	for range time.Tick(time.Second) {
		if p := progress.Load(); p != last {
			last, stale = p, 0
			continue
		}
		stale++
		tc := cur.Load()
		if tc == nil || time.Duration(stale)*time.Second < hangAfter {
			continue
		}
		key := "closure:hang"
		if tc.Kind != "closure" {
			key = "intset:" + tc.Op + ":hang"
		}
		data, _ := json.Marshal(tc)
		w.Emit(summary{Block: int(block.Load()), Hang: true, Viol: []*vrec{{Key: key,
			What: fmt.Sprintf("case did not return within %v: %s", hangAfter, data), Case: cloneCase(tc), Count: 1}}})
		w.Flush()
		// end this shard in the protocol's terms: the main goroutine is stuck inside the code under test
		os.Stdout.WriteString("$ done\n")
		os.Exit(0)
	}
}

func cloneCase(tc *tcase) tcase {
	out := *tc
	if tc.A != nil {
		a := setv{tc.A.Inv, clone(tc.A.Set)}
		out.A = &a
	}
	if tc.B != nil {
		b := setv{tc.B.Inv, clone(tc.B.Set)}
		out.B = &b
	}
	out.Nodes = append([]node(nil), tc.Nodes...)
	return out
}

func worker(w *core.Worker) {
	var deadline time.Time
	if len(w.Args) > 0 {
		if ns, err := strconv.ParseInt(w.Args[0], 10, 64); err == nil {
			deadline = time.Unix(0, ns)
		}
	}
	blocks := buildBlocks(w.Quick())
	var progress, curBlock atomic.Int64
	var cur atomic.Pointer[tcase]
	go watchdog(w, &progress, &cur, &curBlock)
	for idx, b := range blocks {
		if !w.Mine(idx) {
			continue
		}
		if w.Only < 0 && !deadline.IsZero() && time.Now().After(deadline) {
			w.Emit(summary{Block: idx, Stopped: true})
			continue
		}
		if w.Only < 0 && w.Start > 0 {
			// This worker is the restart after a death in this shard. The death is reported with its
			// exact case and the run fails anyway; when the defect is systematic nearly every block dies
			// and each death costs three process starts, so the rest of the shard is given up (recorded
			// as not exhaustive) instead of being ground through.
			w.Emit(summary{Block: idx, Abandoned: true})
			continue
		}
		w.Case(idx, b.desc)
		curBlock.Store(int64(idx))
		sum := summary{Block: idx, Outcomes: map[string]int64{}}
		byKey := map[string]*vrec{}
		var seq int64
		sampleRich := false
		b.each(func(tc *tcase, nontrivial bool) {
			cur.Store(tc)
			progress.Add(1)
			if w.Only >= 0 {
				// confirmation run of a block in which the worker died: name every case on stderr so
				// that the parent can attribute the death to the exact case (last line of the tail)
				data, _ := json.Marshal(tc)
				fmt.Fprintf(os.Stderr, "CASE %s\n", data)
			}
			key, msg, class := check(tc)
			sum.Evals++
			if nontrivial {
				sum.Nontrivial++
			}
			if tc.Kind == "closure" {
				sum.Closure++
			}
			if class != "" {
				sum.Outcomes[class]++
			}
			if key != "" {
				if v := byKey[key]; v != nil {
					v.Count++
				} else {
					v = &vrec{Key: key, What: msg, Case: cloneCase(tc), Seq: seq, Count: 1}
					byKey[key] = v
					sum.Viol = append(sum.Viol, v)
				}
			} else if nontrivial && seq >= b.count/2 && (sum.Sample == nil || (!sampleRich && strings.HasSuffix(class, "intersection+complement"))) {
				s := cloneCase(tc)
				sum.Sample = &s
				sampleRich = strings.HasSuffix(class, "intersection+complement")
			}
			seq++
		})
		cur.Store(nil)
		w.Emit(sum)
		w.Flush()
	}
}

func lastCase(tail string) (json.RawMessage, bool) {
	i := strings.LastIndex(tail, "CASE ")
	if i < 0 {
		return nil, false
	}
	line := tail[i+5:]
	if j := strings.IndexByte(line, '\n'); j >= 0 {
		line = line[:j]
	}
	var tc tcase
	if json.Unmarshal([]byte(line), &tc) != nil {
		return nil, false
	}
	return json.RawMessage(line), true
}

func run(c *core.Ctx) {
	c.Rule("IntSet: every ordered pair of the 2^(u+1) finite/co-finite subsets of {0..u-1} (u<=5 quick, u<=6 thorough) x {Merge, Intersect} x 7 reuse-buffer variants (nil, cap 0, cap 1, exact, large pre-filled, aliasing operand a, aliasing operand b), plus Equals on every pair and Empty/Complement on every set; non-trivial = both operands list >= 1 element. " +
		"Closure: every equation system buildable through the API with n nodes over {0..u-1}: node = union(any constant, <=2 (thorough n=3: <=3) references to any nodes, both orders) | intersection(ordered tuple of <=2 (thorough <=3) earlier nodes, repetition allowed, arity 0 = universal) | complement(earlier node); quick: n<=3,u=3 and n=4,u=2 (union references ascending only); thorough adds n=4,u=2 with both orders and ternary intersections, n=3,u=3 with 3 references, n=2,u=4; plus expression systems (m<=3 (thorough 4) constants, each optionally complemented by its own node, combined by one intersection or union: up to 9 nodes); each system with NewClosure(0|2|16) (n=4 over {0,1}: 0|2, since no set there lists more than 2 elements); non-trivial = at least one reference or non-union node; all cases distinct by construction")
	c.Assume("IntSet values are judged as sets over Z through a universe {0..u-1} plus one 'every other integer' bit; results must be strictly sorted and list only universe elements")
	c.Assume("reuse overlapping an operand is demanded exact only for in-place filtering (result list is a sub-list of the aliased operand); other overlaps are classified as hazard:* outcomes, not violations")
	c.Assume("intersection of zero sets = universal set (implementation convention for >= 2 nodes); a closure consisting of a single empty intersection is not enumerated")
	blocks := buildBlocks(c.Quick())
	var expected int64
	for _, b := range blocks {
		expected += b.count
	}
	type best struct {
		block int
		v     *vrec
		count int64
	}
	viol := map[string]*best{}
	seen := make([]bool, len(blocks))
	var evals, closureEvals int64
	stopped, hangs, abandoned := 0, 0, 0
	c.RunShards(core.ShardOpts{
		N:       16,
		Env:     []string{"GOMAXPROCS=1", "GOGC=400"}, // 16 single-threaded workers: concurrent GC helpers only fight for the cores
		Args:    []string{strconv.FormatInt(c.Deadline.UnixNano(), 10)},
		Silence: 60 * time.Second,
		Confirm: 2, // deterministic code: two lone re-runs are enough to call a death reproducible
		OnRecord: func(shard int, rec json.RawMessage) {
			var s summary
			if err := json.Unmarshal(rec, &s); err != nil {
				c.Capped("unparsable worker record")
				return
			}
			if s.Stopped {
				stopped++
				return
			}
			if s.Abandoned {
				abandoned++
				return
			}
			if s.Hang {
				hangs++
				for _, v := range s.Viol {
					if b := viol[v.Key]; b == nil {
						viol[v.Key] = &best{s.Block, v, v.Count}
					} else {
						b.count += v.Count
					}
				}
				return
			}
			if s.Block >= 0 && s.Block < len(seen) {
				if seen[s.Block] {
					return // block re-run after an unreproducible death
				}
				seen[s.Block] = true
			}
			evals += s.Evals
			closureEvals += s.Closure
			c.Eval(s.Evals)
			c.Nontrivial(s.Nontrivial)
			for k, n := range s.Outcomes {
				c.Outcome(k, n)
			}
			for _, v := range s.Viol {
				b := viol[v.Key]
				if b == nil {
					viol[v.Key] = &best{s.Block, v, v.Count}
					continue
				}
				b.count += v.Count
				if s.Block < b.block {
					b.block, b.v = s.Block, v
				}
			}
			if s.Sample != nil && (s.Block%97 == 0 || c.SampleCount() < 2) {
				c.Sample(s.Sample)
			}
		},
		OnDeath: func(idx int, desc, how, tail string) {
			key := "worker:death"
			switch {
			case strings.Contains(how, "no progress"):
				key = "worker:hang"
			case strings.Contains(tail, "broken invariant") || strings.Contains(tail, "cannot expand"):
				key = "worker:log-fatal"
			}
			var rv any = map[string]any{"block": idx, "desc": desc}
			what := fmt.Sprintf("worker died in block %d (%s): %s", idx, desc, how)
			if raw, ok := lastCase(tail); ok {
				rv = raw
				what += " at case " + string(raw)
				var tc tcase
				json.Unmarshal(raw, &tc)
				if tc.Kind == "closure" {
					key = "closure:" + strings.TrimPrefix(key, "worker:")
				} else {
					key = "intset:" + tc.Op + ":" + strings.TrimPrefix(key, "worker:")
				}
			}
			if t := strings.TrimSpace(tail); t != "" {
				lines := strings.Split(t, "\n")
				what += " :: " + lines[len(lines)-1]
			}
			if idx >= 0 && idx < len(seen) {
				seen[idx] = true
			}
			c.Violate(key, what, rv)
		},
	})
	keys := make([]string, 0, len(viol))
	for k := range viol {
		keys = append(keys, k)
	}
	sort.Slice(keys, func(i, j int) bool {
		a, b := viol[keys[i]], viol[keys[j]]
		if a.block != b.block {
			return a.block < b.block
		}
		return a.v.Seq < b.v.Seq
	})
	counts := map[string]int64{}
	for _, k := range keys {
		b := viol[k]
		counts[k] = b.count
		n := b.count
		if n > 100000 {
			n = 100000
		}
		for i := int64(0); i < n; i++ { // Violate counts occurrences per call
			c.Violate(k, b.v.What, b.v.Case)
		}
	}
	if len(counts) > 0 {
		c.Set("violation_occurrences", counts)
	}
	c.Set("closure_systems_computed", closureEvals)
	c.Set("intset_evaluations", evals-closureEvals)
	c.Set("blocks", len(blocks))
	missing := 0
	for _, s := range seen {
		if !s {
			missing++
		}
	}
	if abandoned > 0 {
		c.Capped(fmt.Sprintf("%d of %d blocks not run: their shard was given up after a worker death", abandoned, len(blocks)))
		missing -= abandoned
	}
	if hangs > 0 {
		c.Capped(fmt.Sprintf("%d worker(s) ended their shard at a hanging case; %d of %d blocks not run", hangs, missing, len(blocks)))
	}
	if stopped > 0 {
		c.Capped(fmt.Sprintf("soft budget: %d of %d blocks not run", stopped, len(blocks)))
	} else if missing > 0 && hangs == 0 {
		c.Capped(fmt.Sprintf("%d of %d blocks produced no record", missing, len(blocks)))
	}
	c.Set("cases_planned", expected)
}

func replay(c *core.Ctx, raw json.RawMessage) error {
	var tc tcase
	if err := json.Unmarshal(raw, &tc); err != nil {
		return err
	}
	if tc.Kind == "" {
		return fmt.Errorf("replay value names a whole block, not a case: %s", raw)
	}
	type res struct{ key, msg string }
	ch := make(chan res, 1)
	go func() {
		key, msg, _ := check(&tc)
		ch <- res{key, msg}
	}()
	select {
	case r := <-ch:
		if r.key != "" {
			return fmt.Errorf("%s: %s", r.key, r.msg)
		}
		return nil
	case <-time.After(60 * time.Second):
		// only a liveness guard for replaying a recorded hang; a Compute takes microseconds
		return fmt.Errorf("no result after 60s (hang)")
	}
}
