// C23: the language server stays consistent under any message history and any
// scheduling of the asynchronous handler chain.
//
// This binary is only the driver. The harness itself has to be a test inside package
// main of <repo>/cmd/textmapper (only there can the real startLS be called, and
// synctest.Test needs a *testing.T), so on every run the driver
//
//  1. compiles, from the repository's working tree, `go test -c -tags verif` of
//     ./cmd/textmapper with an overlay that ADDS the harness files
//     (/verif/overlays/c23/*_test.go.txt) and the scheduler package
//     (/verif/internal/sched as <repo>/internal/c23sched) — nothing in the repository
//     is replaced or written (go.mod/go.sum are used through a -modfile copy);
//  2. runs the controlled pass: one phase per history depth, 16 single-P processes per
//     phase sharded by history index; a process that dies is attributed to the history
//     it announced, confirmed twice alone, and the shard is restarted behind it;
//     histories that extend a history on which the server already died are skipped
//     (the server is gone; nothing more can be learnt from them);
//  3. runs the free race pass with a -race build of the same harness.
package main

import (
	"bufio"
	"bytes"
	"encoding/json"
	"fmt"
	"os"
	"os/exec"
	"path/filepath"
	"regexp"
	"sort"
	"strconv"
	"strings"
	"sync"
	"time"

	"verif/internal/core"
)

func main() { core.Main("C23", "model_checking", run, replay, nil) }

// ---------------------------------------------------------------- building the harness

func binDir() string {
	if d := os.Getenv("VERIF_BIN"); d != "" {
		return d
	}
	return filepath.Join(core.Root(), "bin")
}

func workDir() string { return filepath.Join(binDir(), "c23-work") }

// buildHarness compiles the overlay test binary against the repository's working tree.
func buildHarness(race bool) (string, error) {
	repo := core.RepoDir()
	work := workDir()
	if err := os.MkdirAll(work, 0o755); err != nil {
		return "", err
	}
	replace := map[string]string{}
	ov, _ := filepath.Glob(filepath.Join(core.Root(), "overlays", "c23", "*_test.go.txt"))
	if len(ov) == 0 {
		return "", fmt.Errorf("no harness files under %s/overlays/c23", core.Root())
	}
	for _, f := range ov {
		name := "zz_" + strings.TrimSuffix(filepath.Base(f), ".txt")
		replace[filepath.Join(repo, "cmd", "textmapper", name)] = f
	}
	sc, _ := filepath.Glob(filepath.Join(core.Root(), "internal", "sched", "*.go"))
	for _, f := range sc {
		if strings.HasSuffix(f, "_test.go") {
			continue
		}
		replace[filepath.Join(repo, "internal", "c23sched", filepath.Base(f))] = f
	}
	data, _ := json.MarshalIndent(map[string]any{"Replace": replace}, "", " ")
	suffix := ""
	if race {
		suffix = "-race"
	}
	ovPath := filepath.Join(work, "overlay"+suffix+".json")
	if err := os.WriteFile(ovPath, data, 0o644); err != nil {
		return "", err
	}
	// a private copy of go.mod/go.sum: GOFLAGS=-mod=mod must never touch the repository
	for _, n := range []string{"go.mod", "go.sum"} {
		b, err := os.ReadFile(filepath.Join(repo, n))
		if err != nil {
			return "", err
		}
		if err := os.WriteFile(filepath.Join(work, "repo"+suffix+"."+strings.TrimPrefix(n, "go.")), b, 0o644); err != nil {
			return "", err
		}
	}
	outPath := filepath.Join(work, "c23-harness"+suffix+".test")
	os.Remove(outPath)
	args := []string{"test", "-c", "-tags", "verif", "-vet=off", "-overlay", ovPath,
		"-modfile", filepath.Join(work, "repo"+suffix+".mod"), "-o", outPath}
	if race {
		args = append(args, "-race")
	}
	args = append(args, "./cmd/textmapper")
	cmd := exec.Command("go", args...)
	cmd.Dir = repo
	var buf bytes.Buffer
	cmd.Stdout, cmd.Stderr = &buf, &buf
	if err := cmd.Run(); err != nil {
		return "", fmt.Errorf("go %s (in %s): %v\n%s", strings.Join(args, " "), repo, err, buf.String())
	}
	if _, err := os.Stat(outPath); err != nil {
		return "", fmt.Errorf("go test -c produced no binary: %s", buf.String())
	}
	return outPath, nil
}

// ---------------------------------------------------------------- records (mirror of the harness types)

type violation struct {
	Key    string          `json:"key"`
	What   string          `json:"what"`
	Replay json.RawMessage `json:"replay"`
}

type histRecord struct {
	Type          string         `json:"type"`
	Idx           int            `json:"idx"`
	Hist          string         `json:"hist"`
	Depth         int            `json:"depth"`
	Nontrivial    bool           `json:"nontrivial"`
	Schedules     int            `json:"schedules"`
	Steps         int            `json:"steps"`
	Nodes         int            `json:"nodes"`
	States        int            `json:"states"`
	MaxParked     int            `json:"maxParked"`
	MaxEnabled    int            `json:"maxEnabled"`
	DistinctRaw   int            `json:"distinctRaw"`
	DistinctCanon int            `json:"distinctCanon"`
	Complete      bool           `json:"complete"`
	Outcomes      map[string]int `json:"outcomes"`
	Violations    []violation    `json:"violations"`
	Note          string         `json:"note"`
}

type announce struct {
	Hist    []string        `json:"hist"`
	Last    string          `json:"last"`
	History json.RawMessage `json:"history"`
}

type config struct {
	Mode     string          `json:"mode"`
	Alpha    string          `json:"alpha"`
	Depth    int             `json:"depth"`
	Docs     int             `json:"docs"`
	MaxDev   int             `json:"maxDev"`
	Shard    int             `json:"shard"`
	N        int             `json:"n"`
	Start    int             `json:"start"`
	Only     int             `json:"only"`
	Dead     [][]string      `json:"dead"`
	Deadline int64           `json:"deadline"`
	Reps     int             `json:"reps"`
	Replay   json.RawMessage `json:"replay,omitempty"`
}

// ---------------------------------------------------------------- running one harness process

type procResult struct {
	done     bool
	hardErr  string
	idx      int // last announced history, -1 none
	ann      announce
	how      string
	stderr   string
	killed   bool
	exitCode int
}

type headTail struct {
	mu   sync.Mutex
	head []byte
	tail []byte
}

func (b *headTail) Write(p []byte) (int, error) {
	b.mu.Lock()
	defer b.mu.Unlock()
	if room := 1<<16 - len(b.head); room > 0 {
		if room > len(p) {
			room = len(p)
		}
		b.head = append(b.head, p[:room]...)
		p2 := p[room:]
		b.tail = append(b.tail, p2...)
	} else {
		b.tail = append(b.tail, p...)
	}
	if len(b.tail) > 1<<15 {
		b.tail = b.tail[len(b.tail)-1<<14:]
	}
	return len(p), nil
}

func (b *headTail) String() string {
	b.mu.Lock()
	defer b.mu.Unlock()
	if len(b.tail) == 0 {
		return string(b.head)
	}
	return string(b.head) + "\n...\n" + string(b.tail)
}

// spawn runs the harness binary once. test is the test function to run.
func spawn(bin, test, cfgPath string, shard, start, only int, env []string, silence time.Duration, onRec func(histRecord)) procResult {
	cmd := exec.Command(bin, "-test.run", "^"+test+"$", "-test.timeout", "0", "-test.count", "1")
	cmd.Env = append(os.Environ(), "C23_CFG="+cfgPath, "C23_SHARD="+strconv.Itoa(shard),
		"C23_START="+strconv.Itoa(start), "C23_ONLY="+strconv.Itoa(only))
	cmd.Env = append(cmd.Env, env...)
	cmd.Dir = workDir()
	var stderr headTail
	cmd.Stderr = &stderr
	cmd.Stdout = nil
	pr, pw, err := os.Pipe()
	if err != nil {
		fatal("pipe: %v", err)
	}
	cmd.ExtraFiles = []*os.File{pw}
	if err := cmd.Start(); err != nil {
		fatal("cannot start %s: %v", bin, err)
	}
	pw.Close()
	res := procResult{idx: -1}
	var mu sync.Mutex
	last := time.Now()
	finished := make(chan struct{})
	go func() {
		defer close(finished)
		r := bufio.NewReaderSize(pr, 1<<20)
		for {
			line, err := r.ReadBytes('\n')
			if len(line) > 2 {
				mu.Lock()
				last = time.Now()
				switch line[0] {
				case '@':
					rest := bytes.TrimSpace(line[2:])
					sp := bytes.IndexByte(rest, ' ')
					if sp > 0 {
						res.idx, _ = strconv.Atoi(string(rest[:sp]))
						res.ann = announce{}
						json.Unmarshal(rest[sp+1:], &res.ann)
					}
				case '=':
					var rec histRecord
					if err := json.Unmarshal(bytes.TrimSpace(line[2:]), &rec); err == nil && onRec != nil {
						onRec(rec)
					}
				case '!':
					res.hardErr = strings.TrimSpace(string(line[2:]))
				case '$':
					res.done = true
				}
				mu.Unlock()
			}
			if err != nil {
				return
			}
		}
	}()
	tick := time.NewTicker(500 * time.Millisecond)
	defer tick.Stop()
loop:
	for {
		select {
		case <-finished:
			break loop
		case <-tick.C:
			mu.Lock()
			idle := time.Since(last)
			mu.Unlock()
			if idle > silence {
				res.killed = true
				cmd.Process.Kill()
			}
		}
	}
	werr := cmd.Wait()
	pr.Close()
	mu.Lock()
	defer mu.Unlock()
	res.stderr = stderr.String()
	if ee, ok := werr.(*exec.ExitError); ok {
		res.exitCode = ee.ExitCode()
	}
	switch {
	case res.done:
		// the "$ done" marker is authoritative: everything was run and reported. (A -race
		// binary exits 1 afterwards when the detector reported something; the reports are
		// read from its log.)
	case res.killed:
		res.how = fmt.Sprintf("no progress for %s (killed)", silence)
	case werr != nil:
		res.how = werr.Error()
	default:
		res.how = "exited 0 without finishing"
	}
	return res
}

func fatal(format string, a ...any) {
	fmt.Fprintf(os.Stderr, "C23: "+format+"\n", a...)
	os.Exit(2)
}

// ---------------------------------------------------------------- classifying a death

var frameRe = regexp.MustCompile(`(?m)^((?:github\.com/inspirer/textmapper/|main\.)\S*?)\([^()\n]*\)$`)

// deathKey derives a stable key from what the dying process wrote to stderr.
func deathKey(stderr string, last string, killed bool) (key, site string, harness bool) {
	if killed {
		return "hang:" + last, "", false
	}
	if strings.Contains(stderr, "blocked goroutines remain") {
		return "deadlock:goroutines-blocked-forever", "", false
	}
	if i := strings.Index(stderr, "fatal error: "); i >= 0 && !strings.Contains(stderr[:i], "panic: ") {
		msg := stderr[i+len("fatal error: "):]
		if j := strings.IndexByte(msg, '\n'); j >= 0 {
			msg = msg[:j]
		}
		return "fatal:" + strings.ReplaceAll(strings.TrimSpace(msg), " ", "-"), "", false
	}
	i := strings.Index(stderr, "panic: ")
	if i < 0 {
		return "death:" + last, "", false
	}
	// first frame of the module under test, in the panicking goroutine (printed first)
	rest := stderr[i:]
	for _, m := range frameRe.FindAllStringSubmatchIndex(rest, -1) {
		fn := rest[m[2]:m[3]]
		// the source line follows on the next line
		nl := strings.IndexByte(rest[m[1]:], '\n')
		file := ""
		if nl >= 0 {
			after := rest[m[1]+nl+1:]
			if e := strings.IndexByte(after, '\n'); e >= 0 {
				file = strings.TrimSpace(after[:e])
			}
		}
		if strings.Contains(file, "zz_c23_") || strings.Contains(fn, "internal/c23sched") {
			return "harness-panic", fn, true
		}
		short := fn
		if j := strings.LastIndex(short, "."); j >= 0 {
			short = short[j+1:]
		}
		return "panic:" + short + "-" + last, fn + " " + file, false
	}
	return "panic:unknown-site-" + last, "", false
}

func panicExcerpt(stderr string) string {
	i := strings.Index(stderr, "panic: ")
	if j := strings.Index(stderr, "fatal error: "); j >= 0 && (i < 0 || j < i) {
		i = j
	}
	if i < 0 {
		i = 0
	}
	s := stderr[i:]
	if len(s) > 1500 {
		s = s[:1500]
	}
	return s
}

// ---------------------------------------------------------------- phases

// phase: all histories of one depth over one alphabet. Alphabets: "full" = 25 messages
// per document (open x7 contents, change x7, change repeating the version x3,
// change without content changes, close, definition x6 positions); "core8"/"core6" =
// one document, the two related contents valid/swapped only (for the deeper histories).
type phase struct {
	Alpha               string
	Depth, Docs, MaxDev int
}

func (ph phase) alphabetSize() int {
	switch ph.Alpha {
	case "core8":
		return 8
	case "core6":
		return 6
	}
	return 25 * ph.Docs
}

type agg struct {
	mu             sync.Mutex
	c              *core.Ctx
	dead           [][]string
	schedMin       int
	schedMax       int
	schedSum       int64
	hists          int64
	maxParked      int
	maxEnabled     int
	maxDistinct    int
	byDepth        map[string]int64
	skipped        int64
	deaths         int64
	nodes          int64
	incomplete     int64
	hardErr        string
	samples        int
	deathsByKey    map[string]int64
	unreproducible int64
	viol           map[string]*pendingViolation
	deathsAlone    int64 // deaths confirmed by re-running the history alone
	deathsBySig    int64 // later deaths with an already confirmed signature (key + panic frame)
	confirmedSig   map[string]int
	cappedShards   int // shards of the current phase that stopped at the budget
	cappedFirst    int // lowest history index left unexplored in the current phase
}

func (a *agg) setHard(msg string) {
	a.mu.Lock()
	if a.hardErr == "" {
		a.hardErr = msg
	}
	a.mu.Unlock()
}

func (a *agg) record(rec histRecord) {
	a.mu.Lock()
	defer a.mu.Unlock()
	c := a.c
	switch rec.Type {
	case "skip":
		a.skipped++
		return
	case "cap":
		a.cappedShards++
		if a.cappedFirst < 0 || rec.Idx < a.cappedFirst {
			a.cappedFirst = rec.Idx
		}
		return
	}
	c.Eval(1)
	if rec.Nontrivial {
		c.Nontrivial(1)
	}
	c.Traces(int64(rec.Schedules))
	c.Transitions(int64(rec.Steps))
	c.States(int64(rec.States))
	a.nodes += int64(rec.Nodes)
	a.hists++
	a.schedSum += int64(rec.Schedules)
	if a.schedMin == 0 || rec.Schedules < a.schedMin {
		a.schedMin = rec.Schedules
	}
	if rec.Schedules > a.schedMax {
		a.schedMax = rec.Schedules
	}
	if rec.MaxParked > a.maxParked {
		a.maxParked = rec.MaxParked
	}
	if rec.MaxEnabled > a.maxEnabled {
		a.maxEnabled = rec.MaxEnabled
	}
	if rec.DistinctCanon > a.maxDistinct {
		a.maxDistinct = rec.DistinctCanon
	}
	a.byDepth[strconv.Itoa(rec.Depth)]++
	if !rec.Complete {
		a.incomplete++
	}
	for k, n := range rec.Outcomes {
		c.Outcome(k, int64(n))
	}
	if a.samples < 8 && rec.Nontrivial && rec.Depth >= 2 && rec.Idx%97 == 0 {
		a.samples++
		c.Sample(map[string]any{"history": rec.Hist, "schedules": rec.Schedules, "steps": rec.Steps, "distinct_observation_sequences": rec.DistinctCanon})
	}
	for _, v := range rec.Violations {
		a.violate(v.Key, v.What, v.Replay, rec.Depth, rec.Idx)
	}
}

type pendingViolation struct {
	what       string
	replay     any
	depth, idx int
	count      int
}

// violate buffers a violation; flush reports, per key, the occurrence with the
// shortest history (lowest depth, then lowest index) so that the recorded example does
// not depend on which shard happened to be first.
func (a *agg) violate(key, what string, replay any, depth, idx int) {
	if a.viol == nil {
		a.viol = map[string]*pendingViolation{}
	}
	v := a.viol[key]
	if v == nil {
		a.viol[key] = &pendingViolation{what, replay, depth, idx, 1}
		return
	}
	v.count++
	if depth < v.depth || depth == v.depth && idx < v.idx {
		v.what, v.replay, v.depth, v.idx = what, replay, depth, idx
	}
}

func (a *agg) flush() {
	a.mu.Lock()
	defer a.mu.Unlock()
	keys := make([]string, 0, len(a.viol))
	for k := range a.viol {
		keys = append(keys, k)
	}
	sort.Strings(keys)
	for _, k := range keys {
		v := a.viol[k]
		for i := 0; i < v.count; i++ {
			a.c.Violate(k, v.what, v.replay)
		}
	}
	a.viol = nil
}

// runPhase explores every history of one depth on n processes.
func (a *agg) runPhase(bin string, ph phase, n int, deadline time.Time) {
	cfg := config{Mode: "explore", Alpha: ph.Alpha, Depth: ph.Depth, Docs: ph.Docs, MaxDev: ph.MaxDev, N: n, Only: -1, Dead: a.dead, Deadline: deadline.UnixMilli()}
	data, _ := json.Marshal(cfg)
	cfgPath := filepath.Join(workDir(), fmt.Sprintf("phase-%s-d%d-docs%d.json", ph.Alpha, ph.Depth, ph.Docs))
	os.WriteFile(cfgPath, data, 0o644)
	env := []string{"GOMAXPROCS=1", "GOGC=800"}
	var newDead [][]string
	var wg sync.WaitGroup
	for s := 0; s < n; s++ {
		wg.Add(1)
		go func(shard int) {
			defer wg.Done()
			start := 0
			for {
				r := spawn(bin, "TestC23", cfgPath, shard, start, -1, env, 180*time.Second, a.record)
				if r.hardErr != "" {
					a.setHard(r.hardErr)
					return
				}
				if r.done {
					return
				}
				if r.idx < 0 {
					fmt.Fprintf(os.Stderr, "C23: shard %d died before announcing a history: %s\n%s\n", shard, r.how, r.stderr)
					a.c.Capped(fmt.Sprintf("shard %d of depth %d died before its first history (%s)", shard, ph.Depth, r.how))
					return
				}
				// A death is attributed to the announced history (every history runs in bubbles
				// that are completely drained before the next one starts, so nothing leaks from
				// one history into the next). The first three deaths of every signature (key +
				// panicking frame) are confirmed by re-running the history alone, twice; later
				// deaths with a confirmed signature are accepted as they are.
				key, site, harness := deathKey(r.stderr, r.ann.Last, r.killed)
				a.mu.Lock()
				needConfirm := a.confirmedSig[key+" "+site] < 3
				a.mu.Unlock()
				confirmed, how, excerpt := true, r.how, panicExcerpt(r.stderr)
				if needConfirm {
					for i := 0; i < 2 && confirmed; i++ {
						cd := spawn(bin, "TestC23", cfgPath, shard, 0, r.idx, env, 120*time.Second, nil)
						if cd.hardErr != "" {
							a.setHard(cd.hardErr)
							return
						}
						k2, s2, _ := deathKey(cd.stderr, r.ann.Last, cd.killed)
						confirmed = !cd.done && k2 == key && s2 == site
					}
				}
				if confirmed {
					if harness {
						a.setHard("the harness itself panicked in " + site + ":\n" + excerpt)
						return
					}
					rp, _ := json.Marshal(map[string]any{"key": key, "kind": "death", "history": r.ann.History, "maxDev": ph.MaxDev})
					a.mu.Lock()
					a.deaths++
					a.deathsByKey[key]++
					if needConfirm {
						a.confirmedSig[key+" "+site]++
						a.deathsAlone++
					} else {
						a.deathsBySig++
					}
					newDead = append(newDead, r.ann.Hist)
					a.c.Eval(1)
					a.c.Outcome("server-died", 1)
					a.byDepth[strconv.Itoa(ph.Depth)]++
					a.violate(key, fmt.Sprintf("the language server process died while handling history [%s] (%s) %s\n%s",
						strings.Join(r.ann.Hist, " "), how, site, excerpt), json.RawMessage(rp), ph.Depth, r.idx)
					a.mu.Unlock()
				} else {
					fmt.Fprintf(os.Stderr, "C23: shard %d: death at history %d [%s] not reproducible alone: %s\n%s\n", shard, r.idx, strings.Join(r.ann.Hist, " "), r.how, excerpt)
					a.mu.Lock()
					a.unreproducible++
					a.mu.Unlock()
					// take its records from a single-history run
					spawn(bin, "TestC23", cfgPath, shard, 0, r.idx, env, 120*time.Second, a.record)
				}
				start = r.idx + 1
			}
		}(s)
	}
	wg.Wait()
	a.mu.Lock()
	a.dead = append(a.dead, newDead...)
	if a.cappedShards > 0 {
		a.c.Capped(fmt.Sprintf("budget: alphabet %s, depth %d over %d document(s): %d of %d shards stopped early; histories from index %d (of %d) on are only partly explored",
			ph.Alpha, ph.Depth, ph.Docs, a.cappedShards, n, a.cappedFirst, ipow(ph.alphabetSize(), ph.Depth)))
	}
	a.cappedShards, a.cappedFirst = 0, -1
	a.mu.Unlock()
}

func ipow(b, e int) int {
	r := 1
	for ; e > 0; e-- {
		r *= b
	}
	return r
}

// ---------------------------------------------------------------- race pass

var raceFrameRe = regexp.MustCompile(`(?m)^\s+((?:github\.com/inspirer/textmapper/|main\.)\S+?)\(\)\n\s+(\S+)`)

// raceKeys extracts "race:<func>" keys from race detector logs: a report counts when
// one of its stacks has a frame in ls/ or in cmd/textmapper (harness files excluded).
func raceKeys(logs string) (keys map[string]string, outside int) {
	keys = map[string]string{}
	for _, rep := range strings.Split(logs, "==================") {
		if !strings.Contains(rep, "WARNING: DATA RACE") {
			continue
		}
		found := ""
		for _, m := range raceFrameRe.FindAllStringSubmatch(rep, -1) {
			fn, file := m[1], m[2]
			if strings.Contains(file, "zz_c23_") || strings.Contains(fn, "internal/c23sched") {
				continue
			}
			if strings.Contains(fn, "textmapper/ls.") || strings.Contains(file, "/cmd/textmapper/") {
				short := fn
				if j := strings.LastIndex(short, "/"); j >= 0 {
					short = short[j+1:]
				}
				found = short
				break
			}
		}
		if found == "" {
			outside++
			continue
		}
		if _, ok := keys["race:"+found]; !ok {
			r := strings.TrimSpace(rep)
			if len(r) > 2500 {
				r = r[:2500]
			}
			keys["race:"+found] = r
		}
	}
	return keys, outside
}

func (a *agg) racePass(bin string, depth, docs, reps, n int, deadline time.Time) {
	c := a.c
	logDir := filepath.Join(workDir(), "race-logs")
	os.RemoveAll(logDir)
	os.MkdirAll(logDir, 0o755)
	cfg := config{Mode: "race", Alpha: "full", Depth: depth, Docs: docs, N: n, Only: -1, Dead: a.dead, Reps: reps, Deadline: deadline.UnixMilli()}
	data, _ := json.Marshal(cfg)
	cfgPath := filepath.Join(workDir(), "race.json")
	os.WriteFile(cfgPath, data, 0o644)
	var mu sync.Mutex
	var runs, hists int64
	cappedRace := 0
	var replays []json.RawMessage
	var notes []string
	var wg sync.WaitGroup
	for s := 0; s < n; s++ {
		wg.Add(1)
		go func(shard int) {
			defer wg.Done()
			start := 0
			for tries := 0; tries < 50; tries++ {
				env := []string{"GORACE=log_path=" + filepath.Join(logDir, fmt.Sprintf("s%d", shard)) + " halt_on_error=0 exitcode=0"}
				r := spawn(bin, "TestC23Race", cfgPath, shard, start, -1, env, 180*time.Second, func(rec histRecord) {
					mu.Lock()
					defer mu.Unlock()
					if rec.Type == "cap" {
						cappedRace++
						return
					}
					hists++
					runs += int64(rec.Schedules)
					if rec.Note != "" {
						notes = append(notes, rec.Hist+": "+rec.Note)
					}
					for _, v := range rec.Violations {
						replays = append(replays, v.Replay)
					}
				})
				if r.done {
					return
				}
				if r.idx < 0 {
					c.Capped(fmt.Sprintf("race shard %d died before its first history (%s)", shard, r.how))
					fmt.Fprintf(os.Stderr, "C23: race shard %d: %s\n%s\n", shard, r.how, r.stderr)
					return
				}
				// a death in the free run (e.g. "concurrent map writes"): attribute and go on
				key, site, _ := deathKey(r.stderr, r.ann.Last, r.killed)
				rp, _ := json.Marshal(map[string]any{"key": key, "kind": "race", "history": r.ann.History})
				// same key scheme as the controlled pass: a panic is the same defect in either pass
				c.Violate(key, fmt.Sprintf("free-running pass: the server process died on history [%s] (%s) %s\n%s", strings.Join(r.ann.Hist, " "), r.how, site, panicExcerpt(r.stderr)), json.RawMessage(rp))
				start = r.idx + 1
			}
		}(s)
	}
	wg.Wait()
	if cappedRace > 0 {
		c.Capped(fmt.Sprintf("budget: race pass: %d of %d shards stopped early (%d histories done)", cappedRace, n, hists))
	}
	var logs strings.Builder
	files, _ := filepath.Glob(filepath.Join(logDir, "*"))
	for _, f := range files {
		b, _ := os.ReadFile(f)
		logs.Write(b)
		logs.WriteString("\n==================\n")
	}
	keys, outside := raceKeys(logs.String())
	var rp any
	if len(replays) > 0 {
		rp = replays[0]
	}
	for k, rep := range keys {
		c.Violate(k, "data race reported by the race detector in the free-running pass:\n"+rep, rp)
	}
	c.Set("race_pass", map[string]any{"histories": hists, "free_runs": runs, "repetitions_per_history": reps, "depth_upto": depth, "documents": docs,
		"race_reports_in_scope": len(keys), "race_reports_outside_ls_and_cmd": outside, "notes": firstN(notes, 5)})
	if outside > 0 {
		fmt.Fprintf(os.Stderr, "C23: %d race report(s) without a frame in ls/ or cmd/textmapper (not counted), see %s\n", outside, logDir)
	}
}

func firstN(s []string, n int) []string {
	if len(s) > n {
		return s[:n]
	}
	return s
}

// ---------------------------------------------------------------- run

func run(c *core.Ctx) {
	c.Rule("histories = all sequences over the alphabet {open(d,c), change(d,c), change repeating the version(d,c'), change(d, no content changes), close(d), definition(d,pos)}, " +
		"d in {A,B}, 7 contents, 6 position kinds, versions assigned per document (restart at 1 on every open, +1 per change), enumerated by depth " +
		"(shortest first, index order), plus deeper histories over small one-document alphabets (core8, core6) built on two contents that differ in where identifiers are declared; every history is run under every schedule " +
		"of the three thread kinds (client sender, client receiver, server handlers at the ls.VerifPoint hooks) that deviates from the default " +
		"schedule in at most maxDev decisions. A history is non-trivial when some message acts on a document the reference model holds at that moment. " +
		"Histories that extend a history on which the server process died are skipped.")
	c.Assume("go.lsp.dev/jsonrpc2, go.lsp.dev/protocol, zap and the Go runtime (synctest) are trusted; the connection read loop, codec and handler chain run unmodified but uncontrolled between quiescent states")
	c.Assume("handlers touch shared state only right after an ls.VerifPoint hook (hooks placed before every access to Server.docs and before every write to the client)")
	c.Assume("the connection's write mutex is modelled by the scheduler: a handler parked before a write is enabled only while no other server write is in flight")

	type built struct {
		path string
		err  error
	}
	raceCh := make(chan built, 1)
	t0 := time.Now()
	bin, err := buildHarness(false)
	if err != nil {
		fatal("cannot build the harness (are the verif hooks of hooks/c23-hooks.patch present in %s?):\n%v", core.RepoDir(), err)
	}
	go func() {
		p, err := buildHarness(true)
		raceCh <- built{p, err}
	}()
	c.Set("build_s", float64(int(time.Since(t0).Seconds()*10))/10)

	var phases []phase
	var raceDepth, raceReps int
	var raceReserve time.Duration
	if c.Quick() {
		phases = []phase{{"full", 1, 2, 2}, {"full", 2, 2, 2}, {"full", 3, 1, 1}, {"core8", 4, 1, 1}, {"core6", 5, 1, 0}}
		raceDepth, raceReps, raceReserve = 2, 3, 25*time.Second
	} else {
		phases = []phase{{"full", 1, 2, 3}, {"full", 2, 2, 3}, {"core8", 4, 1, 2}, {"core8", 5, 1, 2}, {"core6", 6, 1, 1}, {"full", 3, 2, 2}, {"full", 4, 1, 1}}
		raceDepth, raceReps, raceReserve = 2, 100, 4*time.Minute
	}
	a := &agg{c: c, byDepth: map[string]int64{}, deathsByKey: map[string]int64{}, confirmedSig: map[string]int{}, cappedFirst: -1}
	var plan []map[string]any
	for _, ph := range phases {
		plan = append(plan, map[string]any{"alphabet": ph.Alpha, "depth": ph.Depth, "documents": ph.Docs, "max_deviations": ph.MaxDev, "histories": ipow(ph.alphabetSize(), ph.Depth)})
		if c.Expired() {
			c.Capped(fmt.Sprintf("phase alphabet=%s depth=%d documents=%d not started (budget)", ph.Alpha, ph.Depth, ph.Docs))
			continue
		}
		tp := time.Now()
		a.runPhase(bin, ph, 16, c.Deadline.Add(-raceReserve))
		plan[len(plan)-1]["wall_ms"] = int(time.Since(tp).Milliseconds())
		if a.hardErr != "" {
			fatal("HARD ERROR (not a finding; the harness or the scheduler is not deterministic):\n%s", strings.ReplaceAll(a.hardErr, "\\n", "\n"))
		}
	}
	c.Set("phases", plan)
	if a.hists > 0 {
		c.Set("schedules_per_history", map[string]any{"min": a.schedMin, "max": a.schedMax, "mean": float64(int(float64(a.schedSum)/float64(a.hists)*10)) / 10})
	}
	c.Set("max_simultaneously_parked_handlers", a.maxParked)
	c.Set("max_enabled_threads_at_a_decision", a.maxEnabled)
	c.Set("max_distinct_observation_sequences_per_history", a.maxDistinct)
	c.Set("histories_by_depth", a.byDepth)
	c.Set("histories_skipped_as_extensions_of_a_dead_history", a.skipped)
	c.Set("schedule_tree_nodes", a.nodes)
	c.Set("histories_with_incomplete_schedule_search", a.incomplete)
	c.Set("server_deaths", map[string]any{"total": a.deaths, "by_key": a.deathsByKey, "confirmed_alone_twice": a.deathsAlone,
		"accepted_by_confirmed_signature": a.deathsBySig, "unreproducible": a.unreproducible})
	a.flush()
	if a.incomplete > 0 {
		c.Capped(fmt.Sprintf("%d histories: schedule search cut by the budget", a.incomplete))
	}

	rb := <-raceCh
	if rb.err != nil {
		fatal("cannot build the -race harness:\n%v", rb.err)
	}
	tr := time.Now()
	// the race pass always gets a minimal slot of its own, whatever the controlled pass used
	raceDeadline := c.Deadline.Add(20 * time.Second)
	if min := time.Now().Add(raceReserve); raceDeadline.Before(min) {
		raceDeadline = min
	}
	a.racePass(rb.path, raceDepth, 2, raceReps, 8, raceDeadline)
	c.Set("race_pass_wall_s", float64(int(time.Since(tr).Seconds()*10))/10)
}

// ---------------------------------------------------------------- replay

func replay(c *core.Ctx, raw json.RawMessage) error {
	var rc struct {
		Kind string `json:"kind"`
		Key  string `json:"key"`
	}
	if err := json.Unmarshal(raw, &rc); err != nil {
		return fmt.Errorf("bad replay value: %v", err)
	}
	race := rc.Kind == "race"
	bin, err := buildHarness(race)
	if err != nil {
		fatal("cannot build the harness:\n%v", err)
	}
	cfg := config{Mode: "replay", Only: -1, N: 1, Replay: raw}
	test := "TestC23"
	env := []string{"GOMAXPROCS=1"}
	logPrefix := filepath.Join(workDir(), "race-logs", "replay")
	if race {
		cfg.Mode, cfg.Alpha, cfg.Reps, cfg.Docs, cfg.Depth = "race", "full", 300, 2, 1
		test = "TestC23Race"
		os.MkdirAll(filepath.Dir(logPrefix), 0o755)
		old, _ := filepath.Glob(logPrefix + ".*")
		for _, f := range old {
			os.Remove(f)
		}
		env = []string{"GORACE=log_path=" + logPrefix + " halt_on_error=0 exitcode=0"}
	}
	data, _ := json.Marshal(cfg)
	cfgPath := filepath.Join(workDir(), "replay.json")
	os.WriteFile(cfgPath, data, 0o644)
	var found []string
	r := spawn(bin, test, cfgPath, 0, 0, -1, env, 180*time.Second, func(rec histRecord) {
		for _, v := range rec.Violations {
			if rc.Key != "" && v.Key != rc.Key {
				fmt.Printf("note: this history also shows %s (not what this replay was recorded for)\n", v.Key)
				continue
			}
			found = append(found, v.Key+": "+v.What)
		}
		if rec.Note != "" {
			fmt.Println("note:", rec.Note)
		}
	})
	if r.hardErr != "" {
		fatal("HARD ERROR: %s", r.hardErr)
	}
	if !r.done {
		key, site, _ := deathKey(r.stderr, r.ann.Last, r.killed)
		return fmt.Errorf("the server process died (%s): %s %s\n%s", r.how, key, site, panicExcerpt(r.stderr))
	}
	if race {
		var logs strings.Builder
		files, _ := filepath.Glob(logPrefix + ".*")
		for _, f := range files {
			b, _ := os.ReadFile(f)
			logs.Write(b)
		}
		keys, _ := raceKeys(logs.String())
		var ks []string
		for k := range keys {
			ks = append(ks, k)
		}
		sort.Strings(ks)
		if len(ks) > 0 {
			return fmt.Errorf("race detector: %s\n%s", strings.Join(ks, ", "), keys[ks[0]])
		}
		return nil
	}
	if len(found) > 0 {
		return fmt.Errorf("%s", strings.Join(found, "\n"))
	}
	return nil
}
