package main

import (
	"fmt"
	"os"

	"github.com/inspirer/textmapper/lalr"

	"verif/internal/gramenum"
)

func main() {
	g := &gramenum.Gram{T: 2, N: 2, Rules: []gramenum.Rule{{4, nil}, {3, []int{4, 1}}, {4, []int{4, 1}}}}
	inputs := []gramenum.Input{{3, true}, {3, false}}
	for _, k := range []int{1, 2} {
		tbl, err := lalr.Compile(g.ToLalr(inputs), lalr.Options{Lookahead: k, Debug: true})
		fmt.Println("k=", k, "err=", err, "Action", tbl.Action, "Lalr", tbl.Lalr)
		if len(os.Args) > 1 {
			for i, d := range tbl.DebugInfo {
				fmt.Printf("-- %d --\n%s\n", i, d)
			}
		}
	}
}
