package main

import (
	"fmt"

	"github.com/inspirer/textmapper/lalr"

	"verif/internal/gramenum"
	"verif/internal/tabinterp"
)

func main() {
	g := &gramenum.Gram{T: 2, N: 1, Rules: []gramenum.Rule{{3, []int{1, 1}}, {3, []int{2, 2}}}}
	inputs := []gramenum.Input{{3, true}}
	tbl, err := lalr.Compile(g.ToLalr(inputs), lalr.Options{Optimize: true})
	fmt.Println(err)
	fmt.Printf("default: Action %v Lalr %v Goto %v FromTo %v\n", tbl.Action, tbl.Lalr, tbl.Goto, tbl.FromTo)
	o := tbl.Optimized
	fmt.Printf("opt: DefGoto %v Goto %v DefAct %v Action %v Base %v Table %v Check %v\n", o.DefGoto, o.Goto, o.DefAct, o.Action, o.Base, o.Table, o.Check)
	m := &tabinterp.Machine{T: tbl, Terms: 3, Optimized: true}
	fmt.Println(m.Run(0, []int{1, 2}))
	m.Optimized = false
	fmt.Println(m.Run(0, []int{1, 2}))
}
