// C30 — the Bison export describes the grammar Textmapper parses.
//
// Every case is a complete .tm text with `writeBison = true`, run through the real compiler.Compile +
// gen.Generate (no build) in worker subprocesses. Two deterministic families, simplest first:
//
//	A  plain context-free grammars of internal/gramenum scopes x precedence declarations
//	   (%left / %right / %nonassoc lines in several groupings and orders) x %prec markers x input
//	   configurations;
//	B  the extended notation: every rule body `tc <shape> td` where <shape> comes from a small shape
//	   language closed under depth: atoms (terminal, nonterminal, token set, mid-rule action, runtime
//	   lookahead, state marker), unary constructors (? + * separated lists, arrow, alias) and binary
//	   constructors (sequence, nested choice); plus templated nonterminals with flags whose
//	   alternatives are guarded by [F] / [!F] predicates.
//
// Histories: sequences of 2 (thorough: also 3) gen.Generate calls in ONE fresh process over a set of
// grammars that share the language name and the number of symbols but differ in symbol names, rule
// shape, precedence block and %prec terminal (all ordered tuples): the .y of the grammar at every
// position must be byte-identical to the .y the same grammar gets as the first grammar of a process.
//
// Oracle: a small reader of the emitted <name>.y (comments and action blocks stripped, `lhs : alt | alt ;`
// split, %empty ignored, `%prec X` noted) must yield exactly grammar.Parser.Rules in order — left-hand
// side by nonterminal name, right-hand side terminals by their token ID and nonterminals by name (this
// is how bison.go.tmpl spells them), state markers ignored, extracted mid-rule nonterminals included —
// with the same %prec terminal, and the %left/%right/%nonassoc lines must equal grammar.Parser.Prec in
// order. Every terminal except eoi must be declared exactly once by a precedence line or a %token
// line (otherwise Bison would read it as an undefined nonterminal).
package main

import (
	"bufio"
	"bytes"
	"encoding/json"
	"fmt"
	"log"
	"os"
	"os/exec"
	"path/filepath"
	"regexp"
	"runtime"
	"sort"
	"strconv"
	"strings"
	"time"

	"github.com/inspirer/textmapper/grammar"
	"github.com/inspirer/textmapper/syntax"

	"verif/internal/core"
	"verif/internal/genharness"
	"verif/internal/gramenum"
)

func main() { core.Main("C30", "exploration", run, replay, worker) }

// ---------------------------------------------------------------------------------------------
// Family A: CFG x precedence.

type precLine struct {
	Assoc string
	Terms []int // gramenum terminal numbers
}

// precConfigs enumerates the precedence declaration blocks over T terminals (T >= 2).
func precConfigs(T int) [][]precLine {
	out := [][]precLine{
		nil,
		{{"left", []int{1}}},
		{{"right", []int{1}}},
		{{"nonassoc", []int{1}}},
		{{"left", []int{2}}},
		{{"left", []int{1}}, {"left", []int{2}}},
		{{"left", []int{2}}, {"right", []int{1}}},
		{{"left", []int{1, 2}}},
		{{"right", []int{2, 1}}},
		{{"nonassoc", []int{2}}, {"left", []int{1}}},
		{{"right", []int{1}}, {"nonassoc", []int{2}}},
		// eoi (terminal 0) with a precedence of its own / inside a group
		{{"left", []int{0}}},
		{{"nonassoc", []int{2, 0}}, {"left", []int{1}}},
	}
	if T >= 3 {
		out = append(out,
			[]precLine{{"left", []int{1}}, {"right", []int{2}}, {"nonassoc", []int{3}}},
			[]precLine{{"nonassoc", []int{3}}, {"left", []int{1, 2}}},
			[]precLine{{"right", []int{3, 1}}, {"left", []int{2}}},
		)
	}
	return out
}

type cfgCase struct {
	g      *gramenum.Gram
	inputs []gramenum.Input
	prec   []precLine
	mark   map[int]int // rule index -> terminal of its %prec marker
}

func (c *cfgCase) tm(name string) string {
	g := c.g
	var sb strings.Builder
	fmt.Fprintf(&sb, "language %s(go);\n\npackage = \"scratch/%s\"\nwriteBison = true\n\n:: lexer\n\n", name, name)
	for t := 1; t <= g.T; t++ {
		fmt.Fprintf(&sb, "%s: /%c/\n", g.SymName(t), gramenum.TermChar(t))
	}
	for _, p := range c.prec {
		for _, t := range p.Terms {
			if t == 0 {
				sb.WriteString("eoi:\n") // makes the implicit end-of-input terminal referable
			}
		}
	}
	sb.WriteString("\n:: parser\n\n%input ")
	for i, in := range c.inputs {
		if i > 0 {
			sb.WriteString(", ")
		}
		sb.WriteString(g.SymName(in.NT))
		if !in.Eoi {
			sb.WriteString(" no-eoi")
		}
	}
	sb.WriteString(";\n\n")
	for _, p := range c.prec {
		sb.WriteString("%" + p.Assoc)
		for _, t := range p.Terms {
			sb.WriteString(" " + g.SymName(t))
		}
		sb.WriteString(";\n")
	}
	sb.WriteString("\n")
	for _, nt := range g.NTOrder() {
		fmt.Fprintf(&sb, "%s :\n", g.SymName(nt))
		first := true
		for i, r := range g.Rules {
			if r.LHS != nt {
				continue
			}
			if first {
				sb.WriteString("    ")
				first = false
			} else {
				sb.WriteString("  | ")
			}
			if len(r.RHS) == 0 {
				sb.WriteString("%empty")
			}
			for j, s := range r.RHS {
				if j > 0 {
					sb.WriteString(" ")
				}
				sb.WriteString(g.SymName(s))
			}
			if t, ok := c.mark[i]; ok {
				sb.WriteString(" %prec " + g.SymName(t))
			}
			sb.WriteString("\n")
		}
		sb.WriteString(";\n\n")
	}
	return sb.String()
}

func (c *cfgCase) desc() string {
	var p []string
	for _, l := range c.prec {
		p = append(p, "%"+l.Assoc+fmt.Sprint(l.Terms))
	}
	return fmt.Sprintf("A: %s inputs=%v prec=%s marks=%v", c.g, c.inputs, strings.Join(p, ";"), c.mark)
}

// ---------------------------------------------------------------------------------------------
// Family B: shapes of the extended notation.

type shape struct {
	text  string
	depth int
	kind  string // outermost constructor (coverage)
}

var atoms = []shape{
	{"ta", 0, "terminal"},
	{"tb", 0, "terminal"},
	{"N", 0, "nonterminal"},
	{"set(ta | tb)", 0, "set"},
	{"set(~(eoi | td | tf))", 0, "set-complement"},
	{"{ act() }", 0, "action"},
	{"(?= L)", 0, "lookahead"},
	{"(?= !L)", 0, "lookahead-not"},
	{".mark", 0, "marker"},
}

// importAction is a semantic action that uses the documented "pkg".Name qualifier (the Go files
// get an import block for it).
const importAction = `{ "fmt".Println(1) }`

var unary = []struct {
	kind string
	f    func(x string) string
}{
	{"optional", func(x string) string { return paren(x) + "?" }},
	{"plus", func(x string) string { return paren(x) + "+" }},
	{"star", func(x string) string { return paren(x) + "*" }},
	{"plus-sep", func(x string) string { return "(" + x + " separator tf)+" }},
	{"star-sep", func(x string) string { return "(" + x + " separator tf)*" }},
	{"arrow", func(x string) string { return "(" + x + " -> Node)" }},
	{"alias", func(x string) string { return paren(x) + "[al]" }},
}

var binary = []struct {
	kind string
	f    func(x, y string) string
}{
	{"sequence", func(x, y string) string { return "(" + x + " " + y + ")" }},
	{"choice", func(x, y string) string { return "(" + x + " | " + y + ")" }},
}

var simpleRE = regexp.MustCompile(`^[A-Za-z]+$`)

func paren(x string) string {
	if simpleRE.MatchString(x) || (strings.HasPrefix(x, "(") && strings.HasSuffix(x, ")") && balancedPrefix(x) == len(x)) || strings.HasPrefix(x, "set(") {
		return x
	}
	return "(" + x + ")"
}

// balancedPrefix returns the length of the parenthesised group x starts with.
func balancedPrefix(x string) int {
	d := 0
	for i, r := range x {
		switch r {
		case '(':
			d++
		case ')':
			d--
			if d == 0 {
				return i + 1
			}
		}
	}
	return -1
}

// level1 = atoms + unary(atoms) + binary(atoms, atoms).
func level1() []shape {
	out := append([]shape{}, atoms...)
	for _, u := range unary {
		for _, a := range atoms {
			out = append(out, shape{u.f(a.text), 1, u.kind})
		}
	}
	for _, b := range binary {
		for _, x := range atoms {
			for _, y := range atoms {
				out = append(out, shape{b.f(x.text, y.text), 1, b.kind})
			}
		}
	}
	return out
}

type shapeCase struct {
	body   string // goes between tc and td
	events bool
	tmpl   int    // 0 = plain rule; 1,2 = templated variants
	other  string // second body for templated variants
	prec   bool   // append %prec ta
	kind   string
	nprec  bool // the shape is the whole body of a rule of its own that carries %prec ta (nullable shapes give empty rules with a precedence)
	pkgNT  bool // the nonterminal holding the shape is called packageDecl
}

func (c *shapeCase) tm(name string) string {
	var sb strings.Builder
	fmt.Fprintf(&sb, "language %s(go);\n\npackage = \"scratch/%s\"\nwriteBison = true\n", name, name)
	if c.events {
		sb.WriteString("eventBased = true\n")
	}
	sb.WriteString("\n:: lexer\n\nta: /a/\ntb: /b/\ntc: /c/\ntd: /d/\nte: /e/\ntf: /f/\ntg: /g/\n\n:: parser\n\n%input S;\n\n")
	if c.prec {
		sb.WriteString("%left ta;\n%right tb;\n\n")
	}
	switch {
	case c.nprec || c.pkgNT:
		name := "Q"
		if c.pkgNT {
			name = "packageDecl"
		}
		sb.WriteString("S : tc " + name + " td ;\n" + name + " : " + c.body)
		if c.nprec {
			sb.WriteString(" %prec ta")
		}
		sb.WriteString(" ;\n")
	}
	switch c.tmpl {
	case 0:
		if c.nprec || c.pkgNT {
			break
		}
		sb.WriteString("S : tc " + c.body + " td")
		if c.prec {
			sb.WriteString(" %prec ta")
		}
		sb.WriteString(" ;\n")
	case 1: // both instantiations, guarded alternatives
		sb.WriteString("%flag Flg;\n\nS : tc Tmpl<+Flg> td | tg Tmpl<~Flg> td ;\nTmpl<Flg> :\n    [Flg] " + c.body + "\n  | [!Flg] " + c.other + "\n  | te\n;\n")
	case 2: // a flag with a default, propagated through an intermediate nonterminal
		sb.WriteString("%flag Flg = false;\n\nS : tc Mid<+Flg> td | tg Mid td ;\nMid<Flg> : Tmpl | tf Tmpl<~Flg> ;\nTmpl<Flg> :\n    [Flg] " + c.body + "\n  | [!Flg] " + c.other + "\n  | te Tmpl\n;\n")
	}
	sb.WriteString("N : te ;\nL : ta tb ;\n")
	if strings.Contains(c.body+c.other, "act()") {
		sb.WriteString("\n%%\n\n{{define \"onAfterParser\"}}\nfunc act() {}\n{{end}}\n")
	}
	return sb.String()
}

func (c *shapeCase) desc() string {
	s := "B: " + c.body
	if c.tmpl > 0 {
		s = fmt.Sprintf("B/template%d: [Flg] %s | [!Flg] %s", c.tmpl, c.body, c.other)
	}
	if c.events {
		s += " (eventBased)"
	}
	if c.prec {
		s += " %prec"
	}
	if c.nprec {
		s += " (own rule with %prec)"
	}
	if c.pkgNT {
		s += " (in nonterminal packageDecl)"
	}
	return s
}

// ---------------------------------------------------------------------------------------------
// The case list (identical in the parent and in every worker).

type genCase struct {
	cfg *cfgCase
	shp *shapeCase
	tmt string // replay / name family: literal text with @NAME@
	dsc string
	fam string
}

func (c *genCase) tm(name string) string {
	switch {
	case c.cfg != nil:
		return c.cfg.tm(name)
	case c.shp != nil:
		return c.shp.tm(name)
	}
	return strings.ReplaceAll(c.tmt, "@NAME@", name)
}

func (c *genCase) desc() string {
	switch {
	case c.cfg != nil:
		return c.cfg.desc()
	case c.shp != nil:
		return c.shp.desc()
	}
	return c.dsc
}

func (c *genCase) family() string {
	switch {
	case c.cfg != nil:
		return "A"
	case c.shp != nil:
		if c.shp.tmpl > 0 {
			return "B-template"
		}
		return "B"
	}
	if c.fam != "" {
		return c.fam
	}
	return "file"
}

func inputConfigs(g *gramenum.Gram) [][]gramenum.Input {
	x1 := g.T + 1
	out := [][]gramenum.Input{{{NT: x1, Eoi: true}}, {{NT: x1, Eoi: false}}}
	if g.N >= 2 {
		out = append(out, []gramenum.Input{{NT: x1, Eoi: true}, {NT: g.T + 2, Eoi: true}})
	}
	return out
}

func cfgCases(scope gramenum.Scope, maxGrammars int, nprec int) []*genCase {
	var out []*genCase
	pcs := precConfigs(scope.T)
	k := 0
	gramenum.Enumerate(scope, func(idx int, g0 *gramenum.Gram) bool {
		if idx >= maxGrammars {
			return false
		}
		g := g0.Clone()
		ics := inputConfigs(g)
		add := func(prec []precLine, mark map[int]int, in []gramenum.Input) {
			out = append(out, &genCase{cfg: &cfgCase{g: g, inputs: in, prec: prec, mark: mark}})
		}
		// every grammar: no precedence, first input configuration
		add(nil, nil, ics[0])
		// precedence blocks: nprec per grammar, rotating through the list so that every block
		// meets many grammars (nprec >= len(list) = all of them)
		var sel [][]precLine
		for j := 0; j < nprec && j < len(pcs)-1; j++ {
			sel = append(sel, pcs[1+(k+j*3)%(len(pcs)-1)])
		}
		for pi, prec := range sel {
			in := ics[(k+pi)%len(ics)]
			add(prec, nil, in)
			// %prec markers: on the first non-empty rule with the last declared terminal, and on
			// the last rule with the first declared terminal
			lastT := prec[len(prec)-1].Terms[len(prec[len(prec)-1].Terms)-1]
			firstT := prec[0].Terms[0]
			for ri, r := range g.Rules {
				if len(r.RHS) > 0 {
					add(prec, map[int]int{ri: lastT}, in)
					break
				}
			}
			if len(g.Rules) > 1 {
				add(prec, map[int]int{len(g.Rules) - 1: firstT, 0: lastT}, in)
			}
			// %prec naming a terminal of the rule itself: its first terminal and its last terminal
			// (Bison and lalr.resolvePrec take the rule's precedence from the last one), on the
			// first rule that has two different terminals
			for ri, r := range g.Rules {
				var ts []int
				for _, s := range r.RHS {
					if s <= g.T {
						ts = append(ts, s)
					}
				}
				if len(ts) >= 2 && ts[0] != ts[len(ts)-1] {
					add(prec, map[int]int{ri: ts[0]}, in)
					add(prec, map[int]int{ri: ts[len(ts)-1]}, in)
					break
				}
			}
		}
		k++
		return true
	})
	return out
}

// shapeCases: level 0 = depth <= 2 with the atom side of binary constructors restricted to four
// representative atoms (quick); level 1 = all nine atoms there; level 2 = additionally binary
// constructors over two level-1 shapes. A higher level extends the list of the lower one.
func shapeCases(level int) []*genCase {
	l1 := level1()
	var out []*genCase
	add := func(sc *shapeCase) { out = append(out, &genCase{shp: sc}) }
	// single shapes of level 1, without and with eventBased / %prec
	for _, s := range l1 {
		add(&shapeCase{body: s.text, kind: s.kind})
	}
	for _, s := range l1 {
		add(&shapeCase{body: s.text, kind: s.kind, events: true})
	}
	for _, s := range l1 {
		add(&shapeCase{body: s.text, kind: s.kind, prec: true})
	}
	for _, s := range l1 {
		add(&shapeCase{body: s.text, kind: s.kind, prec: true, nprec: true})
	}
	// actions with a quoted import, at the end of a rule and in the middle, also inside a
	// nonterminal whose name starts with "package"
	for _, body := range []string{"ta " + importAction, "ta " + importAction + " tb", "N " + importAction, "(ta " + importAction + ")+", "ta? " + importAction} {
		add(&shapeCase{body: body, kind: "action-with-import"})
		add(&shapeCase{body: body, kind: "action-with-import", pkgNT: true})
		add(&shapeCase{body: body, kind: "action-with-import", events: true, pkgNT: true})
	}
	for _, body := range []string{"ta { act() }", "ta { act() } tb"} {
		add(&shapeCase{body: body, kind: "action", pkgNT: true})
	}
	// depth 2: a unary constructor over every level-1 shape
	for _, u := range unary {
		for _, s := range l1 {
			if s.depth == 0 {
				continue // already in level 1
			}
			add(&shapeCase{body: u.f(s.text), kind: u.kind + "(" + s.kind + ")", events: u.kind == "arrow"})
		}
	}
	// templates with flags
	for v := 1; v <= 2; v++ {
		for _, s := range l1 {
			add(&shapeCase{body: s.text, other: "tb", tmpl: v, kind: "template(" + s.kind + ")"})
			add(&shapeCase{body: "ta", other: s.text, tmpl: v, kind: "template(" + s.kind + ")"})
		}
	}
	// depth 2: a binary constructor over (atom, level 1) and (level 1, atom)
	binAtoms := func(sel func(a shape) bool) {
		for _, b := range binary {
			for _, a := range atoms {
				if !sel(a) {
					continue
				}
				for _, s := range l1 {
					if s.depth == 0 {
						continue
					}
					add(&shapeCase{body: b.f(a.text, s.text), kind: b.kind + "(" + a.kind + "," + s.kind + ")"})
					add(&shapeCase{body: b.f(s.text, a.text), kind: b.kind + "(" + s.kind + "," + a.kind + ")"})
				}
			}
		}
	}
	quickAtom := func(a shape) bool {
		return a.text == "ta" || a.text == "N" || a.kind == "action" || a.kind == "lookahead"
	}
	binAtoms(quickAtom)
	if level >= 1 {
		binAtoms(func(a shape) bool { return !quickAtom(a) })
	}
	if level >= 2 {
		for _, b := range binary {
			for _, x := range l1 {
				for _, y := range l1 {
					if x.depth == 0 || y.depth == 0 {
						continue
					}
					add(&shapeCase{body: b.f(x.text, y.text), kind: b.kind + "(" + x.kind + "," + y.kind + ")"})
				}
			}
		}
	}
	return out
}

// nameCases: terminal names x nonterminal names from a small alphabet of spellings whose IDs / names
// can coincide (terminals are exported by ID, nonterminals by name).
func nameCases() []*genCase {
	terms := []string{"a_b", "'a'", "ab", "'+'", "x1", "A_B"}
	nts := []string{"A_B", "CHAR_A", "AB", "PLUS", "X1", "Ab", "a_b", "CharA", "Plus"}
	var out []*genCase
	for _, t := range terms {
		for _, n := range nts {
			tm := "language @NAME@(go);\n\npackage = \"scratch/@NAME@\"\nwriteBison = true\n\n:: lexer\n\n" + t + ": /x/\ntq: /q/\n\n:: parser\n\n%input S;\n\n%left tq;\n\nS : " + n + " tq | S " + t + " %prec tq ;\n" + n + " : " + t + " ;\n"
			out = append(out, &genCase{tmt: tm, dsc: "N: terminal " + t + ", nonterminal " + n, fam: "N"})
		}
	}
	return out
}

func buildCases(tier string) []*genCase {
	var out []*genCase
	if tier == "quick" {
		out = append(out, cfgCases(gramenum.Scope{N: 1, T: 2, R: 2, K: 3, Reduced: true}, 1<<30, 3)...)
		out = append(out, nameCases()...)
		out = append(out, shapeCases(0)...)
		out = append(out, cfgCases(gramenum.Scope{N: 2, T: 2, R: 3, K: 2, Reduced: true}, 150, 2)...)
		out = append(out, cfgCases(gramenum.Scope{N: 1, T: 3, R: 3, K: 3, Reduced: true}, 100, 2)...)
	} else {
		out = append(out, cfgCases(gramenum.Scope{N: 1, T: 2, R: 2, K: 3, Reduced: true}, 1<<30, 100)...)
		out = append(out, nameCases()...)
		out = append(out, shapeCases(1)...)
		out = append(out, cfgCases(gramenum.Scope{N: 1, T: 2, R: 3, K: 3, MinR: 3, Reduced: true}, 1<<30, 3)...)
		out = append(out, cfgCases(gramenum.Scope{N: 2, T: 2, R: 3, K: 2, Reduced: true}, 3000, 2)...)
		out = append(out, cfgCases(gramenum.Scope{N: 1, T: 3, R: 3, K: 3, Reduced: true}, 2000, 2)...)
		out = append(out, shapeCases(2)[len(shapeCases(1)):]...)
	}
	return out
}

func caseName(idx int) string { return fmt.Sprintf("g%06d", idx) }

// ---------------------------------------------------------------------------------------------
// The reader of the .y text.

type yRule struct {
	LHS  string
	RHS  []string
	Prec string
}

type yFile struct {
	Prec   []string // "left TA TB"
	Tokens []string
	Starts []string
	Rules  []yRule
}

// stripY removes // and /* */ comments and {...} action blocks (balanced; string and rune literals
// inside a block are skipped so that braces in them do not count).
func stripY(s string) (string, error) {
	var b strings.Builder
	depth := 0
	for i := 0; i < len(s); {
		switch {
		case strings.HasPrefix(s[i:], "%{") || strings.HasPrefix(s[i:], "%}"):
			i += 2
		case depth == 0 && strings.HasPrefix(s[i:], "//"):
			for i < len(s) && s[i] != '\n' {
				i++
			}
		case strings.HasPrefix(s[i:], "/*"):
			j := strings.Index(s[i+2:], "*/")
			if j < 0 {
				return "", fmt.Errorf("unterminated comment")
			}
			i += j + 4
			if depth == 0 {
				b.WriteByte(' ')
			}
		case depth > 0 && (s[i] == '"' || s[i] == '\'' || s[i] == '`'):
			q := s[i]
			i++
			for i < len(s) && s[i] != q {
				if s[i] == '\\' && q != '`' {
					i++
				}
				i++
			}
			i++
		case s[i] == '{':
			depth++
			i++
		case s[i] == '}':
			depth--
			if depth < 0 {
				return "", fmt.Errorf("unbalanced }")
			}
			i++
			if depth == 0 {
				b.WriteByte(' ')
			}
		default:
			if depth == 0 {
				b.WriteByte(s[i])
			}
			i++
		}
	}
	if depth != 0 {
		return "", fmt.Errorf("unbalanced {")
	}
	return b.String(), nil
}

func parseY(text string) (*yFile, error) {
	clean, err := stripY(text)
	if err != nil {
		return nil, err
	}
	parts := strings.Split(clean, "\n%%")
	if len(parts) < 2 {
		return nil, fmt.Errorf("no %%%% separator")
	}
	out := &yFile{}
	for _, line := range strings.Split(parts[0], "\n") {
		f := strings.Fields(line)
		if len(f) == 0 {
			continue
		}
		switch f[0] {
		case "%left", "%right", "%nonassoc":
			out.Prec = append(out.Prec, strings.Join(append([]string{f[0][1:]}, f[1:]...), " "))
		case "%token":
			out.Tokens = append(out.Tokens, f[1:]...)
		case "%start":
			out.Starts = append(out.Starts, f[1:]...)
		default:
			return nil, fmt.Errorf("unexpected declaration line %q", line)
		}
	}
	toks := strings.Fields(parts[1])
	for i := 0; i < len(toks); {
		if i+1 >= len(toks) || toks[i+1] != ":" {
			return nil, fmt.Errorf("expected `lhs :` at token %d (%q)", i, toks[i])
		}
		lhs := toks[i]
		i += 2
		cur := yRule{LHS: lhs}
		for {
			if i >= len(toks) {
				return nil, fmt.Errorf("rule of %s is not terminated by ;", lhs)
			}
			t := toks[i]
			i++
			switch t {
			case "|", ";":
				out.Rules = append(out.Rules, cur)
				cur = yRule{LHS: lhs}
			case "%empty":
			case "%prec":
				if i >= len(toks) {
					return nil, fmt.Errorf("%%prec without a symbol")
				}
				if cur.Prec != "" {
					return nil, fmt.Errorf("two %%prec in one rule of %s", lhs)
				}
				cur.Prec = toks[i]
				i++
			case ":":
				return nil, fmt.Errorf("unexpected : in a rule of %s", lhs)
			default:
				if cur.Prec != "" {
					return nil, fmt.Errorf("symbol %q after %%prec in a rule of %s", t, lhs)
				}
				cur.RHS = append(cur.RHS, t)
			}
			if t == ";" {
				break
			}
		}
	}
	return out, nil
}

// isMidRule: the nonterminal was extracted from a mid-rule action (its only rule is a command).
func isMidRule(g *grammar.Grammar, sym int) bool {
	nt := sym - g.NumTokens
	if nt < 0 || nt >= len(g.Parser.Nonterms) {
		return false
	}
	v := g.Parser.Nonterms[nt].Value
	return v != nil && v.Kind == syntax.Choice && len(v.Sub) == 1 && v.Sub[0].Kind == syntax.Command
}

func symText(g *grammar.Grammar, s int) string {
	if s < g.NumTokens {
		return g.Syms[s].ID
	}
	return g.Syms[s].Name
}

// checkY compares the .y text with the compiled grammar. It returns "" or a key and a description.
func checkY(g *grammar.Grammar, text string) (key, what string) {
	// text that is not Bison at all: the Go/TS import post-processing of the generator
	if loc := importBlockRE.FindStringIndex(text); loc != nil {
		where := "declarations"
		if i := strings.Index(text, "\n%%"); i >= 0 && loc[0] > i {
			where = "rules"
		}
		return "foreign-import-block:" + where, fmt.Sprintf("the .y contains an import block of the target language in its %s section (offset %d)", where, loc[0])
	}
	y, err := parseY(text)
	if err != nil {
		return "unreadable-y:" + slug(err.Error(), 4), err.Error()
	}
	// precedence declarations
	var wantPrec []string
	inPrec := map[int]bool{}
	for _, p := range g.Parser.Prec {
		l := p.Associativity.String()
		for _, t := range p.Terminals {
			l += " " + g.Syms[t].ID
			inPrec[int(t)] = true
		}
		wantPrec = append(wantPrec, l)
	}
	if strings.Join(y.Prec, "; ") != strings.Join(wantPrec, "; ") {
		class := "content"
		switch {
		case len(y.Prec) != len(wantPrec):
			class = "count"
		case sameMultiset(y.Prec, wantPrec):
			class = "order"
		default:
			for i := range y.Prec {
				a, b := strings.Fields(y.Prec[i]), strings.Fields(wantPrec[i])
				if a[0] != b[0] && strings.Join(a[1:], " ") == strings.Join(b[1:], " ") {
					class = "associativity"
				}
			}
		}
		return "precedence-declarations:" + class, fmt.Sprintf(".y declares [%s], the parser was built from [%s]", strings.Join(y.Prec, "; "), strings.Join(wantPrec, "; "))
	}
	// tokens: every terminal but eoi declared exactly once
	decl := map[string]int{}
	for _, l := range y.Prec {
		for _, t := range strings.Fields(l)[1:] {
			decl[t]++
		}
	}
	for _, t := range y.Tokens {
		decl[t]++
	}
	if inPrec[0] { // eoi with a precedence is declared by its precedence line
		if decl[g.Syms[0].ID] != 1 {
			return "token-declarations:duplicate", fmt.Sprintf("eoi (%s) has a precedence and is declared %d times", g.Syms[0].ID, decl[g.Syms[0].ID])
		}
		delete(decl, g.Syms[0].ID)
	}
	for i := 1; i < g.NumTokens; i++ {
		id := g.Syms[i].ID
		if decl[id] != 1 {
			return "token-declarations:" + map[bool]string{true: "missing", false: "duplicate"}[decl[id] == 0], fmt.Sprintf("terminal %s (%s) is declared %d times by the %%token / precedence lines", g.Syms[i].Name, id, decl[id])
		}
		delete(decl, id)
	}
	for id := range decl {
		class := "unknown-token"
		if id == g.Syms[0].ID {
			class = "eoi-declared"
		}
		return "token-declarations:" + class, fmt.Sprintf("%s is declared in the .y but is not a terminal that needs a declaration", id)
	}
	// symbol spelling: terminals are printed by ID and nonterminals by name; two symbols that are
	// spelled alike make the listed rules ambiguous (Bison would read them as one symbol)
	spelled := map[string]int{}
	for i := range g.Syms {
		t := symText(g, i)
		if j, ok := spelled[t]; ok {
			class := "two-nonterminals"
			if j < g.NumTokens {
				class = "terminal-id-equals-nonterminal-name"
				if i < g.NumTokens {
					class = "two-terminals"
				}
			}
			return "symbol-spelling-collision:" + class, fmt.Sprintf("%s (symbol %d) and %s (symbol %d) are both printed as %q in the .y", g.Syms[j].Name, j, g.Syms[i].Name, i, t)
		}
		spelled[t] = i
	}
	// rules
	rules := g.Parser.Rules
	for i := 0; i < len(rules) && i < len(y.Rules); i++ {
		r, yr := rules[i], y.Rules[i]
		var want, wantNoMid []string
		for _, s := range r.RHS {
			if s.IsStateMarker() {
				continue
			}
			want = append(want, symText(g, int(s)))
			if !isMidRule(g, int(s)) {
				wantNoMid = append(wantNoMid, symText(g, int(s)))
			}
		}
		where := fmt.Sprintf("rule %d (%s)", i, g.RuleString(*r))
		if lhs := g.Syms[r.LHS].Name; lhs != yr.LHS {
			return "lhs-mismatch", fmt.Sprintf("%s is printed under the left-hand side %s", where, yr.LHS)
		}
		if strings.Join(want, " ") != strings.Join(yr.RHS, " ") {
			class := "symbols"
			switch {
			case len(want) != len(wantNoMid) && strings.Join(wantNoMid, " ") == strings.Join(yr.RHS, " "):
				class = "midrule-missing"
			case len(want) != len(yr.RHS):
				class = "length"
			case sameMultiset(want, yr.RHS):
				class = "order"
			}
			return "rhs-mismatch:" + class, fmt.Sprintf("%s is printed with the right-hand side [%s], expected [%s]", where, strings.Join(yr.RHS, " "), strings.Join(want, " "))
		}
		wantPrec := ""
		if r.Precedence > 0 {
			wantPrec = g.Syms[r.Precedence].ID
		}
		if wantPrec != yr.Prec {
			class := "wrong-terminal"
			if yr.Prec == "" {
				class = "dropped"
			} else if wantPrec == "" {
				class = "spurious"
			}
			return "prec-marker:" + class, fmt.Sprintf("%s is printed with %%prec %q, the rule's precedence terminal is %q", where, yr.Prec, wantPrec)
		}
	}
	if len(rules) != len(y.Rules) {
		class := "missing"
		if len(y.Rules) > len(rules) {
			class = "extra"
		}
		return "rule-count:" + class, fmt.Sprintf(".y lists %d rules, the parser has %d", len(y.Rules), len(rules))
	}
	return "", ""
}

func sameMultiset(a, b []string) bool {
	if len(a) != len(b) {
		return false
	}
	x, y := append([]string{}, a...), append([]string{}, b...)
	sort.Strings(x)
	sort.Strings(y)
	return strings.Join(x, "\x00") == strings.Join(y, "\x00")
}

var importBlockRE = regexp.MustCompile(`(?m)^import (\(|\{)`)
var numRE = regexp.MustCompile(`[0-9]+`)
var rejPosRE = regexp.MustCompile(`g\d+\.tm:\d+:\d+: `)
var quotedRE = regexp.MustCompile(`'[^']*'`)

// rejectClass reduces a compiler diagnostic to its message class (coverage only).
func rejectClass(genErr string) string {
	msg := strings.TrimPrefix(genErr, "compile: ")
	msg = rejPosRE.ReplaceAllString(msg, "")
	if i := strings.IndexByte(msg, '\n'); i >= 0 {
		msg = msg[:i]
	}
	msg = quotedRE.ReplaceAllString(msg, "'_'")
	if i := strings.Index(msg, " (and "); i >= 0 {
		msg = msg[:i]
	}
	if strings.HasPrefix(msg, "input:") {
		msg = "conflict"
	}
	return trimTo(msg, 60)
}

func slug(s string, maxWords int) string {
	s = numRE.ReplaceAllString(s, "N")
	f := strings.FieldsFunc(s, func(r rune) bool {
		return !(r >= 'a' && r <= 'z' || r >= 'A' && r <= 'Z' || r == '_' || r == '.')
	})
	if len(f) > maxWords {
		f = f[:maxWords]
	}
	return strings.Join(f, "-")
}

// ---------------------------------------------------------------------------------------------
// log.Fatal hook (see cmd/c17): log.Fatal* writes through the logger's output before os.Exit(1); the
// hook panics from that write with the identity of the caller, which genharness.Generate's guard or
// text/template turns into an attributable failure.

const fatalMarker = "VERIF-LOG-FATAL"

type logHook struct{}

func (logHook) Write(p []byte) (int, error) {
	pcs := make([]uintptr, 64)
	n := runtime.Callers(2, pcs)
	frames := runtime.CallersFrames(pcs[:n])
	fatal := false
	for {
		f, more := frames.Next()
		fn := f.Function
		if fn == "log.Fatal" || fn == "log.Fatalf" || fn == "log.Fatalln" || strings.HasPrefix(fn, "log.(*Logger).Fatal") {
			fatal = true
		} else if fatal && !strings.HasPrefix(fn, "log.") {
			panic(fmt.Sprintf("%s site=%s msg=%s", fatalMarker, shortFunc(fn), strings.TrimSpace(string(p))))
		}
		if !more {
			break
		}
	}
	if fatal {
		panic(fmt.Sprintf("%s site=unknown msg=%s", fatalMarker, strings.TrimSpace(string(p))))
	}
	return len(p), nil
}

func installHook() {
	if os.Getenv("C30_NOHOOK") != "" {
		return
	}
	log.SetFlags(0)
	log.SetOutput(logHook{})
}

var closureRE = regexp.MustCompile(`(\.func[0-9]+|\.[0-9]+|\.gowrap[0-9]+)+$`)
var recvRE = regexp.MustCompile(`\(\*?\w+\)\.`)

func shortFunc(fn string) string {
	if i := strings.LastIndex(fn, "/"); i >= 0 {
		fn = fn[i+1:]
	}
	fn = closureRE.ReplaceAllString(fn, "")
	return recvRE.ReplaceAllString(fn, "")
}

var fatalRE = regexp.MustCompile(fatalMarker + ` site=(\S+) msg=([^\n]*)`)

func stackSite(stack string) string {
	for _, l := range strings.Split(stack, "\n") {
		if strings.HasPrefix(l, "\t") || !strings.Contains(l, "inspirer/textmapper/") {
			continue
		}
		l = strings.TrimPrefix(l, "created by ")
		if j := strings.LastIndex(l, "("); j > 0 && strings.HasSuffix(strings.TrimSpace(l), ")") {
			l = l[:j]
		}
		return shortFunc(strings.TrimSpace(l))
	}
	return ""
}

var genErrRE = regexp.MustCompile(`error generating (\S+?):`)
var callRE = regexp.MustCompile(`error calling (\w+)`)

func genFailureKey(genErr, genPanic string) (status, key string) {
	if genPanic != "" {
		if m := fatalRE.FindStringSubmatch(genPanic); m != nil {
			return "exit", "exit:" + m[1]
		}
		site := stackSite(genPanic)
		if site == "" {
			site = "unknown"
		}
		return "panic", "panic:" + site
	}
	if strings.HasPrefix(genErr, "compile: ") {
		return "reject", ""
	}
	if m := fatalRE.FindStringSubmatch(genErr); m != nil {
		return "exit", "exit:" + m[1]
	}
	file, fn := "unknown", ""
	if m := genErrRE.FindStringSubmatch(genErr); m != nil {
		file = m[1]
		if strings.HasSuffix(file, ".y") {
			file = "bison"
		}
	}
	if m := callRE.FindStringSubmatch(genErr); m != nil {
		fn = ":" + m[1]
	}
	return "generr", "generate-error:" + file + fn
}

// ---------------------------------------------------------------------------------------------
// Worker protocol: args = <source> [<deadline unix>]; source = "enum" or a JSON file of cases.

type fileCase struct {
	Desc string `json:"desc"`
	TM   string `json:"tm"`
}

func loadCases(tier, spec string) []*genCase {
	if spec == "enum" {
		return buildCases(tier)
	}
	data, err := os.ReadFile(spec)
	if err != nil {
		panic(err)
	}
	var fcs []fileCase
	if err := json.Unmarshal(data, &fcs); err != nil {
		panic(err)
	}
	var out []*genCase
	for _, f := range fcs {
		out = append(out, &genCase{tmt: f.TM, dsc: f.Desc})
	}
	return out
}

type record struct {
	T    string         `json:"t"` // v = violation, s = statistics, cap
	Idx  int            `json:"i,omitempty"`
	Key  string         `json:"k,omitempty"`
	What string         `json:"w,omitempty"`
	N    int            `json:"n,omitempty"`
	Out  map[string]int `json:"o,omitempty"`
	Feat map[string]int `json:"f,omitempty"`
	Rej  map[string]int `json:"r,omitempty"`  // compiler rejections by message class
	NT   int            `json:"nt,omitempty"` // accepted cases with a non-trivial export
	Last int            `json:"last,omitempty"`
	Pos  int            `json:"p,omitempty"`  // history: position
	G    int            `json:"g,omitempty"`  // history: grammar index
	St   string         `json:"st,omitempty"` // history: ok | mismatch | reject | exit | panic | ...
	Y    string         `json:"y,omitempty"`  // history: the exported text
}

func trimTo(s string, n int) string {
	if len(s) > n {
		return s[:n] + "…"
	}
	return s
}

func worker(w *core.Worker) {
	installHook()
	if len(w.Args) < 1 {
		fmt.Fprintln(os.Stderr, "worker: source expected")
		os.Exit(2)
	}
	switch w.Args[0] {
	case "hist":
		histWorker(w)
		return
	case "histfile":
		histFileWorker(w)
		return
	}
	cases := loadCases(w.Tier, w.Args[0])
	var deadline time.Time
	if len(w.Args) >= 2 {
		if u, err := strconv.ParseInt(w.Args[1], 10, 64); err == nil && u > 0 {
			deadline = time.Unix(u, 0)
		}
	}
	stats := record{T: "s", Out: map[string]int{}, Feat: map[string]int{}, Rej: map[string]int{}}
	flush := func(last int) {
		if stats.N == 0 {
			return
		}
		stats.Last = last
		w.Emit(stats)
		stats = record{T: "s", Out: map[string]int{}, Feat: map[string]int{}, Rej: map[string]int{}}
	}
	last := -1
	for idx, cs := range cases {
		if !w.Mine(idx) {
			continue
		}
		if !deadline.IsZero() && time.Now().After(deadline) {
			flush(last)
			w.Emit(record{T: "cap", Idx: idx})
			break
		}
		if stats.N >= 100 {
			flush(last)
		}
		w.Case(idx, cs.desc())
		name := caseName(idx)
		g, files, genErr, genPanic := genharness.Generate(name, cs.tm(name))
		stats.N++
		last = idx
		fam := cs.family()
		if genErr != "" || genPanic != "" {
			st, key := genFailureKey(genErr, genPanic)
			stats.Out[fam+":"+st]++
			if st == "reject" {
				stats.Rej[fam+": "+rejectClass(genErr)]++
			}
			if key != "" {
				w.Emit(record{T: "v", Idx: idx, Key: key, What: trimTo(genErr+genPanic, 1500)})
			}
			continue
		}
		y, ok := files[name+".y"]
		if !ok {
			stats.Out[fam+":no-y-file"]++
			w.Emit(record{T: "v", Idx: idx, Key: "no-bison-file", What: "writeBison = true but no " + name + ".y among " + strings.Join(genharness.SortedFiles(files), ", ")})
			continue
		}
		key, what := checkY(g, y)
		if key != "" {
			stats.Out[fam+":mismatch"]++
			w.Emit(record{T: "v", Idx: idx, Key: key, What: what + "\n--- " + name + ".y ---\n" + trimTo(y, 1200)})
			continue
		}
		stats.Out[fam+":export-matches"]++
		// coverage: what the accepted grammar exercised
		if len(g.Parser.Prec) > 0 {
			stats.Feat["precedence-declarations"]++
		}
		nt := false
		for _, r := range g.Parser.Rules {
			if r.Precedence > 0 {
				stats.Feat["rules-with-%prec"]++
				nt = true
				break
			}
		}
		if len(g.Parser.Rules) > 2 || len(g.Parser.Prec) > 0 {
			nt = true
		}
		if len(g.Parser.Tables.Lookaheads) > 0 {
			stats.Feat["runtime-lookaheads"]++
		}
		if len(g.Parser.Tables.Markers) > 0 {
			stats.Feat["state-markers"]++
		}
		if len(g.Parser.Nonterms) > 3 {
			stats.Feat["derived-nonterminals"]++
		}
		if nt {
			stats.NT++
		}
	}
	flush(last)
}

// ---------------------------------------------------------------------------------------------
// Histories: several gen.Generate calls in ONE process. The grammars of a history all carry the same
// language name ("hist") and have the same number of symbols but differ in the names of their
// terminals / nonterminals (also: the same names in another order), in the shape of the recursive
// rule, in the precedence block and in the %prec terminal — so that anything the exporter keeps
// between two calls (keyed by name, by size, by position ...) shows up. Every history runs in a
// process of its own; the .y written for the grammar at each position must be byte-identical to the
// .y the same grammar gets when it is the first and only grammar of a process.

type histGrammar struct {
	t1, t2   string // terminals as written in the grammar
	swapDecl bool   // declare t2 before t1 in the lexer (same names, other symbol numbers)
	start    string
	rec      string
	right    bool   // right recursion
	prec     string // precedence block
	marker   string // %prec terminal
	midrule  bool   // one more symbol: a mid-rule action
}

var histGrammars = []histGrammar{
	{"'a'", "'b'", false, "input", "Left", false, "%left 'b';", "'b'", false},
	{"'c'", "'d'", false, "input", "Right", true, "%left 'd';", "'d'", false},
	{"'a'", "'b'", false, "input", "Right", false, "%right 'a';\n%nonassoc 'b';", "'b'", false},
	{"'a'", "'b'", true, "input", "Left", false, "%left 'b';", "'b'", false},
	{"'c'", "'d'", false, "start", "Left", true, "%nonassoc 'c' 'd';", "'c'", false},
	{"'a'", "'b'", false, "input", "Left", true, "%left 'b';", "'b'", false},
	{"'a'", "'b'", false, "input", "Left", false, "%right 'b';", "'b'", false},
	{"'a'", "'b'", false, "input", "Left", false, "%left 'a' 'b';", "'a'", false},
	// thorough only
	{"ta", "tb", false, "start", "Right", false, "%left tb;\n%left ta;", "ta", false},
	{"'c'", "'d'", true, "input", "Right", true, "%right 'd';", "'d'", false},
	{"'a'", "'b'", false, "input", "Left", false, "%left 'b';", "'b'", true},
	{"ta", "tb", true, "start", "Left", true, "%nonassoc ta tb;", "tb", false},
}

const histQuick = 8

func (h histGrammar) tm() string {
	var sb strings.Builder
	sb.WriteString("language hist(go);\n\npackage = \"scratch/hist\"\nwriteBison = true\n\n:: lexer\n\n")
	if h.swapDecl {
		fmt.Fprintf(&sb, "%s: /y/\n%s: /x/\n", h.t2, h.t1)
	} else {
		fmt.Fprintf(&sb, "%s: /x/\n%s: /y/\n", h.t1, h.t2)
	}
	fmt.Fprintf(&sb, "\n:: parser\n\n%%input %s;\n\n%s\n\n%s : %s ;\n", h.start, h.prec, h.start, h.rec)
	mid := ""
	if h.midrule {
		mid = "{ /*mid*/ } "
	}
	if h.right {
		fmt.Fprintf(&sb, "%s : %s %s%s | %s %s %%prec %s ;\n", h.rec, h.t1, mid, h.t2, h.t1, h.rec, h.marker)
	} else {
		fmt.Fprintf(&sb, "%s : %s %s%s | %s %s %%prec %s ;\n", h.rec, h.t1, mid, h.t2, h.rec, h.t1, h.marker)
	}
	return sb.String()
}

func (h histGrammar) desc() string {
	d := fmt.Sprintf("%s,%s", h.t1, h.t2)
	if h.swapDecl {
		d += "(declared in reverse)"
	}
	d += " " + h.start + "/" + h.rec
	if h.right {
		d += " right-rec"
	} else {
		d += " left-rec"
	}
	d += " [" + strings.ReplaceAll(h.prec, "\n", " ") + "] %prec " + h.marker
	if h.midrule {
		d += " +mid-rule"
	}
	return d
}

// histories lists the tuples of grammar indices: the singletons first (they provide the fresh
// exports), then all ordered pairs, then (thorough) all ordered triples.
func histories(tier string) [][]int {
	n := histQuick
	if tier != "quick" {
		n = len(histGrammars)
	}
	var out [][]int
	for i := 0; i < n; i++ {
		out = append(out, []int{i})
	}
	for i := 0; i < n; i++ {
		for j := 0; j < n; j++ {
			out = append(out, []int{i, j})
		}
	}
	if tier != "quick" {
		for i := 0; i < n; i++ {
			for j := 0; j < n; j++ {
				for k := 0; k < n; k++ {
					out = append(out, []int{i, j, k})
				}
			}
		}
	}
	return out
}

func histDesc(t []int) string {
	var parts []string
	for _, gi := range t {
		parts = append(parts, fmt.Sprintf("#%d{%s}", gi, histGrammars[gi].desc()))
	}
	return "history: " + strings.Join(parts, " -> ")
}

// runHistory generates the given texts one after another in this process and emits one record per
// position.
func runHistory(w *core.Worker, idx int, tms []string, gis []int) {
	for pos, tm := range tms {
		r := record{T: "h", Idx: idx, Pos: pos, G: -1, St: "ok"}
		if gis != nil {
			r.G = gis[pos]
		}
		g, files, genErr, genPanic := genharness.Generate("hist", tm)
		if genErr != "" || genPanic != "" {
			r.St, r.Key = genFailureKey(genErr, genPanic)
			r.What = trimTo(genErr+genPanic, 1200)
			w.Emit(r)
			continue
		}
		y, ok := files["hist.y"]
		if !ok {
			r.St, r.Key, r.What = "no-y", "no-bison-file", "writeBison = true but no hist.y"
			w.Emit(r)
			continue
		}
		r.Y = y
		if pos == 0 {
			// the first grammar of a process: the model oracle applies as for any other case
			if key, what := checkY(g, y); key != "" {
				r.St, r.Key, r.What = "mismatch", key, what
			}
		}
		w.Emit(r)
	}
}

// histWorker: a worker that is asked for one history (Only >= 0) runs it in this very process, which
// is fresh; otherwise it starts one child process per history of its share and relays the records.
func histWorker(w *core.Worker) {
	hs := histories(w.Tier)
	var deadline time.Time
	if len(w.Args) >= 2 {
		if u, err := strconv.ParseInt(w.Args[1], 10, 64); err == nil && u > 0 {
			deadline = time.Unix(u, 0)
		}
	}
	for idx, t := range hs {
		if !w.Mine(idx) {
			continue
		}
		if w.Only >= 0 {
			w.Case(idx, histDesc(t))
			var tms []string
			for _, gi := range t {
				tms = append(tms, histGrammars[gi].tm())
			}
			runHistory(w, idx, tms, t)
			continue
		}
		if !deadline.IsZero() && time.Now().After(deadline) {
			w.Emit(record{T: "cap", Idx: idx})
			break
		}
		w.Case(idx, histDesc(t))
		cmd := exec.Command(os.Args[0], "worker", w.Tier, "0", "1", "0", strconv.Itoa(idx), "hist")
		var stderr bytes.Buffer
		cmd.Stderr = &stderr
		stdout, err := cmd.StdoutPipe()
		if err != nil || cmd.Start() != nil {
			w.Emit(record{T: "h", Idx: idx, Pos: -1, St: "harness", What: "cannot start the child process"})
			continue
		}
		timer := time.AfterFunc(90*time.Second, func() { cmd.Process.Kill() })
		done := false
		sc := bufio.NewScanner(stdout)
		sc.Buffer(make([]byte, 1<<20), 1<<24)
		for sc.Scan() {
			line := sc.Text()
			switch {
			case strings.HasPrefix(line, "= "):
				w.Emit(json.RawMessage(line[2:]))
			case strings.HasPrefix(line, "$ done"):
				done = true
			}
		}
		werr := cmd.Wait()
		timer.Stop()
		if !done {
			w.Emit(record{T: "h", Idx: idx, Pos: -1, St: "death", Key: deathKey(fmt.Sprint(werr), stderr.String()), What: fmt.Sprintf("the process running the history died (%v)\n%s", werr, trimTo(stderr.String(), 1200))})
		}
		w.Flush()
	}
}

// histFileWorker (replay): the file holds the texts of one history.
func histFileWorker(w *core.Worker) {
	if !w.Mine(0) {
		return
	}
	data, err := os.ReadFile(w.Args[1])
	if err != nil {
		panic(err)
	}
	var tms []string
	if err := json.Unmarshal(data, &tms); err != nil {
		panic(err)
	}
	w.Case(0, fmt.Sprintf("history of %d grammars", len(tms)))
	runHistory(w, 0, tms, nil)
}

// diffClass names the part of the export in which got differs from ref.
func diffClass(ref, got string) (class, what string) {
	a, errA := parseY(ref)
	b, errB := parseY(got)
	first := func() string {
		la, lb := strings.Split(ref, "\n"), strings.Split(got, "\n")
		for i := 0; i < len(la) || i < len(lb); i++ {
			x, y := "", ""
			if i < len(la) {
				x = la[i]
			}
			if i < len(lb) {
				y = lb[i]
			}
			if x != y {
				return fmt.Sprintf("line %d: fresh %q, in the history %q", i+1, x, y)
			}
		}
		return ""
	}
	if errA != nil || errB != nil {
		return "text", first()
	}
	switch {
	case strings.Join(a.Prec, ";") != strings.Join(b.Prec, ";"):
		return "precedence-declarations", first()
	case strings.Join(a.Tokens, " ") != strings.Join(b.Tokens, " "):
		return "token-declarations", first()
	case strings.Join(a.Starts, " ") != strings.Join(b.Starts, " "):
		return "start-symbols", first()
	case len(a.Rules) != len(b.Rules):
		return "rule-count", first()
	}
	for i := range a.Rules {
		switch {
		case a.Rules[i].LHS != b.Rules[i].LHS:
			return "lhs", first()
		case strings.Join(a.Rules[i].RHS, " ") != strings.Join(b.Rules[i].RHS, " "):
			return "rhs-symbols", first()
		case a.Rules[i].Prec != b.Rules[i].Prec:
			return "prec-marker", first()
		}
	}
	return "text", first()
}

// runHistories is the parent side of the history phase.
func runHistories(c *core.Ctx) {
	hs := histories(c.Tier)
	type posRec struct {
		st, key, what, y string
		seen             bool
	}
	recs := make([][]posRec, len(hs))
	for i, t := range hs {
		recs[i] = make([]posRec, len(t))
	}
	capAt := -1
	type hv struct {
		idx, pos, count int
		what            string
	}
	vs := map[string]*hv{}
	add := func(idx, pos int, key, what string) {
		p, ok := vs[key]
		if !ok {
			vs[key] = &hv{idx, pos, 1, what}
			return
		}
		p.count++
		if idx < p.idx {
			p.idx, p.pos, p.what = idx, pos, what
		}
	}
	c.RunShards(core.ShardOpts{
		N:       16,
		Args:    []string{"hist", strconv.FormatInt(c.Deadline.Unix(), 10)},
		Silence: 200 * time.Second,
		OnRecord: func(shard int, raw json.RawMessage) {
			var r record
			if json.Unmarshal(raw, &r) != nil {
				return
			}
			switch r.T {
			case "cap":
				if capAt < 0 || r.Idx < capAt {
					capAt = r.Idx
				}
			case "h":
				if r.Idx < 0 || r.Idx >= len(hs) {
					return
				}
				if r.Pos < 0 {
					if r.St == "death" {
						add(r.Idx, len(hs[r.Idx])-1, "history:"+r.Key, r.What)
					} else {
						c.Capped("history phase: " + r.What)
					}
					return
				}
				if r.Pos < len(recs[r.Idx]) {
					recs[r.Idx][r.Pos] = posRec{r.St, r.Key, r.What, r.Y, true}
				}
			}
		},
		OnDeath: func(idx int, desc, how, tail string) {
			add(idx, len(hs[idx])-1, "history:"+deathKey(how, tail), fmt.Sprintf("worker died (%s)\n%s", how, trimTo(tail, 1200)))
		},
	})
	// fresh exports
	nG := histQuick
	if !c.Quick() {
		nG = len(histGrammars)
	}
	fresh := make([]string, nG)
	for gi := 0; gi < nG; gi++ {
		r := recs[gi][0]
		switch {
		case !r.seen:
		case r.st == "reject":
			c.Capped(fmt.Sprintf("history grammar #%d is rejected by the compiler (vacuous): %s", gi, trimTo(r.what, 200)))
		case r.key != "":
			add(gi, 0, r.key, r.what)
		default:
			fresh[gi] = r.y
		}
	}
	var tuples, compared, distinct int64
	for idx := nG; idx < len(hs); idx++ {
		t := hs[idx]
		complete := true
		for pos := range t {
			complete = complete && recs[idx][pos].seen
		}
		if !complete {
			continue
		}
		tuples++
		d := false
		for pos, gi := range t {
			if pos > 0 && gi != t[pos-1] {
				d = true
			}
			r := recs[idx][pos]
			if fresh[gi] == "" {
				continue
			}
			compared++
			switch {
			case r.st != "ok" && r.st != "mismatch":
				key := r.key
				if key == "" {
					key = "compile-rejected-only-in-history"
				}
				add(idx, pos, "history:"+key, fmt.Sprintf("position %d of %s: %s", pos, histDesc(t), r.what))
			case r.y != fresh[gi]:
				class, what := diffClass(fresh[gi], r.y)
				add(idx, pos, "history:export-differs-from-first-in-process:"+class,
					fmt.Sprintf("the .y written for the grammar at position %d of %s differs from the .y the same grammar gets as the first grammar of a process (%s)\n--- in the history ---\n%s", pos, histDesc(t), what, trimTo(r.y, 900)))
			}
		}
		if d {
			distinct++
		}
	}
	c.Eval(tuples)
	c.Nontrivial(distinct)
	c.Set("histories_planned", len(hs)-nG)
	c.Set("histories_run", tuples)
	c.Set("history_exports_compared_with_fresh", compared)
	c.Outcome("history: exports compared with the first-in-process export", compared)
	if capAt >= 0 {
		c.Capped(fmt.Sprintf("history phase stopped at the budget at history %d of %d", capAt, len(hs)))
	}
	var keys []string
	for k := range vs {
		keys = append(keys, k)
	}
	sort.Strings(keys)
	for _, k := range keys {
		p := vs[k]
		t := hs[p.idx]
		var tms []string
		for _, gi := range t[:p.pos+1] {
			tms = append(tms, histGrammars[gi].tm())
		}
		rc := replayCase{Desc: histDesc(t[:p.pos+1]), TM: tms[len(tms)-1], History: tms}
		c.Violate(k, fmt.Sprintf("%s\n(%d occurrence(s) with this key; simplest: %s)", p.what, p.count, histDesc(t)), rc)
		for i := 1; i < p.count; i++ {
			c.Violate(k, "", nil)
		}
	}
}

// ---------------------------------------------------------------------------------------------
// Parent.

type replayCase struct {
	Desc    string   `json:"desc"`
	TM      string   `json:"tm"`
	History []string `json:"history,omitempty"` // texts generated in one process, in order (the last one is TM)
}

type vio struct {
	idx   int
	what  string
	count int
}

func deathKey(how, tail string) string {
	class := "crash"
	switch {
	case strings.Contains(how, "no progress"):
		class = "hang"
	case strings.Contains(how, "exit status 1"), strings.Contains(how, "exited 0"):
		class = "exit"
	case strings.Contains(tail, "stack overflow") || strings.Contains(tail, "stack exceeds"):
		class = "stack-overflow"
	}
	site := stackSite(tail)
	if site == "" {
		lines := strings.Split(strings.TrimSpace(tail), "\n")
		site = "~" + slug(lines[len(lines)-1], 6)
	}
	return "death:" + class + ":" + site
}

func run(c *core.Ctx) {
	cases := buildCases(c.Tier)
	if os.Getenv("C30_PLAN") != "" { // development aid
		fmt.Println("cases", len(cases))
		for i := 0; i < len(cases); i += len(cases)/40 + 1 {
			fmt.Println(i, cases[i].desc())
		}
		os.Exit(0)
	}
	fam := map[string]int{}
	kinds := map[string]bool{}
	for _, cs := range cases {
		fam[cs.family()]++
		if cs.shp != nil {
			kinds[cs.shp.kind] = true
		}
	}
	c.Rule("every case is a .tm text with writeBison = true: (A) every CFG of gramenum scopes (N<=2 nonterminals, T<=3 terminals, <=3 rules, RHS<=3) x precedence blocks (%left/%right/%nonassoc in 10-13 groupings/orders) x %prec markers x input configurations; (B) rule bodies `tc <shape> td` for every shape of depth <= 2 over 9 atoms (terminal, nonterminal, sets, mid-rule action, lookaheads, state marker), 7 unary constructors (? + * separated lists, arrow, alias) and 2 binary ones (sequence, nested choice), and templated nonterminals with [F]/[!F] guards. " +
		"Grammars the compiler rejects (conflicts, invalid notation) are not cases. Non-trivial = accepted and the export has more than two rules, a precedence block or a %prec marker")
	c.Assume("log.Fatal* is observed through a log output hook that panics with the caller's identity; other worker deaths and hangs are detected by the shard protocol")
	c.Assume("the reader of the .y text strips // and /* */ comments and balanced {...} action blocks; symbol spelling follows bison.go.tmpl: terminals by token ID, nonterminals by name")
	c.Set("planned_cases", len(cases))
	c.Set("planned_by_family", fam)
	c.Set("shape_kinds", len(kinds))

	// the history phase first: it is small (one short-lived process per history)
	runHistories(c)

	vs := map[string]*vio{}
	add := func(idx int, key, what string) {
		p, ok := vs[key]
		if !ok {
			vs[key] = &vio{idx, what, 1}
			return
		}
		p.count++
		if idx < p.idx {
			p.idx, p.what = idx, what
		}
	}
	capAt := -1
	feat := map[string]int{}
	rej := map[string]int{}
	c.RunShards(core.ShardOpts{
		N:    16,
		Args: []string{"enum", strconv.FormatInt(c.Deadline.Unix(), 10)},
		OnRecord: func(shard int, raw json.RawMessage) {
			var r record
			if err := json.Unmarshal(raw, &r); err != nil {
				c.Capped("unparsable worker record: " + err.Error())
				return
			}
			switch r.T {
			case "v":
				add(r.Idx, r.Key, r.What)
			case "s":
				c.Eval(int64(r.N))
				c.Nontrivial(int64(r.NT))
				for k, v := range r.Out {
					c.Outcome(k, int64(v))
				}
				for k, v := range r.Feat {
					feat[k] += v
				}
				for k, v := range r.Rej {
					rej[k] += v
				}
			case "cap":
				if capAt < 0 || r.Idx < capAt {
					capAt = r.Idx
				}
			}
		},
		OnDeath: func(idx int, desc, how, tail string) {
			c.Eval(1)
			c.Outcome("death", 1)
			add(idx, deathKey(how, tail), fmt.Sprintf("worker died (%s)\n%s", how, trimTo(tail, 1500)))
		},
	})
	c.Set("accepted_grammar_features", feat)
	c.Set("compiler_rejections_by_class", rej)
	if capAt >= 0 {
		c.Capped(fmt.Sprintf("stopped at the budget: every case below index %d of %d was run (%s)", capAt, len(cases), cases[capAt].desc()))
	}
	for i := 0; i < len(cases) && c.SampleCount() < 6; i += len(cases)/6 + 1 {
		c.Sample(cases[i].desc())
	}
	var keys []string
	for k := range vs {
		keys = append(keys, k)
	}
	sort.Strings(keys)
	for _, k := range keys {
		p := vs[k]
		cs := cases[p.idx]
		rc := replayCase{Desc: cs.desc(), TM: cs.tm("@NAME@")}
		c.Violate(k, fmt.Sprintf("%s\n(%d case(s) with this key; simplest: %s)", p.what, p.count, cs.desc()), rc)
		for i := 1; i < p.count; i++ {
			c.Violate(k, "", nil)
		}
	}
}

// replayHistory generates the recorded history in one fresh process and its last grammar alone in
// another one and compares the two exports of that grammar.
func replayHistory(c *core.Ctx, rc replayCase, dir string) error {
	var fails []string
	gen := func(tms []string, file string) string {
		data, _ := json.Marshal(tms)
		os.WriteFile(file, data, 0o644)
		last := ""
		c.RunShards(core.ShardOpts{
			N: 1, Args: []string{"histfile", file}, Confirm: 1,
			OnRecord: func(shard int, raw json.RawMessage) {
				var r record
				if json.Unmarshal(raw, &r) != nil || r.T != "h" {
					return
				}
				if r.Pos == len(tms)-1 {
					last = r.Y
					if r.St != "ok" && r.St != "mismatch" {
						fails = append(fails, "history:"+r.Key+": "+r.What)
					}
				}
			},
			OnDeath: func(idx int, desc, how, tail string) {
				fails = append(fails, "history:"+deathKey(how, tail)+": worker died ("+how+")")
			},
		})
		return last
	}
	inHistory := gen(rc.History, filepath.Join(dir, "history.json"))
	fresh := gen(rc.History[len(rc.History)-1:], filepath.Join(dir, "fresh.json"))
	if len(fails) == 0 && inHistory != fresh {
		class, what := diffClass(fresh, inHistory)
		fails = append(fails, "history:export-differs-from-first-in-process:"+class+": "+what)
	}
	if len(fails) > 0 {
		return fmt.Errorf("%s", strings.Join(fails, "\n"))
	}
	return nil
}

func replay(c *core.Ctx, raw json.RawMessage) error {
	var rc replayCase
	if err := json.Unmarshal(raw, &rc); err != nil {
		return err
	}
	dir, err := os.MkdirTemp("", "verif-c30-replay-")
	if err != nil {
		return err
	}
	defer os.RemoveAll(dir)
	if len(rc.History) > 0 {
		return replayHistory(c, rc, dir)
	}
	srcFile := filepath.Join(dir, "cases.json")
	data, _ := json.Marshal([]fileCase{{Desc: rc.Desc, TM: rc.TM}})
	os.WriteFile(srcFile, data, 0o644)
	var fails []string
	c.RunShards(core.ShardOpts{
		N: 1, Args: []string{srcFile}, Confirm: 1,
		OnRecord: func(shard int, raw json.RawMessage) {
			var r record
			if json.Unmarshal(raw, &r) != nil {
				return
			}
			if r.T == "v" {
				fails = append(fails, r.Key+": "+r.What)
			}
			if r.T == "s" && r.Out["file:reject"] > 0 {
				fmt.Println("note: the compiler rejects this case now:", r.Rej)
			}
		},
		OnDeath: func(idx int, desc, how, tail string) {
			fails = append(fails, deathKey(how, tail)+": worker died ("+how+")")
		},
	})
	if len(fails) > 0 {
		return fmt.Errorf("%s", strings.Join(fails, "\n"))
	}
	return nil
}
