// C20: parse events always form a well-nested tree.
//
// (a) shipped event parsers tm, js (3 dialects, module / expression / type entry points), json,
// test on the C12 input sets (internal/shipped): all reported nodes lie in [0,len], any two are
// disjoint or nested, a strict container is reported after its content.
// (b) the tree builder of parsers/tm/ast (the go_ast_parse.go.tmpl instance used by the tm and js
// ASTs): EVERY event stream with <= N nodes over offsets 0..M that satisfies the conditions of (a)
// (empty and equal ranges included; nodes may be reported out of source order as long as they are
// disjoint) is fed to the unexported builder through an overlay-added in-package test
// (overlays/c20/zz_verif_test.go) and the tree is compared with a reference built here.
// (c) end to end: tm/ast.Parse and js/ast.Parse on the inputs of (a) against the reference tree
// of the event stream that the same parser reports to a plain listener.
package main

import (
	"bufio"
	"context"
	"encoding/json"
	"fmt"
	"os"
	"os/exec"
	"path/filepath"
	"sort"
	"strconv"
	"strings"
	"sync"
	"syscall"
	"time"

	"github.com/inspirer/textmapper/parsers/js"
	jsast "github.com/inspirer/textmapper/parsers/js/ast"
	jssel "github.com/inspirer/textmapper/parsers/js/selector"
	"github.com/inspirer/textmapper/parsers/tm"
	tmast "github.com/inspirer/textmapper/parsers/tm/ast"
	tmsel "github.com/inspirer/textmapper/parsers/tm/selector"

	"verif/internal/core"
	"verif/internal/shipped"
)

func main() { core.Main("C20", "model_checking", run, replay, nil) }

// ---------------------------------------------------------------------------------------------
// replay cases

type ccase struct {
	Kind   string   `json:"kind"` // parser | ast | builder
	Parser string   `json:"parser,omitempty"`
	Input  []byte   `json:"input,omitempty"`
	Quoted string   `json:"quoted,omitempty"`
	Len    int      `json:"len,omitempty"`    // builder: content length
	Events [][2]int `json:"events,omitempty"` // builder: [offset,endoffset] in report order
	TM     string   `json:"tm,omitempty"`     // gen: grammar text of a generated-family parser
	Second []byte   `json:"second,omitempty"` // reuse-json: the second input parsed with the same parser value
}

// ---------------------------------------------------------------------------------------------
// (a) event parsers

type parseResult struct {
	events  []shipped.Event
	errors  int
	err     error
	aborted bool // event budget exceeded
}

// runParser collects what the parser reports. The event budget is deterministic (never a clock):
// a parser may report at most 256*(len+4) nodes+errors.
func runParser(ctx context.Context, cfg *shipped.ParserConfig, src string, buf []shipped.Event) (res parseResult, panicErr error) {
	budget := 256 * (len(src) + 4)
	res.events = buf[:0]
	sink := shipped.Sink{
		Node: func(t, off, end int) {
			if len(res.events)+res.errors >= budget {
				panic(shipped.TooManyEvents{N: budget})
			}
			res.events = append(res.events, shipped.Event{Type: t, Off: off, End: end})
		},
		Error: func(off, end int) {
			if len(res.events)+res.errors >= budget {
				panic(shipped.TooManyEvents{N: budget})
			}
			res.errors++
		},
	}
	panicErr = core.Guard(func() {
		defer func() {
			if r := recover(); r != nil {
				if _, ok := r.(shipped.TooManyEvents); ok {
					res.aborted = true
					return
				}
				panic(r)
			}
		}()
		res.err = cfg.Run(ctx, src, sink)
	})
	return
}

func checkParser(ctx context.Context, cfg *shipped.ParserConfig, src string, buf []shipped.Event) ([]shipped.Finding, parseResult) {
	res, perr := runParser(ctx, cfg, src, buf)
	pre := fmt.Sprintf("%s parser, input %s: ", cfg.Name, shipped.Quote(src))
	// Keys name the parser (tm, js, json, test), not the way it is driven; the configuration is
	// part of the message and of the replay case.
	if perr != nil {
		return []shipped.Finding{{Key: cfg.Lang + ":panic:" + core.PanicSite(perr), What: pre + perr.Error()}}, res
	}
	if res.aborted {
		return []shipped.Finding{{Key: cfg.Lang + ":unbounded-events", What: pre + fmt.Sprintf("more than %d listener/error-handler calls", 256*(len(src)+4))}}, res
	}
	fs := shipped.CheckEvents(cfg.Lang, cfg.TypeName, len(src), res.events)
	for i := range fs {
		fs[i].What = pre + fs[i].What
	}
	return fs, res
}

// ---------------------------------------------------------------------------------------------
// reference tree (shared by (b) and (c))

type rng struct{ Off, End int }

// contains: does a later-reported node a contain the earlier-reported node b? Ranges are
// half-open; an empty range [x,x) is the position x, and position a.End is outside [a.Off,a.End).
// Hence equal non-empty ranges nest (the later one is the parent), an empty node at the START
// boundary of a later node is its child, one at the END boundary is its following sibling, and
// equal empty ranges are siblings. The statement of C20 does not order empty nodes on a boundary;
// this is the reading under which "siblings in source order" stays well defined, and it is also
// what the builder does.
func contains(a, b rng) bool {
	return a.Off <= b.Off && b.End <= a.End && (b.Off < b.End || b.Off < a.End)
}

// refParents returns for every event the index of its parent event or -1 for the root. The parent
// is the smallest container among the nodes reported later; because a strict container always
// comes after its content, that is the FIRST later-reported node that contains it.
func refParents(ev []rng) []int {
	par := make([]int, len(ev))
	for i := range ev {
		par[i] = -1
		for j := i + 1; j < len(ev); j++ {
			if contains(ev[j], ev[i]) {
				par[i] = j
				break
			}
		}
	}
	return par
}

func less(a, b rng) bool { return a.Off < b.Off || (a.Off == b.Off && a.End < b.End) }

// streamOK: the precondition of the builder = the conclusion of (a) for every pair i<j.
func pairOK(a, b rng) bool { // a reported before b
	if (a.Off < b.Off && b.Off < a.End && a.End < b.End) || (b.Off < a.Off && a.Off < b.End && b.End < a.End) {
		return false // partial overlap
	}
	if a.Off <= b.Off && b.End <= a.End && (a.Off != b.Off || a.End != b.End) {
		if b.Off < b.End || (a.Off < b.Off && b.Off < a.End) {
			return false // the earlier node strictly contains the later one
		}
	}
	return true
}

// ---------------------------------------------------------------------------------------------
// (b) builder streams

// enumStreams calls emit for every valid stream with exactly n events over offsets 0..maxOff.
// emit must not keep the slice.
func enumStreams(n, maxOff int, emit func([]rng)) {
	var all []rng
	for o := 0; o <= maxOff; o++ {
		for e := o; e <= maxOff; e++ {
			all = append(all, rng{o, e})
		}
	}
	cur := make([]rng, 0, n)
	var rec func()
	rec = func() {
		if len(cur) == n {
			emit(cur)
			return
		}
	next:
		for _, r := range all {
			for _, p := range cur {
				if !pairOK(p, r) {
					continue next
				}
			}
			cur = append(cur, r)
			rec()
			cur = cur[:len(cur)-1]
		}
	}
	rec()
}

func streamLine(s []rng) string {
	var sb strings.Builder
	for i, r := range s {
		if i > 0 {
			sb.WriteByte(',')
		}
		sb.WriteString(strconv.Itoa(r.Off))
		sb.WriteByte('-')
		sb.WriteString(strconv.Itoa(r.End))
	}
	return sb.String()
}

func parseStreamLine(line string) []rng {
	if line == "" {
		return nil
	}
	var out []rng
	for _, p := range strings.Split(line, ",") {
		o, e, _ := strings.Cut(p, "-")
		oi, _ := strconv.Atoi(o)
		ei, _ := strconv.Atoi(e)
		out = append(out, rng{oi, ei})
	}
	return out
}

type dnode struct {
	typ, off, end, depth, parent, next, first int
}

func parseDump(t string) ([]dnode, error) {
	var out []dnode
	for _, part := range strings.Split(strings.TrimSuffix(t, ";"), ";") {
		f := strings.Split(part, ",")
		if len(f) != 7 {
			return nil, fmt.Errorf("bad node %q", part)
		}
		var v [7]int
		for i := range f {
			x, err := strconv.Atoi(f[i])
			if err != nil {
				return nil, err
			}
			v[i] = x
		}
		out = append(out, dnode{v[0], v[1], v[2], v[3], v[4], v[5], v[6]})
	}
	return out, nil
}

// checkBuilt judges one driver output line. Returns findings (key, what) and the stack
// configuration string (for the state count).
func checkBuilt(L int, ev []rng, fileType int, out string) (fs []shipped.Finding, stack string) {
	desc := fmt.Sprintf("builder, content length %d, events %s: ", L, streamLine(ev))
	add := func(class, format string, args ...any) {
		for _, f := range fs {
			if f.Key == "builder:"+class {
				return
			}
		}
		fs = append(fs, shipped.Finding{Key: "builder:" + class, What: desc + fmt.Sprintf(format, args...)})
	}
	if strings.HasPrefix(out, "PANIC ") {
		add("panic", "%s", out)
		return
	}
	if strings.HasPrefix(out, "ERR ") {
		add("build-error", "%s", out)
		return
	}
	s, t, ok := strings.Cut(out, "|T ")
	if !ok || !strings.HasPrefix(s, "S") {
		add("driver-output", "unparsable driver output %q", out)
		return
	}
	stack = strings.TrimSpace(strings.TrimPrefix(s, "S"))
	nodes, err := parseDump(t)
	if err != nil || len(nodes) == 0 {
		add("driver-output", "unparsable driver output %q (%v)", out, err)
		return
	}
	root := nodes[0]
	if root.depth != 0 || root.typ != fileType || root.off != 0 || root.end != L || root.parent != -1 || root.next != -1 {
		add("root", "root is %+v, want the File node [0,%d) without parent/sibling", root, L)
	}
	// structure from the pre-order depths
	parentIdx := make([]int, len(nodes)) // index into nodes
	var path []int
	for i, nd := range nodes {
		if i > 0 && (nd.depth < 1 || nd.depth > len(path)) {
			add("driver-output", "inconsistent depth in %q", out)
			return
		}
		path = path[:nd.depth]
		if nd.depth == 0 {
			parentIdx[i] = -1
		} else {
			parentIdx[i] = path[nd.depth-1]
		}
		path = append(path, i)
	}
	// node multiset
	at := make([]int, len(ev)) // event -> node index, -1 = missing
	for i := range at {
		at[i] = -1
	}
	for i, nd := range nodes[1:] {
		k := nd.typ - 1000
		if k < 0 || k >= len(ev) || nd.off != ev[k].Off || nd.end != ev[k].End {
			add("foreign-node", "tree contains node type=%d [%d,%d) that was never reported", nd.typ, nd.off, nd.end)
			continue
		}
		if at[k] != -1 {
			add("node-duplicated", "event #%d [%d,%d) occurs twice in the tree", k, nd.off, nd.end)
			continue
		}
		at[k] = i + 1
	}
	for k, p := range at {
		if p == -1 {
			if ev[k].Off == L && ev[k].End == L {
				add("node-lost:empty-at-end-of-input", "event #%d [%d,%d) (empty node at the end of the input) is not in the tree", k, ev[k].Off, ev[k].End)
			} else {
				add("node-lost", "event #%d [%d,%d) is not in the tree", k, ev[k].Off, ev[k].End)
			}
		}
	}
	// parents
	par := refParents(ev)
	typeOf := func(eventIdx int) int {
		if eventIdx == -1 {
			return fileType
		}
		return 1000 + eventIdx
	}
	for k, p := range at {
		if p == -1 {
			continue
		}
		gotParent := nodes[parentIdx[p]]
		want := typeOf(par[k])
		if gotParent.typ != want || (parentIdx[p] == 0) != (par[k] == -1) {
			class := "wrong-parent"
			if ev[k].Off == ev[k].End {
				class = "wrong-parent:empty-node"
			}
			wantDesc := "the root"
			if par[k] >= 0 {
				wantDesc = fmt.Sprintf("event #%d [%d,%d)", par[k], ev[par[k]].Off, ev[par[k]].End)
			}
			add(class, "event #%d [%d,%d) is a child of type=%d [%d,%d), want %s", k, ev[k].Off, ev[k].End, gotParent.typ, gotParent.off, gotParent.end, wantDesc)
		}
		if nodes[p].parent != gotParent.typ {
			add("parent-pointer", "event #%d: parent pointer says type %d, but it is listed under type %d", k, nodes[p].parent, gotParent.typ)
		}
	}
	// siblings: source order, Next()/Child() links
	kids := make([][]int, len(nodes))
	for i := 1; i < len(nodes); i++ {
		kids[parentIdx[i]] = append(kids[parentIdx[i]], i)
	}
	for i, ch := range kids {
		wantFirst := -1
		if len(ch) > 0 {
			wantFirst = nodes[ch[0]].typ
		}
		if nodes[i].first != wantFirst {
			add("first-child-link", "node type=%d: Child(Any) has type %d, Children(Any) starts with %d", nodes[i].typ, nodes[i].first, wantFirst)
		}
		for j, c := range ch {
			wantNext := -1
			if j+1 < len(ch) {
				wantNext = nodes[ch[j+1]].typ
				a, b := rng{nodes[c].off, nodes[c].end}, rng{nodes[ch[j+1]].off, nodes[ch[j+1]].end}
				if less(b, a) {
					add("sibling-order", "siblings [%d,%d) and [%d,%d) under type=%d are not in source order", a.Off, a.End, b.Off, b.End, nodes[i].typ)
				}
			}
			if nodes[c].next != wantNext {
				add("next-link", "node type=%d: Next(Any) has type %d, want %d", nodes[c].typ, nodes[c].next, wantNext)
			}
		}
	}
	return
}

// runDriver runs the overlay test over the in-*.txt files of dir and returns the File type.
func runDriver(dir string) (fileType int, err error) {
	repo := core.RepoDir()
	ov := map[string]any{"Replace": map[string]string{
		filepath.Join(repo, "parsers/tm/ast/zz_verif_test.go"): filepath.Join(core.Root(), "overlays/c20/zz_verif_test.go"),
	}}
	data, _ := json.Marshal(ov)
	ovPath := filepath.Join(dir, "overlay.json")
	if err := os.WriteFile(ovPath, data, 0o644); err != nil {
		return 0, err
	}
	cmd := exec.Command("go", "test", "-overlay="+ovPath, "-vet=off", "-count=1", "-timeout=40m",
		"-run", "^TestVerifC20Driver$", "-json", "./parsers/tm/ast")
	cmd.Dir = repo
	cmd.Env = append(os.Environ(), "VERIF_C20_DIR="+dir, "GOFLAGS=-mod=mod", "GOPROXY=off")
	outBytes, runErr := cmd.CombinedOutput()
	var passed bool
	fileType = -1
	var text strings.Builder
	for _, line := range strings.Split(string(outBytes), "\n") {
		var rec struct {
			Action, Package, Test, Output string
		}
		if json.Unmarshal([]byte(line), &rec) != nil {
			text.WriteString(line + "\n")
			continue
		}
		text.WriteString(rec.Output)
		if rec.Action == "pass" && rec.Test == "TestVerifC20Driver" {
			passed = true
		}
		if i := strings.Index(rec.Output, "VERIF-C20 {"); i >= 0 {
			var sum struct {
				Files, Streams int
				FileType       int `json:"file_type"`
			}
			if json.Unmarshal([]byte(strings.TrimSpace(rec.Output[i+len("VERIF-C20 "):])), &sum) == nil {
				fileType = sum.FileType
			}
		}
	}
	if !passed || fileType < 0 {
		return 0, fmt.Errorf("go test of the overlay driver failed (%v):\n%s", runErr, text.String())
	}
	return fileType, nil
}

// silenceStderr points fd 2 at /dev/null: test.tm has a semantic action `println("it works")`
// that would flood the log while the test parser runs. The returned function undoes it.
func silenceStderr() func() {
	devnull, err := os.OpenFile(os.DevNull, os.O_WRONLY, 0)
	if err != nil {
		return func() {}
	}
	saved, err := syscall.Dup(2)
	if err != nil {
		devnull.Close()
		return func() {}
	}
	if err := syscall.Dup3(int(devnull.Fd()), 2, 0); err != nil {
		syscall.Close(saved)
		devnull.Close()
		return func() {}
	}
	return func() {
		syscall.Dup3(saved, 2, 0)
		syscall.Close(saved)
		devnull.Close()
	}
}

func infra(err error) {
	fmt.Fprintln(os.Stderr, "C20: infrastructure failure:", err)
	os.Exit(2)
}

type collector struct {
	mu sync.Mutex
	m  map[string]*best
}
type best struct {
	seq   int64
	what  string
	rep   ccase
	count int64
}

func (k *collector) add(key string, seq int64, what string, rep func() ccase) {
	k.mu.Lock()
	defer k.mu.Unlock()
	b := k.m[key]
	if b == nil {
		k.m[key] = &best{seq: seq, what: what, rep: rep(), count: 1}
		return
	}
	b.count++
	if seq < b.seq {
		b.seq, b.what, b.rep = seq, what, rep()
	}
}

func builderPart(c *core.Ctx, col *collector, seqBase int64) {
	maxNodes, maxOff := 5, 3
	if !c.Quick() {
		maxNodes, maxOff = 6, 4
	}
	c.Set("builder_max_nodes", maxNodes)
	c.Set("builder_max_offset", maxOff)
	dir, err := os.MkdirTemp("", "c20-")
	if err != nil {
		infra(err)
	}
	defer os.RemoveAll(dir)

	// write the shards: streams with 0,1,2,... nodes, content length = maxOff (and, for the
	// short streams, every smaller content length that still holds all offsets used).
	const perFile = 100000
	type shard struct {
		path string
		L    int
	}
	var shards []shard
	var w *bufio.Writer
	var f *os.File
	inFile := 0
	total := int64(0)
	events := int64(0)
	closeFile := func() {
		if f != nil {
			w.Flush()
			f.Close()
			f = nil
		}
	}
	open := func(L int) {
		closeFile()
		p := filepath.Join(dir, fmt.Sprintf("in-%05d.txt", len(shards)))
		var err error
		f, err = os.Create(p)
		if err != nil {
			infra(err)
		}
		w = bufio.NewWriterSize(f, 1<<20)
		fmt.Fprintf(w, "#len=%d\n", L)
		shards = append(shards, shard{p, L})
		inFile = 0
	}
	capped := false
	for n := 0; n <= maxNodes && !capped; n++ {
		open(maxOff)
		enumStreams(n, maxOff, func(s []rng) {
			if inFile >= perFile {
				open(maxOff)
			}
			w.WriteString(streamLine(s))
			w.WriteByte('\n')
			inFile++
			total++
			events += int64(len(s))
		})
		if c.Expired() {
			c.Capped(fmt.Sprintf("builder streams with more than %d nodes: soft budget passed", n))
			capped = true
		}
	}
	// the same streams with <= 3 nodes for every shorter content (the File root is [0,len]):
	for L := 0; L < maxOff; L++ {
		open(L)
		for n := 0; n <= 3 && n <= maxNodes; n++ {
			enumStreams(n, L, func(s []rng) {
				w.WriteString(streamLine(s))
				w.WriteByte('\n')
				total++
				events += int64(len(s))
			})
		}
	}
	closeFile()

	fileType, err := runDriver(dir)
	if err != nil {
		infra(err)
	}
	if fileType != int(tm.File) {
		infra(fmt.Errorf("driver reports File=%d, check binary has %d (different trees?)", fileType, int(tm.File)))
	}

	// judge
	var mu sync.Mutex
	stacks := map[string]struct{}{}
	var nontrivial int64
	shapes := map[string]int64{}
	core.ParallelFor(len(shards), 16, func(si int) {
		sh := shards[si]
		in, err1 := os.Open(sh.path)
		outPath := filepath.Join(dir, "out-"+strings.TrimPrefix(filepath.Base(sh.path), "in-"))
		out, err2 := os.Open(outPath)
		if err1 != nil || err2 != nil {
			infra(fmt.Errorf("shard %s: %v %v", sh.path, err1, err2))
		}
		defer in.Close()
		defer out.Close()
		si1 := bufio.NewScanner(in)
		so := bufio.NewScanner(out)
		so.Buffer(make([]byte, 1<<16), 1<<20)
		localStacks := map[string]struct{}{}
		localShapes := map[string]int64{}
		var nt int64
		idx := int64(si) * perFile * 4
		for si1.Scan() {
			line := si1.Text()
			if strings.HasPrefix(line, "#len=") {
				continue
			}
			if !so.Scan() {
				infra(fmt.Errorf("shard %s: driver output is short", sh.path))
			}
			ev := parseStreamLine(line)
			fs, stack := checkBuilt(sh.L, ev, fileType, so.Text())
			localStacks[fmt.Sprintf("%d|%s", sh.L, stripTypes(stack))] = struct{}{}
			par := refParents(ev)
			depth, nested, empties, equal := 0, false, 0, false
			for i := range ev {
				d := 1
				for p := par[i]; p != -1; p = par[p] {
					d++
					nested = true
				}
				if d > depth {
					depth = d
				}
				if ev[i].Off == ev[i].End {
					empties++
				}
				for j := 0; j < i; j++ {
					if ev[i] == ev[j] {
						equal = true
					}
				}
			}
			if nested {
				nt++
			}
			localShapes[fmt.Sprintf("builder:nodes=%d,depth=%d,empty=%v,equal=%v", len(ev), depth, empties > 0, equal)]++
			for _, fnd := range fs {
				evc := append([]rng{}, ev...)
				L := sh.L
				col.add(fnd.Key, seqBase+int64(len(ev))<<40+idx, fnd.What, func() ccase {
					cc := ccase{Kind: "builder", Len: L}
					for _, r := range evc {
						cc.Events = append(cc.Events, [2]int{r.Off, r.End})
					}
					return cc
				})
			}
			idx++
		}
		mu.Lock()
		for k := range localStacks {
			stacks[k] = struct{}{}
		}
		for k, v := range localShapes {
			shapes[k] += v
		}
		nontrivial += nt
		mu.Unlock()
	})
	c.Eval(total)
	c.Nontrivial(nontrivial)
	c.States(int64(len(stacks)))
	c.Transitions(events)
	c.Traces(total)
	c.Set("builder_streams", total)
	for k, v := range shapes {
		c.Outcome(k, v)
	}
	c.Sample(ccase{Kind: "builder", Len: maxOff, Events: [][2]int{{1, 1}, {1, 2}, {3, 3}, {1, 3}, {0, 0}}})
}

// stripTypes turns "o-e-t o-e-t" into "o-e o-e": the builder's control flow depends on the ranges
// on its stack only.
func stripTypes(stack string) string {
	if stack == "" {
		return ""
	}
	parts := strings.Fields(stack)
	for i, p := range parts {
		if j := strings.LastIndexByte(p, '-'); j > 0 {
			parts[i] = p[:j]
		}
	}
	return strings.Join(parts, " ")
}

// ---------------------------------------------------------------------------------------------
// (c) ast.Parse end to end

type anode struct {
	typ, off, end int
	kids          []*anode
}

func canon(n *anode, sb *strings.Builder) {
	fmt.Fprintf(sb, "(%d:%d-%d", n.typ, n.off, n.end)
	// equal empty siblings are not ordered by the property: sort them by type, then by subtree
	ks := append([]*anode{}, n.kids...)
	sort.SliceStable(ks, func(i, j int) bool {
		a, b := ks[i], ks[j]
		if a.off == b.off && a.end == b.end && a.off == a.end {
			return a.typ < b.typ
		}
		return false
	})
	for _, k := range ks {
		canon(k, sb)
	}
	sb.WriteByte(')')
}

func refTree(ev []shipped.Event, L, fileType int) *anode {
	rs := make([]rng, len(ev))
	for i, e := range ev {
		rs[i] = rng{e.Off, e.End}
	}
	par := refParents(rs)
	nodes := make([]*anode, len(ev))
	for i, e := range ev {
		nodes[i] = &anode{typ: e.Type, off: e.Off, end: e.End}
	}
	root := &anode{typ: fileType, off: 0, end: L}
	for i := range ev {
		p := root
		if par[i] >= 0 {
			p = nodes[par[i]]
		}
		p.kids = append(p.kids, nodes[i])
	}
	var sortKids func(n *anode)
	sortKids = func(n *anode) {
		sort.SliceStable(n.kids, func(i, j int) bool {
			return less(rng{n.kids[i].off, n.kids[i].end}, rng{n.kids[j].off, n.kids[j].end})
		})
		for _, k := range n.kids {
			sortKids(k)
		}
	}
	sortKids(root)
	return root
}

func fromTM(n *tmast.Node) *anode {
	out := &anode{typ: int(n.Type()), off: n.Offset(), end: n.Endoffset()}
	for _, c := range n.Children(tmsel.Any) {
		out.kids = append(out.kids, fromTM(c))
	}
	return out
}

func fromJS(n *jsast.Node) *anode {
	out := &anode{typ: int(n.Type()), off: n.Offset(), end: n.Endoffset()}
	for _, c := range n.Children(jssel.Any) {
		out.kids = append(out.kids, fromJS(c))
	}
	return out
}

func flatten(n *anode, into map[[3]int]int) {
	into[[3]int{n.typ, n.off, n.end}]++
	for _, k := range n.kids {
		flatten(k, into)
	}
}

// checkAST compares <lang>/ast.Parse(src) with the reference tree of the events that the same
// parser reports to a listener. lang is "tm" or "js".
func checkAST(ctx context.Context, lang string, src string, buf []shipped.Event) (fs []shipped.Finding, built bool) {
	name := lang + "-ast"
	pre := fmt.Sprintf("%s/ast.Parse, input %s: ", lang, shipped.Quote(src))
	cfgName := "tm:file"
	if lang == "js" {
		cfgName = "js:module"
	}
	cfg := shipped.ParserConfigByName(cfgName)
	res, perr := runParser(ctx, cfg, src, buf)
	if perr != nil || res.aborted {
		return nil, false // reported by part (a)
	}
	if pfs := shipped.CheckEvents(cfg.Name, cfg.TypeName, len(src), res.events); len(pfs) > 0 {
		return nil, false // the stream violates the builder's precondition: reported by part (a)
	}
	var got *anode
	var fileType int
	var perr2 error
	var parseErr error
	perr2 = core.Guard(func() {
		if lang == "tm" {
			fileType = int(tm.File)
			t, err := tmast.Parse(ctx, "verif", src, func(tm.SyntaxError) bool { return true })
			parseErr = err
			if err == nil {
				got = fromTM(t.Root())
			}
		} else {
			fileType = int(js.File)
			t, err := jsast.Parse(ctx, "verif", src, func(js.SyntaxError) bool { return true })
			parseErr = err
			if err == nil {
				got = fromJS(t.Root())
			}
		}
	})
	if perr2 != nil {
		return []shipped.Finding{{Key: name + ":panic:" + core.PanicSite(perr2), What: pre + perr2.Error()}}, false
	}
	if (parseErr == nil) != (res.err == nil) {
		return []shipped.Finding{{Key: name + ":error-mismatch", What: pre + fmt.Sprintf("ast.Parse error %v, parser error %v", parseErr, res.err)}}, false
	}
	if parseErr != nil {
		return nil, false
	}
	want := refTree(res.events, len(src), fileType)
	var a, b strings.Builder
	canon(got, &a)
	canon(want, &b)
	if a.String() == b.String() {
		return nil, true
	}
	gm, wm := map[[3]int]int{}, map[[3]int]int{}
	flatten(got, gm)
	flatten(want, wm)
	for k, n := range wm {
		if gm[k] < n {
			class := "node-lost"
			if k[1] == len(src) && k[2] == len(src) {
				class = "node-lost:empty-at-end-of-input"
			}
			return []shipped.Finding{{Key: name + ":" + class, What: pre + fmt.Sprintf("reported node %s[%d,%d) is not in the tree; tree %s, want %s", cfg.TypeName(k[0]), k[1], k[2], a.String(), b.String())}}, true
		}
	}
	for k, n := range gm {
		if wm[k] < n {
			return []shipped.Finding{{Key: name + ":foreign-node", What: pre + fmt.Sprintf("tree node %s[%d,%d) was never reported", cfg.TypeName(k[0]), k[1], k[2])}}, true
		}
	}
	return []shipped.Finding{{Key: name + ":tree-shape", What: pre + fmt.Sprintf("tree %s, want %s", a.String(), b.String())}}, true
}

// ---------------------------------------------------------------------------------------------

func run(c *core.Ctx) {
	// debugging aid: VERIF_C20_ONLY=gen|reusejs runs a single late phase (evidence is then partial)
	switch os.Getenv("VERIF_C20_ONLY") {
	case "gen":
		c.Rule("debug: generated family only")
		genFamilyPhase(c)
		return
	case "reusejs":
		c.Rule("debug: js reuse histories only")
		jsReusePhase(c)
		return
	}
	maxLen, edits := 4, 1
	if !c.Quick() {
		maxLen, edits = 5, 2
	}
	c.Rule(fmt.Sprintf("(a) per shipped event parser configuration (%d of them): every byte string of length <= %d over the language's 14-byte alphabet without/with BOM plus every seed text of internal/shipped with all its <= %d-edit mutations; non-trivial = at least one node is nested in another one or the error handler was called. (b) every event stream with <= N nodes over offsets 0..M (quick 5/3, thorough 6/4) in which any two nodes are disjoint or nested and no node is strictly contained in an earlier one (empty and equal ranges included, disjoint nodes in any order), plus all streams with <= 3 nodes for every shorter content length; non-trivial = some node has a parent other than the root. (c) tm/ast.Parse and js/ast.Parse on the inputs of (a). (d) json parser reuse histories (reuse.go). (e) histories on one js.Parser + js.TokenStream: Init+parse(e1,w1), Init+parse(e2,w2) for all 4x4 entry points, |w1| <= 2 (quick) / 3 over {a ; LF / ` (}, |w2| <= 3 over {a ; LF space + ) ` /}, second parse must equal a fresh pair. (f) 36 (quick) / 48 generated parsers without tokenStream: rules ending in 1-2 nullable symbols (optional, nullable list, optional group, typed empty nonterminal) followed by 0..2 state markers, fixWhitespace on with injected Comment / invalid_token or fixWhitespace off without reported skipped tokens, with and without error recovery; inputs = atom sequences with comments and invalid characters in every gap; non-trivial = a skipped token was reported", len(shipped.ParserConfigs), maxLen, edits))
	c.Assume("the overlay driver overlays/c20/zz_verif_test.go only feeds events and dumps the tree; it is added to package parsers/tm/ast with go test -overlay (no repository file is replaced)")
	c.Assume("js/ast uses a textually identical builder (same template); it is covered by (c) only")
	c.Assume("empty nodes on the boundary of another node are not ordered by the statement; oracle (a) ignores them, reference (b) reads ranges as half-open (see contains())")
	c.Set("max_len", maxLen)
	c.Set("edits", edits)

	col := &collector{m: map[string]*best{}}

	// (b) first: it is the model-checking core and the cheapest.
	builderPart(c, col, 0)

	// (e), (f): cheap and independent of the input sets below; run them before the long phases so
	// that a soft-budget cap on a loaded machine never hits them.
	jsReusePhase(c)
	genFamilyPhase(c)

	// (a) + (c)
	seqBase := int64(1) << 60
	ctx, cancel := context.WithCancel(context.Background())
	defer cancel()
	runGroup := func(name string, n int, get func(i int) string, work func(ctx context.Context, src string, buf *[]shipped.Event, out map[string]int64) (fs []shipped.Finding, nontrivial bool), mkcase func(src string) ccase) {
		const chunk = 1024
		nchunks := (n + chunk - 1) / chunk
		base := seqBase
		seqBase += int64(n)
		var emu sync.Mutex
		expired := false
		core.ParallelFor(nchunks, 16, func(ci int) {
			if c.Expired() {
				emu.Lock()
				expired = true
				emu.Unlock()
				return
			}
			lo, hi := ci*chunk, (ci+1)*chunk
			if hi > n {
				hi = n
			}
			buf := make([]shipped.Event, 0, 256)
			out := map[string]int64{}
			var nt int64
			for i := lo; i < hi; i++ {
				src := get(i)
				// A parse that is still running after 60 s (typical: microseconds) is cancelled
				// and recorded as not completed; the clock is never an oracle.
				pctx, pcancel := context.WithTimeout(ctx, 60*time.Second)
				fs, nontriv := work(pctx, src, &buf, out)
				if pctx.Err() != nil {
					c.Capped(fmt.Sprintf("%s: a parse was cancelled after 60 s: %s", name, shipped.Quote(src)))
				}
				pcancel()
				if nontriv {
					nt++
				}
				for _, f := range fs {
					col.add(f.Key, base+int64(i), f.What, func() ccase { return mkcase(src) })
				}
			}
			c.Add("parses", int64(hi-lo))
			c.Eval(int64(hi - lo))
			c.Nontrivial(nt)
			for k, v := range out {
				c.Outcome(k, v)
			}
		})
		if expired {
			c.Capped(name + ": soft budget passed")
		}
	}

	parserWork := func(cfg *shipped.ParserConfig) (func(ctx context.Context, src string, buf *[]shipped.Event, out map[string]int64) ([]shipped.Finding, bool), func(string) ccase) {
		return func(ctx context.Context, src string, buf *[]shipped.Event, out map[string]int64) ([]shipped.Finding, bool) {
				fs, res := checkParser(ctx, cfg, src, *buf)
				*buf = res.events[:0]
				nested := false
			outer:
				for j := 1; j < len(res.events); j++ {
					for i := 0; i < j; i++ {
						a, b := res.events[i], res.events[j]
						if b.Off <= a.Off && a.End <= b.End && a.Off < a.End {
							nested = true
							break outer
						}
					}
				}
				switch {
				case res.err == nil && res.errors == 0:
					out[cfg.Name+":accepted"]++
				case res.err == nil:
					out[cfg.Name+":recovered"]++
				default:
					out[cfg.Name+":rejected"]++
				}
				if nested {
					out[cfg.Name+":has-nesting"]++
				}
				return fs, nested || res.errors > 0
			}, func(src string) ccase {
				return ccase{Kind: "parser", Parser: cfg.Name, Input: []byte(src), Quoted: shipped.Quote(src)}
			}
	}
	astWork := func(lang string) (func(ctx context.Context, src string, buf *[]shipped.Event, out map[string]int64) ([]shipped.Finding, bool), func(string) ccase) {
		return func(ctx context.Context, src string, buf *[]shipped.Event, out map[string]int64) ([]shipped.Finding, bool) {
				fs, built := checkAST(ctx, lang, src, *buf)
				if built {
					out[lang+"-ast:tree-built"]++
				} else {
					out[lang+"-ast:no-tree"]++
				}
				return fs, built
			}, func(src string) ccase {
				return ccase{Kind: "ast", Parser: lang, Input: []byte(src), Quoted: shipped.Quote(src)}
			}
	}

	type workFn = func(ctx context.Context, src string, buf *[]shipped.Event, out map[string]int64) ([]shipped.Finding, bool)
	type job struct {
		name string
		lang string
		work workFn
		mk   func(string) ccase
	}
	withPrefix := func(prefix string, w workFn, mk func(string) ccase) (workFn, func(string) ccase) {
		if prefix == "" {
			return w, mk
		}
		return func(ctx context.Context, src string, buf *[]shipped.Event, out map[string]int64) ([]shipped.Finding, bool) {
			return w(ctx, prefix+src, buf, out)
		}, func(src string) ccase { return mk(prefix + src) }
	}
	var jobs []job
	for i := range shipped.ParserConfigs {
		cfg := &shipped.ParserConfigs[i]
		w, mk := parserWork(cfg)
		w, mk = withPrefix(cfg.Prefix, w, mk)
		jobs = append(jobs, job{cfg.Name, cfg.Lang, w, mk})
	}
	for _, lang := range []string{"tm", "js"} {
		w, mk := astWork(lang)
		jobs = append(jobs, job{lang + "-ast", lang, w, mk})
		if lang == "tm" {
			w, mk = withPrefix(shipped.TMParserPre, w, mk)
			jobs = append(jobs, job{"tm-ast/parser", lang, w, mk})
		}
	}

	quiet := func(lang string) func() {
		if lang == "test" {
			return silenceStderr()
		}
		return func() {}
	}
	for _, lang := range shipped.Langs {
		restore := quiet(lang.Name)
		for _, j := range jobs {
			if j.lang == lang.Name {
				runGroup(fmt.Sprintf("%s short<=%d", j.name, maxLen), lang.ShortCount(maxLen), lang.Short, j.work, j.mk)
			}
		}
		restore()
	}
	sampled := 0
	for _, lang := range shipped.Langs {
		hasJob := false
		for _, j := range jobs {
			hasJob = hasJob || j.lang == lang.Name
		}
		if !hasJob {
			continue
		}
		for s := range lang.AllSeeds() {
			if c.Expired() {
				c.Capped(fmt.Sprintf("%s seed %d and later: soft budget passed", lang.Name, s))
				break
			}
			g := lang.SeedGroup(s, edits)
			restore := quiet(lang.Name)
			for _, j := range jobs {
				if j.lang == lang.Name {
					runGroup(j.name+" "+g.Name, len(g.Inputs), func(i int) string { return g.Inputs[i] }, j.work, j.mk)
					if s == 0 && sampled < 6 {
						sampled++
						c.Sample(j.mk(g.Inputs[len(g.Inputs)/2]))
					}
				}
			}
			restore()
		}
	}

	reusePhase(c)

	keys := make([]string, 0, len(col.m))
	for k := range col.m {
		keys = append(keys, k)
	}
	sort.Strings(keys)
	for _, k := range keys {
		b := col.m[k]
		for i := int64(0); i < b.count; i++ {
			c.Violate(k, b.what, b.rep)
		}
	}
}

func replay(c *core.Ctx, raw json.RawMessage) error {
	var cc ccase
	if err := json.Unmarshal(raw, &cc); err != nil {
		return err
	}
	var fs []shipped.Finding
	ctx := context.Background()
	switch cc.Kind {
	case "reuse-json", "reuse-json-noinit":
		return replayReuse(cc)
	case "reuse-js":
		return replayReuseJS(cc)
	case "gen":
		return replayGen(cc)
	case "parser":
		cfg := shipped.ParserConfigByName(cc.Parser)
		if cfg == nil {
			return fmt.Errorf("unknown parser %q", cc.Parser)
		}
		fs, _ = checkParser(ctx, cfg, string(cc.Input), nil)
	case "ast":
		fs, _ = checkAST(ctx, cc.Parser, string(cc.Input), nil)
	case "builder":
		dir, err := os.MkdirTemp("", "c20-replay-")
		if err != nil {
			return err
		}
		defer os.RemoveAll(dir)
		var ev []rng
		for _, e := range cc.Events {
			ev = append(ev, rng{e[0], e[1]})
		}
		if err := os.WriteFile(filepath.Join(dir, "in-00000.txt"), []byte(fmt.Sprintf("#len=%d\n%s\n", cc.Len, streamLine(ev))), 0o644); err != nil {
			return err
		}
		fileType, err := runDriver(dir)
		if err != nil {
			infra(err)
		}
		out, err := os.ReadFile(filepath.Join(dir, "out-00000.txt"))
		if err != nil {
			return err
		}
		fs, _ = checkBuilt(cc.Len, ev, fileType, strings.TrimSuffix(string(out), "\n"))
	default:
		return fmt.Errorf("unknown case kind %q", cc.Kind)
	}
	if len(fs) == 0 {
		return nil
	}
	var parts []string
	for _, f := range fs {
		parts = append(parts, f.Key+": "+f.What)
	}
	return fmt.Errorf("%s", strings.Join(parts, "; "))
}
