package main

import (
	"context"
	"fmt"
	"strings"
	"sync/atomic"

	"github.com/inspirer/textmapper/parsers/js"

	"verif/internal/core"
)

// (e) Histories on ONE js.Parser + ONE js.TokenStream value: stream.Init(w1), parse w1 through
// entry point e1, stream.Init(w2), parse w2 through entry point e2. Init is documented as the full
// reset, so the second parse must report exactly what a fresh Parser/TokenStream pair reports for
// (e2, w2): same listener events (type, offset, endoffset), same error-handler calls, same verdict.
// Anything else is state of the first parse leaking into the second one (e.g. semicolon-insertion
// bookkeeping: an InsertedSemicolon placed at an offset of the PREVIOUS input, outside the new one).
//
// w1: every string of length <= 3 (quick 2) over {a ; LF / ` (}, w2: every string of length <= 3
// over {a ; LF space + ) ` /} including the empty input and inputs shorter than w1; all 4 x 4
// combinations of the entry points ParseModule / ParseTypeSnippet / ParseExpressionSnippet /
// ParseNamespaceNameSnippet.

var jsEntries = []string{"module", "type", "expr", "nsname"}

type jsPair struct {
	p js.Parser
	s js.TokenStream
}

// jsRun re-initialises the pair for src and parses it through entry. The returned string lists
// listener events and error-handler calls in order, followed by the verdict.
func jsRun(pr *jsPair, entry, src string) (out string, panicErr error) {
	var sb strings.Builder
	budget := 256 * (len(src) + 4)
	n := 0
	tick := func() {
		if n++; n > budget {
			panic("more than 256*(len+4) callbacks")
		}
	}
	panicErr = core.Guard(func() {
		l := func(t js.NodeType, off, end int) { tick(); fmt.Fprintf(&sb, "%v[%d,%d) ", t, off, end) }
		eh := func(se js.SyntaxError) bool {
			tick()
			fmt.Fprintf(&sb, "!err[%d,%d)@%d ", se.Offset, se.Endoffset, se.Line)
			return true
		}
		pr.s.Init(src, l)
		pr.p.Init(eh, l)
		ctx := context.Background()
		var err error
		switch entry {
		case "module":
			err = pr.p.ParseModule(ctx, &pr.s)
		case "type":
			err = pr.p.ParseTypeSnippet(ctx, &pr.s)
		case "expr":
			err = pr.p.ParseExpressionSnippet(ctx, &pr.s)
		case "nsname":
			err = pr.p.ParseNamespaceNameSnippet(ctx, &pr.s)
		default:
			panic("unknown entry " + entry)
		}
		if err == nil {
			sb.WriteString("=> ok")
		} else if se, ok := err.(js.SyntaxError); ok {
			fmt.Fprintf(&sb, "=> syntax error [%d,%d)@%d", se.Offset, se.Endoffset, se.Line)
		} else {
			fmt.Fprintf(&sb, "=> %v", err)
		}
	})
	return sb.String(), panicErr
}

const jsReuseKey = "reuse:js:second-parse-differs-from-fresh-stream"

func jsReusePhase(c *core.Ctx) {
	maxW1 := 3
	if c.Quick() {
		maxW1 = 2
	}
	w1s := wordsOver("a;\n/`(", maxW1)
	w2s := wordsOver("a;\n +)`/", 3)
	fresh := make([][]string, len(jsEntries))
	for e, entry := range jsEntries {
		fresh[e] = make([]string, len(w2s))
		for i, w2 := range w2s {
			fresh[e][i], _ = jsRun(new(jsPair), entry, w2)
		}
	}
	type first struct {
		e int
		w string
	}
	var firsts []first
	for _, w := range w1s { // shortest first histories first
		for e := range jsEntries {
			firsts = append(firsts, first{e, w})
		}
	}
	var pairs int64
	type hit struct {
		seq  int
		what string
		rep  ccase
	}
	hits := make([]*hit, len(firsts))
	counts := make([]int64, len(firsts))
	core.ParallelFor(len(firsts), 16, func(i int) {
		if c.Expired() {
			c.Capped("js stream-reuse histories not completed (budget)")
			return
		}
		f := firsts[i]
		for e2, entry2 := range jsEntries {
			for j, w2 := range w2s {
				pr := new(jsPair) // one pair per history: a replay of (e1,w1,e2,w2) is faithful
				if _, err := jsRun(pr, jsEntries[f.e], f.w); err != nil {
					continue // panics of a single parse are reported by part (a)
				}
				got, err := jsRun(pr, entry2, w2)
				atomic.AddInt64(&pairs, 1)
				if err != nil {
					got += " PANIC " + err.Error()
				}
				if got != fresh[e2][j] {
					counts[i]++
					if hits[i] == nil {
						hits[i] = &hit{what: fmt.Sprintf("one js.Parser + js.TokenStream: after Init+%s(%q), Init+%s(%q) reports [%s]; a fresh pair reports [%s]", entryFunc(jsEntries[f.e]), f.w, entryFunc(entry2), w2, got, fresh[e2][j]),
							rep: ccase{Kind: "reuse-js", Parser: jsEntries[f.e] + ">" + entry2, Input: []byte(f.w), Second: []byte(w2), Quoted: fmt.Sprintf("%s %q then %s %q", jsEntries[f.e], f.w, entry2, w2)}}
					}
				}
			}
		}
	})
	for i, h := range hits { // deterministic: the first failing history in enumeration order
		if h == nil {
			continue
		}
		for k := int64(0); k < counts[i]; k++ {
			c.Violate(jsReuseKey, h.what, h.rep)
		}
	}
	c.Eval(pairs)
	c.Nontrivial(pairs)
	c.States(int64(len(firsts))) // distinct (entry, w1) first parses = states the pair is left in
	c.Transitions(pairs)
	c.Set("js_stream_reuse_histories", pairs)
}

func entryFunc(e string) string {
	switch e {
	case "module":
		return "ParseModule"
	case "type":
		return "ParseTypeSnippet"
	case "expr":
		return "ParseExpressionSnippet"
	}
	return "ParseNamespaceNameSnippet"
}

func replayReuseJS(cc ccase) error {
	e1, e2, ok := strings.Cut(cc.Parser, ">")
	if !ok {
		return fmt.Errorf("bad reuse-js case %q", cc.Parser)
	}
	pr := new(jsPair)
	if _, err := jsRun(pr, e1, string(cc.Input)); err != nil {
		return err
	}
	got, err := jsRun(pr, e2, string(cc.Second))
	want, _ := jsRun(new(jsPair), e2, string(cc.Second))
	if err != nil || got != want {
		return fmt.Errorf("second parse reports [%s], a fresh pair reports [%s] (panic %v)", got, want, err)
	}
	return nil
}
