package main

import (
	"fmt"
	"sort"
	"strings"

	"verif/internal/core"
	"verif/internal/genharness"
	"verif/internal/shipped"
)

// (f) A family of GENERATED parsers (real compiler.Compile + gen.Generate + go build, through
// internal/genharness) for the part of the generator that decides node ranges next to skipped
// tokens: generated parsers WITHOUT tokenStream that
//
//   - trim trailing whitespace (fixWhitespace = true) and report skipped tokens
//     (%inject Comment -> Comment, optionally %inject invalid_token -> InvalidToken), or
//   - do not trim (fixWhitespace = false) and report no skipped tokens
//
// (exactly the parsers the statement of C20 speaks about; fixWhitespace = false WITH reported
// comments is outside the statement: such a parser puts comments inside earlier-reported nodes by
// design). Every grammar has three alternatives of Item that END in nullable symbols followed by
// 0, 1 and 2 state markers:
//
//	Item : 'a' N | 'c' N .m1 | 'd' N .m1 .m2 | '(' Item+ ')' N .m3 ;
//
// where N is one or two nullable symbols of a kind (optional nonterminal `Tailopt`, nullable list
// `Tail*`, optional group `('b' 'b')?`, typed empty nonterminal `Nil`), optionally with an
// error-recovering alternative. Inputs: every sequence of <= 3 (quick) / 4 (thorough) atoms over
// {a c d b ( ) space #x<LF> ? e} plus every sequence of <= 4 / 6 atoms over {a c ( ) b #x<LF>}: comments and invalid characters sit in every gap, in particular
// between the last consumed token of a rule and the next token, where an empty trailing nullable is
// positioned. Oracle: shipped.CheckEvents (inside the input, disjoint-or-nested, a strict container
// after its content) on the listener events of the generated parser.

type genShape struct {
	kind     string // opt | list | group | nil
	n        int    // trailing nullables
	fixWS    bool
	inject   int // 0 none, 1 Comment, 2 Comment + invalid_token
	recover_ bool
}

func (s genShape) String() string {
	return fmt.Sprintf("kind=%s nullables=%d fixWhitespace=%v inject=%d recovering=%v", s.kind, s.n, s.fixWS, s.inject, s.recover_)
}

func (s genShape) tm(name string) string {
	var nul string
	switch s.kind {
	case "opt":
		nul = "Tailopt"
	case "list":
		nul = "Tail*"
	case "group":
		nul = "('b' 'b')?"
	case "nil":
		nul = "Nil"
	}
	tail := nul
	if s.n == 2 {
		tail = nul + " Tail2opt"
	}
	var b strings.Builder
	fmt.Fprintf(&b, "language %s(go);\n\nlang = %q\npackage = \"scratch/%s\"\neventBased = true\nfixWhitespace = %v\n\n:: lexer\n\n", name, name, name, s.fixWS)
	b.WriteString("WhiteSpace: /[ \\t\\r\\n]+/ (space)\nComment: /#[^\\n]*/ (space)\n'a': /a/\n'b': /b/\n'c': /c/\n'd': /d/\n'e': /e/\n'(': /\\(/\n')': /\\)/\nerror:\ninvalid_token:\n\n:: parser\n\n%input Input;\n")
	if s.inject >= 1 {
		b.WriteString("%inject Comment -> Comment;\n")
	}
	if s.inject >= 2 {
		b.WriteString("%inject invalid_token -> InvalidToken;\n")
	}
	b.WriteString("\nInput -> Input : Item+ ;\nItem -> Item :\n")
	fmt.Fprintf(&b, "    'a' %s\n  | 'c' %s .m1\n  | 'd' %s .m1 .m2\n  | '(' Item+ ')' %s .m3\n", tail, tail, tail, tail)
	if s.recover_ {
		b.WriteString("  | Problem\n")
	}
	b.WriteString(";\n")
	if s.kind == "opt" || s.kind == "list" {
		b.WriteString("Tail -> Tail : 'b' ;\n")
	}
	if s.n == 2 {
		b.WriteString("Tail2 -> Tail2 : 'e' ;\n")
	}
	if s.kind == "nil" {
		b.WriteString("Nil -> Nil : ;\n")
	}
	if s.recover_ {
		b.WriteString("Problem -> Problem : error ;\n")
	}
	return b.String()
}

var genAtoms = []string{"a", "c", "d", "b", "(", ")", " ", "#x\n", "?", "e"}

// genInputs: every sequence of <= maxAll atoms over all atoms plus every sequence of <= maxCore
// atoms over the core atoms {a c ( ) b #x<LF>}, shortest first, duplicates removed.
func genInputs(maxAll, maxCore int) []string {
	seen := map[string]bool{}
	var out []string
	var rec func(atoms []string, prefix string, left int)
	rec = func(atoms []string, prefix string, left int) {
		if !seen[prefix] {
			seen[prefix] = true
			out = append(out, prefix)
		}
		if left == 0 {
			return
		}
		for _, a := range atoms {
			rec(atoms, prefix+a, left-1)
		}
	}
	rec(genAtoms, "", maxAll)
	rec([]string{"a", "c", "(", ")", "b", "#x\n"}, "", maxCore)
	sort.SliceStable(out, func(i, j int) bool { return len(out[i]) < len(out[j]) })
	return out
}

func genShapes(quick bool) []genShape {
	var out []genShape
	kinds := []string{"opt", "list", "group", "nil"}
	for _, k := range kinds {
		for n := 1; n <= 2; n++ {
			for _, rec := range []bool{false, true} {
				if quick && rec && n == 2 {
					continue
				}
				out = append(out,
					genShape{k, n, true, 1, rec},
					genShape{k, n, true, 2, rec},
					genShape{k, n, false, 0, rec})
			}
		}
	}
	return out
}

// judgeGen applies the oracle to one result.
func judgeGen(text string, res genharness.Result) []shipped.Finding {
	if res.Panic != "" || res.Hang || res.Aborted {
		return []shipped.Finding{{Key: "gen:crash-or-hang", What: fmt.Sprintf("panic=%q hang=%v aborted=%v", res.Panic, res.Hang, res.Aborted)}}
	}
	names := []string{}
	idx := map[string]int{}
	ev := make([]shipped.Event, len(res.Events))
	for i, e := range res.Events {
		t, ok := idx[e.Type]
		if !ok {
			t = len(names)
			idx[e.Type] = t
			names = append(names, e.Type)
		}
		ev[i] = shipped.Event{Type: t, Off: e.Off, End: e.End}
	}
	return shipped.CheckEvents("gen", func(t int) string { return names[t] }, len(text), ev)
}

func evString(res genharness.Result) string {
	var sb strings.Builder
	for _, e := range res.Events {
		fmt.Fprintf(&sb, "%s[%d,%d) ", e.Type, e.Off, e.End)
	}
	return strings.TrimSpace(sb.String())
}

func genFamilyPhase(c *core.Ctx) {
	maxAll, maxCore := 4, 6
	if c.Quick() {
		maxAll, maxCore = 3, 4
	}
	inputs := genInputs(maxAll, maxCore)
	shapes := genShapes(c.Quick())
	cases := make([]genharness.Case, len(inputs))
	for i, in := range inputs {
		cases[i] = genharness.Case{Text: in, Mode: "parse"}
	}
	c.Set("generated_family_grammars", len(shapes))
	c.Set("generated_family_inputs_per_grammar", len(inputs))
	const batch = 12
	var parses, withSkipped int64
	nb := (len(shapes) + batch - 1) / batch
	type bres struct {
		outs  []genharness.Outcome
		specs []genharness.Spec
		err   error
		done  bool
	}
	results := make([]bres, nb)
	core.ParallelFor(nb, 4, func(bi int) { // the builds inside a batch are parallel already
		if c.Expired() {
			return
		}
		lo, hi := bi*batch, min((bi+1)*batch, len(shapes))
		var specs []genharness.Spec
		for k := lo; k < hi; k++ {
			name := fmt.Sprintf("g%03d", k)
			specs = append(specs, genharness.Spec{Name: name, TM: shapes[k].tm(name), Cases: cases})
		}
		outs, err := genharness.RunBatch(specs, genharness.BatchOpts{})
		results[bi] = bres{outs, specs, err, true}
	})
	for bi, br := range results {
		lo := bi * batch
		if !br.done {
			c.Capped(fmt.Sprintf("generated parser family: grammars %d.. not run (budget)", lo))
			continue
		}
		if br.err != nil {
			infra(fmt.Errorf("generated parser family: %v", br.err))
		}
		for k, out := range br.outs {
			sh := shapes[lo+k]
			tm := br.specs[k].TM
			if out.GenPanic != "" || out.GenErr != "" || out.BuildErr != "" {
				// every grammar of the family is plain, supported syntax: not generating or not
				// building is a finding of its own (never silently skipped)
				c.Violate("gen:family-grammar-rejected", fmt.Sprintf("%v: %s %s %s", sh, out.GenPanic, out.GenErr, out.BuildErr), ccase{Kind: "gen", TM: tm})
				continue
			}
			for i, res := range out.Results {
				parses++
				fs := judgeGen(inputs[i], res)
				for _, e := range res.Events {
					if e.Type == "Comment" || e.Type == "InvalidToken" {
						withSkipped++
						break
					}
				}
				if res.Accept {
					c.Outcome("gen:accepted", 1)
				} else if len(res.Handler) > 0 {
					c.Outcome("gen:recovered-or-reported", 1)
				} else {
					c.Outcome("gen:rejected", 1)
				}
				for _, f := range fs {
					c.Violate(f.Key, fmt.Sprintf("generated parser (%v), input %q: %s; events [%s]", sh, inputs[i], f.What, evString(res)),
						ccase{Kind: "gen", TM: tm, Input: []byte(inputs[i]), Quoted: fmt.Sprintf("%q", inputs[i])})
				}
			}
		}
	}
	c.Eval(parses)
	c.Nontrivial(withSkipped)
	c.Set("generated_family_parses", parses)
	c.Set("generated_family_parses_reporting_skipped_tokens", withSkipped)
	c.Sample(ccase{Kind: "gen", TM: shapes[0].tm("g000"), Input: []byte("a #x\n a"), Quoted: `"a #x\n a"`})
}

func replayGen(cc ccase) error {
	name := "g000"
	if i := strings.Index(cc.TM, "language "); i >= 0 {
		rest := cc.TM[i+len("language "):]
		if j := strings.IndexByte(rest, '('); j > 0 {
			name = rest[:j]
		}
	}
	outs, err := genharness.RunBatch([]genharness.Spec{{Name: name, TM: cc.TM, Cases: []genharness.Case{{Text: string(cc.Input), Mode: "parse"}}}}, genharness.BatchOpts{})
	if err != nil {
		return err
	}
	out := outs[0]
	if out.GenPanic != "" || out.GenErr != "" || out.BuildErr != "" {
		return fmt.Errorf("grammar rejected: %s %s %s", out.GenPanic, out.GenErr, out.BuildErr)
	}
	fs := judgeGen(string(cc.Input), out.Results[0])
	if len(fs) == 0 {
		return nil
	}
	var parts []string
	for _, f := range fs {
		parts = append(parts, f.Key+": "+f.What)
	}
	return fmt.Errorf("%s; events [%s]", strings.Join(parts, "; "), evString(out.Results[0]))
}
