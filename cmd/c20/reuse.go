package main

import (
	"fmt"
	"strings"
	"sync/atomic"

	jsonp "github.com/inspirer/textmapper/parsers/json"

	"verif/internal/core"
)

// (d) Histories on ONE parser value ("start from non-initial states"): a generated parser that
// buffers skipped tokens until the next shift (non-token-stream parsers: json) is initialised and
// run on w1, then initialised and run again on w2. The events of the second parse must be exactly
// those of a fresh parser on w2 — otherwise stale state of the first parse (e.g. tokens still
// pending when it stopped with an error) leaks into the second stream, typically as nodes that
// overlap real ones. All pairs (w1, w2) with |w1| <= 5 over {/ * ] 1 space "} and |w2| <= 3 over
// {" a 1 [ ] space / *}.

type jsonRun struct{ ev []string }

func jsonParse(p *jsonp.Parser, l *jsonp.Lexer, src string) (events string, accepted bool, panicErr error) {
	var sb strings.Builder
	panicErr = core.Guard(func() {
		l.Init(src)
		p.Init(func(t jsonp.NodeType, off, end int) { fmt.Fprintf(&sb, "%v[%d,%d) ", t, off, end) })
		accepted = p.Parse(l) == nil
	})
	return sb.String(), accepted, panicErr
}

func wordsOver(alpha string, maxLen int) []string {
	out := []string{""}
	prev := []string{""}
	for n := 1; n <= maxLen; n++ {
		var cur []string
		for _, w := range prev {
			for i := 0; i < len(alpha); i++ {
				cur = append(cur, w+alpha[i:i+1])
			}
		}
		out = append(out, cur...)
		prev = cur
	}
	return out
}

func reusePhase(c *core.Ctx) {
	maxW1 := 5
	if c.Quick() {
		maxW1 = 5
	}
	w1s := wordsOver("/*]1 \"", maxW1)
	w2s := wordsOver("\"a1[] /*", 3)
	fresh := make([]string, len(w2s))
	freshAcc := make([]bool, len(w2s))
	for i, w2 := range w2s {
		fresh[i], freshAcc[i], _ = jsonParse(new(jsonp.Parser), new(jsonp.Lexer), w2)
	}
	var pairs, leaking int64
	core.ParallelFor(len(w1s), 16, func(i int) {
		if c.Expired() {
			c.Capped("parser-reuse histories not completed (budget)")
			return
		}
		w1 := w1s[i]
		p, l := new(jsonp.Parser), new(jsonp.Lexer)
		for j, w2 := range w2s {
			if _, _, err := jsonParse(p, l, w1); err != nil {
				c.Violate("json:panic", err.Error(), ccase{Kind: "parser", Parser: "json", Input: []byte(w1), Quoted: fmt.Sprintf("%q", w1)})
				return
			}
			ev, acc, err := jsonParse(p, l, w2)
			atomic.AddInt64(&pairs, 1)
			if err != nil || ev != fresh[j] || acc != freshAcc[j] {
				atomic.AddInt64(&leaking, 1)
				c.Violate("reuse:json:second-parse-differs-from-fresh-parser", fmt.Sprintf("one json.Parser value: after parsing %q, Init+Parse of %q reports [%s] accepted=%v; a fresh parser reports [%s] accepted=%v (panic: %v)", w1, w2, ev, acc, fresh[j], freshAcc[j], err),
					ccase{Kind: "reuse-json", Parser: "json", Input: []byte(w1), Quoted: fmt.Sprintf("%q then %q", w1, w2), Second: []byte(w2)})
			}
		}
	})
	// (d') the same, but WITHOUT a second Parser.Init: the generated Parse resets its own per-parse
	// state, and the shipped benchmark drives the parser exactly like this (Init once, Parse many).
	// The listener writes into a buffer the harness swaps between the parses.
	v1s := wordsOver("/*]1 ", 5)
	v2s := wordsOver("\"a1[] ", 4)
	vfresh := make([]string, len(v2s))
	vfreshAcc := make([]bool, len(v2s))
	for i, w2 := range v2s {
		vfresh[i], vfreshAcc[i], _ = jsonParse(new(jsonp.Parser), new(jsonp.Lexer), w2)
	}
	core.ParallelFor(len(v1s), 16, func(i int) {
		if c.Expired() {
			c.Capped("parser-reuse histories (no re-Init) not completed (budget)")
			return
		}
		w1 := v1s[i]
		l := new(jsonp.Lexer)
		var sb strings.Builder
		for j, w2 := range v2s {
			p := new(jsonp.Parser) // one parser value per history, so that a replay of (w1, w2) is faithful
			p.Init(func(t jsonp.NodeType, off, end int) { fmt.Fprintf(&sb, "%v[%d,%d) ", t, off, end) })
			ev, acc, err := jsonNoInit(p, l, &sb, w1, w2)
			atomic.AddInt64(&pairs, 1)
			if err != nil || ev != vfresh[j] || acc != vfreshAcc[j] {
				c.Violate("reuse:json:second-parse-differs-from-fresh-parser", fmt.Sprintf("one json.Parser value, Init once: after Parse of %q, Parse of %q reports [%s] accepted=%v; a fresh parser reports [%s] accepted=%v (panic: %v)", w1, w2, ev, acc, vfresh[j], vfreshAcc[j], err),
					ccase{Kind: "reuse-json-noinit", Parser: "json", Input: []byte(w1), Quoted: fmt.Sprintf("%q then %q (no re-Init)", w1, w2), Second: []byte(w2)})
			}
		}
	})
	c.Eval(pairs)
	c.States(int64(len(w1s) + len(v1s))) // distinct parser states reached by a first parse
	c.Transitions(pairs)                 // second parses started from those states
	c.Set("parser_reuse_histories", pairs)
}

// jsonNoInit parses w1 and then w2 on p (already initialised once) and returns the events of the
// second parse.
func jsonNoInit(p *jsonp.Parser, l *jsonp.Lexer, sb *strings.Builder, w1, w2 string) (events string, accepted bool, panicErr error) {
	panicErr = core.Guard(func() {
		l.Init(w1)
		p.Parse(l)
		sb.Reset()
		l.Init(w2)
		accepted = p.Parse(l) == nil
	})
	ev := sb.String()
	sb.Reset()
	return ev, accepted, panicErr
}

func replayReuse(cc ccase) error {
	if cc.Kind == "reuse-json-noinit" {
		p, l := new(jsonp.Parser), new(jsonp.Lexer)
		var sb strings.Builder
		p.Init(func(t jsonp.NodeType, off, end int) { fmt.Fprintf(&sb, "%v[%d,%d) ", t, off, end) })
		ev, acc, err := jsonNoInit(p, l, &sb, string(cc.Input), string(cc.Second))
		fev, facc, _ := jsonParse(new(jsonp.Parser), new(jsonp.Lexer), string(cc.Second))
		if err != nil || ev != fev || acc != facc {
			return fmt.Errorf("second parse [%s] accepted=%v differs from fresh parser [%s] accepted=%v (panic %v)", ev, acc, fev, facc, err)
		}
		return nil
	}
	p, l := new(jsonp.Parser), new(jsonp.Lexer)
	jsonParse(p, l, string(cc.Input))
	ev, acc, err := jsonParse(p, l, string(cc.Second))
	fev, facc, _ := jsonParse(new(jsonp.Parser), new(jsonp.Lexer), string(cc.Second))
	if err != nil || ev != fev || acc != facc {
		return fmt.Errorf("second parse [%s] accepted=%v differs from fresh parser [%s] accepted=%v (panic %v)", ev, acc, fev, facc, err)
	}
	return nil
}
