package main

import (
	"fmt"
	"strings"

	"verif/internal/core"
	"verif/internal/genharness"
)

// Layer B: the decision procedure as generated Go code. Each accepted set of alternatives is
// written as a .tm grammar
//
//	S : (?= P0 & !P1) Flags tz -> A0 | (?= !P0) Flags tz -> A1 | ... ;
//	Flags : F F ; F : ty | tn ;  P0 : ty ;  P1 : F ty ;
//
// so that predicate j holds iff the j-th flag token of the input is 'y'. All alternatives
// continue identically, hence which alternative the generated parser chose is visible only through
// the reported node type A_i. Every flag string (= truth assignment) is parsed.
// option sets rotated over the generated grammars (each accepted set is built under one of them)
var layerBOptions = [][]string{
	nil,
	{"optimizeTables = true"},
	{"recursiveLookaheads = true"},
	{"cancellable = true"},
	{"optimizeTables = true", "recursiveLookaheads = true"},
	{"recursiveLookaheads = true", "cancellable = true"},
	{"optimizeTables = true", "defaultReduce = true"},
	{"recursiveLookaheads = true", "minimizeDFA = true"},
	{"minimizeDFA = true"},
}

func nested(opt int) bool {
	for _, o := range layerBOptions[opt%len(layerBOptions)] {
		if strings.HasPrefix(o, "recursiveLookaheads") {
			return true
		}
	}
	return false
}

// markers are the distinct terminals that end the alternatives (alternative i ends with markers[i]):
// choosing a wrong alternative therefore ends in a syntax error, also when the decision is taken
// inside another lookahead (nested variant, used with recursiveLookaheads):
//
//	Top : (?= In) S -> T0 | (?= !In) F F tw -> T1 ;   In : S ;
var markers = []string{"p", "q", "r", "s"}

func tmFor(k caseT, name string, opt int) string {
	var sb strings.Builder
	fmt.Fprintf(&sb, "language %s(go);\n\npackage = \"scratch/%s\"\neventBased = true\n%s\n\n:: lexer\n\nty: /y/\ntn: /n/\ntu: /u/\ntv: /v/\ntw: /w/\n", name, name, strings.Join(layerBOptions[opt%len(layerBOptions)], "\n"))
	for i := range k.Alts {
		fmt.Fprintf(&sb, "t%s: /%s/\n", markers[i], markers[i])
	}
	start := "S"
	if nested(opt) {
		start = "Top"
	}
	fmt.Fprintf(&sb, "\n:: parser\n\n%%input %s;\n\n", start)
	if nested(opt) {
		// both alternatives start with the flag tokens, so choosing between them needs the runtime
		// predicate In, whose evaluation runs the S decision inside a lookahead
		fmt.Fprintf(&sb, "Top : (?= In) S -> T0 | (?= !In) %s tw -> T1 ;\n\nIn : S ;\n\n", strings.TrimSpace(strings.Repeat("F ", k.M)))
	}
	sb.WriteString("S :\n")
	flags := strings.TrimSpace(strings.Repeat("F ", k.M))
	for i, a := range k.Alts {
		var ps []string
		for _, p := range a {
			s := fmt.Sprintf("P%d", p.P)
			if p.Neg {
				s = "!" + s
			}
			ps = append(ps, s)
		}
		sep := "    "
		if i > 0 {
			sep = "  | "
		}
		fmt.Fprintf(&sb, "%s(?= %s) %s t%s -> A%d\n", sep, strings.Join(ps, " & "), flags, markers[i], i)
	}
	sb.WriteString(";\n\nF : ty | tn ;\n\n")
	for j := 0; j < k.M; j++ {
		// The extra alternatives never match an input over {y,n}; they only make the first state of
		// the predicate's sub-parser a wide table row (the longest rows are packed first, at slot 0).
		pre := strings.Repeat("F ", j)
		fmt.Fprintf(&sb, "P%d : %sty | %stu | %stv tv | %stw ;\n", j, pre, pre, pre, pre)
	}
	return sb.String()
}

// uniqueAlt returns the index of the only alternative satisfied by assign, or -1.
func uniqueAlt(k caseT, assign int) int {
	want, cnt := -1, 0
	for i, a := range k.Alts {
		if a.holds(assign) {
			cnt++
			want = i
		}
	}
	if cnt != 1 {
		return -1
	}
	return want
}

func layerB(c *core.Ctx, accepted []caseT, maxGrammars int) {
	// every accepted set over <=2 predicates is also built in the nested (recursiveLookaheads)
	// variant: negated cases in a decision list only arise with >=3 alternatives
	var small []caseT
	for _, k := range accepted {
		if k.M <= 2 {
			small = append(small, k)
		}
	}
	c.Set("layerB_all_sets_over_2_predicates_nested", len(small))
	if len(accepted) > maxGrammars {
		var sel []caseT
		for i := 0; i < maxGrammars; i++ {
			sel = append(sel, accepted[i*len(accepted)/maxGrammars])
		}
		c.Capped(fmt.Sprintf("Layer B: %d of %d accepted sets generated and built (deterministic stride over the enumeration; Layer A covers all)", maxGrammars, len(accepted)))
		accepted = sel
	}
	// the simplest accepted sets are built under EVERY option set, the others under one rotating set
	type job struct {
		k   caseT
		opt int
	}
	var jobs []job
	for i, k := range accepted {
		if i < 12 {
			for o := range layerBOptions {
				jobs = append(jobs, job{k, o})
			}
		} else {
			jobs = append(jobs, job{k, i})
		}
	}
	for _, k := range small {
		jobs = append(jobs, job{k, 2})
	}
	const batch = 100
	for start := 0; start < len(jobs); start += batch {
		if c.Expired() {
			c.Capped(fmt.Sprintf("Layer B stopped after %d grammars (budget)", start))
			return
		}
		end := min(start+batch, len(jobs))
		var specs []genharness.Spec
		for i := start; i < end; i++ {
			k := jobs[i].k
			name := fmt.Sprintf("g%04d", i)
			var cases []genharness.Case
			for assign := 0; assign < 1<<uint(k.M); assign++ {
				var text strings.Builder
				for j := 0; j < k.M; j++ {
					if assign>>uint(j)&1 == 1 {
						text.WriteByte('y')
					} else {
						text.WriteByte('n')
					}
				}
				text.WriteString(markers[max(uniqueAlt(k, assign), 0)])
				cases = append(cases, genharness.Case{Text: text.String(), Mode: "parse"})
			}
			specs = append(specs, genharness.Spec{Name: name, TM: tmFor(k, name, jobs[i].opt), Cases: cases})
		}
		outs, err := genharness.RunBatch(specs, genharness.BatchOpts{})
		if err != nil {
			c.Violate("layerB:harness", err.Error(), nil)
			return
		}
		for bi, out := range outs {
			k := jobs[start+bi].k
			rc := map[string]any{"tm": specs[bi].TM, "case": k}
			switch {
			case out.GenPanic != "":
				c.Violate("layerB:generate-panic", out.GenPanic, rc)
				continue
			case out.GenErr != "":
				if strings.Contains(out.GenErr, "mutually exclusive") {
					c.Violate("layerB:accepted-by-lalr-rejected-by-compiler", out.GenErr+" :: "+k.String(), rc)
				} else {
					c.Add("layerB_rejected_by_frontend", 1)
					if c.SampleCount() < 6 {
						c.Sample(map[string]any{"frontend_rejects": k.String(), "error": out.GenErr})
					}
				}
				continue
			case out.BuildErr != "":
				c.Violate("layerB:generated-code-does-not-build", out.BuildErr, rc)
				continue
			}
			c.Add("layerB_grammars_built", 1)
			for assign, res := range out.Results {
				c.Eval(1)
				if res.Panic != "" || res.Hang || res.Aborted {
					c.Violate("layerB:parser-crash-or-hang", fmt.Sprintf("%+v on %s", res, specs[bi].Cases[assign].Text), rc)
					continue
				}
				want := uniqueAlt(k, assign)
				if want < 0 {
					continue // no or several alternatives hold: nothing is promised
				}
				if !res.Accept {
					c.Violate("layerB:rejects", fmt.Sprintf("input %q (only alternative %d holds and the input ends with its marker) rejected at %d :: %s", specs[bi].Cases[assign].Text, want, res.ErrOff, k.String()), rc)
					continue
				}
				got := ""
				for _, e := range res.Events {
					if strings.HasPrefix(e.Type, "A") && got == "" {
						got = e.Type
					}
				}
				c.Traces(1)
				if got != fmt.Sprintf("A%d", want) {
					c.Violate("layerB:wrong-alternative", fmt.Sprintf("input %q satisfies only alternative %d, generated parser reports %s :: %s", specs[bi].Cases[assign].Text, want, got, k.String()), rc)
				}
			}
		}
	}
}
