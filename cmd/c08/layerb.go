package main

import (
	"fmt"
	"strings"

	"verif/internal/core"
	"verif/internal/genharness"
)

// Layer B: the decision procedure as generated Go code. Each accepted set of alternatives is
// written as a .tm grammar
//
//	S : (?= P0 & !P1) Flags tz -> A0 | (?= !P0) Flags tz -> A1 | ... ;
//	Flags : F F ; F : ty | tn ;  P0 : ty ;  P1 : F ty ;
//
// so that predicate j holds iff the j-th flag token of the input is 'y'. All alternatives
// continue identically, hence which alternative the generated parser chose is visible only through
// the reported node type A_i. Every flag string (= truth assignment) is parsed.
func tmFor(k caseT, name string) string {
	var sb strings.Builder
	fmt.Fprintf(&sb, "language %s(go);\n\npackage = \"scratch/%s\"\neventBased = true\n\n:: lexer\n\nty: /y/\ntn: /n/\ntz: /z/\n\n:: parser\n\n%%input S;\n\nS :\n", name, name)
	flags := strings.TrimSpace(strings.Repeat("F ", k.M))
	for i, a := range k.Alts {
		var ps []string
		for _, p := range a {
			s := fmt.Sprintf("P%d", p.P)
			if p.Neg {
				s = "!" + s
			}
			ps = append(ps, s)
		}
		sep := "    "
		if i > 0 {
			sep = "  | "
		}
		fmt.Fprintf(&sb, "%s(?= %s) %s tz -> A%d\n", sep, strings.Join(ps, " & "), flags, i)
	}
	sb.WriteString(";\n\nF : ty | tn ;\n\n")
	for j := 0; j < k.M; j++ {
		fmt.Fprintf(&sb, "P%d : %sty ;\n", j, strings.Repeat("F ", j))
	}
	return sb.String()
}

func layerB(c *core.Ctx, accepted []caseT, maxGrammars int) {
	if len(accepted) > maxGrammars {
		var sel []caseT
		for i := 0; i < maxGrammars; i++ {
			sel = append(sel, accepted[i*len(accepted)/maxGrammars])
		}
		c.Capped(fmt.Sprintf("Layer B: %d of %d accepted sets generated and built (deterministic stride over the enumeration; Layer A covers all)", maxGrammars, len(accepted)))
		accepted = sel
	}
	const batch = 100
	for start := 0; start < len(accepted); start += batch {
		if c.Expired() {
			c.Capped(fmt.Sprintf("Layer B stopped after %d grammars (budget)", start))
			return
		}
		end := min(start+batch, len(accepted))
		var specs []genharness.Spec
		for i := start; i < end; i++ {
			k := accepted[i]
			name := fmt.Sprintf("g%04d", i)
			var cases []genharness.Case
			for assign := 0; assign < 1<<uint(k.M); assign++ {
				var text strings.Builder
				for j := 0; j < k.M; j++ {
					if assign>>uint(j)&1 == 1 {
						text.WriteByte('y')
					} else {
						text.WriteByte('n')
					}
				}
				text.WriteByte('z')
				cases = append(cases, genharness.Case{Text: text.String(), Mode: "parse"})
			}
			specs = append(specs, genharness.Spec{Name: name, TM: tmFor(k, name), Cases: cases})
		}
		outs, err := genharness.RunBatch(specs, genharness.BatchOpts{})
		if err != nil {
			c.Violate("layerB:harness", err.Error(), nil)
			return
		}
		for bi, out := range outs {
			k := accepted[start+bi]
			rc := map[string]any{"tm": specs[bi].TM, "case": k}
			switch {
			case out.GenPanic != "":
				c.Violate("layerB:generate-panic", out.GenPanic, rc)
				continue
			case out.GenErr != "":
				if strings.Contains(out.GenErr, "mutually exclusive") {
					c.Violate("layerB:accepted-by-lalr-rejected-by-compiler", out.GenErr+" :: "+k.String(), rc)
				} else {
					c.Add("layerB_rejected_by_frontend", 1)
					if c.SampleCount() < 6 {
						c.Sample(map[string]any{"frontend_rejects": k.String(), "error": out.GenErr})
					}
				}
				continue
			case out.BuildErr != "":
				c.Violate("layerB:generated-code-does-not-build", out.BuildErr, rc)
				continue
			}
			c.Add("layerB_grammars_built", 1)
			for assign, res := range out.Results {
				c.Eval(1)
				if res.Panic != "" || res.Hang || res.Aborted {
					c.Violate("layerB:parser-crash-or-hang", fmt.Sprintf("%+v on %s", res, specs[bi].Cases[assign].Text), rc)
					continue
				}
				want, cnt := -1, 0
				for i, a := range k.Alts {
					if a.holds(assign) {
						cnt++
						want = i
					}
				}
				if !res.Accept {
					c.Violate("layerB:rejects", fmt.Sprintf("input %q rejected at %d although every alternative continues identically :: %s", specs[bi].Cases[assign].Text, res.ErrOff, k.String()), rc)
					continue
				}
				if cnt != 1 {
					continue
				}
				got := ""
				for _, e := range res.Events {
					if strings.HasPrefix(e.Type, "A") {
						got = e.Type
					}
				}
				c.Traces(1)
				if got != fmt.Sprintf("A%d", want) {
					c.Violate("layerB:wrong-alternative", fmt.Sprintf("input %q satisfies only alternative %d, generated parser reports %s :: %s", specs[bi].Cases[assign].Text, want, got, k.String()), rc)
				}
			}
		}
	}
}
