// C08: runtime lookahead decisions pick the alternative whose predicates hold.
// Layer A: every set of n lookahead alternatives over m predicates (each alternative an ordered
// conjunction of distinct, possibly negated predicates) is put into one parser state of a host
// grammar and compiled with the real lalr.Compile; for accepted sets the emitted decision list
// (Tables.Lookaheads[..].Cases/DefaultTarget, evaluated exactly as the generated lookaheadRule
// does) is run on all 2^m truth assignments.
package main

import (
	"encoding/json"
	"fmt"
	"sort"
	"strings"
	"sync"
	"sync/atomic"

	"github.com/inspirer/textmapper/lalr"

	"verif/internal/core"
	"verif/internal/gramenum"
	"verif/internal/tabinterp"
)

type pred struct {
	P   int  `json:"p"`
	Neg bool `json:"neg"`
}

type alt []pred

type caseT struct {
	M    int   `json:"m"`
	Alts []alt `json:"alts"`
	// Firsts[i] = bit set over the two continuation terminals {ta, tc} of alternative i (1 = ta,
	// 2 = tc, 3 = both); nil = every alternative continues with ta only.
	Firsts []int `json:"firsts,omitempty"`
	// Extra adds a plain empty nonterminal X with S: X ta tc next to S: L_i ta tb, reducible in the same
	// state on ta, and compiles with lalr(2): the second token (tb vs tc) separates X from the alternatives, but
	// the choice AMONG the alternatives still has to be made by their predicates.
	Extra bool `json:"extra,omitempty"`
}

func (k caseT) String() string {
	var parts []string
	for _, a := range k.Alts {
		var ps []string
		for _, p := range a {
			s := fmt.Sprintf("P%d", p.P)
			if p.Neg {
				s = "!" + s
			}
			ps = append(ps, s)
		}
		parts = append(parts, "(?= "+strings.Join(ps, " & ")+")")
	}
	return strings.Join(parts, " | ")
}

func main() { core.Main("C08", "exploration", run, replay, nil) }

// host grammar: symbols: 0 eoi, 1 ta, 2 tb, 3 tc | nonterminals: S, P0..P(m-1), L0..L(n-1)
// S: L_i ta  (all alternatives continue with the same token => reduce/reduce among the L_i on ta);
// with Firsts, S: L_i ta and/or S: L_i tc, so that the alternatives in conflict differ per terminal.
// P_j: tb ; inputs: S (eoi), P_j (no-eoi); L_i: %empty with Lookaheads[i].
func (k caseT) grammar() (*lalr.Grammar, int, int) {
	n := len(k.Alts)
	g := &lalr.Grammar{Terminals: 4, Origin: gramenum.Origin{Index: -1}}
	g.Symbols = []string{"eoi", "ta", "tb", "tc", "S"}
	S := lalr.Sym(4)
	for j := 0; j < k.M; j++ {
		g.Symbols = append(g.Symbols, fmt.Sprintf("P%d", j))
	}
	firstL := len(g.Symbols)
	for i := 0; i < n; i++ {
		g.Symbols = append(g.Symbols, fmt.Sprintf("L%d", i))
	}
	g.Inputs = append(g.Inputs, lalr.Input{Nonterminal: S, Eoi: true})
	for j := 0; j < k.M; j++ {
		g.Inputs = append(g.Inputs, lalr.Input{Nonterminal: lalr.Sym(5 + j), Eoi: false})
	}
	ri := 0
	add := func(lhs lalr.Sym, rhs ...lalr.Sym) {
		g.Rules = append(g.Rules, lalr.Rule{LHS: lhs, RHS: rhs, Action: ri, Type: -1, Origin: gramenum.Origin{Index: ri}})
		ri++
	}
	for i := 0; i < n; i++ {
		f := 1
		if k.Firsts != nil {
			f = k.Firsts[i]
		}
		if f&1 != 0 {
			if k.Extra {
				add(S, lalr.Sym(firstL+i), 1, 2) // one more token, so that the state after ta only shifts
			} else {
				add(S, lalr.Sym(firstL+i), 1)
			}
		}
		if f&2 != 0 {
			add(S, lalr.Sym(firstL+i), 3)
		}
	}
	for j := 0; j < k.M; j++ {
		add(lalr.Sym(5+j), 2)
	}
	emptyRule0 := ri
	for i := 0; i < n; i++ {
		add(lalr.Sym(firstL + i))
		la := lalr.Lookahead{Nonterminal: lalr.Sym(firstL + i), Origin: gramenum.Origin{Index: 100 + i}}
		for _, p := range k.Alts[i] {
			la.Predicates = append(la.Predicates, lalr.Predicate{Input: int32(1 + p.P), Negated: p.Neg})
		}
		g.Lookaheads = append(g.Lookaheads, la)
	}
	if k.Extra {
		X := lalr.Sym(len(g.Symbols))
		g.Symbols = append(g.Symbols, "X")
		add(S, X, 1, 3)
		add(X)
	}
	return g, firstL, emptyRule0
}

// checkExtra: see caseT.Extra. Only constrains successful compiles.
func (k caseT) checkExtra() outcome {
	g, firstL, _ := k.grammar()
	var tbl *lalr.Tables
	var cerr error
	if err := core.Guard(func() { tbl, cerr = lalr.Compile(g, lalr.Options{Lookahead: 2}) }); err != nil {
		return outcome{key: "panic:" + core.PanicSite(err), msg: err.Error()}
	}
	if cerr != nil {
		return outcome{accepted: false}
	}
	out := outcome{accepted: true}
	m := &tabinterp.Machine{T: tbl, Terms: 4}
	// ta followed by tc: X
	kind, arg, _ := m.Decide(0, 1, []int{3})
	if xRule := len(g.Rules) - 1; kind != tabinterp.ActReduce || arg != xRule {
		return outcome{key: "lalr2:extra-reduction-lost", msg: fmt.Sprintf("state 0 on ta tc: expected reduce of X (rule %d), tables decide kind=%d arg=%d", xRule, kind, arg)}
	}
	// ta followed by tb: the alternatives, decided by their predicates
	kind, arg, _ = m.Decide(0, 1, []int{2})
	if kind != tabinterp.ActReduce || arg < len(g.Rules) {
		return outcome{key: "lalr2:runtime-decision-replaced-by-fixed-action", msg: fmt.Sprintf("state 0 on ta tb: %d alternatives with predicates are in conflict there, but the lalr(2) automaton leads to the fixed action kind=%d arg=%d (rules >= %d are runtime decisions) without reporting a conflict", len(k.Alts), kind, arg, len(g.Rules))}
	}
	lr := tbl.Lookaheads[arg-len(g.Rules)]
	for assign := 0; assign < 1<<uint(k.M); assign++ {
		want, cnt := -1, 0
		for i, a := range k.Alts {
			if a.holds(assign) {
				cnt++
				want = i
			}
		}
		if cnt != 1 {
			continue
		}
		target := int(lr.DefaultTarget)
		for _, cs := range lr.Cases {
			if v := assign>>uint(cs.Input-1)&1 == 1; v != cs.Negated {
				target = int(cs.Target)
				break
			}
		}
		out.decided++
		if target != firstL+want {
			return outcome{key: "lalr2:wrong-alternative", msg: fmt.Sprintf("assignment %0*b satisfies only alternative %d but the decision list %+v (default %d) selects %s", k.M, assign, want, lr.Cases, lr.DefaultTarget, g.Symbols[target])}
		}
	}
	return out
}

func (a alt) holds(assign int) bool {
	for _, p := range a {
		v := assign>>uint(p.P)&1 == 1
		if v == p.Neg {
			return false
		}
	}
	return true
}

// reference: mutually exclusive (pairwise contradictory) and mentioned in one common total order
func (k caseT) exclusive() bool {
	for i := range k.Alts {
		for j := i + 1; j < len(k.Alts); j++ {
			contra := false
			for _, p := range k.Alts[i] {
				for _, q := range k.Alts[j] {
					if p.P == q.P && p.Neg != q.Neg {
						contra = true
					}
				}
			}
			if !contra {
				return false
			}
		}
	}
	return true
}

func (k caseT) consistentOrder() bool {
	// edges a->b when a is mentioned before b in some alternative; consistent = acyclic
	var edge [8][8]bool
	for _, a := range k.Alts {
		for i := range a {
			for j := i + 1; j < len(a); j++ {
				edge[a[i].P][a[j].P] = true
			}
		}
	}
	for x := 0; x < k.M; x++ {
		for y := 0; y < k.M; y++ {
			for z := 0; z < k.M; z++ {
				if edge[y][x] && edge[x][z] {
					edge[y][z] = true
				}
			}
		}
	}
	for x := 0; x < k.M; x++ {
		if edge[x][x] {
			return false
		}
	}
	return true
}

type outcome struct {
	key, msg string
	accepted bool
	decided  int
}

func (k caseT) check() outcome {
	g, firstL, emptyRule0 := k.grammar()
	var tbl *lalr.Tables
	var cerr error
	if err := core.Guard(func() { tbl, cerr = lalr.Compile(g, lalr.Options{}) }); err != nil {
		return outcome{key: "panic:" + core.PanicSite(err), msg: err.Error()}
	}
	if cerr != nil {
		if !strings.Contains(cerr.Error(), "Lookaheads must use mutually exclusive") {
			return outcome{key: "unexpected-error", msg: cerr.Error()}
		}
		return outcome{accepted: false}
	}
	out := outcome{accepted: true}
	if !k.exclusive() && k.Firsts == nil {
		// find a witness assignment satisfying two alternatives
		for assign := 0; assign < 1<<uint(k.M); assign++ {
			cnt := 0
			for _, a := range k.Alts {
				if a.holds(assign) {
					cnt++
				}
			}
			if cnt >= 2 {
				return outcome{key: "accepted-non-exclusive-set", msg: fmt.Sprintf("accepted although assignment %0*b satisfies %d alternatives", k.M, assign, cnt)}
			}
		}
	}
	if !k.consistentOrder() && k.Firsts == nil {
		return outcome{key: "accepted-inconsistently-ordered-set", msg: "accepted although the alternatives mention the predicates in contradictory orders"}
	}
	// per continuation terminal: the alternatives that can continue with it are the ones in
	// conflict there
	for _, term := range []int{1, 3} {
		var subset []int
		for i := range k.Alts {
			f := 1
			if k.Firsts != nil {
				f = k.Firsts[i]
			}
			if (term == 1 && f&1 != 0) || (term == 3 && f&2 != 0) {
				subset = append(subset, i)
			}
		}
		if len(subset) == 0 {
			continue
		}
		tn := g.Symbols[term]
		// the action of state 0 on term
		act := tbl.Action[0]
		rule := -2
		switch {
		case act >= 0:
			rule = act
		case act < -2:
			for a := -act - 3; tbl.Lalr[a] >= 0; a += 2 {
				if tbl.Lalr[a] == term {
					rule = tbl.Lalr[a+1]
				}
			}
		}
		if len(subset) == 1 {
			if want := emptyRule0 + subset[0]; rule != want {
				return outcome{key: "single-alternative-not-reduced", msg: fmt.Sprintf("state 0 on %s: only alternative %d continues with it, expected reduce of rule %d, tables say %d", tn, subset[0], want, rule)}
			}
			continue
		}
		if act >= -2 && k.Firsts == nil {
			return outcome{key: "no-lookahead-state", msg: fmt.Sprintf("state 0 action %d: expected a lookahead-dependent state", act)}
		}
		if rule < len(g.Rules) {
			return outcome{key: "no-decision-rule", msg: fmt.Sprintf("state 0 on %s has action %d; expected a runtime lookahead rule (>= %d) deciding among alternatives %v; SR=%d RR=%d", tn, rule, len(g.Rules), subset, tbl.SR, tbl.RR)}
		}
		lr := tbl.Lookaheads[rule-len(g.Rules)]
		if tbl.RuleLen[rule] != 0 {
			return outcome{key: "decision-rule-length", msg: "lookahead rule must have length 0"}
		}
		for assign := 0; assign < 1<<uint(k.M); assign++ {
			want := -1
			cnt := 0
			for _, i := range subset {
				if k.Alts[i].holds(assign) {
					cnt++
					want = i
				}
			}
			if cnt != 1 {
				continue
			}
			// evaluate the decision list as the generated code does
			target := int(lr.DefaultTarget)
			for _, cs := range lr.Cases {
				v := assign>>uint(cs.Input-1)&1 == 1
				if v != cs.Negated {
					target = int(cs.Target)
					break
				}
			}
			out.decided++
			if target != firstL+want {
				return outcome{key: "wrong-alternative", msg: fmt.Sprintf("on %s (alternatives in conflict: %v): assignment %0*b satisfies only alternative %d but the decision list %+v (default %d) selects %s", tn, subset, k.M, assign, want, lr.Cases, lr.DefaultTarget, g.Symbols[target])}
			}
		}
	}
	return out
}

func allAlts(m int) []alt {
	var out []alt
	var rec func(cur alt, used int)
	rec = func(cur alt, used int) {
		if len(cur) > 0 {
			out = append(out, append(alt{}, cur...))
		}
		for p := 0; p < m; p++ {
			if used>>uint(p)&1 == 1 {
				continue
			}
			for _, neg := range []bool{false, true} {
				rec(append(cur, pred{p, neg}), used|1<<uint(p))
			}
		}
	}
	rec(nil, 0)
	return out
}

func run(c *core.Ctx) {
	c.Rule("every set of n alternatives (n<=3 quick for m<=3; n<=4 thorough) drawn as combinations from all ordered conjunctions of distinct possibly-negated predicates over m<=3 predicates, placed in one parser state; every accepted set with n<=3 also under every assignment of continuation terminals {ta, tc, both} to the alternatives (the alternatives in conflict then differ per terminal) and, compiled with lalr(2), next to an extra plain empty reduction that the second token separates from the alternatives; accepted sets: all 2^m truth assignments; non-trivial = accepted set with >=1 assignment satisfying exactly one alternative; rejected sets that the reference calls exclusive+consistently ordered are counted as incompleteness (not a violation: the statement only constrains accepted sets and requires rejection of bad ones)")
	var accepted, rejected, incomplete, decided, nontrivial, perTerminal, perTerminalRejected, extraAccepted, extraRejected int64
	var accMu sync.Mutex
	var acceptedSets []caseT
	maxN := 3
	if !c.Quick() {
		maxN = 4
	}
	for m := 1; m <= 3; m++ {
		alts := allAlts(m)
		for n := 2; n <= maxN; n++ {
			if n > len(alts) {
				continue
			}
			// enumerate combinations in lexicographic order; parallelise over the first index
			core.ParallelFor(len(alts), 16, func(first int) {
				if c.Expired() {
					c.Capped(fmt.Sprintf("m=%d n=%d not completed (budget)", m, n))
					return
				}
				idx := make([]int, n)
				idx[0] = first
				var rec func(pos int)
				rec = func(pos int) {
					if pos == n {
						k := caseT{M: m}
						for _, i := range idx {
							k.Alts = append(k.Alts, alts[i])
						}
						o := k.check()
						c.Eval(1)
						if o.key != "" {
							c.Violate(o.key, o.msg+" :: "+k.String(), k)
							return
						}
						if o.accepted {
							atomic.AddInt64(&accepted, 1)
							atomic.AddInt64(&decided, int64(o.decided))
							if n <= 3 {
								ke := caseT{M: m, Alts: k.Alts, Extra: true}
								oe := ke.checkExtra()
								c.Eval(1)
								switch {
								case oe.key != "":
									c.Violate(oe.key, oe.msg+" :: "+ke.String()+" + S: X ta tc; X: %empty, lalr(2)", ke)
								case oe.accepted:
									atomic.AddInt64(&extraAccepted, 1)
									atomic.AddInt64(&decided, int64(oe.decided))
								default:
									atomic.AddInt64(&extraRejected, 1)
								}
							}
							if n >= 2 && n <= 3 {
								// the same set with every assignment of continuation terminals
								// {ta, tc, both} to the alternatives (all-ta is the base case)
								total := 1
								for i := 0; i < n; i++ {
									total *= 3
								}
								for code := 1; code < total; code++ {
									kf := caseT{M: m, Alts: k.Alts, Firsts: make([]int, n)}
									x := code
									for i := 0; i < n; i++ {
										kf.Firsts[i] = []int{1, 2, 3}[x%3]
										x /= 3
									}
									of := kf.check()
									c.Eval(1)
									atomic.AddInt64(&perTerminal, 1)
									if of.key != "" {
										c.Violate("per-terminal:"+of.key, of.msg+" :: "+kf.String()+fmt.Sprintf(" continuation terminals (1=ta 2=tc 3=both) %v", kf.Firsts), kf)
									} else if !of.accepted {
										// the sub-sets in conflict on ta / tc are rejected although the whole set is
										// accepted: incompleteness of the planner, the statement only constrains
										// accepted sets
										atomic.AddInt64(&perTerminalRejected, 1)
									} else {
										atomic.AddInt64(&decided, int64(of.decided))
									}
								}
							}
							if o.decided > 0 {
								atomic.AddInt64(&nontrivial, 1)
								if n <= 3 {
									accMu.Lock()
									acceptedSets = append(acceptedSets, k)
									accMu.Unlock()
								}
							}
							if c.SampleCount() < 3 && n == 3 {
								c.Sample(map[string]any{"alternatives": k.String(), "verdict": "accepted", "assignments_decided": o.decided})
							}
						} else {
							atomic.AddInt64(&rejected, 1)
							if k.exclusive() && k.consistentOrder() {
								atomic.AddInt64(&incomplete, 1)
							}
						}
						return
					}
					for i := idx[pos-1] + 1; i < len(alts); i++ {
						idx[pos] = i
						rec(pos + 1)
					}
				}
				rec(1)
			})
		}
	}
	// Layer B on the accepted sets (deterministic order: by m, n, then text)
	sort.Slice(acceptedSets, func(i, j int) bool {
		a, b := acceptedSets[i], acceptedSets[j]
		if a.M != b.M {
			return a.M < b.M
		}
		if len(a.Alts) != len(b.Alts) {
			return len(a.Alts) < len(b.Alts)
		}
		return a.String() < b.String()
	})
	if c.Quick() {
		layerB(c, acceptedSets, 90)
	} else {
		layerB(c, acceptedSets, 4000)
	}
	c.Nontrivial(nontrivial)
	c.Outcome("accepted", accepted)
	c.Outcome("rejected", rejected)
	c.Set("assignments_decided", decided)
	c.Set("lalr2_extra_reduction_variants_accepted", extraAccepted)
	c.Set("lalr2_extra_reduction_variants_rejected(conflict reported)", extraRejected)
	c.Set("per_terminal_subset_variants", perTerminal)
	c.Set("per_terminal_subset_variants_rejected(incompleteness)", perTerminalRejected)
	c.Set("rejected_but_exclusive_and_consistently_ordered(incompleteness)", incomplete)
}

func replay(c *core.Ctx, raw json.RawMessage) error {
	var k caseT
	if err := json.Unmarshal(raw, &k); err != nil {
		return err
	}
	if k.Extra {
		if o := k.checkExtra(); o.key != "" {
			return fmt.Errorf("%s: %s", o.key, o.msg)
		}
		return nil
	}
	if o := k.check(); o.key != "" {
		return fmt.Errorf("%s: %s", o.key, o.msg)
	}
	return nil
}
