// C03: lookahead sets and conflict reports are exactly LALR(1).
// Every grammar of the scope x input configuration x %expect variation is compiled with the
// real lalr.Compile and compared, state by state and cell by cell, with the textbook reference
// construction in internal/reflalr.
package main

import (
	"encoding/json"
	"fmt"
	"sort"
	"strings"
	"sync/atomic"

	"github.com/inspirer/textmapper/lalr"
	"github.com/inspirer/textmapper/status"

	"verif/internal/core"
	"verif/internal/gramenum"
	"verif/internal/reflalr"
)

type caseT struct {
	Grammar  string           `json:"grammar"`
	G        *gramenum.Gram   `json:"g"`
	Inputs   []gramenum.Input `json:"inputs"`
	ExpectSR int              `json:"expect_sr"`
	ExpectRR int              `json:"expect_rr"`
}

func main() { core.Main("C03", "exploration", run, replay, nil) }

type result struct {
	key, msg string
	sr, rr   int
	states   int
	lenient  int
}

// compare compiles g with the given inputs/expectations and compares with the reference.
// A structural disagreement (different state graph) that disappears when the reference is
// rebuilt with the post-input state shared by kernel (reflalr.BuildSharedLast) is re-keyed
// "shared-last-state:…" so that this one deviation of the implementation is tracked as one
// finding while every other disagreement keeps its own key.
func compare(g *gramenum.Gram, inputs []gramenum.Input, expSR, expRR int) (res result) {
	res = compareWith(g, inputs, expSR, expRR, reflalr.Build(g, inputs))
	if res.key != "" && !strings.HasPrefix(res.key, "panic") {
		if sub := sharedLast(g, inputs); sub != "" {
			res.key = "shared-last-state:" + sub
			res.msg = "the state reached over the input nonterminal has other incoming transitions: it is shared with a state that has the same real kernel items (the canonical construction keeps it private: its kernel contains the augmented item); first difference: " + res.msg
		}
	}
	return res
}

// sharedLast reports whether, in the implementation's tables, the state reached from
// input state i over the input nonterminal has further incoming transitions (never the
// case in the canonical construction, where that state's kernel holds the augmented item).
func sharedLast(g *gramenum.Gram, inputs []gramenum.Input) string {
	lg := g.ToLalr(inputs)
	var tbl *lalr.Tables
	if err := core.Guard(func() { tbl, _ = lalr.Compile(lg, lalr.Options{}) }); err != nil || tbl == nil {
		return ""
	}
	for i, in := range inputs {
		last := -1
		for k := tbl.Goto[in.NT]; k < tbl.Goto[in.NT+1]; k += 2 {
			if tbl.FromTo[k] == i {
				last = tbl.FromTo[k+1]
			}
		}
		for k := tbl.Goto[in.NT]; k < tbl.Goto[in.NT+1]; k += 2 {
			if tbl.FromTo[k+1] == last && tbl.FromTo[k] != i {
				if tbl.FromTo[k] < len(inputs) {
					return "same-nonterminal-inputs"
				}
				return "inner-context"
			}
		}
	}
	return ""
}

func compareWith(g *gramenum.Gram, inputs []gramenum.Input, expSR, expRR int, ref *reflalr.Automaton) (res result) {
	lg := g.ToLalr(inputs)
	lg.ExpectSR, lg.ExpectRR = expSR, expRR
	var tbl *lalr.Tables
	var cerr error
	if err := core.Guard(func() { tbl, cerr = lalr.Compile(lg, lalr.Options{}) }); err != nil {
		return result{key: "panic:" + core.PanicSite(err), msg: err.Error()}
	}
	res.states = len(ref.States)
	if tbl.NumStates != len(ref.States) {
		return result{key: "states:count", msg: fmt.Sprintf("implementation has %d states, reference LALR(1) automaton has %d", tbl.NumStates, len(ref.States))}
	}
	gotoImpl := func(state, sym int) int {
		min, max := tbl.Goto[sym], tbl.Goto[sym+1]
		for i := min; i < max; i += 2 {
			if tbl.FromTo[i] == state {
				return tbl.FromTo[i+1]
			}
		}
		return -1
	}
	// behavioural state matching: simultaneous walk from the input states
	r2i := make([]int, len(ref.States))
	i2r := make([]int, tbl.NumStates)
	for i := range r2i {
		r2i[i] = -1
	}
	for i := range i2r {
		i2r[i] = -1
	}
	var queue []int
	for i := range inputs {
		r2i[i], i2r[i] = i, i
		queue = append(queue, i)
	}
	nsym := g.T + g.N + 1
	for len(queue) > 0 {
		rs := queue[0]
		queue = queue[1:]
		is := r2i[rs]
		for sym := 0; sym < nsym; sym++ {
			rt, ok := ref.States[rs].Goto[sym]
			it := gotoImpl(is, sym)
			if ok != (it >= 0) {
				return result{key: "goto:defined", msg: fmt.Sprintf("state %d (ref %d) on %s: implementation goto=%d, reference defined=%v", is, rs, g.SymName(sym), it, ok)}
			}
			if !ok {
				continue
			}
			if r2i[rt] == -1 && i2r[it] == -1 {
				r2i[rt], i2r[it] = it, rt
				queue = append(queue, rt)
			} else if r2i[rt] != it || i2r[it] != rt {
				return result{key: "goto:bijection", msg: fmt.Sprintf("state graphs are not isomorphic at state %d on %s", is, g.SymName(sym))}
			}
		}
	}
	for i, v := range i2r {
		if v == -1 {
			return result{key: "states:unreachable", msg: fmt.Sprintf("implementation state %d not matched", i)}
		}
	}
	for i := range inputs {
		if tbl.FinalStates[i] != r2i[ref.Final[i]] {
			return result{key: "final-state", msg: fmt.Sprintf("input %d: final state %d, reference %d", i, tbl.FinalStates[i], r2i[ref.Final[i]])}
		}
	}
	// per-state actions
	wantSR, wantRR, _ := ref.Conflicts()
	conflictRules := map[int]bool{}
	for rs, s := range ref.States {
		is := r2i[rs]
		act := tbl.Action[is]
		lr0 := ref.IsLR0(s)
		switch {
		case act >= 0:
			if !(len(s.Reduce) == 1 && !ref.HasTermShift(s)) {
				return result{key: "lr0:unjustified-default-reduce", msg: fmt.Sprintf("state %d reduces rule %d without lookahead but the reference state has reductions %v and terminal shifts=%v", is, act, s.Reduce, ref.HasTermShift(s))}
			}
			if s.Reduce[0] != act {
				return result{key: "lr0:wrong-rule", msg: fmt.Sprintf("state %d reduces %d, reference %d", is, act, s.Reduce[0])}
			}
		case act == -1:
			if len(s.Reduce) != 0 || len(s.Goto) == 0 {
				return result{key: "action:shift-only-mismatch", msg: fmt.Sprintf("state %d is shift-only but reference has reductions %v, gotos %d", is, s.Reduce, len(s.Goto))}
			}
		case act == -2:
			if len(s.Reduce) != 0 || len(s.Goto) != 0 {
				return result{key: "action:error-state-mismatch", msg: fmt.Sprintf("state %d is an error/final state but reference has reductions %v, gotos %d", is, s.Reduce, len(s.Goto))}
			}
		default:
			if len(s.Reduce) == 0 {
				return result{key: "action:lalr-without-reduce", msg: fmt.Sprintf("state %d consults lookahead but reference has no reductions", is)}
			}
			if lr0 {
				// The statement permits (does not require) the LR(0) shortcut; the implementation
				// consults lookahead in an input state that received its "last" goto after the fact
				// (addShift). Consulting lookahead is canonical LALR(1) behaviour; accepted for
				// input states only, counted.
				if rs >= len(inputs) {
					return result{key: "lr0:shortcut-not-taken", msg: fmt.Sprintf("state %d has a single reduction %v and no terminal shifts but consults lookahead", is, s.Reduce)}
				}
				res.lenient++
			}
			impl := map[int]int{}
			a := -act - 3
			for ; tbl.Lalr[a] >= 0; a += 2 {
				if _, dup := impl[tbl.Lalr[a]]; dup {
					return result{key: "lalr:duplicate-terminal", msg: fmt.Sprintf("state %d lists terminal %d twice", is, tbl.Lalr[a])}
				}
				impl[tbl.Lalr[a]] = tbl.Lalr[a+1]
			}
			for t := 0; t <= g.T; t++ {
				c := ref.CellOf(s, t)
				got, listed := impl[t]
				var want int
				switch {
				case !c.Shift && len(c.Reduces) == 0:
					if listed {
						kind := "lalr:extra-lookahead"
						return result{key: kind, msg: fmt.Sprintf("state %d on %s: implementation action %d, reference has no action (lookahead set too large)", is, g.SymName(t), got)}
					}
					continue
				case c.Shift:
					want = -1
					if len(c.Reduces) > 0 {
						for _, r := range c.Reduces {
							conflictRules[r] = true
						}
					}
				default:
					want = c.Reduces[0] // unresolved reduce/reduce defaults to the earlier rule
					if len(c.Reduces) > 1 {
						for _, r := range c.Reduces {
							conflictRules[r] = true
						}
					}
				}
				if !listed {
					return result{key: "lalr:missing-lookahead", msg: fmt.Sprintf("state %d on %s: implementation reports an error, reference action %d (cell %+v)", is, g.SymName(t), want, c)}
				}
				if got != want {
					return result{key: "lalr:wrong-action", msg: fmt.Sprintf("state %d on %s: implementation action %d, reference %d (cell %+v)", is, g.SymName(t), got, want, c)}
				}
			}
		}
	}
	res.sr, res.rr = wantSR, wantRR
	if tbl.SR != wantSR || tbl.RR != wantRR {
		return result{key: "conflicts:count", msg: fmt.Sprintf("implementation reports %d SR / %d RR, reference has %d / %d conflicted cells", tbl.SR, tbl.RR, wantSR, wantRR)}
	}
	wantErr := wantSR != expSR || wantRR != expRR
	if wantErr != (cerr != nil) {
		return result{key: "conflicts:error-iff-mismatch", msg: fmt.Sprintf("conflicts %d/%d, expected %d/%d, error=%v", wantSR, wantRR, expSR, expRR, cerr)}
	}
	if cerr != nil {
		// which rules are named?
		named := map[int]bool{}
		summary := 0
		for _, e := range status.FromError(cerr) {
			idx := e.Origin.Offset - 1
			if idx == -1 {
				summary++
				if !strings.Contains(e.Msg, fmt.Sprintf("%v shift/reduce and %v reduce/reduce", wantSR, wantRR)) {
					return result{key: "conflicts:summary-text", msg: "summary error does not carry the exact counts: " + e.Msg}
				}
			} else {
				named[idx] = true
			}
		}
		if summary != 1 {
			return result{key: "conflicts:summary-missing", msg: fmt.Sprintf("%d summary errors", summary)}
		}
		if fmt.Sprint(keys(named)) != fmt.Sprint(keys(conflictRules)) {
			return result{key: "conflicts:rules-named", msg: fmt.Sprintf("errors name rules %v, conflicted cells involve rules %v", keys(named), keys(conflictRules))}
		}
	}
	return res
}

func keys(m map[int]bool) []int {
	var out []int
	for k := range m {
		out = append(out, k)
	}
	sort.Ints(out)
	return out
}

func scopes(c *core.Ctx) []gramenum.Scope {
	if c.Quick() {
		return []gramenum.Scope{
			{N: 1, T: 2, R: 4, K: 2, AllNTs: true},
			{N: 2, T: 2, R: 4, K: 2},
			{N: 1, T: 2, R: 3, K: 3, AllNTs: true},
		}
	}
	return []gramenum.Scope{
		{N: 1, T: 2, R: 4, K: 2, AllNTs: true},
		{N: 2, T: 2, R: 4, K: 2},
		{N: 1, T: 2, R: 4, K: 3, AllNTs: true},
		{N: 2, T: 2, R: 3, K: 3},
		{N: 3, T: 2, R: 4, K: 2, AllNTs: true},
		{N: 2, T: 3, R: 4, K: 2, AllNTs: true},
		{N: 2, T: 2, R: 5, K: 2, AllNTs: true},
		{N: 3, T: 3, R: 4, K: 2, AllNTs: true},
	}
}

func run(c *core.Ctx) {
	c.Rule("every rule set of the scope (N nonterminals, T terminals, <=R rules, RHS<=K; raw: unreachable/unproductive/undefined nonterminals included where the scope says so; terminal-renaming symmetry broken) x input configurations {X1; X1 no-eoi; X1+X1 no-eoi; X1,X2; X2 no-eoi,X1} x expectations {0/0, exact, exact+1}; non-trivial = grammar x config whose reference automaton has a lookahead-dependent state; distinct by construction (canonical enumeration)")
	c.Assume("reference = internal/reflalr (LR(1) item sets merged by kernel, fixpoint), independent of lalr/compile.go's DeRemer-Pennello follow-set algorithm")
	var conflicted, lenient, maxStates int64
	for _, sc := range scopes(c) {
		if c.Expired() {
			c.Capped(fmt.Sprintf("scope %+v not started (budget)", sc))
			continue
		}
		// collect in blocks and process in parallel
		const block = 2048
		var batch []*gramenum.Gram
		stopped := false
		flush := func() {
			gs := batch
			batch = nil
			core.ParallelFor(len(gs), 16, func(i int) {
				g := gs[i]
				for _, inputs := range gramenum.InputConfigs(g) {
					r := compare(g, inputs, 0, 0)
					c.Eval(1)
					if r.key != "" {
						c.Violate(r.key, r.msg+" :: "+g.String()+" inputs="+fmt.Sprint(inputs), caseT{g.String(), g, inputs, 0, 0})
						continue
					}
					atomic.AddInt64(&lenient, int64(r.lenient))
					for {
						old := atomic.LoadInt64(&maxStates)
						if int64(r.states) <= old || atomic.CompareAndSwapInt64(&maxStates, old, int64(r.states)) {
							break
						}
					}
					nontrivial := r.sr+r.rr > 0
					if r.sr+r.rr > 0 {
						atomic.AddInt64(&conflicted, 1)
						c.Outcome("conflicted", 1)
						for _, e := range [][2]int{{r.sr, r.rr}, {r.sr + 1, r.rr}, {r.sr, r.rr + 1}} {
							r2 := compare(g, inputs, e[0], e[1])
							c.Eval(1)
							if r2.key != "" {
								c.Violate(r2.key+":expect", r2.msg+" :: "+g.String(), caseT{g.String(), g, inputs, e[0], e[1]})
							}
						}
					} else {
						c.Outcome("conflict-free", 1)
						ref := reflalr.Build(g, inputs)
						for _, s := range ref.States {
							if !ref.IsLR0(s) {
								nontrivial = true
							}
						}
						// expectation that does not match => error
						r2 := compare(g, inputs, 1, 0)
						c.Eval(1)
						if r2.key != "" {
							c.Violate(r2.key+":expect", r2.msg+" :: "+g.String(), caseT{g.String(), g, inputs, 1, 0})
						}
					}
					if nontrivial {
						c.Nontrivial(1)
					}
				}
			})
		}
		n := gramenum.Enumerate(sc, func(idx int, g *gramenum.Gram) bool {
			batch = append(batch, g.Clone())
			if len(batch) >= block {
				flush()
				if c.Expired() {
					stopped = true
					return false
				}
			}
			return true
		})
		flush()
		if stopped {
			c.Capped(fmt.Sprintf("scope %+v stopped after %d grammars (budget)", sc, n))
		}
		c.Add("grammars", int64(n))
		c.Set(fmt.Sprintf("scope_N%d_T%d_R%d_K%d_grammars", sc.N, sc.T, sc.R, sc.K), n)
	}
	c.Set("conflicted_grammar_configs", conflicted)
	c.Set("input_states_consulting_lookahead_where_shortcut_was_permitted", lenient)
	c.Set("max_states", maxStates)
	g := &gramenum.Gram{T: 2, N: 2, Rules: []gramenum.Rule{{3, []int{3, 4}}, {3, []int{1}}, {4, nil}}}
	c.Sample(map[string]any{"grammar": g.String(), "inputs": "X1 eoi"})
	c.Sample(map[string]any{"grammar": "X1: ta X1 | X2; X2: %empty | tb", "inputs": "X2 no-eoi, X1"})
}

func replay(c *core.Ctx, raw json.RawMessage) error {
	var k caseT
	if err := json.Unmarshal(raw, &k); err != nil {
		return err
	}
	r := compare(k.G, k.Inputs, k.ExpectSR, k.ExpectRR)
	if r.key != "" {

		return fmt.Errorf("%s: %s", r.key, r.msg)
	}
	return nil
}
