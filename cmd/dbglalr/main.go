// dbglalr prints the implementation tables and the reference automaton for a C03 replay file.
package main

import (
	"encoding/json"
	"fmt"
	"os"
	"sort"

	"github.com/inspirer/textmapper/lalr"

	"verif/internal/gramenum"
	"verif/internal/reflalr"
)

func main() {
	data, _ := os.ReadFile(os.Args[1])
	var f struct {
		Replay struct {
			G      *gramenum.Gram
			Inputs []gramenum.Input
		}
	}
	if err := json.Unmarshal(data, &f); err != nil {
		panic(err)
	}
	g, inputs := f.Replay.G, f.Replay.Inputs
	for i, r := range g.Rules {
		fmt.Printf("rule %d: %s ->", i, g.SymName(r.LHS))
		for _, s := range r.RHS {
			fmt.Printf(" %s", g.SymName(s))
		}
		fmt.Println()
	}
	fmt.Println("inputs", inputs)
	lg := g.ToLalr(inputs)
	tbl, err := lalr.Compile(lg, lalr.Options{Debug: true})
	fmt.Println("err:", err)
	fmt.Println("Action", tbl.Action, "Lalr", tbl.Lalr, "Final", tbl.FinalStates, "SR/RR", tbl.SR, tbl.RR)
	for i, d := range tbl.DebugInfo {
		fmt.Printf("--impl %d--\n%s\n", i, d)
	}
	for sym := 0; sym < len(lg.Symbols); sym++ {
		for i := tbl.Goto[sym]; i < tbl.Goto[sym+1]; i += 2 {
			fmt.Printf("impl goto %d --%s--> %d\n", tbl.FromTo[i], lg.Symbols[sym], tbl.FromTo[i+1])
		}
	}
	ref := reflalr.Build(g, inputs)
	for i, s := range ref.States {
		fmt.Printf("--ref %d kind=%d input=%d kernel=%v final=%v\n", i, s.Kind, s.Input, s.Kernel, s.FinalFor)
		var syms []int
		for k := range s.Goto {
			syms = append(syms, k)
		}
		sort.Ints(syms)
		for _, k := range syms {
			fmt.Printf("   %s -> %d\n", g.SymName(k), s.Goto[k])
		}
		for _, r := range s.Reduce {
			fmt.Printf("   reduce %d la=%b\n", r, s.ReduceLA[r])
		}
	}
}
