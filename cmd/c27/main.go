// C27: util/diff.LineDiff — line diffs are correct and minimal.
//
// What the API exposes: only LineDiff(left, right string) string, the rendered unified diff. The
// edit script (lcs/trace/middle, type chunk) is unexported, so both levels of the statement are
// observed on the rendered text: the '-'/'+' lines ARE the edit script (its cost is their number),
// the '@@' headers and ' ' lines are the rendering. A "line" is what the implementation diffs:
// an element of strings.Split(text, "\n") (a trailing newline therefore shows up as a final empty
// line; the statement does not define lines, so this is adopted).
//
// Oracle: an independent strict parser + applier of the rendered diff (hunks in order, header line
// numbers and sizes must agree with the position in A / in the output, context and deleted lines
// must equal the lines of A, the result must equal B), an O(nm) LCS table for the minimum number
// of insertions+deletions, and "" <=> equal texts.
//
// LineDiff reaches log.Fatal ("no snake") and loops over diagonals, so every call runs in worker
// subprocesses (shard protocol); the parent only aggregates.
package main

import (
	"encoding/json"
	"fmt"
	"os"
	"sort"
	"strconv"
	"strings"
	"sync/atomic"
	"time"

	"github.com/inspirer/textmapper/util/diff"

	"verif/internal/core"
)

func main() { core.Main("C27", "exploration", run, replay, worker) }

type dcase struct {
	A string `json:"a"`
	B string `json:"b"`
	// Key is the finding this replay value was recorded for (one pair can carry several findings)
	Key string `json:"key,omitempty"`
}

// ---------------------------------------------------------------------------------------------
// Oracle.

type op struct {
	c    byte   // ' ', '-', '+'
	text string // line content
	skip int    // > 0: elision marker "  ... N lines skipped ..." standing for N lines of kind c
}

type hunk struct {
	ll, ls, rl, rs int
	ops            []op
}

func atoi(s string) (int, bool) {
	if s == "" || len(s) > 9 {
		return 0, false
	}
	n := 0
	for i := 0; i < len(s); i++ {
		if s[i] < '0' || s[i] > '9' {
			return 0, false
		}
		n = n*10 + int(s[i]-'0')
	}
	return n, true
}

// parseHeader parses "@@ -l,s +l,s @@".
func parseHeader(line string) (h hunk, ok bool) {
	if !strings.HasPrefix(line, "@@ -") || !strings.HasSuffix(line, " @@") {
		return h, false
	}
	body := line[4 : len(line)-3]
	sp := strings.Index(body, " +")
	if sp < 0 {
		return h, false
	}
	l, r := body[:sp], body[sp+2:]
	lc, rc := strings.IndexByte(l, ','), strings.IndexByte(r, ',')
	if lc < 0 || rc < 0 {
		return h, false
	}
	var o1, o2, o3, o4 bool
	h.ll, o1 = atoi(l[:lc])
	h.ls, o2 = atoi(l[lc+1:])
	h.rl, o3 = atoi(r[:rc])
	h.rs, o4 = atoi(r[rc+1:])
	return h, o1 && o2 && o3 && o4
}

// parseSkip recognises the elision marker. No enumerated text contains such a line.
func parseSkip(text string) (int, bool) {
	const pre, suf = "  ... ", " lines skipped ..."
	if !strings.HasPrefix(text, pre) || !strings.HasSuffix(text, suf) || len(text) <= len(pre)+len(suf) {
		return 0, false
	}
	return atoi(text[len(pre) : len(text)-len(suf)])
}

func parseDiff(d string) ([]hunk, error) {
	if !strings.HasSuffix(d, "\n") {
		return nil, fmt.Errorf("diff does not end with a newline")
	}
	lines := strings.Split(d[:len(d)-1], "\n")
	var hunks []hunk
	for i, line := range lines {
		if line == "" {
			return nil, fmt.Errorf("line %d of the diff is empty (no intro character)", i+1)
		}
		switch line[0] {
		case '@':
			h, ok := parseHeader(line)
			if !ok {
				return nil, fmt.Errorf("malformed hunk header %q", line)
			}
			hunks = append(hunks, h)
		case ' ', '-', '+':
			if len(hunks) == 0 {
				return nil, fmt.Errorf("line %q before the first hunk header", line)
			}
			o := op{c: line[0], text: line[1:]}
			if n, ok := parseSkip(o.text); ok {
				if n <= 0 {
					return nil, fmt.Errorf("elision marker for %d lines", n)
				}
				o.skip = n
			}
			h := &hunks[len(hunks)-1]
			h.ops = append(h.ops, o)
		default:
			return nil, fmt.Errorf("line %q starts with neither ' ', '-', '+' nor '@'", line)
		}
	}
	for _, h := range hunks {
		if len(h.ops) == 0 {
			return nil, fmt.Errorf("hunk -%d,%d +%d,%d has no lines", h.ll, h.ls, h.rl, h.rs)
		}
	}
	return hunks, nil
}

type applied struct {
	edits  int // number of deleted + inserted lines (elided ones included)
	dels   int
	ins    int
	hunks  int
	elided int // elision markers seen
	// hunks whose header sizes exceed the lines they cover by exactly one per elision marker (the
	// marker line itself was counted as a line of the text)
	sizeCountsMarker int
}

// apply applies the hunks to A. B is consulted only for the content of elided '+' lines, which the
// diff does not carry (reported separately as render:elision); everything else is checked strictly.
func apply(hunks []hunk, A, B []string) (res applied, key, msg string) {
	pos := 0
	out := make([]string, 0, len(B))
	for hi, h := range hunks {
		// The header must name the first line of the hunk on both sides. For an empty range the
		// unified format names the line *before* it instead; LineDiff cannot emit such a range (every
		// hunk has context or deletions), both readings are accepted should one ever appear.
		start := h.ll - 1
		if h.ls == 0 && h.rs > 0 && h.rl-1 == len(out)+(h.ll-pos) {
			start = h.ll
		}
		if start < pos {
			return res, "render:hunk-order", fmt.Sprintf("hunk %d starts at left line %d but %d line(s) of A were already consumed", hi+1, h.ll, pos)
		}
		if start > len(A) {
			return res, "render:line-numbers", fmt.Sprintf("hunk %d starts at left line %d, A has %d lines", hi+1, h.ll, len(A))
		}
		out = append(out, A[pos:start]...)
		pos = start
		if h.rl-1 != len(out) && !(h.rs == 0 && h.rl == len(out)) {
			return res, "render:line-numbers", fmt.Sprintf("hunk %d header says right line %d but its first line is right line %d", hi+1, h.rl, len(out)+1)
		}
		left, right := 0, 0
		markL, markR := 0, 0
		for _, o := range h.ops {
			n := 1
			if o.skip > 0 {
				n = o.skip
				res.elided++
				if o.c != '+' {
					markL++
				}
				if o.c != '-' {
					markR++
				}
			}
			switch o.c {
			case ' ', '-':
				if pos+n > len(A) {
					return res, "render:context-mismatch", fmt.Sprintf("hunk %d: %q needs %d more line(s) of A at line %d, A has %d lines", hi+1, string(o.c)+o.text, n, pos+1, len(A))
				}
				if o.skip == 0 && A[pos] != o.text {
					return res, "render:context-mismatch", fmt.Sprintf("hunk %d: %q does not match line %d of A (%q)", hi+1, string(o.c)+o.text, pos+1, A[pos])
				}
				if o.c == ' ' {
					out = append(out, A[pos:pos+n]...)
					right += n
				} else {
					res.dels += n
				}
				pos += n
				left += n
			case '+':
				if o.skip > 0 {
					if len(out)+n > len(B) {
						return res, "render:elision-count", fmt.Sprintf("hunk %d: %d elided inserted lines at right line %d, B has %d lines", hi+1, n, len(out)+1, len(B))
					}
					out = append(out, B[len(out):len(out)+n]...)
				} else {
					out = append(out, o.text)
				}
				res.ins += n
				right += n
			}
		}
		if markL+markR > 0 && (left != h.ls || right != h.rs) && left+markL == h.ls && right+markR == h.rs {
			// a precise, separately keyed class (render:elision:header-size); keep validating the rest
			res.sizeCountsMarker++
		} else if left != h.ls || right != h.rs {
			return res, "render:hunk-size", fmt.Sprintf("hunk %d header -%d,%d +%d,%d but its lines cover %d left / %d right lines", hi+1, h.ll, h.ls, h.rl, h.rs, left, right)
		}
	}
	out = append(out, A[pos:]...)
	res.hunks = len(hunks)
	res.edits = res.dels + res.ins
	if len(out) != len(B) {
		return res, "render:result", fmt.Sprintf("applying the diff to A gives %d lines, B has %d", len(out), len(B))
	}
	for i := range out {
		if out[i] != B[i] {
			return res, "render:result", fmt.Sprintf("applying the diff to A gives %q at line %d, B has %q", out[i], i+1, B[i])
		}
	}
	return res, "", ""
}

// lcsLen is the textbook O(nm) table.
func lcsLen(A, B []string) int {
	ids := map[string]int{}
	conv := func(s []string) []int {
		r := make([]int, len(s))
		for i, x := range s {
			id, ok := ids[x]
			if !ok {
				id = len(ids)
				ids[x] = id
			}
			r[i] = id
		}
		return r
	}
	a, b := conv(A), conv(B)
	prev := make([]int, len(b)+1)
	cur := make([]int, len(b)+1)
	for i := 1; i <= len(a); i++ {
		for j := 1; j <= len(b); j++ {
			switch {
			case a[i-1] == b[j-1]:
				cur[j] = prev[j-1] + 1
			case prev[j] >= cur[j-1]:
				cur[j] = prev[j]
			default:
				cur[j] = cur[j-1]
			}
		}
		prev, cur = cur, prev
	}
	return prev[len(b)]
}

func short(s string) string {
	if len(s) > 400 {
		return s[:400] + "…"
	}
	return s
}

type finding struct{ key, msg string }

// checkPair runs one pair of texts. class is the outcome class for the evidence.
func checkPair(a, b string) (fs []finding, class string) {
	var d string
	if err := core.Guard(func() { d = diff.LineDiff(a, b) }); err != nil {
		return []finding{{"linediff:panic:" + core.PanicSite(err), fmt.Sprintf("LineDiff(%q, %q): %v", short(a), short(b), err)}}, ""
	}
	if (d == "") != (a == b) {
		return []finding{{"render:empty-iff-equal", fmt.Sprintf("LineDiff(%q, %q) = %q", short(a), short(b), short(d))}}, ""
	}
	if a == b {
		return nil, "equal"
	}
	fail := func(k, m string) finding {
		return finding{k, fmt.Sprintf("LineDiff(%q, %q) = %q: %s", short(a), short(b), short(d), m)}
	}
	hunks, err := parseDiff(d)
	if err != nil {
		return []finding{fail("render:syntax", err.Error())}, ""
	}
	if len(hunks) == 0 {
		return []finding{fail("render:syntax", "no hunks")}, ""
	}
	A, B := strings.Split(a, "\n"), strings.Split(b, "\n")
	res, k, m := apply(hunks, A, B)
	if k != "" {
		return []finding{fail(k, m)}, ""
	}
	optimal := len(A) + len(B) - 2*lcsLen(A, B)
	if res.edits != optimal {
		return []finding{fail("script:not-minimal", fmt.Sprintf("%d deletions + %d insertions, minimum is %d", res.dels, res.ins, optimal))}, ""
	}
	if res.elided > 0 {
		// Everything verifiable about this diff was verified above (the marker counts are consistent
		// with the line numbers of all hunks, with B and with the minimal cost). Two things remain:
		// the hunk does not carry N of the lines it stands for, so it cannot be applied to A to
		// produce B as the statement demands; and its header sizes count the marker as a line.
		fs = append(fs, fail("render:elision", fmt.Sprintf("%d run(s) abbreviated as '... N lines skipped ...': the hunks do not carry those lines and cannot be applied verbatim", res.elided)))
		if res.sizeCountsMarker > 0 {
			fs = append(fs, fail("render:elision:header-size", fmt.Sprintf("%d hunk header(s) give a size one larger per elision marker than the number of lines of A/B the hunk covers (the marker line itself is counted)", res.sizeCountsMarker)))
		}
		return fs, "elided"
	}
	kind := "mixed"
	switch {
	case res.dels == 0:
		kind = "insert-only"
	case res.ins == 0:
		kind = "delete-only"
	}
	h := strconv.Itoa(res.hunks)
	if res.hunks >= 4 {
		h = "4+"
	}
	return nil, "hunks=" + h + "," + kind
}

// ---------------------------------------------------------------------------------------------
// Enumeration.

type block struct {
	desc  string
	count int64
	each  func(f func(a, b string))
}

// texts lists every text with at most maxLines lines over the alphabet: k lines joined by "\n",
// without and with a trailing newline; shortest first.
func texts(alpha []string, maxLines int) []string {
	out := []string{""}
	var cur []string
	var rec func(k int)
	for k := 1; k <= maxLines; k++ {
		rec = func(left int) {
			if left == 0 {
				t := strings.Join(cur, "\n")
				out = append(out, t, t+"\n")
				return
			}
			for _, s := range alpha {
				cur = append(cur, s)
				rec(left - 1)
				cur = cur[:len(cur)-1]
			}
		}
		rec(k)
	}
	return out
}

func pairBlocks(alpha []string, maxLines int) []block {
	ts := texts(alpha, maxLines)
	var out []block
	for _, a := range ts {
		a := a
		out = append(out, block{
			desc:  fmt.Sprintf("pairs over %v, <=%d lines, A=%q", alpha, maxLines, a),
			count: int64(len(ts)),
			each: func(f func(a, b string)) {
				for _, b := range ts {
					f(a, b)
				}
			},
		})
	}
	return out
}

// Long-run family: a text pair is described by segments; 'E' = run of lines present in both texts,
// 'D' = run only in A, 'I' = run only in B (adjacent segments have different kinds, so "D,I" is a
// replacement). Lengths straddle the thresholds of the renderer (first-hunk context 3/4, hunk
// split 6/7, elision 14/15).
type seg struct {
	kind byte
	n    int
}

func buildRuns(segs []seg, variant, nl int) (string, string) {
	var A, B []string
	cnt := 0
	for _, s := range segs {
		for i := 0; i < s.n; i++ {
			var line string
			switch variant {
			case 0: // every line unique
				line = fmt.Sprintf("%c%d", s.kind+32, cnt)
			case 1: // one constant line per kind
				line = string(s.kind + 32)
			default: // two-letter soup: equal runs alternate x,y; deleted lines are x, inserted y
				switch s.kind {
				case 'E':
					line = "xy"[cnt%2 : cnt%2+1]
				case 'D':
					line = "x"
				default:
					line = "y"
				}
			}
			cnt++
			if s.kind != 'I' {
				A = append(A, line)
			}
			if s.kind != 'D' {
				B = append(B, line)
			}
		}
	}
	a, b := strings.Join(A, "\n"), strings.Join(B, "\n")
	if nl == 1 || nl == 2 {
		a += "\n"
	}
	if nl == 1 || nl == 3 {
		b += "\n"
	}
	return a, b
}

func runBlocks(minSegs, maxSegs int, lens []int, nls []int) []block {
	var out []block
	var kinds []byte
	var gen func(k int)
	emit := func() {
		ks := append([]byte(nil), kinds...)
		for variant := 0; variant < 3; variant++ {
			for _, nl := range nls {
				// one block per first-segment length for long sequences keeps blocks small
				firsts := [][]int{lens}
				if len(ks) >= 4 {
					firsts = nil
					for _, l := range lens {
						firsts = append(firsts, []int{l})
					}
				}
				for _, first := range firsts {
					variant, nl, first := variant, nl, first
					cnt := int64(len(first))
					for i := 1; i < len(ks); i++ {
						cnt *= int64(len(lens))
					}
					out = append(out, block{
						desc:  fmt.Sprintf("runs %s variant=%d nl=%d first=%v", ks, variant, nl, first),
						count: cnt,
						each: func(f func(a, b string)) {
							segs := make([]seg, len(ks))
							var rec func(i int)
							rec = func(i int) {
								if i == len(ks) {
									f(buildRuns(segs, variant, nl))
									return
								}
								ls := lens
								if i == 0 {
									ls = first
								}
								for _, l := range ls {
									segs[i] = seg{ks[i], l}
									rec(i + 1)
								}
							}
							rec(0)
						},
					})
				}
			}
		}
	}
	gen = func(k int) {
		if k == 0 {
			emit()
			return
		}
		for _, c := range []byte("EDI") {
			if len(kinds) > 0 && kinds[len(kinds)-1] == c {
				continue
			}
			kinds = append(kinds, c)
			gen(k - 1)
			kinds = kinds[:len(kinds)-1]
		}
	}
	for k := minSegs; k <= maxSegs; k++ {
		gen(k)
	}
	return out
}

// Periodic family: long texts over a tiny alphabet (many equally good alignments, large edit
// distance) — exercises the divide-and-conquer of the Myers search well beyond 7 lines.
func periodic(period, phase, n int) string {
	lines := make([]string, n)
	for i := range lines {
		lines[i] = "abc"[(i+phase)%period : (i+phase)%period+1]
	}
	return strings.Join(lines, "\n")
}

func periodicBlocks(maxLen int) []block {
	var out []block
	for pa := 1; pa <= 3; pa++ {
		for pb := 1; pb <= 3; pb++ {
			for ph := 0; ph < 3; ph++ {
				pa, pb, ph := pa, pb, ph
				out = append(out, block{
					desc:  fmt.Sprintf("periodic A period %d, B period %d phase %d, lengths 0..%d", pa, pb, ph, maxLen),
					count: int64(maxLen+1) * int64(maxLen+1),
					each: func(f func(a, b string)) {
						for m := 0; m <= maxLen; m++ {
							for n := 0; n <= maxLen; n++ {
								f(periodic(pa, 0, m), periodic(pb, ph, n))
							}
						}
					},
				})
			}
		}
	}
	return out
}

func buildBlocks(quick bool) []block {
	var out []block
	abc := []string{"a", "b", "c"}
	ab := []string{"a", "b"}
	full := []int{1, 2, 3, 4, 5, 6, 7, 8, 13, 14, 15, 16, 17, 18, 19, 20}
	edges := []int{1, 3, 4, 6, 7, 14, 15} // both sides of every renderer threshold
	if quick {
		out = append(out, pairBlocks(abc, 4)...)
		out = append(out, pairBlocks(ab, 6)...)
		out = append(out, periodicBlocks(24)...)
		out = append(out, runBlocks(1, 3, full, []int{0, 1})...)
		out = append(out, runBlocks(4, 4, edges, []int{0})...)
		out = append(out, runBlocks(5, 5, []int{1, 7}, []int{0})...) // up to 3 hunks
	} else {
		out = append(out, pairBlocks(abc, 5)...)
		out = append(out, pairBlocks(ab, 7)...)
		out = append(out, periodicBlocks(40)...)
		out = append(out, runBlocks(1, 3, full, []int{0, 1, 2, 3})...)
		out = append(out, runBlocks(4, 4, []int{1, 2, 3, 4, 6, 7, 8, 13, 14, 15, 16, 20}, []int{0, 1})...)
		out = append(out, runBlocks(5, 5, edges, []int{0})...)
		out = append(out, runBlocks(6, 7, []int{1, 7}, []int{0})...) // up to 4 hunks
	}
	return out
}

// ---------------------------------------------------------------------------------------------
// Worker / parent protocol.

type vrec struct {
	Key   string `json:"key"`
	What  string `json:"what"`
	Case  dcase  `json:"case"`
	Seq   int64  `json:"seq"`
	Count int64  `json:"count"`
}

type summary struct {
	Block      int              `json:"block"`
	Evals      int64            `json:"evals"`
	Nontrivial int64            `json:"nontrivial"`
	MaxLines   int              `json:"max_lines"`
	Outcomes   map[string]int64 `json:"outcomes"`
	Viol       []*vrec          `json:"viol,omitempty"`
	Sample     *dcase           `json:"sample,omitempty"`
	Stopped    bool             `json:"stopped,omitempty"`
	Abandoned  bool             `json:"abandoned,omitempty"` // shard given up after a worker death (see worker)
	Hang       bool             `json:"hang,omitempty"`      // the worker gave up at a pair that never returned
}

// hangAfter: a LineDiff call (microseconds of work) that has not returned after this long is
// reported as a hang by the worker itself, which then ends its shard. This is a liveness guard like
// the shard protocol's silence kill, not a timing oracle; it makes a systematic hang cheap to report.
const hangAfter = 20 * time.Second

func watchdog(w *core.Worker, progress *atomic.Int64, cur *atomic.Pointer[dcase], block *atomic.Int64) {
	last, stale := int64(-1), 0
	for range time.Tick(time.Second) {
		if p := progress.Load(); p != last {
			last, stale = p, 0
			continue
		}
		stale++
		dc := cur.Load()
		if dc == nil || time.Duration(stale)*time.Second < hangAfter {
			continue
		}
		w.Emit(summary{Block: int(block.Load()), Hang: true, Viol: []*vrec{{Key: "linediff:hang",
			What: fmt.Sprintf("LineDiff(%q, %q) did not return within %v", short(dc.A), short(dc.B), hangAfter), Case: dcase{dc.A, dc.B, "linediff:hang"}, Count: 1}}})
		w.Flush()
		// end this shard in the protocol's terms: the main goroutine is stuck inside LineDiff
		os.Stdout.WriteString("$ done\n")
		os.Exit(0)
	}
}

func worker(w *core.Worker) {
	var deadline time.Time
	if len(w.Args) > 0 {
		if ns, err := strconv.ParseInt(w.Args[0], 10, 64); err == nil {
			deadline = time.Unix(0, ns)
		}
	}
	blocks := buildBlocks(w.Quick())
	var progress, curBlock atomic.Int64
	var cur atomic.Pointer[dcase]
	go watchdog(w, &progress, &cur, &curBlock)
	for idx, b := range blocks {
		if !w.Mine(idx) {
			continue
		}
		if w.Only < 0 && !deadline.IsZero() && time.Now().After(deadline) {
			w.Emit(summary{Block: idx, Stopped: true})
			continue
		}
		if w.Only < 0 && w.Start > 0 {
			// This worker is the restart after a death in this shard. The death is reported with its
			// exact case and the run fails anyway; when the defect is systematic nearly every block dies
			// and each death costs three process starts, so the rest of the shard is given up (recorded
			// as not exhaustive) instead of being ground through.
			w.Emit(summary{Block: idx, Abandoned: true})
			continue
		}
		w.Case(idx, b.desc)
		curBlock.Store(int64(idx))
		sum := summary{Block: idx, Outcomes: map[string]int64{}}
		byKey := map[string]*vrec{}
		var seq int64
		b.each(func(a, bb string) {
			cur.Store(&dcase{A: a, B: bb})
			progress.Add(1)
			if w.Only >= 0 {
				// confirmation run of a block in which the worker died: name every case on stderr so
				// that the parent can attribute the death to the exact pair (last line of the tail)
				data, _ := json.Marshal(dcase{A: a, B: bb})
				fmt.Fprintf(os.Stderr, "CASE %s\n", data)
			}
			fs, class := checkPair(a, bb)
			sum.Evals++
			if a != bb {
				sum.Nontrivial++
			}
			if n := strings.Count(a, "\n") + strings.Count(bb, "\n") + 2; n > sum.MaxLines {
				sum.MaxLines = n
			}
			if class != "" {
				sum.Outcomes[class]++
			}
			for _, f := range fs {
				if v := byKey[f.key]; v != nil {
					v.Count++
				} else {
					v = &vrec{Key: f.key, What: f.msg, Case: dcase{a, bb, f.key}, Seq: seq, Count: 1}
					byKey[f.key] = v
					sum.Viol = append(sum.Viol, v)
				}
			}
			if len(fs) == 0 && sum.Sample == nil && a != bb && seq >= b.count/2 {
				sum.Sample = &dcase{A: a, B: bb}
			}
			seq++
		})
		cur.Store(nil)
		w.Emit(sum)
		w.Flush()
	}
}

func lastCase(tail string) (json.RawMessage, bool) {
	i := strings.LastIndex(tail, "CASE ")
	if i < 0 {
		return nil, false
	}
	line := tail[i+5:]
	if j := strings.IndexByte(line, '\n'); j >= 0 {
		line = line[:j]
	}
	var dc dcase
	if json.Unmarshal([]byte(line), &dc) != nil {
		return nil, false
	}
	return json.RawMessage(line), true
}

func run(c *core.Ctx) {
	c.Rule("every ordered pair of texts with k lines over an alphabet, each text without and with a trailing newline (quick: k<=4 over {a,b,c}, k<=6 over {a,b}; thorough: k<=5 over {a,b,c}, k<=7 over {a,b}); periodic texts (periods 1..3, 3 phases, every length pair up to 24 (quick) / 40 (thorough)); long-run family: sequences of <=3 (<=4 on {1,2,3,4,6,7,8,13..16,20} thorough / {1,3,4,6,7,14,15} quick; 5 on {1,3,4,6,7,14,15} thorough / {1,7} quick; 6..7 on {1,7} thorough) alternating runs of equal / deleted / inserted lines with run lengths from {1..8,13..20}, three line-content variants (all unique, one constant per kind, two-letter soup) and trailing-newline variants; non-trivial = the two texts differ; pairs are distinct by construction within a family")
	c.Assume("a line is an element of strings.Split(text, \"\\n\") as in the implementation; the edit script is observed as the '-'/'+' lines of the rendered diff because lcs/trace/middle are unexported")
	c.Assume("content of inserted lines hidden behind an elision marker is taken from B (cannot be checked); such diffs are reported as render:elision after all other checks passed")
	blocks := buildBlocks(c.Quick())
	var expected int64
	for _, b := range blocks {
		expected += b.count
	}
	type best struct {
		block int
		v     *vrec
		count int64
	}
	viol := map[string]*best{}
	seen := make([]bool, len(blocks))
	stopped, maxLines, hangs, abandoned := 0, 0, 0, 0
	c.RunShards(core.ShardOpts{
		N:       16,
		Env:     []string{"GOMAXPROCS=1", "GOGC=400"}, // 16 single-threaded workers
		Args:    []string{strconv.FormatInt(c.Deadline.UnixNano(), 10)},
		Silence: 60 * time.Second,
		Confirm: 2, // deterministic code: two lone re-runs are enough to call a death reproducible
		OnRecord: func(shard int, rec json.RawMessage) {
			var s summary
			if err := json.Unmarshal(rec, &s); err != nil {
				c.Capped("unparsable worker record")
				return
			}
			if s.Stopped {
				stopped++
				return
			}
			if s.Abandoned {
				abandoned++
				return
			}
			if s.Hang {
				hangs++
				for _, v := range s.Viol {
					if b := viol[v.Key]; b == nil {
						viol[v.Key] = &best{s.Block, v, v.Count}
					} else {
						b.count += v.Count
					}
				}
				return
			}
			if s.Block >= 0 && s.Block < len(seen) {
				if seen[s.Block] {
					return
				}
				seen[s.Block] = true
			}
			c.Eval(s.Evals)
			c.Nontrivial(s.Nontrivial)
			if s.MaxLines > maxLines {
				maxLines = s.MaxLines
			}
			for k, n := range s.Outcomes {
				c.Outcome(k, n)
			}
			for _, v := range s.Viol {
				b := viol[v.Key]
				if b == nil {
					viol[v.Key] = &best{s.Block, v, v.Count}
					continue
				}
				b.count += v.Count
				if s.Block < b.block {
					b.block, b.v = s.Block, v
				}
			}
			if s.Sample != nil && (s.Block%61 == 0 || c.SampleCount() < 2) {
				c.Sample(dcase{A: short(s.Sample.A), B: short(s.Sample.B)})
			}
		},
		OnDeath: func(idx int, desc, how, tail string) {
			key := "linediff:death"
			switch {
			case strings.Contains(how, "no progress"):
				key = "linediff:hang"
			case strings.Contains(tail, "no snake"):
				key = "lcs:log-fatal"
			}
			var rv any = map[string]any{"block": idx, "desc": desc}
			what := fmt.Sprintf("worker died in block %d (%s): %s", idx, desc, how)
			if raw, ok := lastCase(tail); ok {
				rv = raw
				what += " at case " + short(string(raw))
			}
			if t := strings.TrimSpace(tail); t != "" {
				lines := strings.Split(t, "\n")
				if last := lines[len(lines)-1]; !strings.HasPrefix(last, "CASE ") {
					what += " :: " + short(last)
				}
			}
			if idx >= 0 && idx < len(seen) {
				seen[idx] = true
			}
			c.Violate(key, what, rv)
		},
	})
	keys := make([]string, 0, len(viol))
	for k := range viol {
		keys = append(keys, k)
	}
	sort.Slice(keys, func(i, j int) bool {
		a, b := viol[keys[i]], viol[keys[j]]
		if a.block != b.block {
			return a.block < b.block
		}
		return a.v.Seq < b.v.Seq
	})
	counts := map[string]int64{}
	for _, k := range keys {
		b := viol[k]
		counts[k] = b.count
		n := b.count
		if n > 100000 {
			n = 100000
		}
		for i := int64(0); i < n; i++ { // Violate counts occurrences per call
			c.Violate(k, b.v.What, b.v.Case)
		}
	}
	if len(counts) > 0 {
		c.Set("violation_occurrences", counts)
	}
	c.Set("blocks", len(blocks))
	c.Set("cases_planned", expected)
	c.Set("max_total_lines_in_a_pair", maxLines)
	missing := 0
	for _, s := range seen {
		if !s {
			missing++
		}
	}
	if abandoned > 0 {
		c.Capped(fmt.Sprintf("%d of %d blocks not run: their shard was given up after a worker death", abandoned, len(blocks)))
		missing -= abandoned
	}
	if hangs > 0 {
		c.Capped(fmt.Sprintf("%d worker(s) ended their shard at a hanging pair; %d of %d blocks not run", hangs, missing, len(blocks)))
	}
	if stopped > 0 {
		c.Capped(fmt.Sprintf("soft budget: %d of %d blocks not run", stopped, len(blocks)))
	} else if missing > 0 && hangs == 0 {
		c.Capped(fmt.Sprintf("%d of %d blocks produced no record", missing, len(blocks)))
	}
}

func replay(c *core.Ctx, raw json.RawMessage) error {
	var probe map[string]json.RawMessage
	if err := json.Unmarshal(raw, &probe); err != nil {
		return err
	}
	if _, ok := probe["a"]; !ok {
		return fmt.Errorf("replay value names a whole block, not a pair: %s", raw)
	}
	var dc dcase
	if err := json.Unmarshal(raw, &dc); err != nil {
		return err
	}
	ch := make(chan []finding, 1)
	go func() {
		fs, _ := checkPair(dc.A, dc.B) // a log.Fatal in LineDiff ends the replay with exit status 1
		ch <- fs
	}()
	select {
	case fs := <-ch:
		// still failing = the recorded finding is still present, or the pair now fails in a way that
		// is not one of the elision findings (which are recorded under their own keys)
		var parts []string
		for _, f := range fs {
			if dc.Key == "" || f.key == dc.Key || !strings.HasPrefix(f.key, "render:elision") {
				parts = append(parts, f.key+": "+f.msg)
			}
		}
		if len(parts) > 0 {
			return fmt.Errorf("%s", strings.Join(parts, " | "))
		}
		return nil
	case <-time.After(60 * time.Second):
		// liveness guard for replaying a recorded hang only; a LineDiff call takes microseconds
		return fmt.Errorf("no result after 60s (hang)")
	}
}
