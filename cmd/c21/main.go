// C21: typed AST accessors match the trees the parser builds.
//
// Layer B only: every grammar of a bounded, deterministic enumeration of annotated EBNF
// grammars (arrows, field assignments, optional parts, lists, nested choices, %interface
// categories, injected tokens; <= 3 helper nonterminals) is compiled with
// eventBased + eventFields + eventAST by the real compiler.Compile + gen.Generate, built with
// `go build` and run on every string of length <= L over the grammar's alphabet. Inputs that
// the generated ast.Parse accepts are walked generically (reflection) by a driver living in
// its own scratch package: for every node the typed wrapper is obtained through the generated
// factory (To<Name>Node) and EVERY exported zero-argument method is called with panics
// recovered. The check side compares what the accessors returned with what the type
// extraction (syntax.ExtractTypes -> g.Parser.Types) declared.
package main

import (
	"encoding/json"
	"fmt"
	"hash/fnv"
	"os"
	"regexp"
	"sort"
	"strings"
	"time"

	"github.com/inspirer/textmapper/grammar"
	"github.com/inspirer/textmapper/syntax"

	"verif/internal/core"
	"verif/internal/genharness"
)

// L bounds the length of the input strings.
const L = 4

// batchSize is the number of grammars built into one scratch binary.
const batchSize = 48

func main() { core.Main("C21", "exploration", run, replay, nil) }

// ---------------------------------------------------------------------------------------------
// Grammar enumeration
// ---------------------------------------------------------------------------------------------

// part is one right-hand-side element: [field][atom][quantifier].
type part struct{ field, atom, quant string }

func (p part) String() string {
	a := p.atom
	switch p.quant {
	case "sep+":
		a = "(" + a + " separator td)+"
	case "sep*":
		a = "(" + a + " separator td)*"
	default:
		a += p.quant
	}
	return p.field + a
}

func parts(atoms, fields, quants []string) []part {
	var out []part
	for _, a := range atoms {
		for _, f := range fields {
			for _, q := range quants {
				out = append(out, part{f, a, q})
			}
		}
	}
	return out
}

// Atoms. X, Y, Z, E, XE, W, V are helper nonterminals (see helperDefs); tc is a terminal that
// is injected into the tree (%inject tc -> Tc;), ta is a plain terminal (no node), "(tb -> B)"
// an inline arrow.
const inlineB = "(tb -> B)"

var helperDefs = map[string]string{
	"X":  "X -> A :\n    ta ;\n",
	"Y":  "Y -> B :\n    tb ;\n",
	"Z":  "Z :\n    ta -> A\n  | tb -> B\n;\n",
	"E":  "E -> Expr :\n    ta -> A\n  | Y\n;\n",
	"XE": "XE -> N :\n    ta? ;\n",
	"W":  "W :\n    X\n  | W X\n;\n",
	"V":  "V -> C :\n    td X Y? ;\n",
	// a named field collecting two node types (multi-type, non-category selector)
	"MAB": "MAB :\n    m=X\n  | m=Y\n;\n",
	"MBD": "MBD :\n    n=Y\n  | n=K\n;\n",
	"K":   "K -> D :\n    td ;\n",
	// a user category whose name coincides with the synthetic category of injected tokens
	"ES": "ES -> TokenSet :\n    ta -> A\n  | Y\n;\n",
	"T":  "", // defined by the candidate itself
}
var helperOrder = []string{"Z", "E", "ES", "XE", "W", "V", "MAB", "MBD", "K", "X", "Y"}
var helperNeeds = map[string][]string{"E": {"Y"}, "ES": {"Y"}, "W": {"X"}, "V": {"X", "Y"}, "MAB": {"X", "Y"}, "MBD": {"Y", "K"}}

// cand is one grammar of the enumeration, without its option variant.
type cand struct {
	Shape string
	// Early: 1 = run right after the seeds in both tiers, 2 = right after the seeds in the
	// thorough tier only (in the quick tier like any other candidate).
	Early int
	// MaxLen is the input length bound when it differs from L.
	MaxLen int
	// Rules is the text of the S rule (and, for some shapes, further rules). Placeholders:
	// @ROOT@ = name of the root node type (Root, or File when fileNode is set);
	// @FILEARROW@ = " -> File" when fileNode is set, "" otherwise.
	Rules string
}

func enumerate() []cand {
	var out []cand
	add := func(shape, rules string) { out = append(out, cand{Shape: shape, Rules: rules}) }
	nodeAtoms := []string{"X", "Y", inlineB, "Z", "E", "tc", "XE", "W", "V"}
	allQ := []string{"", "?", "+", "*", "sep+", "sep*"}

	// S1: a single part, everything.
	for _, p := range parts([]string{"ta"}, []string{""}, allQ) {
		add("S1", "S -> @ROOT@ :\n    "+p.String()+" ;\n")
	}
	for _, p := range parts(nodeAtoms, []string{"", "f=", "f+="}, allQ) {
		add("S1", "S -> @ROOT@ :\n    "+p.String()+" ;\n")
	}
	// one deliberately wrong case: an assignment over something without a node
	add("S1", "S -> @ROOT@ :\n    f=ta ;\n")

	p1 := parts([]string{"X", "Y", "Z", "E", "tc", "XE", "V"}, []string{"", "f="}, []string{"", "?", "+"})
	p2 := append(parts([]string{"X", "Y", "E", "tc"}, []string{"", "f=", "g="}, []string{"", "?", "*"}),
		part{"", "ta", ""}, part{"", "ta", "?"})
	p2c := append(parts([]string{"X", "Y", "E", "tc"}, []string{"", "f=", "g="}, []string{"", "?"}), part{"", "ta", ""})

	// S2: sequences of two parts (field order, FetchAfter chains, repeated fields -> lists).
	for _, p := range p1 {
		for _, q := range p2 {
			add("S2", "S -> @ROOT@ :\n    "+p.String()+" "+q.String()+" ;\n")
		}
	}
	// ... and a nullable arrow (possibly empty node) as the last part
	for _, p := range p1 {
		add("S2", "S -> @ROOT@ :\n    "+p.String()+" XE ;\n")
	}
	// S3: two alternatives under one arrow (a field present in only one alternative is nullable).
	for _, p := range p1 {
		for _, q := range p2c {
			add("S3", "S -> @ROOT@ :\n    "+p.String()+"\n  | "+q.String()+"\n;\n")
		}
	}
	// S4: nested choice inside a sequence.
	small := []part{{"", "X", ""}, {"f=", "X", ""}, {"", "Y", ""}, {"f=", "Y", "?"}, {"", "E", ""}}
	for _, p := range small {
		for _, q := range p2 {
			add("S4", "S -> @ROOT@ :\n    "+p.String()+" ("+q.String()+" | td) ;\n")
			add("S4", "S -> @ROOT@ :\n    ("+p.String()+" | td) "+q.String()+" ;\n")
		}
	}
	// S5: two root node types, optionally grouped by a category (list of a category below).
	p5a := parts([]string{"X", "Y", "E"}, []string{"", "f="}, []string{"", "?", "+"})
	p5b := parts([]string{"X", "Y", "E"}, []string{"", "f=", "g="}, []string{"", "*"})
	for _, top := range []string{"", " -> Top"} {
		for _, p := range p5a {
			for _, q := range p5b {
				add("S5", "S@FILEARROW@ :\n    T ;\nT"+top+" :\n    ta "+p.String()+" -> R1\n  | tb "+q.String()+" -> R2\n;\n")
			}
		}
	}
	for _, q := range []string{"+", "*", "?", "sep+"} {
		for _, f := range []string{"", "f=", "f+="} {
			add("S5", "S -> @ROOT@ :\n    "+part{f, "T", q}.String()+" ;\nT -> Top :\n    ta X -> R1\n  | tb f=Y? -> R2\n;\n")
		}
	}
	// S6: sequences of three parts (longer FetchAfter chains).
	p6 := []part{{"", "X", ""}, {"f=", "X", ""}, {"g=", "X", ""}, {"h=", "X", "?"}, {"", "Y", ""}, {"f=", "Y", ""}, {"", "X", "*"}, {"", "E", ""}}
	for _, p := range p6 {
		for _, q := range p6 {
			for _, r := range p6 {
				add("S6", "S -> @ROOT@ :\n    "+p.String()+" "+q.String()+" "+r.String()+" ;\n")
			}
		}
	}
	// S7: an inner arrow around a part, next to another part.
	p7 := []part{{"", "X", ""}, {"f=", "X", ""}, {"", "X", "?"}, {"", "Y", "*"}, {"", "ta", ""}, {"f=", "E", ""}, {"", "XE", ""}}
	for _, wrap := range []string{"f=(%s -> In)", "(%s -> In)", "(%s -> In)?", "(%s -> In)+"} {
		for _, p := range p7 {
			for _, q := range p7 {
				add("S7", "S -> @ROOT@ :\n    "+fmt.Sprintf(wrap, p.String())+" "+q.String()+" ;\n")
			}
		}
	}
	// S8: lists over a two-part body.
	for _, wrap := range []string{"(%s)+", "(%s)*", "(%s separator td)+"} {
		for _, p := range p7 {
			for _, q := range p7 {
				add("S8", "S -> @ROOT@ :\n    "+fmt.Sprintf(wrap, p.String()+" "+q.String())+" ;\n")
			}
		}
	}
	// SA "shared field carrier": a helper nonterminal N without an arrow assigns the list field
	// foo once or twice and is used by two node types T1 and T2, one of which adds a further
	// part with the same field name (before or after N). The node types of the three leaves
	// are drawn from {Abc, Mid, Zed}, so that the merged selector has to be sorted in every
	// possible way and duplicates have to be dropped: the selector of the type that does NOT
	// add a part must stay what N alone contributes.
	names := []string{"Abc", "Mid", "Zed"}
	leaves := func(t1, t2, t3 string) string {
		return "\nL1 -> " + t1 + " :\n    ta ;\n\nL2 -> " + t2 + " :\n    tb ;\n\nL3 -> " + t3 + " :\n    te ;\n"
	}
	for role := 0; role < 2; role++ {
		for _, t1 := range names {
			for _, t2 := range names {
				for _, t3 := range names {
					early := 2
					// the quick tier runs four of the grammars whose two leaves of N share a node type
					// while the third sorts differently (two of each role)
					if t1 == t2 && t3 != t1 && ((t3 == "Abc" && (t1 == "Zed" || role == 1)) || (role == 0 && t1 == "Zed")) {
						early = 1
					}
					t1r, t2r := "tx N", "ty N foo+=L3"
					if role == 1 {
						t1r, t2r = "tx foo+=L3 N", "ty N"
					}
					out = append(out, cand{Shape: "SA", Early: early, Rules: "S@FILEARROW@ :\n    T1\n  | T2\n;\n\nT1 -> T1 :\n    " + t1r + " ;\n\nT2 -> T2 :\n    " + t2r + " ;\n\nN :\n    foo+=L1 foo+=L2 ;\n" + leaves(t1, t2, t3)})
				}
			}
		}
	}
	for _, t1 := range names {
		for _, t3 := range names {
			out = append(out, cand{Shape: "SA", Early: 2, Rules: "S@FILEARROW@ :\n    T1\n  | T2\n;\n\nT1 -> T1 :\n    tx N ;\n\nT2 -> T2 :\n    ty N foo+=L3 ;\n\nN :\n    foo+=L1 ;\n" + strings.Replace(leaves(t1, t1, t3), "\nL2 -> "+t1+" :\n    tb ;\n", "", 1)})
		}
	}
	// SB "recursion through k intermediate nonterminals without arrows": the head H
	// contributes a node per recursion level (named field or not), the chain C1..Ck leads
	// back to H, optionally followed by a node. Inputs recurse 0, 1 and 2 times ("e", "ae",
	// "aae", with the tail "aebb"/"aaebb": length 5), so the field of the head must be a list.
	for _, tail := range []string{"", " Y"} {
		for k := 1; k <= 3; k++ {
			for _, head := range []string{"x=X", "X"} {
				var sb strings.Builder
				sb.WriteString("S -> @ROOT@ :\n    H ;\n\nH :\n    " + head + " C1\n  | te\n;\n")
				for i := 1; i <= k; i++ {
					if i < k {
						fmt.Fprintf(&sb, "\nC%d :\n    C%d ;\n", i, i+1)
					} else {
						fmt.Fprintf(&sb, "\nC%d :\n    H%s ;\n", i, tail)
					}
				}
				early := 1
				if (tail != "" && !(k == 2 && head == "x=X")) || k == 1 || (k == 2 && head == "X" && tail == "") {
					early = 2
				}
				maxLen := 0
				if tail != "" {
					maxLen = 5
				}
				out = append(out, cand{Shape: "SB", Early: early, MaxLen: maxLen, Rules: sb.String()})
			}
		}
	}
	// SC "overlap chains": three or four named fields in a row whose node types overlap (A, B
	// and the category Expr = {A, B}), so that later fields are fetched relative to earlier
	// ones (Child(..).Next(..).Next(..)). The first field (first two for four fields) is
	// required; each remaining field is required, optional or a possibly empty list: only
	// fields that no later field overlaps may be optional/lists (the others are rejected), and
	// a later field must never be anchored on such a field. All presence combinations occur
	// among the inputs (length <= 5 for four fields).
	scNames := []string{"f=", "g=", "h=", "k="}
	scEarly := map[string]bool{
		"f=E g=X? h=Y":      true, // category head, optional tail in the middle
		"f=E g=X* h=Y":      true, // ... list tail in the middle
		"f=X g=Y h=X? k=Y":  true, // no category: two interleaved chains, optional tail
		"f=Y g=X h=Y* k=X?": true, // list tail followed by an optional tail of the other chain
	}
	for _, n := range []int{3, 4} {
		atoms := []string{"X", "Y", "E"}
		if n == 4 {
			atoms = []string{"X", "Y"}
		}
		total := 1
		for i := 0; i < n; i++ {
			total *= len(atoms)
		}
		quants := []string{"", "?", "*"}
		for code := 0; code < total; code++ {
			for _, qa := range quants {
				for _, qb := range quants {
					var ps []string
					x := code
					for i := 0; i < n; i++ {
						q := ""
						switch {
						case i == n-2:
							q = qa
						case i == n-1:
							q = qb
						}
						ps = append(ps, part{scNames[i], atoms[x%len(atoms)], q}.String())
						x /= len(atoms)
					}
					body := strings.Join(ps, " ")
					cd := cand{Shape: "SC", Rules: "S -> @ROOT@ :\n    " + body + " ;\n"}
					if scEarly[body] {
						cd.Early = 1
					}
					if n == 4 {
						cd.MaxLen = 5
					}
					out = append(out, cd)
				}
			}
		}
	}
	// SD "multi-type fields in overlap chains": the named fields m (A | B) and n (B | D), each
	// collected by an arrow-less nonterminal from two alternatives, next to single-type fields
	// that overlap with them; the last part is required, optional or a list. The accessor of
	// a later field has to step over the earlier ones with THEIR selectors (a OneOf variable
	// for multi-type fields, a plain type selector otherwise).
	sdAtoms := []part{{"", "MAB", ""}, {"", "MBD", ""}, {"f=", "X", ""}, {"g=", "Y", ""}, {"h=", "K", ""}}
	sdEarly := map[string]bool{"MAB g=Y": true, "MAB MBD": true, "MBD g=Y?": true}
	for _, p := range sdAtoms {
		for _, q := range sdAtoms {
			for _, quant := range []string{"", "?", "*"} {
				q.quant = quant
				body := p.String() + " " + q.String()
				cd := cand{Shape: "SD", Rules: "S -> @ROOT@ :\n    " + body + " ;\n"}
				if sdEarly[body] {
					cd.Early = 1
				}
				out = append(out, cd)
			}
		}
	}
	for _, p := range sdAtoms {
		for _, q := range sdAtoms {
			for _, r := range sdAtoms {
				if p.field != "" && q.field != "" && r.field != "" {
					continue // at least one multi-type field
				}
				out = append(out, cand{Shape: "SD", MaxLen: 3, Rules: "S -> @ROOT@ :\n    " + p.String() + " " + q.String() + " " + r.String() + " ;\n"})
			}
		}
	}
	// SE "a user category named like a generated one": ES -> TokenSet (the name the generator
	// gives to the synthetic category of injected terminals) as the type of a required,
	// optional or list field, with and without an injected terminal next to it.
	for _, tail := range []string{"", " tc", " g=tc?"} {
		for _, f := range []string{"", "f="} {
			for _, q := range []string{"", "?", "*", "+"} {
				cd := cand{Shape: "SE", Rules: "S -> @ROOT@ :\n    " + part{f, "ES", q}.String() + tail + " ;\n"}
				if q == "?" && f == "f=" && tail == " tc" {
					cd.Early = 1
				}
				out = append(out, cd)
			}
		}
	}
	// SF "zero-width nodes inside items": a node type P whose body has a nullable arrow (XE ->
	// N : ta?) or a zero-width node around it (O -> Outer : XE) at its start, middle or end,
	// as the only child of the root or as the element of a list (so that an empty node left
	// outside of one item can be adopted by the next one).
	for _, wrap := range []string{"I", "I+"} {
		for _, body := range []string{"tx Y XE", "XE tx Y", "tx XE Y", "tx Y O", "O tx Y", "tx O Y"} {
			rules := "S -> @ROOT@ :\n    " + wrap + " ;\n\nI -> P :\n    " + body + " ;\n"
			if strings.Contains(body, "O") {
				rules += "\nO -> Outer :\n    XE ;\n"
			}
			cd := cand{Shape: "SF", MaxLen: 5, Rules: rules}
			if wrap == "I+" && body == "tx Y XE" {
				cd.Early = 1
			}
			out = append(out, cd)
		}
	}
	return out
}

// variant is one set of generator options.
type variant struct {
	Name        string
	FileNode    bool
	Comment     bool // cm: /#/ (space) + %inject cm -> Comment;
	WS          bool // ws: /[ ]+/ (space)
	TokenStream bool
	FixWS       bool
	Cancellable bool
	GenSelector bool
	Extra       bool // extraTypes
}

var variants = []variant{
	{Name: "base"},
	{Name: "file+comment", FileNode: true, Comment: true},
	{Name: "stream+comment", TokenStream: true, Comment: true},
	{Name: "fixws", FixWS: true, WS: true},
	{Name: "stream+file+fixws+comment", TokenStream: true, FileNode: true, FixWS: true, WS: true, Comment: true},
	{Name: "cancellable+genselector+extra", Cancellable: true, GenSelector: true, Extra: true},
	{Name: "file+extra", FileNode: true, Extra: true},
	{Name: "comment", Comment: true},
}

var wordRe = regexp.MustCompile(`[A-Za-z_][A-Za-z_0-9]*`)

// tmText prints the candidate as a textmapper grammar for package scratch/<name>.
func tmText(cd cand, v variant, name string) string {
	rules := cd.Rules
	root := "Root"
	fileArrow := ""
	if v.FileNode {
		root = "File"
		fileArrow = " -> File"
	}
	rules = strings.ReplaceAll(rules, "@ROOT@", root)
	rules = strings.ReplaceAll(rules, "@FILEARROW@", fileArrow)
	need := map[string]bool{}
	var mark func(w string)
	mark = func(w string) {
		if _, ok := helperDefs[w]; ok && !need[w] {
			need[w] = true
			for _, d := range helperNeeds[w] {
				mark(d)
			}
		}
	}
	for _, w := range wordRe.FindAllString(rules, -1) {
		mark(w)
	}
	var parser strings.Builder
	parser.WriteString(rules)
	for _, h := range helperOrder {
		if need[h] {
			parser.WriteString("\n")
			parser.WriteString(helperDefs[h])
		}
	}
	ptext := parser.String()
	used := map[string]bool{}
	for _, w := range wordRe.FindAllString(ptext, -1) {
		used[w] = true
	}
	var sb strings.Builder
	fmt.Fprintf(&sb, "language %s(go);\n\npackage = \"scratch/%s\"\neventBased = true\neventFields = true\neventAST = true\n", name, name)
	if v.FileNode {
		sb.WriteString("fileNode = \"File\"\n")
	}
	if v.TokenStream {
		sb.WriteString("tokenStream = true\n")
	}
	if v.FixWS {
		sb.WriteString("fixWhitespace = true\n")
	}
	if v.Cancellable {
		sb.WriteString("cancellable = true\n")
	}
	if v.GenSelector {
		sb.WriteString("genSelector = true\n")
	}
	if v.Extra {
		switch {
		case used["Expr"]:
			sb.WriteString("extraTypes = [\"Ex1\", \"Ex2 -> Expr\"]\n")
		case used["Top"]:
			sb.WriteString("extraTypes = [\"Ex1\", \"Ex2 -> Top\"]\n")
		default:
			sb.WriteString("extraTypes = [\"Ex1\"]\n")
		}
	}
	sb.WriteString("\n:: lexer\n\n")
	if v.WS {
		sb.WriteString("ws: /[ ]+/ (space)\n")
	}
	if v.Comment {
		sb.WriteString("cm: /#/ (space)\n")
	}
	for ch := byte('a'); ch <= 'z'; ch++ {
		if t := "t" + string(ch); used[t] {
			fmt.Fprintf(&sb, "%s: /%c/\n", t, ch)
		}
	}
	sb.WriteString("\n:: parser\n\n%input S;\n\n")
	if v.Comment {
		sb.WriteString("%inject cm -> Comment;\n")
	}
	if used["tc"] {
		sb.WriteString("%inject tc -> Tc;\n")
	}
	if used["Expr"] {
		sb.WriteString("%interface Expr;\n")
	}
	if used["Top"] {
		sb.WriteString("%interface Top;\n")
	}
	if used["TokenSet"] {
		sb.WriteString("%interface TokenSet;\n")
	}
	sb.WriteString("\n")
	sb.WriteString(ptext)
	if strings.Contains(ptext, "/Foo") {
		// node flags are constants the user supplies by hand (cf. parsers/test/consts.go)
		sb.WriteString("\n%%\n\n{{define \"onAfterParser\"}}\nconst Foo NodeFlags = 1\n{{end}}\n")
	}
	return sb.String()
}

var lexRuleRe = regexp.MustCompile(`(?m)^(ws|cm|t[a-z]): /(\[ \]\+|.)/`)

// alphabet lists the input characters of a grammar text (terminals first).
func alphabet(tm string) []byte {
	var letters, rest []byte
	for _, m := range lexRuleRe.FindAllStringSubmatch(tm, -1) {
		switch m[1] {
		case "ws":
			rest = append(rest, ' ')
		case "cm":
			rest = append(rest, '#')
		default:
			letters = append(letters, m[2][0])
		}
	}
	return append(letters, rest...)
}

func allStrings(alpha []byte, maxLen int) []string {
	var out []string
	buf := make([]byte, 0, maxLen)
	var rec func(k int)
	rec = func(k int) {
		if k == 0 {
			out = append(out, string(buf))
			return
		}
		for _, ch := range alpha {
			buf = append(buf, ch)
			rec(k - 1)
			buf = buf[:len(buf)-1]
		}
	}
	for n := 0; n <= maxLen; n++ {
		rec(n)
	}
	return out
}

// ---------------------------------------------------------------------------------------------
// The walker driver (lives in its own scratch package: the generated ast package imports the
// generated root package, so a driver inside the root package could not import ast).
// ---------------------------------------------------------------------------------------------

// Records emitted by the walker (JSON in Result.Values[0]).
type vRet struct {
	Wrap  string `json:"w"` // dynamic wrapper type (A, NilNode, ...)
	Valid bool   `json:"v"`
	Type  string `json:"t,omitempty"` // node.Type().String() of the returned node
	Child int    `json:"c"`           // index among the children of the receiver, -1 = not a child
	Off   int    `json:"o"`
	End   int    `json:"e"`
}

type vAcc struct {
	Name  string `json:"n"`
	Sig   string `json:"s"`
	Kind  string `json:"k"` // single | optional | list | other
	Panic string `json:"p,omitempty"`
	Ok    *bool  `json:"ok,omitempty"`
	Ret   []vRet `json:"r,omitempty"`
}

type vNode struct {
	ID        int      `json:"id"`
	Parent    int      `json:"par"`
	Type      string   `json:"t"`
	Off       int      `json:"o"`
	End       int      `json:"e"`
	Wrap      string   `json:"w"`
	FPanic    string   `json:"fp,omitempty"`
	Kids      []int    `json:"kids,omitempty"`
	Acc       []vAcc   `json:"acc,omitempty"`
	Base      int      `json:"base"`
	BasePanic []string `json:"bp,omitempty"`
}

const walkerGeneric = `
type vRet struct {
	Wrap  string §json:"w"§
	Valid bool   §json:"v"§
	Type  string §json:"t,omitempty"§
	Child int    §json:"c"§
	Off   int    §json:"o"§
	End   int    §json:"e"§
}

type vAcc struct {
	Name  string §json:"n"§
	Sig   string §json:"s"§
	Kind  string §json:"k"§
	Panic string §json:"p,omitempty"§
	Ok    *bool  §json:"ok,omitempty"§
	Ret   []vRet §json:"r,omitempty"§
}

type vNode struct {
	ID        int      §json:"id"§
	Parent    int      §json:"par"§
	Type      string   §json:"t"§
	Off       int      §json:"o"§
	End       int      §json:"e"§
	Wrap      string   §json:"w"§
	FPanic    string   §json:"fp,omitempty"§
	Kids      []int    §json:"kids,omitempty"§
	Acc       []vAcc   §json:"acc,omitempty"§
	Base      int      §json:"base"§
	BasePanic []string §json:"bp,omitempty"§
}

type vWalker struct {
	anySel  reflect.Value
	factory reflect.Value
	base    string
	nodeM   map[string]bool
	out     []*vNode
}

func newWalker(anySel, factory any, base string, nodeType reflect.Type) *vWalker {
	w := &vWalker{anySel: reflect.ValueOf(anySel), factory: reflect.ValueOf(factory), base: base, nodeM: map[string]bool{}}
	for i := 0; i < nodeType.NumMethod(); i++ {
		w.nodeM[nodeType.Method(i).Name] = true
	}
	return w
}

func vGuard(f func()) (msg string) {
	defer func() {
		if e := recover(); e != nil {
			msg = fmt.Sprint(e)
			if msg == "" {
				msg = "panic"
			}
			if len(msg) > 300 {
				msg = msg[:300]
			}
		}
	}()
	f()
	return ""
}

func vTypeName(n reflect.Value) string {
	return fmt.Sprint(n.MethodByName("Type").Call(nil)[0].Interface())
}

func vInt(n reflect.Value, m string) int { return int(n.MethodByName(m).Call(nil)[0].Int()) }

func vWrapName(t reflect.Type) string {
	if t.Kind() == reflect.Pointer {
		return t.Elem().Name()
	}
	return t.Name()
}

func (w *vWalker) decode(v reflect.Value, kids reflect.Value) vRet {
	r := vRet{Child: -1}
	if v.Kind() == reflect.Interface {
		if v.IsNil() {
			r.Wrap = "<nil interface>"
			return r
		}
		v = v.Elem()
	}
	r.Wrap = vWrapName(v.Type())
	m := v.MethodByName(w.base)
	if !m.IsValid() {
		r.Wrap = "<no base method> " + v.Type().String()
		return r
	}
	n := m.Call(nil)[0]
	if n.IsNil() {
		return r
	}
	r.Valid = true
	r.Type = vTypeName(n)
	r.Off = vInt(n, "Offset")
	r.End = vInt(n, "Endoffset")
	for i := 0; i < kids.Len(); i++ {
		if kids.Index(i).Pointer() == n.Pointer() {
			r.Child = i
			break
		}
	}
	return r
}

func (w *vWalker) visit(n reflect.Value, parent int) int {
	rec := &vNode{ID: len(w.out), Parent: parent}
	w.out = append(w.out, rec)
	rec.Type = vTypeName(n)
	rec.Off = vInt(n, "Offset")
	rec.End = vInt(n, "Endoffset")
	kids := n.MethodByName("Children").Call([]reflect.Value{w.anySel})[0]
	var wrapped reflect.Value
	rec.FPanic = vGuard(func() { wrapped = w.factory.Call([]reflect.Value{n})[0] })
	if rec.FPanic == "" {
		v := wrapped
		if v.Kind() == reflect.Interface {
			v = v.Elem()
		}
		t := v.Type()
		rec.Wrap = vWrapName(t)
		for i := 0; i < t.NumMethod(); i++ {
			m := t.Method(i)
			mv := v.Method(i)
			mt := mv.Type()
			if mt.NumIn() != 0 {
				continue
			}
			var outs []reflect.Value
			p := vGuard(func() { outs = mv.Call(nil) })
			if w.nodeM[m.Name] || m.Name == w.base {
				if p != "" {
					rec.BasePanic = append(rec.BasePanic, m.Name+": "+p)
				} else {
					rec.Base++
				}
				continue
			}
			a := vAcc{Name: m.Name, Sig: mt.String(), Panic: p, Kind: "other"}
			switch {
			case mt.NumOut() == 1 && mt.Out(0).Kind() == reflect.Slice:
				a.Kind = "list"
			case mt.NumOut() == 2 && mt.Out(1).Kind() == reflect.Bool:
				a.Kind = "optional"
			case mt.NumOut() == 1:
				a.Kind = "single"
			}
			if p == "" {
				dp := vGuard(func() {
					switch a.Kind {
					case "list":
						for j := 0; j < outs[0].Len(); j++ {
							a.Ret = append(a.Ret, w.decode(outs[0].Index(j), kids))
						}
					case "optional":
						ok := outs[1].Bool()
						a.Ok = &ok
						a.Ret = []vRet{w.decode(outs[0], kids)}
					case "single":
						a.Ret = []vRet{w.decode(outs[0], kids)}
					}
				})
				if dp != "" {
					a.Panic = "walker-decode: " + dp
				}
			}
			rec.Acc = append(rec.Acc, a)
		}
	}
	for i := 0; i < kids.Len(); i++ {
		id := w.visit(kids.Index(i), rec.ID)
		rec.Kids = append(rec.Kids, id)
	}
	return rec.ID
}

func (w *vWalker) json() string {
	data, err := json.Marshal(w.out)
	if err != nil {
		panic(err)
	}
	return string(data)
}
`

// okGrammar is a grammar that was generated successfully within the current batch.
type okGrammar struct {
	name string
	g    *grammar.Grammar
}

const walkerName = "gwalk"

const walkerTM = "language " + walkerName + "(go);\n\npackage = \"scratch/" + walkerName + "\"\n\n:: lexer\n\nta: /a/\n"

func stubDriver(reg *[]okGrammar) func(g *grammar.Grammar, name string) string {
	return func(g *grammar.Grammar, name string) string {
		*reg = append(*reg, okGrammar{name, g})
		return "package " + name + "\n\nimport \"scratch/rt\"\n\n// VerifRun is unused: the cases of this grammar run through scratch/" + walkerName + ".\nfunc VerifRun(entry, mode, text string) rt.Result { return rt.Result{} }\n"
	}
}

// baseNodeName mirrors `concat (title .Name) "Node"` of go_ast.go.tmpl.
func baseNodeName(g *grammar.Grammar) string { return strings.Title(g.Name) + "Node" }

func walkerDriver(reg *[]okGrammar) func(g *grammar.Grammar, name string) string {
	return func(_ *grammar.Grammar, pkg string) string {
		var b strings.Builder
		fmt.Fprintf(&b, "package %s\n\nimport (\n\t\"context\"\n\t\"encoding/json\"\n\t\"fmt\"\n\t\"reflect\"\n\n\t\"scratch/rt\"\n", pkg)
		for _, ok := range *reg {
			fmt.Fprintf(&b, "\t%[1]s \"scratch/%[1]s\"\n\t%[1]sast \"scratch/%[1]s/ast\"\n\t%[1]ssel \"scratch/%[1]s/selector\"\n", ok.name)
		}
		b.WriteString(")\n\nvar _ = context.Background\n\nvar runners = map[string]func(text string) rt.Result{\n")
		for _, ok := range *reg {
			fmt.Fprintf(&b, "\t%q: run_%s,\n", ok.name, ok.name)
		}
		b.WriteString("}\n\nfunc VerifRun(entry, mode, text string) rt.Result {\n\tf := runners[entry]\n\tif f == nil {\n\t\treturn rt.Result{ErrMsg: \"no runner for \" + entry, ErrOff: -2}\n\t}\n\treturn f(text)\n}\n")
		b.WriteString(strings.ReplaceAll(walkerGeneric, "§", "`"))
		for _, ok := range *reg {
			n := ok.name
			o := ok.g.Options
			ctxArg := ""
			if o.Cancellable {
				ctxArg = "context.Background(), "
			}
			fmt.Fprintf(&b, "\nfunc run_%s(text string) (res rt.Result) {\n", n)
			b.WriteString("\tvar events []rt.Event\n")
			if len(ok.g.Parser.UsedFlags) > 0 {
				// grammars with node flags (-> A/Foo) get a Listener with a flags argument
				fmt.Fprintf(&b, "\tlistener := func(t %[1]s.NodeType, flags %[1]s.NodeFlags, offset, endoffset int) {\n\t\tevents = append(events, rt.Event{Type: t.String(), Flags: int(flags), Off: offset, End: endoffset})\n\t}\n", n)
			} else {
				fmt.Fprintf(&b, "\tlistener := func(t %s.NodeType, offset, endoffset int) {\n\t\tevents = append(events, rt.Event{Type: t.String(), Off: offset, End: endoffset})\n\t}\n", n)
			}
			fmt.Fprintf(&b, "\tvar p %s.Parser\n\tp.Init(listener)\n", n)
			if o.TokenStream {
				fmt.Fprintf(&b, "\tvar s %s.TokenStream\n\ts.Init(text, listener)\n\tperr := p.Parse(%s&s)\n", n, ctxArg)
			} else {
				fmt.Fprintf(&b, "\tvar l %s.Lexer\n\tl.Init(text)\n\tperr := p.Parse(%s&l)\n", n, ctxArg)
			}
			fmt.Fprintf(&b, "\ttree, err := %sast.Parse(%s\"in\", text)\n", n, ctxArg)
			fmt.Fprintf(&b, "\tif err != nil {\n\t\tif se, ok := err.(%s.SyntaxError); ok {\n\t\t\tres.ErrOff, res.ErrEnd, res.ErrMsg = se.Offset, se.Endoffset, \"syntax\"\n\t\t} else {\n\t\t\tres.ErrOff, res.ErrMsg = -1, err.Error()\n\t\t\tres.Events = events\n\t\t\tif perr == nil {\n\t\t\t\tres.Steps = 1\n\t\t\t}\n\t\t}\n\t\treturn res\n\t}\n", n)
			b.WriteString("\tres.Accept = true\n\tres.Events = events\n\tif perr != nil {\n\t\tres.ErrMsg = \"listener-only parse failed: \" + perr.Error()\n\t}\n")
			fmt.Fprintf(&b, "\tw := newWalker(%[1]ssel.Any, %[1]sast.To%[2]s, %[2]q, reflect.TypeOf((*%[1]sast.Node)(nil)))\n", n, baseNodeName(ok.g))
			b.WriteString("\tw.visit(reflect.ValueOf(tree.Root()), -1)\n\tres.Values = []string{w.json()}\n\treturn res\n}\n")
		}
		return b.String()
	}
}

// ---------------------------------------------------------------------------------------------
// Running batches
// ---------------------------------------------------------------------------------------------

type item struct {
	Idx     int
	Name    string
	Cand    cand
	Variant variant
	TM      string
	Inputs  []string

	g        *grammar.Grammar
	results  []genharness.Result
	buildErr string
}

// c21Case is the replay record.
type c21Case struct {
	Name    string `json:"name"`
	Shape   string `json:"shape,omitempty"`
	Variant string `json:"variant,omitempty"`
	TM      string `json:"tm"`
	Text    string `json:"text"`
}

// runItems builds and runs the items; on return every item has either results or buildErr.
// harnessErr is non-empty when even a single grammar could not be built for a reason that
// cannot be attributed to its generated code.
func runItems(items []*item, stats *batchStats) {
	if len(items) == 0 {
		return
	}
	var reg []okGrammar
	specs := make([]genharness.Spec, 0, len(items)+1)
	var cases []genharness.Case
	for _, it := range items {
		specs = append(specs, genharness.Spec{Name: it.Name, TM: it.TM, Driver: stubDriver(&reg)})
		for _, w := range it.Inputs {
			cases = append(cases, genharness.Case{Entry: it.Name, Text: w})
		}
	}
	specs = append(specs, genharness.Spec{Name: walkerName, TM: walkerTM, Driver: walkerDriver(&reg), Cases: cases})
	stats.builds++
	outs, err := genharness.RunBatch(specs, genharness.BatchOpts{KeepDir: os.Getenv("C21_KEEP") != ""})
	wo := outs[len(outs)-1]
	if err == nil && wo.GenErr == "" && wo.GenPanic == "" && wo.BuildErr == "" && wo.Results != nil {
		// success (possibly with some grammars dropped before the walker was compiled: not
		// possible, the walker imports all of them; so everything was built)
		k := 0
		for i, it := range items {
			it.g = outs[i].Grammar
			if outs[i].GenErr != "" || outs[i].GenPanic != "" {
				it.buildErr = "generation failed in the batch although the pre-filter accepted it: " + outs[i].GenErr + outs[i].GenPanic
				k += len(it.Inputs)
				continue
			}
			it.results = wo.Results[k : k+len(it.Inputs)]
			k += len(it.Inputs)
		}
		return
	}
	// Something does not build. Grammars whose own packages fail are attributed by RunBatch.
	var rest []*item
	dropped := false
	for i, it := range items {
		if outs[i].BuildErr != "" {
			it.g = outs[i].Grammar
			it.buildErr = outs[i].BuildErr
			dropped = true
			continue
		}
		rest = append(rest, it)
	}
	switch {
	case dropped:
		runItems(rest, stats)
	case len(items) > 1:
		runItems(items[:len(items)/2], stats)
		runItems(items[len(items)/2:], stats)
	default:
		msg := wo.BuildErr + wo.GenErr + wo.GenPanic
		if err != nil {
			msg += " " + err.Error()
		}
		items[0].g = outs[0].Grammar
		items[0].buildErr = "walker/scratch module does not build: " + msg
	}
}

type batchStats struct{ builds int }

// ---------------------------------------------------------------------------------------------
// The oracle
// ---------------------------------------------------------------------------------------------

type finding struct {
	key, what string
	it        *item
	text      string
	ti        int // index of the input among the grammar's inputs (-1: none)
}

// gramInfo is what the check derives from the compiled grammar (the declarations under test).
type gramInfo struct {
	types    map[string]*syntax.RangeType
	cats     map[string][]string
	injected map[string]bool
	base     string
}

func newGramInfo(g *grammar.Grammar) *gramInfo {
	gi := &gramInfo{types: map[string]*syntax.RangeType{}, cats: map[string][]string{}, injected: map[string]bool{}, base: baseNodeName(g)}
	for i := range g.Parser.Types.RangeTypes {
		rt := &g.Parser.Types.RangeTypes[i]
		gi.types[rt.Name] = rt
	}
	for _, cat := range g.Parser.Types.Categories {
		gi.cats[cat.Name] = cat.Types
	}
	for _, mt := range g.Parser.MappedTokens {
		gi.injected[mt.Name] = true
	}
	return gi
}

// expand lists the node types a selector admits (categories expanded).
func (gi *gramInfo) expand(sel []string) map[string]bool {
	out := map[string]bool{}
	for _, s := range sel {
		if list, ok := gi.cats[s]; ok {
			for _, t := range list {
				out[t] = true
			}
			continue
		}
		out[s] = true
	}
	return out
}

// accessorName mirrors `title .Name | escape_reserved` up to the optional underscore.
func accessorMatches(method, field string) bool {
	t := strings.Title(field)
	return method == t || method == "_"+t
}

// exercise records, per grammar, which cardinalities were observed for optional / list fields.
type exercise struct {
	optPresent, optAbsent map[string]bool
	listLens              map[string]map[int]bool
}

func newExercise() *exercise {
	return &exercise{optPresent: map[string]bool{}, optAbsent: map[string]bool{}, listLens: map[string]map[int]bool{}}
}

func (e *exercise) optionalBoth() bool {
	for k := range e.optPresent {
		if e.optAbsent[k] {
			return true
		}
	}
	return false
}

func (e *exercise) listVaried() bool {
	for _, m := range e.listLens {
		if len(m) >= 2 {
			return true
		}
	}
	return false
}

func panicClass(msg string) string {
	switch {
	case strings.Contains(msg, "walker-decode"):
		return "walker-decode"
	case strings.Contains(msg, "interface conversion") && strings.Contains(msg, "NilNode is not"):
		return "nilnode-lacks-category-method"
	case strings.Contains(msg, "interface conversion"):
		return "interface-conversion"
	case strings.Contains(msg, "unknown node type"):
		return "unknown-node-type"
	case strings.Contains(msg, "nil pointer"):
		return "nil-dereference"
	case strings.Contains(msg, "index out of range"):
		return "index-out-of-range"
	}
	return "other"
}

// checkTree applies the property to one walked tree. It returns the findings (first per key)
// and the number of accessor calls checked.
func checkTree(gi *gramInfo, text string, res genharness.Result, ex *exercise) (fs []finding, calls int64, nodes []vNode) {
	seen := map[string]bool{}
	add := func(key, format string, args ...any) {
		if !seen[key] {
			seen[key] = true
			fs = append(fs, finding{key: key, what: fmt.Sprintf(format, args...)})
		}
	}
	if len(res.Values) == 0 {
		add("harness:no-walk", "accepted input without a walk record")
		return
	}
	if err := json.Unmarshal([]byte(res.Values[0]), &nodes); err != nil {
		add("harness:bad-walk", "cannot decode the walk: %v", err)
		return
	}
	// Zero-width nodes are placed by ast.Parse's builder from their offsets alone. Two known
	// consequences (one root cause, reported under the key prefix "empty-node-misplaced"):
	// an empty node at the very end of its parent is left outside of the parent, and an empty
	// node directly in front of a sibling is swallowed by that sibling. The listener events of
	// a second, listener-only parse tell whether an absent required node was in fact reported
	// by the parser as an empty range inside (or right behind) the receiver. Used to choose
	// the key only.
	// A zero-width range that the parser reported right before a range ending at or before its
	// offset was the last child of that (or an enclosing) node; the builder leaves it outside,
	// and a later node starting at the same offset may adopt it ("foreign" empty child).
	strayEmpty := map[string]bool{}
	for i, e := range res.Events {
		if e.Off != e.End || gi.injected[e.Type] {
			continue
		}
		for _, nx := range res.Events[i+1:] {
			if gi.injected[nx.Type] {
				continue
			}
			if nx.End <= e.Off {
				strayEmpty[fmt.Sprintf("%s@%d", e.Type, e.Off)] = true
			}
			break
		}
	}
	adoptedStray := func(parent *vNode) bool {
		for _, id := range parent.Kids {
			if ch := &nodes[id]; ch.Off == ch.End && strayEmpty[fmt.Sprintf("%s@%d", ch.Type, ch.Off)] {
				return true
			}
		}
		return false
	}
	emptyMisplaced := func(n *vNode, types map[string]bool) bool {
		for _, e := range res.Events {
			if e.Off != e.End || !types[e.Type] || e.Off < n.Off || e.Off > len(text) {
				continue
			}
			if e.Off <= n.End || strings.TrimSpace(text[n.End:e.Off]) == "" {
				return true
			}
		}
		return false
	}
	// An empty child that the declarations of its parent's type do not admit at all.
	childMisplaced := func(parent *vNode, k int) bool {
		ch := &nodes[parent.Kids[k]]
		rt := gi.types[parent.Type]
		if ch.Off != ch.End || rt == nil {
			return false
		}
		for _, f := range rt.Fields {
			if gi.expand(f.Selector)[ch.Type] {
				return false
			}
		}
		return true
	}
	for i := range nodes {
		n := &nodes[i]
		where := fmt.Sprintf("node %s[%d,%d)", n.Type, n.Off, n.End)
		if n.FPanic != "" {
			add("factory:panic", "%s: the factory panics: %s", where, n.FPanic)
			continue
		}
		for _, bp := range n.BasePanic {
			add("node-method:panic", "%s: %s", where, bp)
		}
		if n.Wrap != n.Type {
			add("factory:wrong-wrapper", "%s: the factory returned a %s", where, n.Wrap)
			continue
		}
		rt := gi.types[n.Type]
		if rt == nil {
			add("tree:undeclared-node-type", "%s: no such RangeType", where)
			continue
		}
		covered := make([]bool, len(n.Kids))
		usedField := make([]bool, len(rt.Fields))
		for ai := range n.Acc {
			a := &n.Acc[ai]
			fi := -1
			for j, f := range rt.Fields {
				if accessorMatches(a.Name, f.Name) && !usedField[j] {
					fi = j
					break
				}
			}
			if fi < 0 {
				add("accessor:undeclared", "%s: method %s %s corresponds to no declared field (%s)", where, a.Name, a.Sig, rt.Descriptor())
				continue
			}
			usedField[fi] = true
			f := rt.Fields[fi]
			calls++
			acc := fmt.Sprintf("%s.%s() [field %s selector %v required=%v list=%v]", n.Type, a.Name, f.Name, f.Selector, f.IsRequired, f.IsList)
			if a.Panic != "" {
				add("accessor:panic:"+panicClass(a.Panic), "%s of %s panics: %s", acc, where, a.Panic)
				continue
			}
			// signature vs declaration
			wantKind := "single"
			switch {
			case f.IsList:
				wantKind = "list"
			case !f.IsRequired:
				wantKind = "optional"
			}
			elem := gi.base
			if len(f.Selector) == 1 {
				elem = f.Selector[0]
			}
			wantSig := map[string]string{"single": "func() ast." + elem, "optional": "func() (ast." + elem + ", bool)", "list": "func() []ast." + elem}[wantKind]
			if a.Kind != wantKind || a.Sig != wantSig {
				add("accessor:signature", "%s has signature %s, the declaration implies %s", acc, a.Sig, wantSig)
				continue
			}
			allowed := gi.expand(f.Selector)
			// presence
			switch a.Kind {
			case "single":
				if len(a.Ret) != 1 || !a.Ret[0].Valid {
					key := "accessor:required-absent"
					if emptyMisplaced(n, allowed) {
						key = "empty-node-misplaced:required-accessor-absent"
					}
					add(key, "%s of %s returns an absent node although the field is required", acc, where)
				}
			case "list":
				if f.IsRequired && len(a.Ret) == 0 {
					key := "accessor:required-absent"
					if emptyMisplaced(n, allowed) {
						key = "empty-node-misplaced:required-accessor-absent"
					}
					add(key, "%s of %s returns an empty list although the field is required (one or more)", acc, where)
				}
				if ex.listLens[n.Type+"."+a.Name] == nil {
					ex.listLens[n.Type+"."+a.Name] = map[int]bool{}
				}
				ex.listLens[n.Type+"."+a.Name][len(a.Ret)] = true
			case "optional":
				if a.Ok == nil || len(a.Ret) != 1 || *a.Ok != a.Ret[0].Valid {
					add("accessor:optional-flag", "%s of %s: the bool result disagrees with the validity of the returned node", acc, where)
				} else if *a.Ok {
					ex.optPresent[n.Type+"."+a.Name] = true
				} else {
					ex.optAbsent[n.Type+"."+a.Name] = true
				}
			}
			for _, r := range a.Ret {
				if !r.Valid {
					if a.Kind == "list" {
						add("accessor:absent-in-list", "%s of %s: the list contains an absent node", acc, where)
					}
					continue
				}
				got := fmt.Sprintf("%s[%d,%d)", r.Type, r.Off, r.End)
				if !allowed[r.Type] {
					add("accessor:foreign-type", "%s of %s returned %s, which is outside the declared selector", acc, where, got)
				}
				if r.Wrap != r.Type {
					add("accessor:wrapper-mismatch", "%s of %s returned node %s wrapped as %s", acc, where, got, r.Wrap)
				}
				if r.Child < 0 {
					add("accessor:not-a-child", "%s of %s returned %s, which is not a child of the receiver", acc, where, got)
				} else {
					covered[r.Child] = true
				}
			}
		}
		for j, f := range rt.Fields {
			if !usedField[j] {
				add("accessor:missing", "%s: declared field %s has no accessor method", where, f.Name)
			}
		}
		// every child stemming from an arrow is returned by at least one accessor of its parent
		for k, id := range n.Kids {
			ch := &nodes[id]
			if gi.injected[ch.Type] {
				continue
			}
			if !covered[k] {
				key := "accessor:child-not-returned"
				switch {
				case childMisplaced(n, k):
					key = "empty-node-misplaced:attached-to-wrong-parent"
				case adoptedStray(n):
					key = "empty-node-misplaced:foreign-empty-node-adopted"
				}
				add(key, "%s: child #%d %s[%d,%d) is returned by no accessor (declared fields: %s)", where, k, ch.Type, ch.Off, ch.End, rt.Descriptor())
			}
		}
	}
	return
}

func rejectClass(msg string) string {
	switch {
	case strings.Contains(msg, "conflict"):
		return "lalr-conflict"
	case strings.Contains(msg, "overlapping sets of node types"):
		return "overlapping-fields"
	case strings.Contains(msg, "must produce exactly one node"):
		return "category-not-exactly-one-node"
	case strings.Contains(msg, "cannot be used inside a category expression"):
		return "category-expression"
	case strings.Contains(msg, "multiple fields found behind an assignment"):
		return "assignment-over-several-fields"
	case strings.Contains(msg, "reporting empty ranges at the end of a rule"):
		return "empty-range-at-end-of-rule"
	case strings.Contains(msg, "generate:"):
		return "generate-error"
	}
	return "other"
}

// checkItem checks all results of one built grammar; returns whether the grammar counts as
// non-trivial, and the findings (not yet reported: run() reports them simplest-first).
func checkItem(c *core.Ctx, it *item) (nontrivial bool, fs []finding) {
	report := func(key, what, text string, ti int) {
		fs = append(fs, finding{key: key, what: what, it: it, text: text, ti: ti})
	}
	if it.buildErr != "" {
		key := "generated-code-does-not-build"
		switch {
		case strings.Contains(it.buildErr, "already declared") || strings.Contains(it.buildErr, "redeclared"):
			key += ":duplicate-declaration"
		case strings.Contains(it.buildErr, "b.addNode"):
			key += ":node-flags"
		case strings.Contains(it.buildErr, "walker/scratch module"):
			key = "harness:walker-does-not-build"
		}
		report(key, it.buildErr, "", -1)
		return false, fs
	}
	gi := newGramInfo(it.g)
	ex := newExercise()
	accepted := 0
	for i, res := range it.results {
		text := it.Inputs[i]
		switch {
		case res.Panic != "" || res.Hang || res.Aborted:
			report("parse:crash-or-hang", fmt.Sprintf("ast.Parse/walk on %q: panic=%q hang=%v", text, res.Panic, res.Hang), text, i)
			continue
		case res.Extra != nil && res.Extra["skipped"] != nil:
			c.Outcome("skipped-after-driver-death", 1)
			continue
		case !res.Accept && res.ErrMsg == "syntax":
			c.Outcome("syntax-error", 1)
			continue
		case !res.Accept && res.ErrOff == -2:
			report("harness:no-runner", res.ErrMsg, text, i)
			continue
		case !res.Accept:
			// ast.Parse refused to build a tree for a sentence (e.g. "exactly one root node is
			// expected"): there is no tree to talk about, the statement is silent.
			c.Outcome("no-tree: "+res.ErrMsg, 1)
			// ... except when the parser itself accepted the input (Steps == 1: the listener-only
			// parse returned nil) and reported a zero-width range: the builder then left that
			// node outside of its parent and ended up with two roots. Same root cause as the
			// other empty-node-misplaced keys, reported as its own symptom.
			if res.Steps == 1 && it.g.Options.FileNode == "" {
				for _, e := range res.Events {
					if e.Off == e.End && !gi.injected[e.Type] {
						report("empty-node-misplaced:no-single-root", fmt.Sprintf("input %q has no syntax error, but ast.Parse fails with %q: the zero-width node %s[%d,%d) was not adopted by its parent", text, res.ErrMsg, e.Type, e.Off, e.End), text, i)
						break
					}
				}
			}
			continue
		}
		accepted++
		c.Outcome("tree-walked", 1)
		if res.ErrMsg != "" {
			report("harness:listener-parse-disagrees", res.ErrMsg, text, i)
		}
		found, calls, nodes := checkTree(gi, text, res, ex)
		c.Eval(calls)
		c.Add("nodes_walked", int64(len(nodes)))
		// listener events that did not make it into the tree (diagnostic counter only)
		if want := len(res.Events); want > 0 {
			have := len(nodes)
			if it.g.Options.FileNode != "" {
				have--
			}
			if have < want {
				c.Add("ranges_reported_but_not_in_tree", int64(want-have))
			}
		}
		for _, f := range found {
			report(f.key, fmt.Sprintf("input %q: %s", text, f.what), text, i)
		}
		if c.SampleCount() < 8 && accepted == 2 {
			c.Sample(map[string]any{"grammar": it.Cand.Rules, "variant": it.Variant.Name, "input": text, "nodes": len(nodes)})
		}
	}
	if accepted == 0 {
		c.Add("grammars_without_accepted_input", 1)
	}
	if ex.optionalBoth() {
		c.Add("grammars_optional_field_seen_present_and_absent", 1)
	}
	if ex.listVaried() {
		c.Add("grammars_list_field_seen_with_two_lengths", 1)
	}
	return ex.optionalBoth() && ex.listVaried(), fs
}

// ---------------------------------------------------------------------------------------------

func variantFor(cd cand) variant {
	h := fnv.New32a()
	h.Write([]byte(cd.Rules))
	return variants[int(h.Sum32()%uint32(len(variants)))]
}

// flagsRules is the one grammar with node flags (-> A/Foo): the listener type then takes a flags
// argument. In the quick tier it is only generated and inspected (the ast package's builder
// must be usable as that listener), in the thorough tier and in replay it is built.
const flagsRules = "S -> @ROOT@ :\n    XF Y ;\n\nXF -> A/Foo :\n    ta ;\n"

var (
	listenerFlagsRe = regexp.MustCompile(`type Listener func\(t NodeType, flags NodeFlags, offset, endoffset int\)`)
	addNodePlainRe  = regexp.MustCompile(`func \(b \*builder\) addNode\(t [\w.]+, offset, endoffset int\)`)
)

// flagsProbe returns a finding when the generated ast package cannot compile because its
// builder is passed as a Listener of a different signature.
func flagsProbe(files map[string]string) string {
	parse := files["ast/parse.go"]
	if listenerFlagsRe.MatchString(files["listener.go"]) && addNodePlainRe.MatchString(parse) && strings.Contains(parse, "p.Init(b.addNode)") {
		return "listener.go declares `type Listener func(t NodeType, flags NodeFlags, offset, endoffset int)` (the grammar uses node flags), ast/parse.go passes b.addNode(t, offset, endoffset) to p.Init: the generated ast package does not compile (replay builds it)"
	}
	return ""
}

// seeds are members of the enumeration that are always run first (one per mechanism), so that
// even a run cut short by the budget exercises every mechanism once.
var seeds = []string{
	"S -> @ROOT@ :\n    f=X g=X* ;\n",                                             // list fetched after a single field of the same type (Child.NextAll)
	"S -> @ROOT@ :\n    f=X g=X? ;\n",                                             // optional fetched after a single (Child.Next)
	"S -> @ROOT@ :\n    f=X\n  | g=Y\n;\n",                                        // fields present in one alternative only
	"S -> @ROOT@ :\n    X (f=Y | td) ;\n",                                         // nested choice
	"S -> @ROOT@ :\n    f=X f=Y ;\n",                                              // repeated field -> list of two types
	"S -> @ROOT@ :\n    X X X ;\n",                                                // repeated unnamed field -> list
	"S -> @ROOT@ :\n    E+ ;\n",                                                   // list of a category
	"S -> @ROOT@ :\n    Z? ;\n",                                                   // two types without a category
	"S -> @ROOT@ :\n    f=(tc separator td)* ;\n",                                 // list of injected terminals
	"S -> @ROOT@ :\n    V* ;\n",                                                   // nodes with own fields
	"S -> @ROOT@ :\n    f=W ;\n",                                                  // recursive list nonterminal
	"S -> @ROOT@ :\n    f=(X -> In) Y* ;\n",                                       // inner arrow
	"S -> @ROOT@ :\n    (f=X Y* separator td)+ ;\n",                               // list over a two-part body
	"S -> @ROOT@ :\n    T+ ;\nT -> Top :\n    ta X -> R1\n  | tb f=Y? -> R2\n;\n", // list of a category of nodes with fields
	"S -> @ROOT@ :\n    XE Y ;\n",                                                 // nullable arrow at the start
}

func run(c *core.Ctx) {
	c.Rule("grammars: 8 rule shapes over parts [field=][atom][? + * separator-lists], atoms = plain terminal, nonterminals with arrows (one type, two types, category, nullable arrow, recursive list, node with own fields), inline arrow, injected terminal; one of 8 option variants per grammar (fileNode, tokenStream, fixWhitespace, cancellable, genSelector, extraTypes, injected comment) chosen by a hash of the rule text; inputs: all strings of length <= 4 over the grammar's alphabet, kept when ast.Parse accepts; evaluation = one field accessor call checked against its declaration; a grammar is non-trivial when an optional field was seen present and absent AND a list field was seen with two different lengths")
	c.Assume("the walker driver uses reflection over the generated ast package (factory To<Name>Node, all exported zero-argument methods); node identity is pointer identity of *ast.Node")
	c.Assume("the declarations checked against are g.Parser.Types of the very compile that produced the code (field selector / IsRequired / IsList, categories), not an independent type inference: over-approximating declarations (everything optional) are not detected")
	c.Assume("inputs without syntax errors = strings accepted by the generated parser (C01 checks the verdicts)")
	cands := enumerate()
	c.Set("candidates_total", len(cands))
	target := len(cands)
	if c.Quick() {
		target = 300
	}
	// Order: the seeds, then the selected candidates in `passes` interleaved passes (pass p takes
	// every passes-th selected candidate starting at p), so that a run cut short by the budget
	// has still covered all shapes evenly. Findings are reported simplest-first at the end.
	var sel []int
	if target >= len(cands) {
		for i := range cands {
			sel = append(sel, i)
		}
	} else {
		for i := 0; i < target; i++ {
			sel = append(sel, i*len(cands)/target)
		}
		c.Capped(fmt.Sprintf("stride sample: %d of %d enumerated candidate grammars (plus %d seeds)", target, len(cands), len(seeds)))
	}
	byRules := map[string]int{}
	for i, cd := range cands {
		byRules[cd.Rules] = i
	}
	var order []int
	inOrder := map[int]bool{}
	for _, s := range seeds {
		ci, ok := byRules[s]
		if !ok {
			c.Capped("harness failure: seed grammar is not a member of the enumeration: " + s)
			continue
		}
		if !inOrder[ci] {
			inOrder[ci] = true
			order = append(order, ci)
		}
	}
	early := 0
	for ci, cd := range cands {
		if (cd.Early == 1 || (cd.Early == 2 && !c.Quick())) && !inOrder[ci] {
			inOrder[ci] = true
			order = append(order, ci)
			early++
		}
	}
	c.Set("early_family_candidates", early)
	passes := (len(sel) + 79) / 80
	for p := 0; p < passes; p++ {
		for k := p; k < len(sel); k += passes {
			if ci := sel[k]; !inOrder[ci] {
				inOrder[ci] = true
				order = append(order, ci)
			}
		}
	}
	c.Set("candidates_selected", len(order))

	var all []finding
	var pending []*item
	stats := &batchStats{}
	perItem := time.Duration(0) // measured wall time per built grammar
	flush := func() {
		if len(pending) == 0 {
			return
		}
		t0 := time.Now()
		runItems(pending, stats)
		perItem = time.Since(t0) / time.Duration(len(pending))
		for _, it := range pending {
			nt, fs := checkItem(c, it)
			all = append(all, fs...)
			if it.buildErr == "" {
				c.Add("grammars_built", 1)
				c.Add("grammars_built_"+it.Cand.Shape, 1)
				c.Add("variant_"+it.Variant.Name, 1)
			}
			if nt {
				c.Nontrivial(1)
			}
		}
		pending = pending[:0]
	}
	// The first batch holds the seeds and the early families SA/SB (its duration calibrates the following batch sizes:
	// the machine is shared, a build takes between 0.3 s and 6 s per grammar).
	{
		cd := cand{Shape: "flags", Rules: flagsRules}
		v := variants[0]
		name := "g99999"
		tm := tmText(cd, v, name)
		it := &item{Idx: len(cands), Name: name, Cand: cd, Variant: v, TM: tm, Inputs: allStrings(alphabet(tm), L)}
		g, files, genErr, genPanic := genharness.Generate(name, tm)
		switch {
		case genErr != "" || genPanic != "" || g == nil:
			c.Outcome("rejected: node-flags grammar", 1)
		case c.Quick():
			if msg := flagsProbe(files); msg != "" {
				all = append(all, finding{key: "generated-code-does-not-build:node-flags", what: msg, it: it, ti: -1})
			}
			c.Add("grammars_inspected_without_build", 1)
		default:
			pending = append(pending, it)
		}
	}
	limit := len(seeds) + early
	if !c.Quick() {
		limit = batchSize
	}
	done := 0
	otherSeen := false
	for _, ci := range order {
		if c.Expired() {
			break
		}
		done++
		cd := cands[ci]
		v := variantFor(cd)
		name := fmt.Sprintf("g%05d", ci)
		tm := tmText(cd, v, name)
		g, _, genErr, genPanic := genharness.Generate(name, tm)
		if genPanic != "" {
			all = append(all, finding{key: "generate:panic", what: genPanic, it: &item{Idx: ci, Name: name, Cand: cd, Variant: v, TM: tm}, ti: -1})
			continue
		}
		if genErr != "" {
			cls := rejectClass(genErr)
			c.Outcome("rejected: "+cls, 1)
			c.Add("grammars_rejected", 1)
			if cls == "other" && !otherSeen {
				otherSeen = true
				c.Set("rejected_other_example", map[string]string{"rules": cd.Rules, "variant": v.Name, "error": genErr})
			}
			continue
		}
		if g.Parser == nil || g.Parser.Types == nil {
			c.Outcome("rejected: no types", 1)
			continue
		}
		maxLen := L
		if cd.MaxLen > 0 {
			maxLen = cd.MaxLen
		}
		it := &item{Idx: ci, Name: name, Cand: cd, Variant: v, TM: tm, Inputs: allStrings(alphabet(tm), maxLen)}
		pending = append(pending, it)
		if len(pending) >= limit {
			flush()
			// size of the next batch: what fits into the remaining budget, within [8, batchSize]
			remaining := time.Until(c.Deadline)
			limit = batchSize
			if perItem > 0 {
				if fit := int(remaining * 6 / 10 / perItem); fit < limit {
					limit = fit
				}
			}
			if limit < 8 {
				break
			}
		}
	}
	if done == len(order) {
		flush()
	} else {
		c.Capped(fmt.Sprintf("budget: stopped after %d of %d selected candidates (%v per built grammar on this machine)", done, len(order), perItem.Round(10*time.Millisecond)))
	}
	c.Set("go_builds", stats.builds)
	sort.SliceStable(all, func(i, j int) bool {
		if all[i].it.Idx != all[j].it.Idx {
			return all[i].it.Idx < all[j].it.Idx
		}
		return all[i].ti < all[j].ti
	})
	harness := 0
	for _, f := range all {
		if strings.HasPrefix(f.key, "harness:") {
			// A defect of this check (e.g. the walker driver does not compile against the
			// package generated for one grammar) is not a violation of the property: the
			// grammar is named, counted as not checked, and the run is marked incomplete.
			harness++
			c.Add("harness_failures", 1)
			if harness <= 5 {
				c.Set(fmt.Sprintf("harness_failure_%d", harness), map[string]string{"key": f.key, "grammar": f.it.Name, "shape": f.it.Cand.Shape, "variant": f.it.Variant.Name, "rules": f.it.Cand.Rules, "input": f.text, "what": f.what})
			}
			c.Capped(fmt.Sprintf("harness failure, grammar %s (%s, %s) not checked: %s", f.it.Name, f.it.Cand.Shape, f.it.Variant.Name, f.key))
			fmt.Printf("HARNESS-FAILURE property=C21 grammar=%s key=%s :: %s\n", f.it.Name, f.key, strings.ReplaceAll(f.what, "\n", "\\n"))
			continue
		}
		c.Violate(f.key, f.what, c21Case{Name: f.it.Name, Shape: f.it.Cand.Shape, Variant: f.it.Variant.Name, TM: f.it.TM, Text: f.text})
	}
}

var nameRe = regexp.MustCompile(`(?m)^language (\w+)\(go\);`)

func replay(c *core.Ctx, raw json.RawMessage) error {
	var cs c21Case
	if err := json.Unmarshal(raw, &cs); err != nil {
		return err
	}
	if m := nameRe.FindStringSubmatch(cs.TM); m != nil {
		cs.Name = m[1]
	}
	g, _, genErr, genPanic := genharness.Generate(cs.Name, cs.TM)
	if genPanic != "" {
		return fmt.Errorf("generation panics: %s", genPanic)
	}
	if genErr != "" || g == nil {
		fmt.Println("the grammar is rejected now:", genErr)
		return nil
	}
	it := &item{Name: cs.Name, TM: cs.TM, Inputs: []string{cs.Text}}
	if cs.Text == "" {
		it.Inputs = allStrings(alphabet(cs.TM), L)
	}
	runItems([]*item{it}, &batchStats{})
	_, fs := checkItem(c, it)
	if len(fs) > 0 {
		sort.Slice(fs, func(i, j int) bool { return fs[i].key < fs[j].key })
		var sb strings.Builder
		for _, f := range fs {
			fmt.Fprintf(&sb, "[%s] %s; ", f.key, f.what)
		}
		return fmt.Errorf("%s", sb.String())
	}
	return nil
}
