// C26: graph algorithms — every digraph on n<=4 vertices (n=5 without self-loops in thorough),
// in several adjacency orders and with parallel edges, against Floyd–Warshall style references.
package main

import (
	"encoding/json"
	"fmt"
	"sort"

	"github.com/inspirer/textmapper/util/container"
	"github.com/inspirer/textmapper/util/graph"

	"verif/internal/core"
)

type gcase struct {
	N     int     `json:"n"`
	Adj   [][]int `json:"adj"`
	Which string  `json:"which,omitempty"`
}

func main() { core.Main("C26", "exploration", run, replay, nil) }

func reach(n int, adj [][]int) [][]bool {
	r := make([][]bool, n)
	for i := range r {
		r[i] = make([]bool, n)
		for _, j := range adj[i] {
			r[i][j] = true
		}
	}
	for k := 0; k < n; k++ {
		for i := 0; i < n; i++ {
			if r[i][k] {
				for j := 0; j < n; j++ {
					if r[k][j] {
						r[i][j] = true
					}
				}
			}
		}
	}
	return r
}

func clone(adj [][]int) [][]int {
	out := make([][]int, len(adj))
	for i, e := range adj {
		out[i] = append([]int{}, e...)
	}
	return out
}

// checkGraph returns (key, message) of the first failing sub-property, or "".
func checkGraph(n int, adj [][]int) (string, string) {
	r := reach(n, adj)
	orig := clone(adj)
	// --- Tarjan (precondition n >= 2)
	if n >= 2 {
		var comps [][]int
		var bad string
		err := core.Guard(func() {
			graph.Tarjan(adj, func(vs []int, onStack container.BitSet) {
				comps = append(comps, append([]int{}, vs...))
				for _, v := range vs {
					if !onStack.Get(v) {
						bad = "onStack does not contain component member"
					}
				}
			})
		})
		if err != nil {
			return "tarjan:panic", err.Error()
		}
		if bad != "" {
			return "tarjan:onstack", bad
		}
		seen := make([]int, n)
		for i := range seen {
			seen[i] = -1
		}
		for ci, c := range comps {
			if len(c) == 0 {
				return "tarjan:empty-component", "empty component reported"
			}
			for _, v := range c {
				if v < 0 || v >= n || seen[v] != -1 {
					return "tarjan:not-partition", fmt.Sprintf("vertex %d reported twice or out of range: %v", v, comps)
				}
				seen[v] = ci
			}
		}
		for v := 0; v < n; v++ {
			if seen[v] == -1 {
				return "tarjan:not-partition", fmt.Sprintf("vertex %d not reported: %v", v, comps)
			}
		}
		for u := 0; u < n; u++ {
			for v := 0; v < n; v++ {
				mutual := u == v || (r[u][v] && r[v][u])
				if mutual != (seen[u] == seen[v]) {
					return "tarjan:wrong-components", fmt.Sprintf("%d,%d mutual=%v but components %v", u, v, mutual, comps)
				}
			}
		}
		for u := 0; u < n; u++ {
			for _, v := range adj[u] {
				if seen[u] != seen[v] && seen[u] < seen[v] {
					return "tarjan:order", fmt.Sprintf("edge %d->%d goes from earlier-reported to later-reported component: %v", u, v, comps)
				}
			}
		}
	}
	// --- Transpose
	{
		var t [][]int
		if err := core.Guard(func() { t = graph.Transpose(adj) }); err != nil {
			return "transpose:panic", err.Error()
		}
		if len(t) != n {
			return "transpose:size", "wrong vertex count"
		}
		want := make([][]int, n)
		for u := 0; u < n; u++ {
			for _, v := range adj[u] {
				want[v] = append(want[v], u)
			}
		}
		for v := 0; v < n; v++ {
			a := append([]int{}, t[v]...)
			b := append([]int{}, want[v]...)
			sort.Ints(a)
			sort.Ints(b)
			if fmt.Sprint(a) != fmt.Sprint(b) {
				return "transpose:edges", fmt.Sprintf("in-edges of %d: got %v want %v", v, a, b)
			}
		}
		// appending to one row must not clobber another row (capacity discipline)
		for v := 0; v < n; v++ {
			_ = append(t[v], -7)
		}
		for v := 0; v < n; v++ {
			a := append([]int{}, t[v]...)
			b := append([]int{}, want[v]...)
			sort.Ints(a)
			sort.Ints(b)
			if fmt.Sprint(a) != fmt.Sprint(b) {
				return "transpose:aliasing", fmt.Sprintf("row %d changed after appending to another row", v)
			}
		}
	}
	// --- Matrix closure + Graph()
	{
		m := graph.NewMatrix(n)
		for u := 0; u < n; u++ {
			for _, v := range adj[u] {
				m.AddEdge(u, v)
			}
		}
		for u := 0; u < n; u++ {
			for v := 0; v < n; v++ {
				has := false
				for _, w := range adj[u] {
					if w == v {
						has = true
					}
				}
				if m.HasEdge(u, v) != has {
					return "matrix:edges", fmt.Sprintf("HasEdge(%d,%d)=%v want %v", u, v, !has, has)
				}
			}
		}
		var lists [][]int
		if err := core.Guard(func() { lists = m.Graph(nil) }); err != nil {
			return "matrix:graph-panic", err.Error()
		}
		for u := 0; u < n; u++ {
			var want []int
			for v := 0; v < n; v++ {
				if m.HasEdge(u, v) {
					want = append(want, v)
				}
			}
			if fmt.Sprint(append([]int{}, lists[u]...)) != fmt.Sprint(want) {
				return "matrix:graph", fmt.Sprintf("Graph()[%d]=%v want %v", u, lists[u], want)
			}
		}
		if err := core.Guard(func() { m.Closure() }); err != nil {
			return "closure:panic", err.Error()
		}
		for u := 0; u < n; u++ {
			for v := 0; v < n; v++ {
				if m.HasEdge(u, v) != r[u][v] {
					return "closure:pairs", fmt.Sprintf("closure(%d,%d)=%v want %v", u, v, m.HasEdge(u, v), r[u][v])
				}
			}
		}
	}
	// --- LongestPath
	{
		var p []int
		if err := core.Guard(func() { p = graph.LongestPath(adj) }); err != nil {
			return "longest:panic", err.Error()
		}
		cyclic := false
		for v := 0; v < n; v++ {
			if r[v][v] {
				cyclic = true
			}
		}
		if cyclic != (p == nil) {
			return "longest:nil-iff-cyclic", fmt.Sprintf("cyclic=%v path=%v", cyclic, p)
		}
		if !cyclic {
			// DP maximum (number of vertices on the longest path)
			memo := make([]int, n)
			var h func(v int) int
			h = func(v int) int {
				if memo[v] != 0 {
					return memo[v]
				}
				best := 1
				for _, w := range adj[v] {
					if x := h(w) + 1; x > best {
						best = x
					}
				}
				memo[v] = best
				return best
			}
			best := 0
			for v := 0; v < n; v++ {
				if x := h(v); x > best {
					best = x
				}
			}
			if len(p) != best {
				return "longest:length", fmt.Sprintf("path %v has %d vertices, maximum is %d", p, len(p), best)
			}
			for i := 0; i+1 < len(p); i++ {
				ok := false
				for _, w := range adj[p[i]] {
					if w == p[i+1] {
						ok = true
					}
				}
				if !ok {
					return "longest:not-a-path", fmt.Sprintf("%v: no edge %d->%d", p, p[i], p[i+1])
				}
			}
		}
	}
	if fmt.Sprint(orig) != fmt.Sprint(adj) {
		return "input-mutated", "an algorithm modified its input graph"
	}
	return "", ""
}

func adjFromMask(n int, mask uint64, selfLoops bool, order int) [][]int {
	adj := make([][]int, n)
	bit := 0
	for u := 0; u < n; u++ {
		for v := 0; v < n; v++ {
			if u == v && !selfLoops {
				continue
			}
			if mask>>uint(bit)&1 == 1 {
				adj[u] = append(adj[u], v)
			}
			bit++
		}
	}
	switch order {
	case 1: // descending
		for u := range adj {
			for i, j := 0, len(adj[u])-1; i < j; i, j = i+1, j-1 {
				adj[u][i], adj[u][j] = adj[u][j], adj[u][i]
			}
		}
	case 2: // rotate by one
		for u := range adj {
			if len(adj[u]) > 1 {
				adj[u] = append(adj[u][1:], adj[u][0])
			}
		}
	}
	for u := range adj {
		if adj[u] == nil {
			adj[u] = []int{}
		}
	}
	return adj
}

func run(c *core.Ctx) {
	c.Rule("every digraph on n vertices as adjacency lists (n<=4 with self-loops, 3 adjacency orders; n<=3 multigraphs with edge multiplicity<=2; thorough: n=5 without self-loops and n=5 with self-loops restricted to <=9 edges); non-trivial = graph has >=1 edge; distinct by (n, edge mask, order)")
	type job struct {
		n     int
		self  bool
		bits  int
		order int
	}
	var jobs []job
	for n := 1; n <= 4; n++ {
		for o := 0; o < 3; o++ {
			jobs = append(jobs, job{n, true, n * n, o})
		}
	}
	if !c.Quick() {
		for o := 0; o < 2; o++ {
			jobs = append(jobs, job{5, false, 20, o})
		}
	}
	classes := map[string]bool{}
	for _, j := range jobs {
		total := uint64(1) << uint(j.bits)
		const chunk = 4096
		nchunks := int((total + chunk - 1) / chunk)
		core.ParallelFor(nchunks, 16, func(ci int) {
			lo := uint64(ci) * chunk
			hi := lo + chunk
			if hi > total {
				hi = total
			}
			var nt int64
			for mask := lo; mask < hi; mask++ {
				adj := adjFromMask(j.n, mask, j.self, j.order)
				if mask != 0 {
					nt++
				}
				if key, msg := checkGraph(j.n, adj); key != "" {
					c.Violate(key, msg, gcase{N: j.n, Adj: adjFromMask(j.n, mask, j.self, j.order)})
				}
			}
			c.Eval(int64(hi - lo))
			c.Nontrivial(nt)
		})
		c.Sample(gcase{N: j.n, Adj: adjFromMask(j.n, (uint64(1)<<uint(j.bits))*5/7, j.self, j.order)})
	}
	// multigraphs n<=3, multiplicity 0..2 per ordered pair
	for n := 2; n <= 3; n++ {
		cells := n * n
		total := 1
		for i := 0; i < cells; i++ {
			total *= 3
		}
		var nt int64
		for code := 0; code < total; code++ {
			adj := make([][]int, n)
			x := code
			for u := 0; u < n; u++ {
				adj[u] = []int{}
			}
			for cell := 0; cell < cells; cell++ {
				m := x % 3
				x /= 3
				for k := 0; k < m; k++ {
					adj[cell/n] = append(adj[cell/n], cell%n)
				}
			}
			if code != 0 {
				nt++
			}
			if key, msg := checkGraph(n, adj); key != "" {
				c.Violate(key+":multi", msg, gcase{N: n, Adj: adj})
			}
		}
		c.Eval(int64(total))
		c.Nontrivial(nt)
	}
	_ = classes
	// outcome classes: count cyclic / acyclic / #components spectrum on n=3 to show non-vacuity
	for mask := uint64(0); mask < 512; mask++ {
		adj := adjFromMask(3, mask, true, 0)
		ncomp := 0
		graph.Tarjan(adj, func(vs []int, _ container.BitSet) { ncomp++ })
		p := graph.LongestPath(adj)
		c.Outcome(fmt.Sprintf("n3:comps=%d,pathlen=%d", ncomp, len(p)), 1)
	}
}

func replay(c *core.Ctx, raw json.RawMessage) error {
	var g gcase
	if err := json.Unmarshal(raw, &g); err != nil {
		return err
	}
	if key, msg := checkGraph(g.N, g.Adj); key != "" {
		return fmt.Errorf("%s: %s", key, msg)
	}
	return nil
}
