// C12: tokenization always progresses, tiles the input and tracks lines — for the SHIPPED lexers
// js (3 dialects), tm, json, test, simple.
//
// E: every byte string of length <= 4 (quick) / <= 6 (thorough) over a 14-byte alphabet per lexer
// (with and without a leading BOM) plus the seed texts of internal/shipped with all their 1- and
// 2-edit mutations (delete, duplicate, replace by an alphabet byte) in both tiers (they are cheap).
// O: shipped.CheckLexer — EOI within 4*len+8 calls, EOI repeats at the end, no empty token, source
// order, gaps are (skipped space rule)* after an optional BOM, Line()/Column() = position of the
// first byte.
//
// TODO(C12, generated lexers): the lexers generated from enumerated grammars are exercised by the
// C11 harness; see the TODO in internal/shipped/lexers.go for the hook.
package main

import (
	"encoding/json"
	"fmt"
	"sort"
	"strings"
	"sync"

	"verif/internal/core"
	"verif/internal/shipped"
)

type lcase struct {
	Lexer  string `json:"lexer"`
	Input  []byte `json:"input"` // base64 in JSON
	Quoted string `json:"quoted"`
}

func main() { core.Main("C12", "exploration", run, replay, nil) }

// checkOne runs the oracle on one input; a panic of the lexer becomes a finding.
func checkOne(lx *shipped.Lexer, src string, st *shipped.LexStats) []shipped.Finding {
	var fs []shipped.Finding
	if err := core.Guard(func() { fs = shipped.CheckLexer(lx, src, st) }); err != nil {
		return []shipped.Finding{{Key: lx.Name + ":panic:" + core.PanicSite(err),
			What: fmt.Sprintf("%s lexer, input %s: %v", lx.Name, shipped.Quote(src), err)}}
	}
	return fs
}

type best struct {
	seq   int64
	what  string
	input string
	lexer string
	count int64
}

type collector struct {
	mu sync.Mutex
	m  map[string]*best
}

func (k *collector) add(key string, seq int64, lexer, input, what string) {
	k.mu.Lock()
	defer k.mu.Unlock()
	b := k.m[key]
	if b == nil {
		k.m[key] = &best{seq: seq, what: what, input: input, lexer: lexer, count: 1}
		return
	}
	b.count++
	if seq < b.seq {
		b.seq, b.what, b.input, b.lexer = seq, what, input, lexer
	}
}

func run(c *core.Ctx) {
	maxLen, edits := 4, 2
	if !c.Quick() {
		maxLen = shipped.MaxShortLen
	}
	c.Rule(fmt.Sprintf("per shipped lexer (tm, js x 3 dialects, json, test, simple): every byte string of length <= %d over its 14-byte alphabet, each without and with a leading BOM, then every seed text with all its <= %d-edit mutations (delete / duplicate / replace by an alphabet byte), duplicates removed per group (groups are provably disjoint: checked at start-up); non-trivial = the lexer returned >= 2 tokens before EOI and the input exercised an invalid token, a skipped gap, a token on line > 1 or a non-ASCII byte", maxLen, edits))
	c.Assume("the (space) rule languages were transcribed by hand from the .tm grammars (see comments in internal/shipped/lexers.go); rules that are (space) but %inject-ed are returned by the generated lexers and are treated as tokens")
	c.Assume("generated lexers of enumerated grammars are covered by C11, not here")
	c.Set("max_len", maxLen)
	c.Set("edits", edits)

	col := &collector{m: map[string]*best{}}
	var seqBase int64
	sampled := map[string]int{}

	runGroup := func(cfg *shipped.LexerConfig, name string, n int, get func(i int) string) {
		const chunk = 2048
		nchunks := (n + chunk - 1) / chunk
		base := seqBase
		seqBase += int64(n)
		var expired bool
		var emu sync.Mutex
		core.ParallelFor(nchunks, 16, func(ci int) {
			if c.Expired() {
				emu.Lock()
				expired = true
				emu.Unlock()
				return
			}
			lx := cfg.New()
			lo, hi := ci*chunk, (ci+1)*chunk
			if hi > n {
				hi = n
			}
			var nt int64
			out := map[string]int64{}
			var st shipped.LexStats
			for i := lo; i < hi; i++ {
				src := get(i)
				st = shipped.LexStats{Kinds: st.Kinds[:0]}
				fs := checkOne(lx, src, &st)
				nonASCII := false
				for j := 0; j < len(src); j++ {
					if src[j] >= 0x80 {
						nonASCII = true
						break
					}
				}
				if st.Tokens >= 2 && (st.Invalid > 0 || st.Gaps > 0 || st.MaxLine > 1 || nonASCII) {
					nt++
				}
				for _, k := range st.Kinds {
					out[lx.Name+":tok:"+lx.TokName(k)]++
				}
				if st.Invalid > 0 {
					out[lx.Name+":has-invalid-token"]++
				}
				if st.MaxLine > 1 {
					out[lx.Name+":multi-line"]++
				}
				if st.Gaps > 0 {
					out[lx.Name+":has-skipped-gap"]++
				}
				seen := map[string]bool{}
				for _, f := range fs {
					if seen[f.Key] {
						continue // one occurrence per input and key
					}
					seen[f.Key] = true
					col.add(f.Key, base+int64(i), lx.Name, src, f.What)
				}
			}
			c.Eval(int64(hi - lo))
			c.Nontrivial(nt)
			for k, v := range out {
				c.Outcome(k, v)
			}
		})
		if expired {
			c.Capped(fmt.Sprintf("%s %s: soft budget passed", cfg.Name, name))
		}
		c.Add("inputs:"+cfg.Name, int64(n))
		if sampled[cfg.Name] < 1 && n > 0 && strings.Contains(name, "seed") {
			sampled[cfg.Name]++
			s := get(n / 2)
			c.Sample(lcase{Lexer: cfg.Name, Input: []byte(s), Quoted: shipped.Quote(s)})
		}
	}

	// simplest first: short strings of every lexer, then the seed mutations
	for _, lang := range shipped.Langs {
		for i := range shipped.LexerConfigs {
			cfg := &shipped.LexerConfigs[i]
			if cfg.Lang != lang.Name {
				continue
			}
			runGroup(cfg, fmt.Sprintf("short<=%d", maxLen), lang.ShortCount(maxLen), lang.Short)
		}
	}
	for _, lang := range shipped.Langs {
		for s := range lang.Seeds {
			if c.Expired() {
				c.Capped(fmt.Sprintf("%s seed %d and later: soft budget passed", lang.Name, s))
				break
			}
			g := lang.SeedGroup(s, edits)
			for i := range shipped.LexerConfigs {
				cfg := &shipped.LexerConfigs[i]
				if cfg.Lang != lang.Name {
					continue
				}
				runGroup(cfg, g.Name, len(g.Inputs), func(i int) string { return g.Inputs[i] })
			}
		}
	}

	keys := make([]string, 0, len(col.m))
	for k := range col.m {
		keys = append(keys, k)
	}
	sort.Strings(keys)
	for _, k := range keys {
		b := col.m[k]
		rep := lcase{Lexer: b.lexer, Input: []byte(b.input), Quoted: shipped.Quote(b.input)}
		for i := int64(0); i < b.count; i++ {
			c.Violate(k, b.what, rep) // first call records the smallest case, the rest count
		}
	}
}

func replay(c *core.Ctx, raw json.RawMessage) error {
	var lc lcase
	if err := json.Unmarshal(raw, &lc); err != nil {
		return err
	}
	cfg := shipped.LexerConfigByName(lc.Lexer)
	if cfg == nil {
		return fmt.Errorf("unknown lexer %q", lc.Lexer)
	}
	var st shipped.LexStats
	fs := checkOne(cfg.New(), string(lc.Input), &st)
	if len(fs) == 0 {
		return nil
	}
	var parts []string
	for _, f := range fs {
		parts = append(parts, f.Key+": "+f.What)
	}
	return fmt.Errorf("%s", strings.Join(parts, "; "))
}
