// C07: LALR(k) resolution never changes the accepted language.
// Layer A: grammars whose reduce/reduce conflicts need 2..k tokens are compiled with
// lalr.Options{Lookahead: k} (k = 1..8); whenever the compile succeeds, every token string <= L is
// run through the table interpreter (incl. the transcription of resolveDeepLA) and compared with
// the CFG oracle.
package main

import (
	"encoding/json"
	"fmt"
	"sort"
	"sync"
	"sync/atomic"

	"github.com/inspirer/textmapper/lalr"

	"verif/internal/cfgoracle"
	"verif/internal/core"
	"verif/internal/gramenum"
	"verif/internal/tabinterp"
)

type caseT struct {
	Grammar string           `json:"grammar"`
	G       *gramenum.Gram   `json:"g"`
	Inputs  []gramenum.Input `json:"inputs"`
	K       int              `json:"k"`
	Min     bool             `json:"minimize_dfa,omitempty"` // also minimize the automaton (states resolved by different lookahead automata must stay apart)
	Input   int              `json:"input"`
	W       string           `json:"w"`
}

func main() { core.Main("C07", "exploration", run, replay, nil) }

func words(alpha []int, maxLen int, withEmpty bool) [][]int {
	var out [][]int
	if withEmpty {
		out = append(out, nil)
	}
	var rec func(cur []int)
	rec = func(cur []int) {
		if len(cur) > 0 {
			out = append(out, append([]int{}, cur...))
		}
		if len(cur) == maxLen {
			return
		}
		for _, a := range alpha {
			rec(append(cur, a))
		}
	}
	rec(nil)
	return out
}

// family builds the grammars S: A u x | B u y with A: w, B: w' and variants.
// terminals: 1=a 2=b 3=c 4=d ; nonterminals: 5=S 6=A 7=B 8=U 9=E(nullable)
func family(quick bool) []*gramenum.Gram {
	var out []*gramenum.Gram
	ab := []int{1, 2}
	maxU := 3
	if quick {
		maxU = 2
	}
	for _, w := range words(ab, 2, false) {
		for _, u := range words(ab, maxU, true) {
			// plain
			g := &gramenum.Gram{T: 4, N: 3}
			g.Rules = append(g.Rules,
				gramenum.Rule{LHS: 5, RHS: append(append([]int{6}, u...), 3)},
				gramenum.Rule{LHS: 5, RHS: append(append([]int{7}, u...), 4)},
				gramenum.Rule{LHS: 6, RHS: w},
				gramenum.Rule{LHS: 7, RHS: w})
			out = append(out, g)
			if len(u) > 0 {
				// shared suffix nonterminal U: u
				h := &gramenum.Gram{T: 4, N: 4}
				h.Rules = append(h.Rules,
					gramenum.Rule{LHS: 5, RHS: []int{6, 8, 3}},
					gramenum.Rule{LHS: 5, RHS: []int{7, 8, 4}},
					gramenum.Rule{LHS: 6, RHS: w},
					gramenum.Rule{LHS: 7, RHS: w},
					gramenum.Rule{LHS: 8, RHS: u})
				out = append(out, h)
				// nullable symbol in the middle of the suffix: E: %empty | a
				e := &gramenum.Gram{T: 4, N: 5}
				mid := append(append([]int{}, u[:len(u)/2]...), 9)
				mid = append(mid, u[len(u)/2:]...)
				e.Rules = append(e.Rules,
					gramenum.Rule{LHS: 5, RHS: append(append([]int{6}, mid...), 3)},
					gramenum.Rule{LHS: 5, RHS: append(append([]int{7}, u...), 4)},
					gramenum.Rule{LHS: 6, RHS: w},
					gramenum.Rule{LHS: 7, RHS: w},
					gramenum.Rule{LHS: 8, RHS: []int{1}}, // keeps U defined (unused)
					gramenum.Rule{LHS: 9, RHS: nil},
					gramenum.Rule{LHS: 9, RHS: []int{1}})
				out = append(out, e)
				// two conflicts sharing lookahead structure: a second pair C/D with the same suffix
				t := &gramenum.Gram{T: 4, N: 3}
				t.Rules = append(t.Rules,
					gramenum.Rule{LHS: 5, RHS: append(append([]int{6}, u...), 3)},
					gramenum.Rule{LHS: 5, RHS: append(append([]int{7}, u...), 4)},
					gramenum.Rule{LHS: 5, RHS: append(append([]int{3, 6}, u...), 4)},
					gramenum.Rule{LHS: 5, RHS: append(append([]int{3, 7}, u...), 3)},
					gramenum.Rule{LHS: 6, RHS: w},
					gramenum.Rule{LHS: 7, RHS: w})
				out = append(out, t)
			}
		}
	}
	return out
}

type counters struct{ compiled, deep, rejected, parses int64 }

var (
	deepMu    sync.Mutex
	deepCands []caseT // successful family compiles that used deep lookahead (Layer B candidates)
)

func tokensOf(w string) []int {
	out := make([]int, len(w))
	for i := range w {
		out[i] = int(w[i]-'a') + 1
	}
	return out
}

func checkCase(k caseT, L int, cnt *counters, c *core.Ctx) {
	lg := k.G.ToLalr(k.Inputs)
	var tbl *lalr.Tables
	var cerr error
	if err := core.Guard(func() { tbl, cerr = lalr.Compile(lg, lalr.Options{Lookahead: k.K, MinimizeDFA: k.Min}) }); err != nil {
		c.Violate("panic:"+core.PanicSite(err), err.Error()+" :: "+k.Grammar, k)
		return
	}
	c.Eval(1)
	if cerr != nil {
		atomic.AddInt64(&cnt.rejected, 1)
		c.Outcome("compile-error(not-resolvable-with-k)", 1)
		return // the property only constrains successful compiles
	}
	atomic.AddInt64(&cnt.compiled, 1)
	if tbl.UsedLADepth > 0 {
		atomic.AddInt64(&cnt.deep, 1)
		if len(k.Inputs) == 1 && k.Inputs[0].Eoi && k.G.T >= 4 {
			deepMu.Lock()
			deepCands = append(deepCands, k)
			deepMu.Unlock()
		}
		c.Outcome(fmt.Sprintf("resolved-with-%d-tokens", tbl.UsedLADepth), 1)
		if tbl.UsedLADepth > k.K {
			c.Violate("depth-exceeds-k", fmt.Sprintf("UsedLADepth=%d but lalr(%d) was requested", tbl.UsedLADepth, k.K)+" :: "+k.Grammar, k)
		}
	} else {
		c.Outcome("plain-lalr1", 1)
	}
	o := cfgoracle.New(k.G, L)
	m := &tabinterp.Machine{T: tbl, Terms: k.G.T + 1}
	for in := range k.Inputs {
		gramenum.AllStrings(k.G.T, L, func(w string) {
			atomic.AddInt64(&cnt.parses, 1)
			tr := m.Run(in, tokensOf(w))
			exp := o.Verdict(k.Inputs[in].NT, k.Inputs[in].Eoi, w)
			last := tr.Last()
			kk := k
			kk.Input, kk.W = in, w
			cls := inputClass(k.Inputs)
			switch last.Kind {
			case tabinterp.Accept:
				if !exp.Accept {
					c.Violate("accepts-non-sentence:"+cls, fmt.Sprintf("lalr(%d) parser accepts %q (trace %s) :: %s", k.K, w, tr, k.Grammar), kk)
				}
			case tabinterp.Error:
				if exp.Accept {
					c.Violate("rejects-sentence:"+cls, fmt.Sprintf("lalr(%d) parser rejects sentence %q (trace %s) :: %s", k.K, w, tr, k.Grammar), kk)
				}
			default:
				c.Violate("nontermination-or-broken-tables:"+cls, fmt.Sprintf("lalr(%d) on %q: %s :: %s", k.K, w, tr, k.Grammar), kk)
			}
		})
	}
}

// inputClass names the input configuration class for violation keys.
func inputClass(inputs []gramenum.Input) string {
	seen := map[int]bool{}
	noeoi := false
	dup := false
	for _, in := range inputs {
		if seen[in.NT] {
			dup = true
		}
		seen[in.NT] = true
		if !in.Eoi {
			noeoi = true
		}
	}
	switch {
	case dup:
		return "same-nonterminal-twice"
	case len(inputs) > 1 && noeoi:
		return "several-inputs-with-no-eoi"
	case len(inputs) > 1:
		return "several-inputs"
	case noeoi:
		return "single-no-eoi-input"
	}
	return "single-input"
}

// family2: two conflict groups in one grammar, which need different amounts of lookahead and
// share (or do not share) lookahead-automaton structure:
//
//	S: A u1 tc | B u1 td | A u2 te | B u2 tf ;  A: ta ;  B: ta
//
// for all unordered pairs of distinct words u1,u2 over {a,b}. terminals: 1=a 2=b 3=c 4=d 5=e 6=f;
// nonterminals 7=S 8=A 9=B.
func family2(maxU int) []*gramenum.Gram {
	var out []*gramenum.Gram
	ws := words([]int{1, 2}, maxU, false)
	for i, u1 := range ws {
		for _, u2 := range ws[i+1:] {
			g := &gramenum.Gram{T: 6, N: 3}
			g.Rules = append(g.Rules,
				gramenum.Rule{LHS: 7, RHS: append(append([]int{8}, u1...), 3)},
				gramenum.Rule{LHS: 7, RHS: append(append([]int{9}, u1...), 4)},
				gramenum.Rule{LHS: 7, RHS: append(append([]int{8}, u2...), 5)},
				gramenum.Rule{LHS: 7, RHS: append(append([]int{9}, u2...), 6)},
				gramenum.Rule{LHS: 8, RHS: []int{1}},
				gramenum.Rule{LHS: 9, RHS: []int{1}})
			out = append(out, g)
		}
	}
	return out
}

// family3: two conflict STATES with the same conflict terminals and lookahead words but opposite
// resolutions, which a state minimizer must keep apart:
//
//	S: A u tc | B u td | tp C u td | tp D u tc ;  A: te ;  B: te ;  C: tf ;  D: tf
//
// terminals: 1=a 2=b 3=c 4=d 5=p 6=e 7=f; nonterminals 8=S 9=A 10=B 11=C 12=D.
func family3(maxU int) []*gramenum.Gram {
	var out []*gramenum.Gram
	for _, u := range words([]int{1, 2}, maxU, false) {
		g := &gramenum.Gram{T: 7, N: 5}
		g.Rules = append(g.Rules,
			gramenum.Rule{LHS: 8, RHS: append(append([]int{9}, u...), 3)},
			gramenum.Rule{LHS: 8, RHS: append(append([]int{10}, u...), 4)},
			gramenum.Rule{LHS: 8, RHS: append(append([]int{5, 11}, u...), 4)},
			gramenum.Rule{LHS: 8, RHS: append(append([]int{5, 12}, u...), 3)},
			gramenum.Rule{LHS: 9, RHS: []int{6}},
			gramenum.Rule{LHS: 10, RHS: []int{6}},
			gramenum.Rule{LHS: 11, RHS: []int{7}},
			gramenum.Rule{LHS: 12, RHS: []int{7}})
		out = append(out, g)
	}
	return out
}

// family4: three conflict terminals after the same pair of reductions, whose depth-3 lookahead
// automata share their upper levels (the same second token) and differ in the orientation of the
// leaves; every orientation of the three groups (2^3) and every order of the groups:
//
//	S: A x1 tb y1 | B x1 tb z1 | A x2 tb y2 | B x2 tb z2 | A x3 tb y3 | B x3 tb z3 ;  A: te ;  B: te
//
// with {y_i, z_i} = {tc, td}. terminals: 1=a 2=b 3=c 4=d 5=g 6=h 7=e; nonterminals 8=S 9=A 10=B.
func family4() []*gramenum.Gram {
	var out []*gramenum.Gram
	firsts := [][]int{{1, 5, 6}, {5, 1, 6}, {6, 5, 1}}
	for _, fs := range firsts {
		for mask := 0; mask < 8; mask++ {
			g := &gramenum.Gram{T: 7, N: 3}
			for i, x := range fs {
				y, z := 3, 4
				if mask>>i&1 == 1 {
					y, z = 4, 3
				}
				g.Rules = append(g.Rules,
					gramenum.Rule{LHS: 8, RHS: []int{9, x, 2, y}},
					gramenum.Rule{LHS: 8, RHS: []int{10, x, 2, z}})
			}
			g.Rules = append(g.Rules, gramenum.Rule{LHS: 9, RHS: []int{7}}, gramenum.Rule{LHS: 10, RHS: []int{7}})
			out = append(out, g)
		}
	}
	return out
}

func run(c *core.Ctx) {
	L := 6
	if !c.Quick() {
		L = 7
	}
	c.Set("L", L)
	c.Rule("(a) family S: A u x | B u y, A: w, B: w for all words w (|w|<=2), u (|u|<=2 quick / 3 thorough) over {a,b}, with variants: shared suffix nonterminal, nullable symbol inside the suffix, a second conflict pair sharing the lookahead automaton; eoi and no-eoi input; k = 1..8, for k = 2..4 also with minimizeDFA; (a2) two-group family S: A u1 tc | B u1 td | A u2 te | B u2 tf for all unordered pairs of distinct words (|u|<=2 quick / 3 thorough), k=1..4/8; (a3) two-state family S: A u tc | B u td | tp C u td | tp D u tc (A,B: te; C,D: tf) for all words |u|<=2, k=1..4 x minimizeDFA off/on; (a4) three-group family: three conflict terminals whose depth-3 automata share their upper level, all 8 leaf orientations x 3 group orders, k=2..4; (b) every reduced rule set of the tiny scope compiled with lalr(2) and lalr(3). For every successful compile every token string <= L vs the CFG oracle. non-trivial = successful compile that used deep lookahead (UsedLADepth>0)")
	var cnt counters
	fam := family(c.Quick())
	type job struct {
		g   *gramenum.Gram
		k   int
		eoi bool
		min bool
	}
	var jobs []job
	for _, g := range fam {
		for k := 1; k <= 8; k++ {
			jobs = append(jobs, job{g, k, true, false})
			if k <= 4 {
				jobs = append(jobs, job{g, k, false, false})
			}
			if k >= 2 && k <= 4 {
				jobs = append(jobs, job{g, k, true, true}) // + minimizeDFA
			}
		}
	}
	core.ParallelFor(len(jobs), 16, func(i int) {
		if c.Expired() {
			c.Capped("family not completed (budget)")
			return
		}
		j := jobs[i]
		checkCase(caseT{Grammar: j.g.String(), G: j.g, Inputs: []gramenum.Input{{NT: 5, Eoi: j.eoi}}, K: j.k, Min: j.min}, L, &cnt, c)
	})
	// two-group family
	maxU2, L2, maxK2 := 2, 4, 4
	if !c.Quick() {
		maxU2, L2, maxK2 = 3, 5, 8
	}
	fam2 := family2(maxU2)
	var jobs2 []job
	for _, g := range fam2 {
		for k := 1; k <= maxK2; k++ {
			jobs2 = append(jobs2, job{g, k, true, false})
			if k == 2 || k == 3 {
				jobs2 = append(jobs2, job{g, k, true, true})
			}
		}
	}
	core.ParallelFor(len(jobs2), 16, func(i int) {
		if c.Expired() {
			c.Capped("two-group family not completed (budget)")
			return
		}
		j := jobs2[i]
		checkCase(caseT{Grammar: j.g.String(), G: j.g, Inputs: []gramenum.Input{{NT: 7, Eoi: true}}, K: j.k, Min: j.min}, L2, &cnt, c)
	})
	// two-state family
	fam3 := family3(2)
	var jobs3 []job
	for _, g := range fam3 {
		for k := 1; k <= 4; k++ {
			jobs3 = append(jobs3, job{g, k, true, false}, job{g, k, true, true})
		}
	}
	core.ParallelFor(len(jobs3), 16, func(i int) {
		if c.Expired() {
			c.Capped("two-state family not completed (budget)")
			return
		}
		j := jobs3[i]
		checkCase(caseT{Grammar: j.g.String(), G: j.g, Inputs: []gramenum.Input{{NT: 8, Eoi: true}}, K: j.k, Min: j.min}, len(j.g.Rules[2].RHS)+1, &cnt, c)
	})
	// three-group family (several multi-level automata in one compile)
	fam4 := family4()
	var jobs4 []job
	for _, g := range fam4 {
		for k := 2; k <= 4; k++ {
			jobs4 = append(jobs4, job{g, k, true, false})
		}
		jobs4 = append(jobs4, job{g, 3, true, true})
	}
	core.ParallelFor(len(jobs4), 16, func(i int) {
		if c.Expired() {
			c.Capped("three-group family not completed (budget)")
			return
		}
		j := jobs4[i]
		checkCase(caseT{Grammar: j.g.String(), G: j.g, Inputs: []gramenum.Input{{NT: 8, Eoi: true}}, K: j.k, Min: j.min}, 4, &cnt, c)
	})
	c.Set("three_group_family_grammars", len(fam4))
	c.Set("two_state_family_grammars", len(fam3))
	c.Set("two_group_family_grammars", len(fam2))
	c.Set("family_grammars", len(fam))
	c.Sample(map[string]any{"grammar": fam[3].String(), "k": "1..8"})
	// (b)
	scopes := []gramenum.Scope{{N: 2, T: 2, R: 4, K: 2, Reduced: true}}
	if !c.Quick() {
		scopes = append(scopes, gramenum.Scope{N: 1, T: 2, R: 4, K: 3, Reduced: true}, gramenum.Scope{N: 3, T: 2, R: 4, K: 2, Reduced: true}, gramenum.Scope{N: 2, T: 2, R: 5, K: 2, Reduced: true})
	}
	for _, sc := range scopes {
		if c.Expired() {
			c.Capped(fmt.Sprintf("scope %+v not started (budget)", sc))
			continue
		}
		const block = 1024
		var batch []*gramenum.Gram
		stopped := false
		flush := func() {
			gs := batch
			batch = nil
			core.ParallelFor(len(gs), 16, func(i int) {
				g := gs[i]
				for _, inputs := range gramenum.InputConfigs(g) {
					for _, k := range []int{2, 3} {
						checkCase(caseT{Grammar: g.String(), G: g, Inputs: inputs, K: k}, 5, &cnt, c)
					}
				}
			})
		}
		n := gramenum.Enumerate(sc, func(idx int, g *gramenum.Gram) bool {
			batch = append(batch, g.Clone())
			if len(batch) >= block {
				flush()
				if c.Expired() {
					stopped = true
					return false
				}
			}
			return true
		})
		flush()
		if stopped {
			c.Capped(fmt.Sprintf("scope %+v stopped after %d grammars (budget)", sc, n))
		}
		c.Add("tiny_scope_grammars", int64(n))
	}
	sort.Slice(deepCands, func(i, j int) bool {
		if deepCands[i].Grammar != deepCands[j].Grammar {
			return deepCands[i].Grammar < deepCands[j].Grammar
		}
		return deepCands[i].K < deepCands[j].K
	})
	if c.Quick() {
		layerB(c, deepCands, 60)
	} else {
		layerB(c, deepCands, 1500)
	}
	c.Nontrivial(cnt.deep)
	c.Set("successful_compiles", cnt.compiled)
	c.Set("compiles_using_deep_lookahead", cnt.deep)
	c.Set("compile_errors_outside_property", cnt.rejected)
	c.Set("parses_compared", cnt.parses)
}

func replay(c *core.Ctx, raw json.RawMessage) error {
	var k caseT
	if err := json.Unmarshal(raw, &k); err != nil {
		return err
	}
	lg := k.G.ToLalr(k.Inputs)
	tbl, err := lalr.Compile(lg, lalr.Options{Lookahead: k.K, MinimizeDFA: k.Min})
	if err != nil {
		return nil
	}
	o := cfgoracle.New(k.G, max(6, len(k.W)))
	m := &tabinterp.Machine{T: tbl, Terms: k.G.T + 1}
	tr := m.Run(k.Input, tokensOf(k.W))
	exp := o.Verdict(k.Inputs[k.Input].NT, k.Inputs[k.Input].Eoi, k.W)
	if (tr.Last().Kind == tabinterp.Accept) != exp.Accept {
		return fmt.Errorf("parser %s, oracle accept=%v", tr, exp.Accept)
	}
	return nil
}
