package main

import (
	"fmt"

	"verif/internal/cfgoracle"
	"verif/internal/core"
	"verif/internal/genharness"
	"verif/internal/gramenum"
	"verif/internal/tabinterp"
)

// Layer B: the deep-lookahead decoding as generated Go code (resolveDeepLA copies the lexer and
// walks the lookahead automaton). Family grammars whose compile with lalr(k) succeeds and actually
// uses deep lookahead are printed as .tm text (":: parser lalr(k)", every rule annotated), generated,
// built and run on every string <= LB; verdict and error offset are compared with the CFG oracle and
// the reduction sequence with the table interpreter on the tables the generator used (conformance of
// the Layer-A model, including its transcription of resolveDeepLA).
func layerB(c *core.Ctx, cands []caseT, maxGrammars int) {
	if len(cands) > maxGrammars {
		var sel []caseT
		for i := 0; i < maxGrammars; i++ {
			sel = append(sel, cands[i*len(cands)/maxGrammars])
		}
		c.Capped(fmt.Sprintf("Layer B: %d of %d deep-lookahead compiles generated and built (deterministic stride)", maxGrammars, len(cands)))
		cands = sel
	}
	const batch = 60
	for start := 0; start < len(cands); start += batch {
		if c.Expired() {
			c.Capped(fmt.Sprintf("Layer B stopped after %d grammars (budget)", start))
			return
		}
		end := min(start+batch, len(cands))
		var specs []genharness.Spec
		for i := start; i < end; i++ {
			k := cands[i]
			name := fmt.Sprintf("g%04d", i)
			var opts []string
			if i%2 == 1 {
				opts = []string{"minimizeDFA = true"}
			}
			tm := k.G.ToTM(k.Inputs, gramenum.TMOpts{Name: name, Events: true, Parser: fmt.Sprintf("lalr(%d)", k.K), Options: opts})
			LB := 5
			if k.G.T > 4 {
				LB = 4
			}
			var cases []genharness.Case
			gramenum.AllStrings(k.G.T, LB, func(w string) { cases = append(cases, genharness.Case{Text: w, Mode: "parse"}) })
			specs = append(specs, genharness.Spec{Name: name, TM: tm, Cases: cases})
		}
		outs, err := genharness.RunBatch(specs, genharness.BatchOpts{})
		if err != nil {
			c.Violate("layerB:harness", err.Error(), nil)
			return
		}
		for bi, out := range outs {
			k := cands[start+bi]
			rc := map[string]any{"tm": specs[bi].TM}
			switch {
			case out.GenPanic != "":
				c.Violate("layerB:generate-panic", out.GenPanic, rc)
				continue
			case out.GenErr != "":
				c.Add("layerB_rejected_by_frontend", 1)
				continue
			case out.BuildErr != "":
				c.Violate("layerB:generated-code-does-not-build", out.BuildErr, rc)
				continue
			}
			c.Add("layerB_grammars_built", 1)
			pg := out.Grammar
			if pg.Parser.Tables.UsedLADepth > 0 {
				c.Add("layerB_grammars_with_deep_lookahead", 1)
			}
			LB := 5
			if k.G.T > 4 {
				LB = 4
			}
			o := cfgoracle.New(k.G, LB)
			m := &tabinterp.Machine{T: pg.Parser.Tables, Terms: pg.Parser.NumTerminals}
			termOf := map[byte]int{}
			for i, s := range pg.Syms[:pg.NumTokens] {
				if len(s.Name) == 2 && s.Name[0] == 't' {
					termOf[s.Name[1]] = i
				}
			}
			for ci, cs := range specs[bi].Cases {
				res := out.Results[ci]
				w := cs.Text
				c.Eval(1)
				if res.Panic != "" || res.Hang || res.Aborted {
					c.Violate("layerB:parser-crash-or-hang", fmt.Sprintf("%+v on %q", res, w), rc)
					continue
				}
				exp := o.Verdict(k.Inputs[0].NT, k.Inputs[0].Eoi, w)
				if res.Accept != exp.Accept {
					c.Violate("layerB:verdict", fmt.Sprintf("generated lalr(%d) parser accept=%v, oracle accept=%v for %q :: %s", k.K, res.Accept, exp.Accept, w, k.Grammar), map[string]any{"tm": specs[bi].TM, "text": w})
					continue
				}
				toks := make([]int, len(w))
				for i := range w {
					toks[i] = termOf[w[i]]
				}
				tr := m.Run(0, toks)
				var want, got []string
				for _, st := range tr {
					if st.Kind == tabinterp.Reduce {
						if r := pg.Parser.Rules[st.Arg]; r.Type >= 0 {
							want = append(want, pg.Parser.Types.RangeTypes[r.Type].Name)
						}
					}
				}
				for _, e := range res.Events {
					got = append(got, e.Type)
				}
				if fmt.Sprint(got) != fmt.Sprint(want) || (tr.Last().Kind == tabinterp.Accept) != res.Accept {
					c.Violate("model-divergence:interpreter-vs-generated-parser", fmt.Sprintf("on %q: generated events %v accept=%v; interpreter trace %s", w, got, res.Accept, tr), map[string]any{"tm": specs[bi].TM, "text": w})
					continue
				}
				c.Add("layerB_traces_validated", 1)
			}
		}
	}
}
