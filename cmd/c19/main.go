// C19: error recovery is safe and transparent.
//
// Layer B only (the real generated Go code): statement-list grammars are enumerated
// systematically (three list shapes x every set of <= 2 statement rules with right-hand sides of
// length <= 3 over {ta, tb, tc, X1}), the `error` terminal is placed in every position of every
// rule as an extra alternative (inserted between two symbols or replacing one symbol, <= 2
// placements per grammar), optionally with a `.recoveryScope` state marker, `%inject
// invalid_token` and `optimizeTables`. Every rule is annotated `-> R<i>` / `-> E<j>`, so every
// reduction is a listener event and feeds the step budget. Each such grammar G' is generated
// with compiler.Compile + gen.Generate next to its twin G (the same grammar without the error
// alternatives, without the `error` terminal and without the marker), both are built with
// `go build` and run on ALL strings of length <= L over {a, b, c, '#', ' '} ('#' is an invalid
// token, ' ' is white space), with an error handler that keeps recovering and with one that
// returns false ("stop").
//
// Oracle (see judge): the parse returns (no panic, no exhausted step budget, no hang — a hang is
// only believed after the single input was re-run alone with a long timeout); every handler call
// (offset, endoffset) satisfies 0 <= offset <= endoffset <= len(input) and the offsets never
// decrease from one call to the next; a returned SyntaxError lies inside the input; a handler
// that returns false ends the parse with an error after that one call; every non-sentence causes
// at least one handler call and the first call is at the first token that cannot continue any
// sentence prefix of G' (the C01 error position, decided with internal/cfgoracle on G' with
// `error` as an ordinary terminal that never occurs in the input); on sentences of G (decided by
// internal/cfgoracle on G, tokens only, white space ignored, no invalid character) there is no
// handler call, the parse is accepted and the listener events are exactly those of the twin.
//
// The enumeration of the inputs happens inside the generated driver ("sweep" mode, one case per
// grammar) which groups the runs into outcome records (length | mode | verdict | handler calls |
// flags); the records are judged here. Everything that looks wrong is recorded with a replay
// value that re-runs the single input through the "one" mode, where all raw data (handler calls,
// events, verdict) come back to this process and the same judge decides.
//
// Histories (parsers are values that are reused): for every generated recovering parser, every
// pair (w1, w2) of token strings of length <= L-2 is parsed on ONE Parser value, "Init once,
// Parse twice" and "Init before each Parse"; the second parse must be indistinguishable (verdict,
// handler calls, events) from a fresh parser's parse of w2. This starts the parser from the
// non-initial states a previous parse leaves behind (recovering counter, next symbol, pending
// tokens).
//
// The shipped recovering parsers tm and js are run through their public API (as their own
// parser_test.go does) on every 1-token deletion / duplication of small seed texts, and on every
// PAIR of these inputs on one parser value (same differential oracle).
package main

import (
	"context"
	"encoding/json"
	"fmt"
	"os"
	"sort"
	"strconv"
	"strings"
	"sync"
	"sync/atomic"
	"time"

	"github.com/inspirer/textmapper/grammar"
	"github.com/inspirer/textmapper/lalr"
	"github.com/inspirer/textmapper/parsers/js"
	jstoken "github.com/inspirer/textmapper/parsers/js/token"
	"github.com/inspirer/textmapper/parsers/tm"
	tmtoken "github.com/inspirer/textmapper/parsers/tm/token"

	"verif/internal/cfgoracle"
	"verif/internal/core"
	"verif/internal/genharness"
	"verif/internal/gramenum"
	"verif/internal/shipped"
)

func main() { core.Main("C19", "model_checking", run, replay, nil) }

// Symbol numbering of every grammar of this check (gramenum convention, T=4, N=2):
// 1..3 = ta, tb, tc; 4 = error; 5 = X1 (the statement list, the input); 6 = X2 (the statement).
const (
	nT     = 4
	symErr = 4
	symX1  = 5
	symX2  = 6
	sigma  = "abc# " // input alphabet of the sweep: three terminals, an invalid character, a space
)

// ---------------------------------------------------------------------------------------------
// Enumeration of the grammars.

type variant struct {
	Marker   int  `json:"marker"` // index of the base rule that carries .recoveryScope after its first symbol, -1 = none
	Inject   bool `json:"inject"` // %inject invalid_token -> InvalidToken (invalid tokens are reported and widen error ranges)
	Optimize bool `json:"optimize"`
}

type item struct {
	base    *gramenum.Gram // without error rules
	baseID  int
	errs    []gramenum.Rule // the error alternatives
	v       variant
	stratum int
}

func (it *item) full() *gramenum.Gram {
	g := it.base.Clone()
	g.Rules = append(g.Rules, it.errs...)
	return g
}

var listShapes = [][]gramenum.Rule{
	{{LHS: symX1, RHS: []int{symX2}}, {LHS: symX1, RHS: []int{symX1, symX2}}}, // left recursive  S: Stmt | S Stmt
	{{LHS: symX1, RHS: []int{symX2}}, {LHS: symX1, RHS: []int{symX2, symX1}}}, // right recursive S: Stmt | Stmt S
	{{LHS: symX1, RHS: nil}, {LHS: symX1, RHS: []int{symX1, symX2}}},          // nullable        S: %empty | S Stmt
}

// stmtUniverse lists every statement right-hand side of length 1..K over {ta, tb, tc, X1} in
// canonical order (by length, then lexicographically; terminals before X1).
func stmtUniverse(K int) [][]int {
	syms := []int{1, 2, 3, symX1}
	var out [][]int
	for k := 1; k <= K; k++ {
		total := 1
		for i := 0; i < k; i++ {
			total *= len(syms)
		}
		for code := 0; code < total; code++ {
			rhs := make([]int, k)
			x := code
			for i := k - 1; i >= 0; i-- {
				rhs[i] = syms[x%len(syms)]
				x /= len(syms)
			}
			out = append(out, rhs)
		}
	}
	return out
}

func conflictFree(g *gramenum.Gram) bool {
	var tbl *lalr.Tables
	var cerr error
	if err := core.Guard(func() {
		tbl, cerr = lalr.Compile(g.ToLalr([]gramenum.Input{{NT: symX1, Eoi: true}}), lalr.Options{})
	}); err != nil {
		return false
	}
	return cerr == nil && tbl.SR == 0 && tbl.RR == 0
}

// errorAlternatives lists, for base rule r, the alternatives with `error` inserted at every
// position and with `error` replacing every symbol.
func errorAlternatives(r gramenum.Rule) []gramenum.Rule {
	var out []gramenum.Rule
	k := len(r.RHS)
	for p := 0; p <= k; p++ {
		rhs := append(append(append([]int{}, r.RHS[:p]...), symErr), r.RHS[p:]...)
		out = append(out, gramenum.Rule{LHS: r.LHS, RHS: rhs})
	}
	for p := 0; p < k; p++ {
		rhs := append(append(append([]int{}, r.RHS[:p]...), symErr), r.RHS[p+1:]...)
		out = append(out, gramenum.Rule{LHS: r.LHS, RHS: rhs})
	}
	return out
}

func ruleKey(r gramenum.Rule) string { return fmt.Sprint(r.LHS, r.RHS) }

// enumerate builds the ordered list of candidate grammars, simplest first: strata are
// (number of error placements, number of statement rules); inside a stratum the order is list
// shape, statement rules in universe order, placements in rule/position order. Only
// conflict-free grammars (base and with the error alternatives) are kept.
func enumerate(c *core.Ctx) (strata [4][]*item, nBases int) {
	uni := stmtUniverse(3)
	var bases []*gramenum.Gram
	var nStmt []int
	add := func(shape []gramenum.Rule, rules ...[]int) {
		g := &gramenum.Gram{T: nT, N: 2}
		g.Rules = append(g.Rules, shape...)
		for _, rhs := range rules {
			g.Rules = append(g.Rules, gramenum.Rule{LHS: symX2, RHS: rhs})
		}
		if !gramenum.TermCanonical(g) || !gramenum.IsReduced(g) || !conflictFree(g) {
			return
		}
		bases = append(bases, g.Clone())
		nStmt = append(nStmt, len(rules))
	}
	for _, shape := range listShapes {
		for i := range uni {
			add(shape, uni[i])
		}
	}
	for _, shape := range listShapes {
		for i := range uni {
			for j := i + 1; j < len(uni); j++ {
				add(shape, uni[i], uni[j])
			}
		}
	}
	nBases = len(bases)
	var all []*item
	k := 0
	for bi, b := range bases {
		// all distinct error alternatives of this base
		var alts []gramenum.Rule
		seen := map[string]bool{}
		for _, r := range b.Rules {
			seen[ruleKey(r)] = true
		}
		for _, r := range b.Rules {
			for _, a := range errorAlternatives(r) {
				if !seen[ruleKey(a)] {
					seen[ruleKey(a)] = true
					alts = append(alts, a)
				}
			}
		}
		// rules that can carry the marker: statement rules of length >= 2
		markable := []int{-1}
		for ri, r := range b.Rules {
			if r.LHS == symX2 && len(r.RHS) >= 2 {
				markable = append(markable, ri)
			}
		}
		mk := func(errs ...gramenum.Rule) {
			// inject / optimizeTables are tied to the base grammar (one twin per base), the
			// marker position cycles over the placements
			v := variant{Marker: markable[k%len(markable)], Inject: bi%2 == 1, Optimize: (bi/2)%3 == 2}
			k++
			st := 0
			if len(errs) == 2 {
				st = 2
			}
			if nStmt[bi] == 2 {
				st++
			}
			all = append(all, &item{base: b, baseID: bi, errs: append([]gramenum.Rule{}, errs...), v: v, stratum: st})
		}
		for i := range alts {
			mk(alts[i])
		}
		for i := range alts {
			for j := i + 1; j < len(alts); j++ {
				mk(alts[i], alts[j])
			}
		}
	}
	ok := make([]bool, len(all))
	core.ParallelFor(len(all), 16, func(i int) { ok[i] = conflictFree(all[i].full()) })
	for i, it := range all {
		if ok[i] {
			strata[it.stratum] = append(strata[it.stratum], it)
		}
	}
	return
}

// pick takes budget items: a quarter of the budget per stratum (left-over budget moves on to the
// next stratum), inside a stratum a deterministic stride over the base grammars and over the
// placements of each picked base, so that all shapes stay represented.
func pick(strata [4][]*item, budget int) (sel []*item, complete bool) {
	const perBase = 4
	complete = true
	left := budget
	var picked [4][][]*item // per stratum: groups of placements of one base grammar
	for s := 0; s < 4; s++ {
		share := left / (4 - s)
		list := strata[s]
		// group by base grammar (contiguous)
		var groups [][]*item
		for i := 0; i < len(list); {
			j := i
			for j < len(list) && list[j].baseID == list[i].baseID {
				j++
			}
			groups = append(groups, list[i:j])
			i = j
		}
		if len(list) <= share {
			picked[s] = groups
			left -= len(list)
			continue
		}
		complete = false
		// pick bases by stride and up to perBase placements of each picked base by stride: the
		// no-recovery twin is built once per base
		nb := min((share+perBase-1)/perBase, len(groups))
		taken := 0
		for b := 0; b < nb && taken < share; b++ {
			g := groups[b*len(groups)/nb]
			m := min(perBase, len(g), share-taken)
			var sub []*item
			for i := 0; i < m; i++ {
				sub = append(sub, g[i*len(g)/m])
			}
			picked[s] = append(picked[s], sub)
			taken += m
		}
		left -= taken
	}
	// run order: round-robin over the strata, one base group at a time, and inside a stratum a
	// fixed low-discrepancy permutation (i -> i*step mod n, step ~ 0.618 n, coprime with n), so
	// that a run cut short by the time budget has still seen every stratum, list shape and size
	perm := func(n int) []int {
		if n <= 2 {
			return []int{0, 1}[:n]
		}
		step := n * 618 / 1000
		for gcd(step, n) != 1 {
			step++
		}
		out := make([]int, n)
		for i := range out {
			out[i] = i * step % n
		}
		return out
	}
	var perms [4][]int
	for s := 0; s < 4; s++ {
		perms[s] = perm(len(picked[s]))
	}
	for i := 0; ; i++ {
		any := false
		for s := 0; s < 4; s++ {
			if i < len(picked[s]) {
				sel = append(sel, picked[s][perms[s][i]]...)
				any = true
			}
		}
		if !any {
			break
		}
	}
	return
}

func gcd(a, b int) int {
	for b != 0 {
		a, b = b, a%b
	}
	return a
}

// ---------------------------------------------------------------------------------------------
// .tm text.

func symName(s int) string {
	switch s {
	case 1, 2, 3:
		return "t" + string(rune('a'+s-1))
	case symErr:
		return "error"
	case symX1:
		return "X1"
	}
	return "X2"
}

// tmText prints the grammar. recovering=false prints the twin: no `error` terminal, no error
// alternatives, no marker; everything else (lexer, options, rule annotations) is identical.
func tmText(name string, base *gramenum.Gram, errs []gramenum.Rule, v variant, recovering bool) string {
	var sb strings.Builder
	fmt.Fprintf(&sb, "language %s(go);\n\npackage = \"scratch/%s\"\neventBased = true\n", name, name)
	if v.Optimize {
		sb.WriteString("optimizeTables = true\n")
	}
	sb.WriteString("\n:: lexer\n\nWhiteSpace: /[ ]+/ (space)\nta: /a/\ntb: /b/\ntc: /c/\n")
	if recovering {
		sb.WriteString("error:\n")
	}
	sb.WriteString("invalid_token: /#/\n\n:: parser\n\n%input X1;\n\n")
	if v.Inject {
		sb.WriteString("%inject invalid_token -> InvalidToken;\n\n")
	}
	for _, nt := range []int{symX1, symX2} {
		fmt.Fprintf(&sb, "%s :\n", symName(nt))
		first := true
		alt := func(rhs []int, marker bool, tag string) {
			if first {
				sb.WriteString("    ")
				first = false
			} else {
				sb.WriteString("  | ")
			}
			if len(rhs) == 0 {
				sb.WriteString("%empty")
			}
			for j, s := range rhs {
				if j > 0 {
					sb.WriteString(" ")
				}
				sb.WriteString(symName(s))
				if j == 0 && marker {
					sb.WriteString(" .recoveryScope")
				}
			}
			sb.WriteString(" -> " + tag + "\n")
		}
		for i, r := range base.Rules {
			if r.LHS == nt {
				alt(r.RHS, recovering && v.Marker == i, fmt.Sprintf("R%d", i))
			}
		}
		if recovering {
			for j, r := range errs {
				if r.LHS != nt {
					continue
				}
				// the marker is repeated in error alternatives that start like the marked rule
				// (as js.tm does for '{' .recoveryScope StatementList SyntaxError '}')
				m := v.Marker >= 0 && base.Rules[v.Marker].LHS == nt && len(r.RHS) >= 2 && r.RHS[0] == base.Rules[v.Marker].RHS[0] && r.RHS[0] != symErr
				alt(r.RHS, m, fmt.Sprintf("E%d", j))
			}
		}
		sb.WriteString(";\n\n")
	}
	return sb.String()
}

// ---------------------------------------------------------------------------------------------
// The in-package driver.

const drvSrc = `package PKGNAME

import (
	"fmt"
	"os"
	"runtime/debug"
	"strconv"
	"strings"
	"time"

	"scratch/rt"
)

type vOut struct {
	hang           bool
	accept         bool
	errOff, errEnd int
	errMsg         string
	handler        [][2]int
	events         []rt.Event
	aborted        bool
	panicMsg       string
}

// vSession is one Parser VALUE: it is initialised once (or again before a parse when reinit is
// asked for) and may parse several inputs one after the other (histories).
type vSession struct {
	p             Parser
	cur           *vOut
	steps, budget int
	stop          bool
}

func (s *vSession) init() {
	eh := func(se SyntaxError) bool {
		s.cur.handler = append(s.cur.handler, [2]int{se.Offset, se.Endoffset})
		if s.steps++; s.steps > s.budget {
			panic(rt.Abort{})
		}
		return !s.stop
	}
	_ = eh
	listener := func(t NodeType, offset, endoffset int) {
		s.cur.events = append(s.cur.events, rt.Event{Type: t.String(), Off: offset, End: endoffset})
		if s.steps++; s.steps > s.budget {
			panic(rt.Abort{})
		}
	}
	PARSERINIT
}

// parse runs the generated parser once on this parser value. Every listener / handler call is one
// step; after 10^4*(len+1) steps the parse is aborted (non-termination with observable steps).
func (s *vSession) parse(text string) (o vOut) {
	s.cur = &o
	s.steps, s.budget = 0, 10000*(len(text)+1)
	defer func() {
		if e := recover(); e != nil {
			if _, ok := e.(rt.Abort); ok {
				o.aborted = true
			} else {
				st := string(debug.Stack())
				if len(st) > 1800 {
					st = st[:1800]
				}
				o.panicMsg = fmt.Sprint(e) + "\n" + st
			}
		}
	}()
	var l Lexer
	l.Init(text)
	err := s.p.Parse(&l)
	if err == nil {
		o.accept = true
	} else if se, ok := err.(SyntaxError); ok {
		o.errOff, o.errEnd, o.errMsg = se.Offset, se.Endoffset, "syntax"
	} else {
		o.errOff, o.errMsg = -1, "other: "+err.Error()
	}
	return o
}

// verifParse parses text with a fresh parser value.
func verifParse(text string, stop bool) vOut {
	s := &vSession{stop: stop}
	s.init()
	return s.parse(text)
}

func (o *vOut) full() string { return o.verdict() + "|" + o.handlers() + "|" + o.eventString() }

// verifHistory parses w1 and then w2 on ONE parser value (reinit: Init is called again before
// the second parse) and returns the outcome of the second parse; ok=false if the first parse
// panicked or ran out of budget (reported by the single-input sweep).
func verifHistory(w1, w2 string, reinit bool) (o vOut, ok bool) {
	s := &vSession{}
	s.init()
	first := s.parse(w1)
	if first.panicMsg != "" || first.aborted {
		return first, false
	}
	if reinit {
		s.init()
	}
	return s.parse(w2), true
}

// verifParseTimed is verifParse with a watchdog for loops that have no observable step: the
// parse runs in its own goroutine; if it does not come back within 3 s it is abandoned (the
// goroutine keeps spinning) and reported as "H". The check believes an H only after the single
// input was re-run alone with a long timeout.
func verifParseTimed(text string, stop bool) vOut {
	ch := make(chan vOut, 1)
	go func() { ch <- verifParse(text, stop) }()
	t := time.NewTimer(3 * time.Second)
	defer t.Stop()
	select {
	case o := <-ch:
		return o
	case <-t.C:
		return vOut{hang: true}
	}
}

// hangs counts abandoned parses of the whole driver process (all packages): an environment
// variable is the only process-wide state the packages share.
func hangs() int {
	n, _ := strconv.Atoi(os.Getenv("VERIF_C19_HANGS"))
	return n
}

func clean(s string) string {
	if i := strings.IndexByte(s, '\n'); i >= 0 {
		s = s[:i]
	}
	return strings.NewReplacer("|", "/", ";", ",").Replace(s)
}

func (o *vOut) verdict() string {
	switch {
	case o.hang:
		return "H"
	case o.panicMsg != "":
		return "P:" + clean(o.panicMsg)
	case o.aborted:
		return "B"
	case o.accept:
		return "A"
	case o.errMsg == "syntax":
		return fmt.Sprintf("E%d,%d", o.errOff, o.errEnd)
	}
	return "X:" + clean(o.errMsg)
}

func (o *vOut) handlers() string {
	var sb strings.Builder
	for i, h := range o.handler {
		if i > 0 {
			sb.WriteByte(',')
		}
		fmt.Fprintf(&sb, "%d-%d", h[0], h[1])
	}
	return sb.String()
}

func (o *vOut) eventString() string {
	var sb strings.Builder
	for i, e := range o.events {
		if i > 0 {
			sb.WriteByte(' ')
		}
		fmt.Fprintf(&sb, "%s:%d-%d", e.Type, e.Off, e.End)
	}
	return sb.String()
}

// VerifRun: mode "one" / "one-stop" parse text and return everything; mode "sweep" enumerates all
// strings up to length L over "abc# " (text = "L=<n>;v=<tokens>:<k>,..." where k is the index of
// the first token that cannot continue a sentence prefix, -1 for sentences) and returns outcome
// records "len|mode|verdict|handlers|flags" with their multiplicity and first input, plus the
// events of every sentence.
func VerifRun(entry, mode, text string) (res rt.Result) {
	if mode == "pair" || mode == "pair-reinit" {
		// text = w1 + "\x00" + w2: the outcome of w2 after w1 on one parser value; Values carries
		// the outcome of a fresh parser on w2 (verdict|handlers|events)
		i := strings.IndexByte(text, 0)
		o, _ := verifHistory(text[:i], text[i+1:], mode == "pair-reinit")
		res.Accept, res.ErrOff, res.ErrEnd, res.ErrMsg = o.accept, o.errOff, o.errEnd, o.errMsg
		res.Events, res.Handler, res.Aborted, res.Panic = o.events, o.handler, o.aborted, o.panicMsg
		f := verifParse(text[i+1:], false)
		res.Extra = map[string]any{"history": o.full(), "fresh": f.full()}
		return res
	}
	if mode == "one" || mode == "one-stop" {
		o := verifParse(text, mode == "one-stop")
		res.Accept, res.ErrOff, res.ErrEnd, res.ErrMsg = o.accept, o.errOff, o.errEnd, o.errMsg
		res.Events, res.Handler, res.Aborted, res.Panic = o.events, o.handler, o.aborted, o.panicMsg
		return res
	}
	L, H := 0, 0
	exp := map[string]int{}
	for _, f := range strings.Split(text, ";") {
		switch {
		case strings.HasPrefix(f, "H="):
			H, _ = strconv.Atoi(f[2:])
		case strings.HasPrefix(f, "L="):
			L, _ = strconv.Atoi(f[2:])
		case strings.HasPrefix(f, "v="):
			for _, e := range strings.Split(f[2:], ",") {
				i := strings.LastIndexByte(e, ':')
				n, _ := strconv.Atoi(e[i+1:])
				exp[e[:i]] = n
			}
		}
	}
	const sigma = "abc# "
	type cls struct {
		n     int
		first string
	}
	classes := map[string]*cls{}
	var order []string
	sent := map[string]string{}
	runs := 0
	truncated := ""
	if hangs() >= 4 {
		res.Extra = map[string]any{"skipped": "too many abandoned parses in this driver process"}
		return res
	}
	buf := make([]byte, 0, L)
	var rec func(k int)
	visit := func(w string) {
		if truncated != "" {
			return
		}
		var tk []byte
		var pos []int
		hash := false
		for i := 0; i < len(w); i++ {
			switch w[i] {
			case ' ':
			case '#':
				hash = true
			default:
				tk = append(tk, w[i])
				pos = append(pos, i)
			}
		}
		e, known := exp[string(tk)]
		if !known {
			panic("no expectation for " + string(tk))
		}
		for _, stop := range []bool{false, true} {
			if truncated != "" {
				return
			}
			o := verifParseTimed(w, stop)
			runs++
			if o.hang {
				// one abandoned goroutine per sweep is enough; the rest of this sweep is not run
				truncated = w
				os.Setenv("VERIF_C19_HANGS", strconv.Itoa(hangs()+1))
			}
			flags := ""
			if e < 0 {
				if hash {
					flags = "s"
				} else {
					flags = "S"
				}
			} else {
				want := len(w)
				if e < len(pos) {
					want = pos[e]
				}
				if len(o.handler) == 0 || o.handler[0][0] != want {
					flags = "F" + strconv.Itoa(want)
				}
			}
			m := "r"
			if stop {
				m = "s"
			}
			key := strconv.Itoa(len(w)) + "|" + m + "|" + o.verdict() + "|" + o.handlers() + "|" + flags
			c := classes[key]
			if c == nil {
				c = &cls{first: w}
				classes[key] = c
				order = append(order, key)
			}
			c.n++
			if flags == "S" && !stop {
				sent[w] = o.verdict() + "|" + o.handlers() + "|" + o.eventString()
			}
		}
	}
	for n := 0; n <= L; n++ {
		rec = func(k int) {
			if k == 0 {
				visit(string(buf))
				return
			}
			for i := 0; i < len(sigma); i++ {
				buf = append(buf, sigma[i])
				rec(k - 1)
				buf = buf[:len(buf)-1]
			}
		}
		rec(n)
	}
	out := make([]any, 0, len(order))
	for _, k := range order {
		out = append(out, []any{k, classes[k].n, classes[k].first})
	}
	// histories of length 2 on one parser value: every pair (w1, w2) of token strings up to
	// length H; the second parse must be indistinguishable from a fresh parser on w2
	var hist []any
	histRuns := 0
	if H > 0 && truncated == "" {
		var ws []string
		var gen func(prefix string, k int)
		for n := 0; n <= H; n++ {
			gen = func(prefix string, k int) {
				if k == 0 {
					ws = append(ws, prefix)
					return
				}
				for i := 0; i < 3; i++ {
					gen(prefix+string(sigma[i]), k-1)
				}
			}
			gen("", n)
		}
		fresh := make([]string, len(ws))
		for i, w := range ws {
			o := verifParse(w, false)
			fresh[i] = o.full()
		}
		for _, w1 := range ws {
			for j, w2 := range ws {
				for _, reinit := range []bool{false, true} {
					o, ok := verifHistory(w1, w2, reinit)
					histRuns++
					if !ok {
						continue
					}
					if got := o.full(); got != fresh[j] && len(hist) < 12 {
						hist = append(hist, []any{w1, w2, reinit, got, fresh[j]})
					}
				}
			}
		}
	}
	res.Extra = map[string]any{"classes": out, "sent": sent, "runs": runs, "hist": hist, "histRuns": histRuns}
	if truncated != "" {
		res.Extra["truncated"] = truncated
	}
	res.Accept = true
	return res
}
`

func driver(g *grammar.Grammar, name string) string {
	src := strings.ReplaceAll(drvSrc, "PKGNAME", name)
	if g.Parser.IsRecovering {
		return strings.ReplaceAll(src, "PARSERINIT", "s.p.Init(eh, listener)")
	}
	return strings.ReplaceAll(src, "PARSERINIT", "s.p.Init(listener)")
}

// ---------------------------------------------------------------------------------------------
// Oracle.

type finding struct{ key, what string }

// obs is one observed parser run.
type obs struct {
	n        int  // len(input)
	stop     bool // the handler returns false
	verdict  string
	handlers [][2]int
	sentence bool // the token string is a sentence of G and the input has no invalid character
	nonSent  bool // the token string is not a sentence of G' (the input may contain '#', which the parser skips)
	wantOff  int  // for nonSent: offset of the first token that cannot continue a sentence prefix (len = end of input)
}

// judge is the whole C19 oracle for one run, except the comparison with the twin.
func judge(o obs) []finding {
	var fs []finding
	add := func(k, w string) { fs = append(fs, finding{k, w}) }
	switch {
	case strings.HasPrefix(o.verdict, "P:"):
		add("panic", "the parser panics: "+o.verdict[2:])
		return fs
	case o.verdict == "H":
		add("non-termination:no-observable-step", "the parser does not return and calls neither the listener nor the handler")
		return fs
	case o.verdict == "B":
		add("non-termination:step-budget", "the parser is still reporting after 10^4*(len+1) listener/handler calls")
		return fs
	case strings.HasPrefix(o.verdict, "X:"):
		add("unexpected-error-type", "Parse returns an error that is not a SyntaxError: "+o.verdict[2:])
		return fs
	case strings.HasPrefix(o.verdict, "E"):
		var a, b int
		fmt.Sscanf(o.verdict, "E%d,%d", &a, &b)
		if a < 0 || a > b || b > o.n {
			add("returned-error-out-of-input", fmt.Sprintf("returned SyntaxError [%d,%d) is outside [0,%d]", a, b, o.n))
		}
	}
	prev := 0
	for i, h := range o.handlers {
		if h[0] < 0 || h[0] > h[1] || h[1] > o.n {
			add("handler-offset-out-of-input", fmt.Sprintf("handler call #%d reports [%d,%d), input length %d", i, h[0], h[1], o.n))
		}
		if h[0] < prev {
			add("handler-offsets-decrease", fmt.Sprintf("handler call #%d reports offset %d after offset %d", i, h[0], prev))
		}
		prev = h[0]
	}
	if o.stop && (len(o.handlers) > 1 || (len(o.handlers) == 1 && o.verdict == "A")) {
		add("stop-handler-ignored", fmt.Sprintf("the handler returned false but the parse went on: %d handler calls, verdict %s", len(o.handlers), o.verdict))
	}
	if o.sentence {
		if len(o.handlers) > 0 {
			add("sentence-reports-error", fmt.Sprintf("a sentence causes handler calls %v", o.handlers))
		}
		if o.verdict != "A" {
			add("sentence-rejected", "a sentence is rejected: "+o.verdict)
		}
	}
	if o.nonSent {
		if len(o.handlers) == 0 {
			add("non-sentence-without-error", "a non-sentence causes no handler call (verdict "+o.verdict+")")
		} else if o.handlers[0][0] != o.wantOff {
			add("first-error-position", fmt.Sprintf("the first handler call is at offset %d, the first token that cannot continue a sentence prefix is at %d", o.handlers[0][0], o.wantOff))
		}
	}
	return fs
}

func parseHandlers(s string) [][2]int {
	if s == "" {
		return nil
	}
	var out [][2]int
	for _, p := range strings.Split(s, ",") {
		var a, b int
		fmt.Sscanf(p, "%d-%d", &a, &b)
		out = append(out, [2]int{a, b})
	}
	return out
}

// recCase is the replay value: one input of one generated grammar.
type recCase struct {
	TM     string          `json:"tm"`
	TwinTM string          `json:"twin_tm"`
	Base   *gramenum.Gram  `json:"base"`
	Errs   []gramenum.Rule `json:"errs"`
	V      variant         `json:"variant"`
	Text   string          `json:"text"`
	Stop   bool            `json:"stop"`
	// history cases: First is parsed before Text on the same parser value (Reinit: Init again in between)
	History bool   `json:"history,omitempty"`
	First   string `json:"first,omitempty"`
	Reinit  bool   `json:"reinit,omitempty"`
}

// expectations computes, for every token string up to length L, -1 for sentences and otherwise
// the index of the first token that cannot continue a sentence prefix of G' (error = terminal
// 'd' which never occurs in an input).
func expectations(full *gramenum.Gram, L int) (map[string]int, *cfgoracle.Oracle) {
	o := cfgoracle.New(full, L)
	exp := map[string]int{}
	gramenum.AllStrings(3, L, func(w string) {
		v := o.Verdict(symX1, true, w)
		if v.Accept {
			exp[w] = -1
		} else {
			exp[w] = v.ErrTok
		}
	})
	return exp, o
}

func stripTokens(w string) (toks string, pos []int, hash bool) {
	var b []byte
	for i := 0; i < len(w); i++ {
		switch w[i] {
		case ' ':
		case '#':
			hash = true
		default:
			b = append(b, w[i])
			pos = append(pos, i)
		}
	}
	return string(b), pos, hash
}

func obsFor(exp map[string]int, w string, stop bool, verdict string, handlers [][2]int) obs {
	toks, pos, hash := stripTokens(w)
	e := exp[toks]
	o := obs{n: len(w), stop: stop, verdict: verdict, handlers: handlers}
	if e < 0 {
		o.sentence = !hash
	} else {
		o.nonSent = true
		o.wantOff = len(w)
		if e < len(pos) {
			o.wantOff = pos[e]
		}
	}
	return o
}

func resultVerdict(r genharness.Result) string {
	switch {
	case r.Hang:
		return "H"
	case r.Panic != "":
		return "P:" + strings.SplitN(r.Panic, "\n", 2)[0]
	case r.Aborted:
		return "B"
	case r.Accept:
		return "A"
	case r.ErrMsg == "syntax":
		return fmt.Sprintf("E%d,%d", r.ErrOff, r.ErrEnd)
	}
	return "X:" + r.ErrMsg
}

func eventString(ev []genharness.Event) string {
	var sb strings.Builder
	for i, e := range ev {
		if i > 0 {
			sb.WriteByte(' ')
		}
		fmt.Fprintf(&sb, "%s:%d-%d", e.Type, e.Off, e.End)
	}
	return sb.String()
}

func keyFor(v variant, k string) string {
	if v.Optimize {
		return "layerB:" + k + ":optimizeTables"
	}
	return "layerB:" + k
}

// ---------------------------------------------------------------------------------------------
// Run.

type twinKey struct {
	base             int
	inject, optimize bool
}

type runner struct {
	c        *core.Ctx
	L        int
	H        int // histories: pairs of token strings up to this length on one parser value
	mu       sync.Mutex
	twins    map[twinKey]map[string]string // sentence input -> "A||events" of the twin
	twinTM   map[twinKey]string
	states   int64
	runs     int64
	traces   int64
	located  int
	hungMore int
}

func sweepText(L, H int, exp map[string]int) string {
	var sb strings.Builder
	fmt.Fprintf(&sb, "L=%d;H=%d;v=", L, H)
	first := true
	gramenum.AllStrings(3, L, func(w string) {
		if !first {
			sb.WriteByte(',')
		}
		first = false
		fmt.Fprintf(&sb, "%s:%d", w, exp[w])
	})
	return sb.String()
}

func run(c *core.Ctx) {
	L, budget := 5, 240
	if !c.Quick() {
		L, budget = 6, 3000
	}
	if v, err := strconv.Atoi(getenv("C19_GRAMMARS")); err == nil && v > 0 {
		budget = v
	}
	c.Rule("Layer B: statement-list grammars (3 list shapes x <=2 statement rules, RHS <=3 over {ta,tb,tc,X1}; terminal symmetry broken, reduced, conflict-free) x `error` inserted at / replacing every position of every rule as an extra alternative (<=2 placements, conflict-free) x variant (recoveryScope marker / %inject invalid_token / optimizeTables, cycled); per stratum (placements, statement rules) a deterministic stride up to the budget; every grammar and its no-recovery twin are generated, built and run on ALL strings <=L over {a,b,c,'#',' '} x handler {continue, stop}. non-trivial = grammar with >=1 sentence, >=1 recovered (accepted after errors) and >=1 unrecovered input. states = distinct (grammar, mode, handler-call sequence, verdict); transitions = parser runs; traces = sentence runs compared with the twin's events. Histories: every pair of token strings <=L-2 on one parser value (Init once / Init before each parse) compared with a fresh parser. Shipped tm/js parsers: every 1-token deletion/duplication of the seed texts, singly and as pairs on one parser value.")
	c.Set("L", L)
	c.Assume("internal/cfgoracle decides sentences (on G) and viable prefixes (on G' with `error` as a terminal that never occurs in inputs)")
	c.Assume("first-error position = first token that cannot continue a sentence prefix (LALR(1) never shifts an erroneous token; C01 checks this for non-recovering parsers)")
	t0 := time.Now()
	strata, nBases := enumerate(c)
	c.Set("enumeration_s", int(time.Since(t0).Seconds()))
	total := 0
	for s := range strata {
		total += len(strata[s])
		c.Set(fmt.Sprintf("candidates_stratum_%d", s), len(strata[s]))
	}
	c.Set("base_grammars", nBases)
	c.Set("candidate_recovery_grammars", total)
	debugf("enumerated")
	sel, complete := pick(strata, budget)
	if !complete {
		c.Capped(fmt.Sprintf("Layer B: %d of %d candidate recovery grammars generated and built (per-stratum stride)", len(sel), total))
	}
	// the shipped parsers first: cheap (a few seconds) and independent of the time budget
	shippedPart(c)
	debugf("shipped done")
	r := &runner{c: c, L: L, H: L - 2, twins: map[twinKey]map[string]string{}, twinTM: map[twinKey]string{}}
	const batch = 48
	for start := 0; start < len(sel); start += batch {
		if c.Expired() {
			c.Capped(fmt.Sprintf("Layer B stopped after %d of %d selected grammars (budget)", start, len(sel)))
			break
		}
		r.batch(sel[start:min(start+batch, len(sel))], start)
	}
	c.States(r.states)
	c.Transitions(r.runs)
	c.Traces(r.traces)
	if r.hungMore > 0 {
		c.Capped(fmt.Sprintf("%d further suspected hangs were not re-run alone", r.hungMore))
	}
	debugf("layer B done")
}

func getenv(k string) string { return os.Getenv(k) }

func debugf(format string, args ...any) {
	if os.Getenv("VERIF_DEBUG") != "" {
		fmt.Fprintf(os.Stderr, "[c19 %s] "+format+"\n", append([]any{time.Now().Format("15:04:05")}, args...)...)
	}
}

func (r *runner) batch(items []*item, offset int) {
	c := r.c
	type prep struct {
		name   string
		tm     string
		exp    map[string]int
		twin   twinKey
		twinTM string
	}
	preps := make([]prep, len(items))
	core.ParallelFor(len(items), 16, func(i int) {
		it := items[i]
		name := fmt.Sprintf("g%05d", offset+i)
		exp, _ := expectations(it.full(), r.L)
		preps[i] = prep{name: name, tm: tmText(name, it.base, it.errs, it.v, true), exp: exp,
			twin: twinKey{it.baseID, it.v.Inject, it.v.Optimize}}
	})
	var specs []genharness.Spec
	twinSpec := map[twinKey]int{}
	specOf := make([]int, len(items))
	for i, it := range items {
		p := &preps[i]
		specOf[i] = len(specs)
		specs = append(specs, genharness.Spec{Name: p.name, TM: p.tm, Driver: driver,
			Cases: []genharness.Case{{Mode: "sweep", Text: sweepText(r.L, r.H, p.exp)}}})
		if _, done := r.twins[p.twin]; !done {
			if _, ok := twinSpec[p.twin]; !ok {
				tname := fmt.Sprintf("gt%05d", offset+i)
				ttm := tmText(tname, it.base, nil, it.v, false)
				r.twinTM[p.twin] = ttm
				// the twin only needs the sentences: expectations of the base grammar
				bexp, _ := expectations(it.base, r.L)
				twinSpec[p.twin] = len(specs)
				specs = append(specs, genharness.Spec{Name: tname, TM: ttm, Driver: driver,
					Cases: []genharness.Case{{Mode: "sweep", Text: sweepText(r.L, 0, bexp)}}})
			}
		}
	}
	t0 := time.Now()
	outs, err := genharness.RunBatch(specs, genharness.BatchOpts{CaseTimeout: 60 * time.Second})
	debugf("batch at %d: %d specs (%d twins) in %.1fs", offset, len(specs), len(twinSpec), time.Since(t0).Seconds())
	if err != nil {
		c.Violate("layerB:harness", err.Error(), nil)
		return
	}
	// twins first
	for tk, si := range twinSpec {
		out := outs[si]
		if out.GenErr != "" || out.GenPanic != "" || out.BuildErr != "" || len(out.Results) == 0 {
			c.Violate("layerB:twin-not-built", fmt.Sprintf("the grammar without error rules cannot be generated/built: %s %s %s", out.GenErr, out.GenPanic, out.BuildErr), recCase{TwinTM: specs[si].TM})
			continue
		}
		res := out.Results[0]
		if res.Extra != nil && res.Extra["skipped"] != nil {
			c.Capped("some twin sweeps were skipped because earlier parses in the same driver process did not return")
			continue
		}
		if res.Hang || res.Panic != "" || res.Extra == nil || res.Extra["sent"] == nil {
			c.Violate("layerB:twin-run-failed", fmt.Sprintf("the no-recovery twin did not complete its sweep: hang=%v panic=%q", res.Hang, res.Panic), recCase{TwinTM: specs[si].TM})
			continue
		}
		m := map[string]string{}
		for w, v := range res.Extra["sent"].(map[string]any) {
			m[w] = v.(string)
		}
		r.twins[tk] = m
	}
	for i, it := range items {
		p := &preps[i]
		out := outs[specOf[i]]
		rc := func(text string, stop bool) recCase {
			return recCase{TM: p.tm, TwinTM: r.twinTM[p.twin], Base: it.base, Errs: it.errs, V: it.v, Text: text, Stop: stop}
		}
		if out.GenPanic != "" {
			c.Violate("layerB:generate-panic", out.GenPanic, rc("", false))
			continue
		}
		if out.GenErr != "" {
			c.Add("rejected_by_frontend", 1) // conflict-free for lalr.Compile but refused by the front end: outside the domain
			if c.SampleCount() < 2 {
				c.Set("rejected_example", out.GenErr)
			}
			continue
		}
		if out.BuildErr != "" {
			c.Violate("layerB:generated-code-does-not-build", out.BuildErr, rc("", false))
			continue
		}
		if out.Grammar == nil || !out.Grammar.Parser.IsRecovering {
			c.Add("not_recovering", 1) // empty afterErr set: the compiler does not turn recovery on
			continue
		}
		if len(out.Results) == 0 {
			continue
		}
		res := out.Results[0]
		if res.Extra != nil && res.Extra["skipped"] != nil {
			c.Add("sweeps_skipped_after_hangs", 1)
			c.Capped("some sweeps were skipped because earlier parses in the same driver process did not return")
			continue
		}
		c.Add("grammars_built", 1)
		if res.Extra != nil && res.Extra["truncated"] != nil {
			c.Add("sweeps_truncated_after_hang", 1)
		}
		if res.Hang || res.Panic != "" {
			r.locate(it, p.tm, r.twinTM[p.twin], p.exp, res)
			continue
		}
		classes, _ := res.Extra["classes"].([]any)
		sent, _ := res.Extra["sent"].(map[string]any)
		nruns, _ := res.Extra["runs"].(float64)
		r.runs += int64(nruns)
		c.Eval(int64(nruns))
		distinct := map[string]bool{}
		var nSent, nRecovered, nRejected int
		for _, ce := range classes {
			t := ce.([]any)
			rec := t[0].(string)
			cnt := int(t[1].(float64))
			first := t[2].(string)
			f := strings.SplitN(rec, "|", 5)
			n, _ := strconv.Atoi(f[0])
			stop := f[1] == "s"
			o := obs{n: n, stop: stop, verdict: f[2], handlers: parseHandlers(f[3])}
			switch {
			case f[4] == "S":
				o.sentence = true
			case f[4] == "s":
			case strings.HasPrefix(f[4], "F"):
				o.nonSent = true
				o.wantOff, _ = strconv.Atoi(f[4][1:])
			default:
				// non-sentence whose first handler call was at the expected place
				o.nonSent = true
				if len(o.handlers) > 0 {
					o.wantOff = o.handlers[0][0]
				}
			}
			distinct[f[1]+"|"+f[2]+"|"+f[3]] = true
			if o.verdict == "H" {
				// not believed yet: re-run this single input alone with a long timeout
				r.confirmHang(it, rc(first, stop), p.exp)
				continue
			}
			for _, fd := range judge(o) {
				c.Violate(keyFor(it.v, fd.key), fmt.Sprintf("%s; input %q (stop=%v), grammar %s + %s variant %+v", fd.what, first, stop, it.base, rulesString(it.errs), it.v), rc(first, stop))
			}
			if !stop {
				switch {
				case o.verdict == "A" && len(o.handlers) == 0:
					c.Outcome("accepted without error", int64(cnt))
					nSent += cnt
				case o.verdict == "A":
					c.Outcome("recovered: accepted after handler calls", int64(cnt))
					nRecovered += cnt
				case strings.HasPrefix(o.verdict, "E"):
					c.Outcome("unrecoverable: SyntaxError returned after handler calls", int64(cnt))
					nRejected += cnt
				default:
					c.Outcome("abnormal", int64(cnt))
				}
			} else {
				if o.verdict == "A" {
					c.Outcome("stop mode: accepted", int64(cnt))
				} else {
					c.Outcome("stop mode: first error returned", int64(cnt))
				}
			}
		}
		if hr, ok := res.Extra["histRuns"].(float64); ok {
			r.runs += int64(hr)
			c.Eval(int64(hr))
			c.Add("history_runs", int64(hr))
		}
		if hs, ok := res.Extra["hist"].([]any); ok {
			for _, h := range hs {
				t := h.([]any)
				w1, w2, reinit, got, want := t[0].(string), t[1].(string), t[2].(bool), t[3].(string), t[4].(string)
				k := rc(w2, false)
				k.History, k.First, k.Reinit = true, w1, reinit
				key := "history:second-parse-differs-from-fresh-parser"
				if reinit {
					key += ":after-reinit"
				}
				c.Violate(keyFor(it.v, key), fmt.Sprintf("one parser value parses %q and then %q (Init again in between: %v): the second parse gives %q, a fresh parser gives %q (verdict|handlers|events); grammar %s + %s variant %+v", w1, w2, reinit, got, want, it.base, rulesString(it.errs), it.v), k)
			}
		}
		r.states += int64(len(distinct))
		if nSent > 0 && nRecovered > 0 && nRejected > 0 {
			c.Nontrivial(1)
		}
		// transparency: the events of every sentence equal the twin's
		tw, ok := r.twins[p.twin]
		if !ok || res.Extra["truncated"] != nil {
			continue
		}
		ws := make([]string, 0, len(sent))
		for w := range sent {
			ws = append(ws, w)
		}
		sort.Slice(ws, func(a, b int) bool {
			if len(ws[a]) != len(ws[b]) {
				return len(ws[a]) < len(ws[b])
			}
			return ws[a] < ws[b]
		})
		for _, w := range ws {
			got := sent[w].(string)
			want, have := tw[w]
			if !have {
				c.Violate("layerB:twin-missing-sentence", fmt.Sprintf("the twin sweep has no record for sentence %q", w), rc(w, false))
				continue
			}
			r.traces++
			if got != want {
				c.Violate(keyFor(it.v, "sentence-differs-from-no-recovery-twin"), fmt.Sprintf("sentence %q: with recovery %q, without %q (verdict|handlers|events); grammar %s + %s variant %+v", w, got, want, it.base, rulesString(it.errs), it.v), rc(w, false))
			}
		}
		if len(ws) != len(tw) {
			c.Violate("layerB:sentence-sets-differ", fmt.Sprintf("%d sentences in the recovering sweep, %d in the twin's", len(ws), len(tw)), rc("", false))
		}
		if c.SampleCount() < 6 && nRecovered > 0 {
			c.Sample(map[string]any{"grammar": it.base.String(), "error_rules": rulesString(it.errs), "variant": it.v, "sentences": len(ws), "distinct_outcomes": len(distinct)})
		}
	}
}

// confirmHang re-runs one input whose parse was abandoned by the sweep watchdog, alone, with a
// 45 s timeout. Only this run is believed.
func (r *runner) confirmHang(it *item, k recCase, exp map[string]int) {
	c := r.c
	if r.located >= 2 {
		r.hungMore++
		return
	}
	r.located++
	mode := "one"
	if k.Stop {
		mode = "one-stop"
	}
	outs, err := genharness.RunBatch([]genharness.Spec{{Name: tmName(k.TM), TM: k.TM, Driver: driver, Cases: []genharness.Case{{Mode: mode, Text: k.Text}}}}, genharness.BatchOpts{CaseTimeout: 45 * time.Second})
	if err != nil || len(outs) != 1 || len(outs[0].Results) != 1 {
		c.Violate("layerB:harness", fmt.Sprintf("cannot re-run a suspected hang: %v", err), k)
		return
	}
	res := outs[0].Results[0]
	if res.Hang {
		c.Violate(keyFor(it.v, "non-termination:no-observable-step"), fmt.Sprintf("the parser does not return within 45 s on the %d-byte input %q (stop=%v) run alone, and calls neither the listener nor the handler meanwhile; grammar %s + %s variant %+v", len(k.Text), k.Text, k.Stop, it.base, rulesString(it.errs), it.v), k)
		return
	}
	c.Add("suspected_hangs_not_reproduced", 1)
	for _, fd := range judge(obsFor(exp, k.Text, k.Stop, resultVerdict(res), res.Handler)) {
		c.Violate(keyFor(it.v, fd.key), fmt.Sprintf("%s; input %q (stop=%v), grammar %s + %s variant %+v", fd.what, k.Text, k.Stop, it.base, rulesString(it.errs), it.v), k)
	}
}

func rulesString(rs []gramenum.Rule) string {
	var parts []string
	for _, r := range rs {
		var s []string
		for _, x := range r.RHS {
			s = append(s, symName(x))
		}
		parts = append(parts, symName(r.LHS)+": "+strings.Join(s, " "))
	}
	return strings.Join(parts, " | ")
}

// locate finds the single input behind a sweep that hung (or whose driver died): every input is
// run as its own case with a short watchdog, then the first suspicious one is re-run ALONE with a
// long timeout. Only that last run is believed.
func (r *runner) locate(it *item, tmText, twinTM string, exp map[string]int, sweep genharness.Result) {
	c := r.c
	if r.located >= 2 {
		r.hungMore++
		return
	}
	r.located++
	var cases []genharness.Case
	var all []string
	var gen func(prefix string, k int)
	for n := 0; n <= r.L; n++ {
		gen = func(prefix string, k int) {
			if k == 0 {
				all = append(all, prefix)
				return
			}
			for i := 0; i < len(sigma); i++ {
				gen(prefix+string(sigma[i]), k-1)
			}
		}
		gen("", n)
	}
	for _, w := range all {
		cases = append(cases, genharness.Case{Mode: "one", Text: w}, genharness.Case{Mode: "one-stop", Text: w})
	}
	name := tmName(tmText)
	outs, err := genharness.RunBatch([]genharness.Spec{{Name: name, TM: tmText, Driver: driver, Cases: cases}}, genharness.BatchOpts{CaseTimeout: 3 * time.Second})
	if err != nil || len(outs) == 0 || len(outs[0].Results) == 0 {
		c.Violate("layerB:harness", fmt.Sprintf("cannot localise a failed sweep (hang=%v panic=%q): %v", sweep.Hang, sweep.Panic, err), recCase{TM: tmText})
		return
	}
	for i, res := range outs[0].Results {
		if !res.Hang && !strings.HasPrefix(res.Panic, "driver process died") {
			continue
		}
		cs := cases[i]
		// re-run alone, long timeout
		one, err := genharness.RunBatch([]genharness.Spec{{Name: name, TM: tmText, Driver: driver, Cases: []genharness.Case{cs}}}, genharness.BatchOpts{CaseTimeout: 45 * time.Second})
		rcv := recCase{TM: tmText, TwinTM: twinTM, Base: it.base, Errs: it.errs, V: it.v, Text: cs.Text, Stop: cs.Mode == "one-stop"}
		if err == nil && len(one) == 1 && len(one[0].Results) == 1 {
			rr := one[0].Results[0]
			if rr.Hang {
				c.Violate(keyFor(it.v, "non-termination:no-observable-step"), fmt.Sprintf("the parser does not return within 45 s on the %d-byte input %q (mode %s) run alone, without calling the listener or the handler; grammar %s + %s variant %+v", len(cs.Text), cs.Text, cs.Mode, it.base, rulesString(it.errs), it.v), rcv)
				return
			}
			if strings.HasPrefix(rr.Panic, "driver process died") {
				c.Violate(keyFor(it.v, "driver-died"), fmt.Sprintf("the driver process dies on input %q: %s", cs.Text, rr.Panic), rcv)
				return
			}
		}
	}
	c.Capped("a sweep hung or died but no single input reproduced it alone (load?)")
}

func tmName(tm string) string {
	// "language g00012(go);"
	s := strings.TrimPrefix(tm, "language ")
	return s[:strings.IndexByte(s, '(')]
}

// ---------------------------------------------------------------------------------------------
// Replay of one recorded input.

func replay(c *core.Ctx, raw json.RawMessage) error {
	var k recCase
	if err := json.Unmarshal(raw, &k); err != nil {
		return err
	}
	if k.Base == nil {
		if k.TM == "" && k.TwinTM == "" {
			var h shippedHistory
			if json.Unmarshal(raw, &h) == nil && h.Lang != "" {
				if got, want := runShippedHistory(h); got != want {
					return fmt.Errorf("second parse gives %s, a fresh parser gives %s", oneLine(got), oneLine(want))
				}
				return nil
			}
			return shippedReplay(raw)
		}
		return fmt.Errorf("no grammar recorded")
	}
	if k.History {
		mode := "pair"
		if k.Reinit {
			mode = "pair-reinit"
		}
		outs, err := genharness.RunBatch([]genharness.Spec{{Name: tmName(k.TM), TM: k.TM, Driver: driver, Cases: []genharness.Case{{Mode: mode, Text: k.First + "\x00" + k.Text}}}}, genharness.BatchOpts{CaseTimeout: 45 * time.Second})
		if err != nil {
			return err
		}
		if len(outs) != 1 || len(outs[0].Results) != 1 || outs[0].Results[0].Extra == nil {
			if outs[0].GenErr != "" {
				return nil
			}
			return fmt.Errorf("history run failed: %s %s %+v", outs[0].GenPanic, outs[0].BuildErr, outs[0].Results)
		}
		e := outs[0].Results[0].Extra
		if e["history"] != e["fresh"] {
			return fmt.Errorf("second parse after %q gives %v, a fresh parser gives %v", k.First, e["history"], e["fresh"])
		}
		return nil
	}
	full := k.Base.Clone()
	full.Rules = append(full.Rules, k.Errs...)
	L := max(5, len(k.Text))
	exp, _ := expectations(full, min(L, 7))
	mode := "one"
	if k.Stop {
		mode = "one-stop"
	}
	name := tmName(k.TM)
	specs := []genharness.Spec{{Name: name, TM: k.TM, Driver: driver, Cases: []genharness.Case{{Mode: mode, Text: k.Text}}}}
	if k.TwinTM != "" {
		specs = append(specs, genharness.Spec{Name: tmName(k.TwinTM), TM: k.TwinTM, Driver: driver, Cases: []genharness.Case{{Mode: "one", Text: k.Text}}})
	}
	outs, err := genharness.RunBatch(specs, genharness.BatchOpts{CaseTimeout: 45 * time.Second})
	if err != nil {
		return err
	}
	out := outs[0]
	if out.GenErr != "" || out.GenPanic != "" || out.BuildErr != "" || len(out.Results) == 0 {
		if out.GenPanic != "" || out.BuildErr != "" {
			return fmt.Errorf("generate/build: %s %s", out.GenPanic, out.BuildErr)
		}
		return nil // no longer in the domain
	}
	res := out.Results[0]
	if res.Hang {
		return fmt.Errorf("the parser does not return on %q within 45 s", k.Text)
	}
	o := obsFor(exp, k.Text, k.Stop, resultVerdict(res), res.Handler)
	var msgs []string
	for _, f := range judge(o) {
		msgs = append(msgs, f.key+": "+f.what)
	}
	if o.sentence && !k.Stop && len(outs) > 1 && len(outs[1].Results) == 1 {
		tw := outs[1].Results[0]
		if eventString(tw.Events) != eventString(res.Events) || tw.Accept != res.Accept {
			msgs = append(msgs, fmt.Sprintf("sentence-differs-from-no-recovery-twin: events %q vs %q", eventString(res.Events), eventString(tw.Events)))
		}
	}
	if len(msgs) > 0 {
		return fmt.Errorf("%s", strings.Join(msgs, "; "))
	}
	return nil
}

// ---------------------------------------------------------------------------------------------
// Shipped recovering parsers (tm, js).

type shippedCase struct {
	Config string `json:"config"`
	Text   string `json:"shipped_text"`
}

var tmSeeds = []string{
	"language l(go);\n:: lexer\nk: /b/\n:: parser\nx: k ;\n",
	"language l(go);\nprefix = \"A\"\n:: lexer\n<s> a: /x/ (space)\nb: /y/ { foo() }\n:: parser\n%input z;\nz -> Z: a (b | a)* ;\n",
	"language l(go); :: lexer k: 'b' :: parser %left k; z {T}: (k separator k)+ | [A] set(~k) ;",
	"language l(go);\n:: lexer\n%s init, other;\n<init> { a: /q/ }\n:: parser\nx<flag F>: [F] a | y=a? -> N/M,O ;\n",
}

var jsSeeds = []string{
	"var a = 1;\nfunction f(x) { return x + 1; }\n",
	"if (a) { b(); } else { c = [1, 2]; }",
	"class K { m() { for (;;) {} } }",
	"x = {a: 1, b: `t${y}`}; y = a ? b : c",
	// line breaks inside nested constructs: after a deletion the offending token starts a line, so
	// the error token is an automatically inserted semicolon with the real token delayed
	"x = {a: 1 +\n 2 * 3,\n b: [c,\n d]}\ny = f(a,\n b)\n",
}

// tokenRanges returns the (offset, endoffset) of every non-eoi token of the language's lexer.
func tokenRanges(lang, src string) [][2]int {
	var out [][2]int
	switch lang {
	case "tm":
		var l tm.Lexer
		l.Init(src)
		for i := 0; i < 4*len(src)+8; i++ {
			t := l.Next()
			if t == tmtoken.EOI {
				break
			}
			s, e := l.Pos()
			out = append(out, [2]int{s, e})
		}
	case "js":
		var l js.Lexer
		l.Init(src)
		for i := 0; i < 4*len(src)+8; i++ {
			t := l.Next()
			if t == jstoken.EOI {
				break
			}
			s, e := l.Pos()
			out = append(out, [2]int{s, e})
		}
	}
	return out
}

func mutations(lang, seed string) []string {
	out := []string{seed}
	seen := map[string]bool{seed: true}
	add := func(s string) {
		if !seen[s] {
			seen[s] = true
			out = append(out, s)
		}
	}
	for _, r := range tokenRanges(lang, seed) {
		if r[0] >= r[1] {
			continue
		}
		add(seed[:r[0]] + seed[r[1]:])                         // deletion
		add(seed[:r[1]] + " " + seed[r[0]:r[1]] + seed[r[1]:]) // duplication
	}
	return out
}

type shippedRun struct {
	err      error
	handlers [][2]int
	events   int
	aborted  bool
	panicMsg string
	hang     bool
	skipped  bool
}

func runShipped(cfg *shipped.ParserConfig, src string, timeout time.Duration) shippedRun {
	done := make(chan shippedRun, 1)
	go func() {
		var r shippedRun
		budget := 10000 * (len(src) + 1)
		steps := 0
		defer func() {
			if e := recover(); e != nil {
				if _, ok := e.(shipped.TooManyEvents); ok {
					r.aborted = true
				} else {
					r.panicMsg = fmt.Sprint(e)
				}
			}
			done <- r
		}()
		sink := shipped.Sink{
			Node: func(t, off, end int) {
				r.events++
				if steps++; steps > budget {
					panic(shipped.TooManyEvents{N: steps})
				}
			},
			Error: func(off, end int) {
				r.handlers = append(r.handlers, [2]int{off, end})
				if steps++; steps > budget {
					panic(shipped.TooManyEvents{N: steps})
				}
			},
		}
		r.err = cfg.Run(context.Background(), src, sink)
	}()
	select {
	case r := <-done:
		return r
	case <-time.After(timeout):
		return shippedRun{hang: true}
	}
}

func judgeShipped(cfg *shipped.ParserConfig, src string, r shippedRun) []finding {
	verdict := "A"
	switch {
	case r.hang:
		return []finding{{"non-termination:no-observable-step", "the parser does not return within 60 s"}}
	case r.panicMsg != "":
		verdict = "P:" + r.panicMsg
	case r.aborted:
		verdict = "B"
	case r.err != nil:
		verdict = "X:" + r.err.Error()
		switch se := r.err.(type) {
		case tm.SyntaxError:
			verdict = fmt.Sprintf("E%d,%d", se.Offset, se.Endoffset)
		case js.SyntaxError:
			verdict = fmt.Sprintf("E%d,%d", se.Offset, se.Endoffset)
		}
	}
	return judge(obs{n: len(src), stop: strings.HasSuffix(cfg.Name, "-stop"), verdict: verdict, handlers: r.handlers})
}

func shippedPart(c *core.Ctx) {
	type job struct {
		cfg  *shipped.ParserConfig
		text string
	}
	var jobs []job
	for _, lang := range []string{"tm", "js"} {
		seeds := tmSeeds
		cfgs := []string{"tm:file", "tm:file-stop"}
		if lang == "js" {
			seeds = jsSeeds
			cfgs = []string{"js:module", "js:module-stop", "js-ts:module"}
		}
		for _, seed := range seeds {
			for _, m := range mutations(lang, seed) {
				for _, cn := range cfgs {
					jobs = append(jobs, job{shipped.ParserConfigByName(cn), m})
				}
			}
		}
	}
	// First pass with a 10 s watchdog. A parse that does not come back keeps spinning in this
	// process, so after 3 of them the remaining inputs are not run; the first one is re-run ALONE
	// with 60 s and only that run is believed.
	res := make([]shippedRun, len(jobs))
	var hung int32
	core.ParallelFor(len(jobs), 8, func(i int) {
		if atomic.LoadInt32(&hung) >= 3 {
			res[i].skipped = true
			return
		}
		res[i] = runShipped(jobs[i].cfg, jobs[i].text, 10*time.Second)
		if res[i].hang {
			atomic.AddInt32(&hung, 1)
		}
	})
	confirmed := false
	distinct := map[string]bool{}
	for i, j := range jobs {
		r := res[i]
		if r.skipped {
			c.Capped("shipped parsers: inputs skipped after parses that did not return")
			continue
		}
		if r.hang {
			if confirmed {
				continue
			}
			confirmed = true
			r = runShipped(j.cfg, j.text, 60*time.Second)
			if !r.hang {
				c.Add("suspected_hangs_not_reproduced", 1)
			}
		}
		c.Eval(1)
		c.Add("shipped_runs", 1)
		switch {
		case r.err == nil && len(r.handlers) == 0:
			c.Outcome("shipped: accepted without error", 1)
		case r.err == nil:
			c.Outcome("shipped: recovered", 1)
		default:
			c.Outcome("shipped: error returned", 1)
		}
		distinct[fmt.Sprint(j.cfg.Name, len(j.text), r.handlers, r.err)] = true
		for _, f := range judgeShipped(j.cfg, j.text, r) {
			c.Violate("shipped:"+j.cfg.Name+":"+f.key, fmt.Sprintf("%s; input %q", f.what, j.text), shippedCase{j.cfg.Name, j.text})
		}
	}
	c.States(int64(len(distinct)))
	c.Transitions(int64(len(jobs)))
	if atomic.LoadInt32(&hung) > 0 {
		c.Capped("shipped parsers: histories not run because single parses did not return")
		return
	}
	shippedHistories(c)
}

// hOut is what one parse of a reused shipped parser value reports.
type hOut struct {
	err      string
	handlers [][2]int
	events   []shipped.Event
	steps    int
}

func (o *hOut) String() string { return fmt.Sprintf("%s|%v|%v", o.err, o.handlers, o.events) }

// hSession is ONE tm.Parser / js.Parser value used for several inputs (a new TokenStream per
// input, as in the parsers' own tests).
type hSession struct {
	lang string
	tmp  tm.Parser
	jsp  js.Parser
	cur  *hOut
	max  int
}

func (s *hSession) node(t, off, end int) {
	s.cur.events = append(s.cur.events, shipped.Event{Type: t, Off: off, End: end})
	if s.cur.steps++; s.cur.steps > s.max {
		panic(shipped.TooManyEvents{N: s.cur.steps})
	}
}

func (s *hSession) handler(off, end int) bool {
	s.cur.handlers = append(s.cur.handlers, [2]int{off, end})
	if s.cur.steps++; s.cur.steps > s.max {
		panic(shipped.TooManyEvents{N: s.cur.steps})
	}
	return true
}

func (s *hSession) init() {
	if s.lang == "tm" {
		s.tmp.Init(func(se tm.SyntaxError) bool { return s.handler(se.Offset, se.Endoffset) }, func(t tm.NodeType, off, end int) { s.node(int(t), off, end) })
	} else {
		s.jsp.Init(func(se js.SyntaxError) bool { return s.handler(se.Offset, se.Endoffset) }, func(t js.NodeType, off, end int) { s.node(int(t), off, end) })
	}
}

func (s *hSession) parse(src string) (o hOut) {
	s.cur = &o
	s.max = 10000 * (len(src) + 1)
	defer func() {
		if e := recover(); e != nil {
			if _, ok := e.(shipped.TooManyEvents); ok {
				o.err = "step budget exhausted"
			} else {
				o.err = fmt.Sprint("panic: ", e)
			}
		}
	}()
	var err error
	if s.lang == "tm" {
		var st tm.TokenStream
		st.Init(src, func(t tm.NodeType, off, end int) { s.node(int(t), off, end) })
		err = s.tmp.ParseFile(context.Background(), &st)
	} else {
		var st js.TokenStream
		st.Init(src, func(t js.NodeType, off, end int) { s.node(int(t), off, end) })
		err = s.jsp.ParseModule(context.Background(), &st)
	}
	switch e := err.(type) {
	case nil:
		o.err = "nil"
	case tm.SyntaxError:
		o.err = fmt.Sprintf("SyntaxError[%d,%d)", e.Offset, e.Endoffset)
	case js.SyntaxError:
		o.err = fmt.Sprintf("SyntaxError[%d,%d)", e.Offset, e.Endoffset)
	default:
		o.err = err.Error()
	}
	return o
}

type shippedHistory struct {
	Lang   string `json:"history_lang"`
	First  string `json:"first"`
	Second string `json:"second"`
	Reinit bool   `json:"reinit"`
}

func runShippedHistory(k shippedHistory) (got, want string) {
	fresh := &hSession{lang: k.Lang}
	fresh.init()
	w := fresh.parse(k.Second)
	s := &hSession{lang: k.Lang}
	s.init()
	s.parse(k.First)
	if k.Reinit {
		s.init()
	}
	g := s.parse(k.Second)
	return g.String(), w.String()
}

// shippedHistories: every pair (w1, w2) of the malformed inputs on one parser value; the second
// parse must be indistinguishable from a fresh parser's parse of w2.
func shippedHistories(c *core.Ctx) {
	for _, lang := range []string{"tm", "js"} {
		seeds := tmSeeds
		if lang == "js" {
			seeds = jsSeeds
		}
		var inputs []string
		seen := map[string]bool{}
		for _, seed := range seeds {
			for _, m := range mutations(lang, seed) {
				if !seen[m] {
					seen[m] = true
					inputs = append(inputs, m)
				}
			}
		}
		fresh := make([]string, len(inputs))
		core.ParallelFor(len(inputs), 8, func(i int) {
			s := &hSession{lang: lang}
			s.init()
			o := s.parse(inputs[i])
			fresh[i] = o.String()
		})
		type diff struct {
			k         shippedHistory
			got, want string
		}
		diffs := make([][]diff, len(inputs))
		core.ParallelFor(len(inputs), 8, func(i int) {
			for j := range inputs {
				for _, reinit := range []bool{false, true} {
					s := &hSession{lang: lang}
					s.init()
					s.parse(inputs[i])
					if reinit {
						s.init()
					}
					o := s.parse(inputs[j])
					if g := o.String(); g != fresh[j] && len(diffs[i]) < 3 {
						diffs[i] = append(diffs[i], diff{shippedHistory{lang, inputs[i], inputs[j], reinit}, g, fresh[j]})
					}
				}
			}
		})
		n := int64(len(inputs)) * int64(len(inputs)) * 2
		c.Eval(n)
		c.Transitions(n)
		c.Add("shipped_history_runs", n)
		for _, ds := range diffs {
			for _, d := range ds {
				key := "shipped:" + lang + ":history:second-parse-differs-from-fresh-parser"
				if d.k.Reinit {
					key += ":after-reinit"
				}
				c.Violate(key, fmt.Sprintf("one %s parser value parses %q and then %q (Init again in between: %v): the second parse gives %s, a fresh parser gives %s (error|handler calls|events)", lang, d.k.First, d.k.Second, d.k.Reinit, oneLine(d.got), oneLine(d.want)), d.k)
			}
		}
	}
}

func oneLine(s string) string {
	if len(s) > 160 {
		return s[:160] + "…"
	}
	return s
}

func shippedReplay(raw json.RawMessage) error {
	var k shippedCase
	if err := json.Unmarshal(raw, &k); err != nil {
		return err
	}
	cfg := shipped.ParserConfigByName(k.Config)
	if cfg == nil {
		return fmt.Errorf("unknown config %q", k.Config)
	}
	r := runShipped(cfg, k.Text, 60*time.Second)
	var msgs []string
	for _, f := range judgeShipped(cfg, k.Text, r) {
		msgs = append(msgs, f.key+": "+f.what)
	}
	if len(msgs) > 0 {
		return fmt.Errorf("%s", strings.Join(msgs, "; "))
	}
	return nil
}
