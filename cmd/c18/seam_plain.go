//go:build !verifoverlay

package main

// Built WITHOUT the map-order overlay (build.sh printed why): no control over map iteration.
const overlayBuilt = false

func seamReset()                             {}
func seamSet(slot int, k int64, e, d uint64) {}
func seamPassthrough(on bool)                {}
func seamCount() (total, small, large int64) { return 0, 0, 0 }
func seamInfo(k int64) uint32                { return 0 }

func seamSite() (fn, pos string) { return "", "" }

const seamTraceLen = 0
