# Feature: templates with flags -> syntax/templates.go (instantiation), lookahead flags.
language templ(go);

lang = "templ"
package = "example.com/verif/templ"
eventBased = true
eventFields = true

:: lexer

space: /[ \t\r\n]+/ (space)
id:  /[a-z]+/ (class)
num: /[0-9]+/
'in': /in/
'as': /as/
'yield': /yield/
'await': /await/
'let': /let/
'+': /\+/
'(': /\(/
')': /\)/
',': /,/
';': /;/
'{': /\{/
'}': /\}/
error:
invalid_token:

:: parser

%input File;

%interface Stmt, Expr;

%flag In;
%flag Yield;
%flag Await = false;
%flag WithoutAs = false;
%lookahead flag NoLet = false;
%lookahead flag NoBrace = false;

File -> File :
    Stmt<+In, ~Yield>+ ;

Stmt<In, Yield, Await> -> Stmt :
    Expr<+NoLet, +NoBrace> ';'                 -> ExprStmt
  | 'let' id ';'                               -> LetStmt
  | '{' Stmt<+In>* '}'                         -> Block
  | [Yield] 'yield' Expr<~In> ';'              -> YieldStmt
  | [Await] 'await' Expr ';'                   -> AwaitStmt
  | 'let' '(' Stmt<+Yield, +Await> ')'         -> Gen
;

Expr<In, Yield, Await, WithoutAs> -> Expr :
    Primary
  | left=Expr '+' right=Primary                -> Plus
  | [In] left=Expr 'in' right=Primary          -> InExpr
  | [!WithoutAs] left=Expr 'as' id             -> AsExpr
;

Primary<Yield, Await> -> Expr :
    [!NoLet] 'let'                             -> LetRef
  | [!NoBrace] '{' '}'                         -> Obj
  | id                                         -> Ref
  | num                                        -> Num
  | [!Yield] 'yield'                           -> YieldRef
  | [!Await] 'await'                           -> AwaitRef
  | '(' Expr<+In, +WithoutAs> ')'              -> Parens
;
