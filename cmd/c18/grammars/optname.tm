# Feature: symbol names in semantic actions when a rule references both X and Xopt
# (compiler/syntax.go strips the "opt" suffix from the names visible to an action).
language optname(go);

lang = "optname"
package = "example.com/verif/optname"
aliasIncludesOptSuffix = false

:: lexer

space: /[ \t\r\n]+/ (space)
id {string}:  /[a-z]+/   { $$ = l.Text() }
num {int}: /[0-9]+/      { $$ = len(l.Text()) }
'(': /\(/
')': /\)/
',': /,/
';': /;/
error:
invalid_token:

:: parser

%input File;

File :
    Stmt+ ;

Stmt {int} :
    '(' Expr ',' Expropt ')' ';'   { $$ = $Expr }
  | id ',' idopt ';'               { $$ = len($id) }
;

Expr {int} :
    num                          { $$ = $num }
;
