# Feature: mid-rule actions with named references, value types, optional names
# -> compiler.commandExtractor, grammar.ActionVars (Names/Remap/Types maps), goParserAction.
language midrule(go);

lang = "midrule"
package = "example.com/verif/midrule"

:: lexer

space: /[ \t\r\n]+/ (space)
id {string}:  /[a-z]+/   { $$ = l.Text() }
num {int}: /[0-9]+/      { $$ = len(l.Text()) }
'(': /\(/
')': /\)/
',': /,/
';': /;/
'=': /=/
'+': /\+/
'->': /->/
error:
invalid_token:

:: parser

%input File;

File :
    Stmt+ ;

Stmt {int} :
    id[a] '=' { use($a) } Expr[b] { use2($a, $b) } ';' { $$ = $b }
  | id[a] '->' { use($a) } id[c] { use2($a, $c) } '(' Expr[d]? ')' { $$ = len($a) + len($c); _ = $d }
  | num[first] ',' num[second] ',' num[third] { $$ = $first + $second + $third }
  | (id[x] | num[y]) '+' { /* shared */ } Expr[z] { $$ = $z; _ = $x; _ = $y }
  | '(' { enter() } Stmt { leave() } ')' { $$ = $Stmt }
  | '(' { enter() } ';' ')' { $$ = 0 }
;

Expr {int} :
    num                          { $$ = $num }
  | id                           { $$ = len($id) }
  | Expr[l] '+' { plus() } num[r]  { $$ = $l + $r }
;
%%

{{define "onAfterParser"}}
func use(s string)           {}
func use2(a, b interface{})  {}
func enter()                 {}
func leave()                 {}
func plus()                  {}
{{end}}
