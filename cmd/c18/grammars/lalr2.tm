# Feature: lalr(2) conflicts resolved by a second token of lookahead -> lalr/trie.go:resolve.
language lalr2(go);

lang = "lalr2"
package = "example.com/verif/lalr2"
eventBased = true

:: lexer

space: /[ \t\r\n]+/ (space)
'a': /a/
'b': /b/
'c': /c/
'd': /d/
'e': /e/
'x': /x/
'y': /y/
'z': /z/
';': /;/
error:
invalid_token:

:: parser lalr(2)

input -> File :
    stmt+ ;

stmt -> Stmt :
    'a' X 'z' 'x' ';'    -> SX
  | 'a' Y 'z' 'y' ';'    -> SY
  | 'a' W 'z' 'c' ';'    -> SW
  | 'b' P 'x' 'x'        -> BP
  | 'b' Q 'x' 'y'        -> BQ
  | 'b' R 'y' 'd'        -> BR
  | 'b' T 'y' 'e'        -> BT
;

X -> X : 'z' ;
Y -> Y : 'z' ;
W -> W : 'z' ;
P -> P : 'c' ;
Q -> Q : 'c' ;
R -> R : 'c' ;
T -> T : 'c' ;
