language json(cc);

namespace = "json"
includeGuardPrefix = "EXAMPLES_JSON_"
tokenLineOffset = true
tokenColumn = true
filenamePrefix = "json_"
optimizeTables = true
eventBased = true
extraTypes = ["NonExistingType"]
parseParams = ["int a", "bool b"]
debugParser = true
scanBytes = true

:: lexer

%s initial, foo;

'{': /\{/
'}': /\}/
'[': /\[/
']': /\]/
':': /:/
',': /,/

<foo> Foo: /\#/

space: /[\t\r\n ]+/ (space)

commentChars = /([^*]|\*+[^*\/])*\**/
MultiLineComment: /\/\*{commentChars}\*\// (space)

hex = /[0-9a-fA-F]/

# TODO
JSONString: /"([^"\\]|\\(["\/\\bfnrt]|u{hex}{4}))*"/
#JSONString: /"([^"\\\x00-\x1f]|\\(["\/\\bfnrt]|u{hex}{4}))*"/

fraction = /\.[0-9]+/
exp = /[eE][+-]?[0-9]+/
JSONNumber: /-?(0|[1-9][0-9]*){fraction}?{exp}?/

id: /[a-zA-Z][a-zA-Z0-9]*/ (class)

kw_null: /null/
'true': /true/
'false': /false/

'A': /A/
'A': /α/
'B': /B/

'A': /A!/ { /*some code */ }

error:
invalid_token:

:: parser

%input JSONText;

%inject MultiLineComment -> MultiLineComment/Bar,Foo;
%inject invalid_token -> InvalidToken;
%inject JSONString -> JsonString;

%generate Literals = set(first JSONValue<+A>);

%flag A;

JSONText {bool b} -> JSONText :
    JSONValue<+A>[val] { $$ = $val; } ;

JSONValue<A> {int a} -> JSONValue :
    kw_null
  | 'true'
  | 'false'    { $$ = 5; }
  | [A] 'A'
  | [!A] 'B'
  | JSONObject
  | EmptyObject
  | JSONArray
  | JSONString
  | JSONNumber
;

EmptyObject -> EmptyObject : (?= EmptyObject) '{' '}' { @$.begin = @1.begin; } ;

JSONObject -> JSONObject/Foo :
    (?= !EmptyObject) '{' JSONMemberList? '}' { @$.begin = @1.begin; } ;

JSONMember {int c} -> JSONMember/Foo :
    JSONString ':'[b] { LOG(INFO) << @b.begin; } JSONValue<~A> { $$ = a; }
  | error -> SyntaxProblem
;

JSONMemberList {bool d}:
    JSONMember  { $$ = b; }
  | JSONMemberList .foo ',' JSONMember
;

JSONArray -> JSONArray/Foo :
    .bar '[' JSONElementListopt ']' ;

JSONElementList :
    JSONValue<+A>
  | JSONElementList ',' JSONValue<+A>
;
