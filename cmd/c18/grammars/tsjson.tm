language json(ts);

tokenLine = true
eventBased = true
eventAST = true
genSelector = true
fixWhitespace = true
extraTypes = ["NonExistingType"]

:: lexer

'{': /\{/
'}': /\}/
'[': /\[/
']': /\]/
':': /:/
',': /,/

space: /[\t\r\n ]+/ (space)

commentChars = /([^*]|\*+[^*\/])*\**/
MultiLineComment: /\/\*{commentChars}\*\// (space)

hex = /[0-9a-fA-F]/

# TODO
JSONString {string}: /"([^"\\]|\\(["\/\\bfnrt]|u{hex}{4}))*"/
#JSONString: /"([^"\\\x00-\x1f]|\\(["\/\\bfnrt]|u{hex}{4}))*"/

fraction = /\.[0-9]+/
exp = /[eE][+-]?[0-9]+/
JSONNumber: /-?(0|[1-9][0-9]*){fraction}?{exp}?/

id: /[a-zA-Z][a-zA-Z0-9]*/ (class)

'null': /null/
'true': /true/
'false': /false/

error:
invalid_token:

:: parser

%input JSONText;

%inject MultiLineComment -> MultiLineComment;
%inject invalid_token -> InvalidToken;
%inject JSONString -> JSONString;

%generate Literals = set(first JSONValue);

JSONText -> JSONText :
    JSONValue ;

JSONValue -> JSONValue :
    'null'
  | 'true'
  | 'false'
  | JSONObject
  | JSONArray
  | JSONString
  | JSONNumber
;

JSONObject -> JSONObject :
    '{' JSONMemberList? '}' ;

JSONMember -> JSONMember :
    JSONString ':' JSONValue ;

JSONMemberList :
    JSONMember
  | JSONMemberList ',' JSONMember
;

JSONArray -> JSONArray :
    '[' JSONElementListopt ']' ;

JSONElementList :
    JSONValue
  | JSONElementList ',' JSONValue
;
