# Feature: custom optInstantiationSuffix ("_opt") with aliasIncludesOptSuffix = false and a
# nonterminal whose own name ends with that suffix.
language optsuffix2(go);

lang = "optsuffix2"
package = "example.com/verif/optsuffix2"
aliasIncludesOptSuffix = false
optInstantiationSuffix = "_opt"

:: lexer

space: /[ \t\r\n]+/ (space)
'a': /a/
'b': /b/
'c': /c/
'd': /d/
'e': /e/
';': /;/
error:
invalid_token:

:: parser

%input input;

input :
    x_opt_opt { mid() } 'b'
  | x_opt_opt { mid() } 'c'
  | 'd' x_opt_opt 'e'             { _ = $x_opt }
  | 'e' y_opt { mid() } x_opt_opt ';'   { _ = $y; _ = $x_opt }
;

x_opt : 'a' ;
y : 'b' 'a' ;

%%

{{define "onAfterParser"}}
func mid() {}
{{end}}
