# Feature: injected tokens (%inject) -> MappedTokens/UsedFlags, stream template.
# Deliberately declares the same language name as ast.tm with a different nodePrefix:
# anything cached per grammar *name* across generations would leak between the two.
language feat(go);

lang = "feat"
package = "example.com/verif/inject"
eventBased = true
eventFields = true
genSelector = true
nodePrefix = "N"
tokenStream = true
fixWhitespace = true

:: lexer

space: /[ \t\r\n]+/ (space)
lineComment: /\/\/[^\n]*/ (space)
blockComment: /\/\*([^*]|\*+[^*\/])*\*+\// (space)
pragma: /#[a-z]+/ (space)
id:  /[a-z]+/
num: /[0-9]+/
'(': /\(/
')': /\)/
';': /;/
'=': /=/
error:
invalid_token:

:: parser

%input File;

%inject lineComment -> LineComment/Trivia;
%inject blockComment -> BlockComment/Trivia,Multi;
%inject pragma -> Pragma;
%inject invalid_token -> InvalidToken;
%inject id -> Name;

File -> File :
    Stmt+ ;

Stmt -> Stmt :
    id '=' Expr ';'    -> Assign
  | Expr ';'           -> ExprStmt
;

Expr -> Expr :
    id                 -> Ref
  | num                -> Lit
  | '(' Expr ')'       -> Parens
;
