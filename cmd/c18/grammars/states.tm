# Feature: lexer start conditions (%s / %x, <state> blocks, <*>) -> lexer tables per state.
language states(go);

lang = "states"
package = "example.com/verif/states"
eventBased = true

:: lexer

%s initial, afterDot;
%x inString, inComment;

<*> eoi: /{eoi}/

invalid_token:
error:

<initial, afterDot> {
  space: /[ \t\r\n]+/ (space)
  id: /[a-z]+/ (class) { l.State = StateInitial }
  num: /[0-9]+/       { l.State = StateInitial }
  '.': /\./           { l.State = StateAfterDot }
  ';': /;/            { l.State = StateInitial }
}

<initial, afterDot> 'kw': /kw/   { l.State = StateInitial }

<initial> {
  strStart: /"/ (space)     { l.State = StateInString }
  comment: /\/\*/ (space)   { l.State = StateInComment }
}

<inString> {
  strChars: /[^"\n]+/
  strEnd: /"/               { l.State = StateInitial }
}

<inComment> {
  comment: /[^*]+|\*/ (space)
  comment: /\*\// (space)   { l.State = StateInitial }
}

:: parser

%input File;

File -> File :
    Stmt+ ;

Stmt -> Stmt :
    Path ';'
  | strChars* strEnd ';'     -> Str
;

Path -> Path :
    Elem
  | Path '.' Elem
;

Elem -> Elem :
    id | num | 'kw' ;
