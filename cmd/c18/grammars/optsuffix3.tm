# Feature: the same names as optsuffix.tm with the default aliasIncludesOptSuffix (= true): the
# alias of an optional reference keeps the suffix.
language optsuffix3(go);

lang = "optsuffix3"
package = "example.com/verif/optsuffix3"

:: lexer

space: /[ \t\r\n]+/ (space)
'a': /a/
'b': /b/
'c': /c/
'd': /d/
'e': /e/
'g': /g/
'h': /h/
';': /;/
error:
invalid_token:

:: parser

%input input;

input :
    adoptopt { mid() } 'b'
  | adoptopt { mid() } 'c'
  | 'd' adoptopt 'e'              { _ = $adoptopt }
  | 'g' Xoptopt { mid2() } ';'    { _ = $Xoptopt }
  | 'h' X Xoptopt ';'             { _ = $X; _ = $Xoptopt }
;

adopt : 'a' ;
Xopt : 'c' 'c' ;
X : 'e' 'e' ;

%%

{{define "onAfterParser"}}
func mid()  {}
func mid2() {}
{{end}}
