# Feature: eventFields + eventAST with categories, interfaces, extraTypes, arrow flags
# -> syntax/types.go (ExtractTypes), gen selector/ast templates, node_id cache.
language feat(go);

lang = "feat"
package = "example.com/verif/ast"
eventBased = true
eventFields = true
eventAST = true
fileNode = "File"
extraTypes = ["Extra1", "Extra2 -> Expr", "Extra3 -> Expr -> Decl"]

:: lexer

space: /[ \t\r\n]+/ (space)
comment: /#[^\n]*/ (space)
id:  /[a-z]+/ (class)
num: /[0-9]+/
'fn': /fn/
'var': /var/
'type': /type/
'(': /\(/
')': /\)/
'{': /\{/
'}': /\}/
',': /,/
';': /;/
'=': /=/
'+': /\+/
'*': /\*/
'.': /\./
error:
invalid_token:

:: parser

%input File;

%interface Decl, Expr, Stmt;

File -> File :
    decls=Decl+ ;

Decl -> Decl :
    'fn' name=Name '(' params=(Param separator ',')* ')' body=Block   -> Func
  | 'var' name=Name ('=' init=Expr)? ';'                            -> Var/Mutable
  | 'type' name=Name '=' Name ';'                                   -> TypeAlias
;

Name -> Name/Named : id ;

Param -> Param :
    name=Name (typ=Name)? ;

Block -> Block :
    '{' stmts=Stmt* '}' ;

Stmt -> Stmt :
    Expr ';'              -> ExprStmt
  | Decl                  -> DeclStmt
  | Block
;

%left '+';
%left '*';
%left '.';

Expr -> Expr :
    left=Expr '+' right=Expr     -> Binary/Additive
  | left=Expr '*' right=Expr     -> Binary/Multiplicative
  | Expr '.' Name                -> Select
  | Name                         -> Ref
  | num                          -> Lit
  | '(' Expr ')'                 -> Parens
;
