# Feature: two textually identical mid-rule actions behind an optional reference whose base name ends
# with the opt suffix (adopt -> adoptopt), aliasIncludesOptSuffix = false. The actions see a
# single-entry name map; whether they are merged into one extracted nonterminal depends on the
# digest of that map.
language optmid(go);

lang = "optmid"
package = "example.com/verif/optmid"
aliasIncludesOptSuffix = false

:: lexer

space: /[ \t\r\n]+/ (space)
'a': /a/
'b': /b/
'c': /c/
error:
invalid_token:

:: parser

%input input;

input :
    adoptopt { mid() } 'b'
  | adoptopt { mid() } 'c'
;

adopt : 'a' ;

%%

{{define "onAfterParser"}}
func mid() {}
{{end}}
