# Feature: token sets and %generate -> syntax/set.go, grammar.NamedSet.
language sets(go);

lang = "sets"
package = "example.com/verif/sets"
eventBased = true

:: lexer

space: /[ \t\r\n]+/ (space)
id:  /[a-z]+/ (class)
num: /[0-9]+/
str: /"[^"\n]*"/
'{': /\{/
'}': /\}/
'(': /\(/
')': /\)/
';': /;/
',': /,/
'=': /=/
'+': /\+/
'-': /-/
'raw': /raw/
error:
invalid_token:

:: parser

%input File;

%generate exprStart = set(first Expr);
%generate beforeSemi = set(precede ';');
%generate afterId = set(follow id);
%generate stmtLast = set(last Stmt);
%generate notBraces = set(~('{' | '}' | eoi));
%generate mix = set((first Stmt | follow Expr) & ~(precede ')'));

File -> File :
    Stmt+ ;

Stmt -> Stmt :
    id '=' Expr ';'                           -> Assign
  | '{' Stmt* '}'                             -> Block
  | 'raw' '(' set(~(eoi | '(' | ')'))* ')'    -> Raw
  | 'raw' '{' set(first Expr | ',')+ '}'      -> RawBraces
  | error ';'                                 -> Broken
;

Expr -> Expr :
    id | num | str
  | '(' Expr ')'
  | Expr '+' Term
  | Expr '-' Term
;

Term :
    id | num ;
