language json(cc);

namespace = "json"
includeGuardPrefix = "EXAMPLES_JSON_"
tokenLineOffset = true
tokenColumn = true
filenamePrefix = "json_"
optimizeTables = true
eventBased = true
extraTypes = ["NonExistingType"]
parseParams = ["int a", "bool b"]
debugParser = true
flexMode = true

:: lexer

'{': /\{/
'}': /\}/
'[': /\[/
']': /\]/
':': /:/
',': /,/  // comma

MultiLineComment: (space)
// not a trailing comment

JSONString:   // "string literal"
JSONNumber:

id:
kw_null:
'true':
'false':

:: parser

%input JSONText;

%inject MultiLineComment -> MultiLineComment/Bar,Foo;
%inject invalid_token -> InvalidToken;
%inject JSONString -> JsonString;

%generate Literals = set(first JSONValue<+A>);

%flag A;

JSONText {bool b} -> JSONText :
    JSONValue<+A>[val] { $$ = $val; } ;

JSONValue<A> {int a} -> JSONValue :
    kw_null
  | 'true'
  | 'false'    { $$ = 5; }
  | JSONObject
  | EmptyObject
  | JSONArray
  | JSONString
  | JSONNumber
;

EmptyObject -> EmptyObject : (?= EmptyObject) '{' '}' { @$.begin = @1.begin; } ;

JSONObject -> JSONObject/Foo :
    (?= !EmptyObject) '{' JSONMemberList? '}' { @$.begin = @1.begin; } ;

JSONMember {int c} -> JSONMember/Foo :
    JSONString ':' JSONValue<~A> { $$ = a; }
  | error -> SyntaxProblem
;

JSONMemberList {bool d}:
    JSONMember  { $$ = b; }
  | JSONMemberList .foo ',' JSONMember
;

JSONArray -> JSONArray/Foo :
    .bar '[' JSONElementListopt ']' ;

JSONElementList :
    JSONValue<+A>
  | JSONElementList ',' JSONValue<+A>
;
