# Feature: (recursive) lookaheads -> lalr/lookahead.go, synthetic inputs, lookahead rules.
language la(go);

lang = "la"
package = "example.com/verif/la"
eventBased = true
recursiveLookaheads = true
maxLookahead = 8

:: lexer

space: /[ \t\r\n]+/ (space)
id:  /[a-z]+/
num: /[0-9]+/
'(': /\(/
')': /\)/
'=>': /=>/
',': /,/
'.': /\./
'[': /\[/
']': /\]/
error:
invalid_token:

:: parser

%input File;

File -> File :
    item+ ;

item -> Item :
    (?= StartOfArrow) params '=>' id           -> Arrow
  | (?= !StartOfArrow & StartOfIndex) '(' num ')' '[' id ']'   -> Index
  | (?= !StartOfArrow & !StartOfIndex) '(' id ')'   -> Paren
  | (?= !StartOfDotted) id                     -> Plain
  | (?= StartOfDotted) id '.' id               -> Dotted
  | num
;

params :
    '(' ')'
  | '(' id ')'
  | '(' id ',' id ')'
;

StartOfArrow :
    '(' ')' '=>'
  | '(' id ')' '=>'
  | '(' id ',' id ')' '=>'
;

# A lookahead that itself needs a lookahead (recursiveLookaheads).
StartOfIndex :
    '(' num ')' (?= StartOfBracket) '[' ;

StartOfBracket :
    '[' id ']' ;

StartOfDotted :
    id '.' ;
