# Feature: like optmid.tm, but with a DOUBLE opt instantiation: `ad` is declared, `adopt` is the
# auto-instantiated optional of ad and `adoptopt` the optional of that instance, so the name left
# after stripping one suffix (adopt) is itself an opt instance. (adoptopt is ambiguous by
# construction: %expect-rr.)
language optmid2(go);

lang = "optmid2"
package = "example.com/verif/optmid2"
aliasIncludesOptSuffix = false

:: lexer

space: /[ \t\r\n]+/ (space)
'a': /a/
'b': /b/
'c': /c/
'x': /x/
error:
invalid_token:

:: parser

%input input;

%expect-rr 2;

input :
    adopt 'x'
  | adoptopt { mid() } 'b'
  | adoptopt { mid() } 'c'
;

ad : 'a' ;

%%

{{define "onAfterParser"}}
func mid() {}
{{end}}
