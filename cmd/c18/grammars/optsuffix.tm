# Feature: names that themselves end with the opt suffix (adopt, opt, Xopt) referenced through their
# auto-instantiated optional forms (adoptopt, optopt, Xoptopt) with aliasIncludesOptSuffix = false:
# compiler/syntax.go strips the suffix from the names visible to mid-rule and end-of-rule actions.
language optsuffix(go);

lang = "optsuffix"
package = "example.com/verif/optsuffix"
aliasIncludesOptSuffix = false

:: lexer

space: /[ \t\r\n]+/ (space)
'a': /a/
'b': /b/
'c': /c/
'd': /d/
'e': /e/
'f': /f/
'g': /g/
'h': /h/
'i': /i/
';': /;/
error:
invalid_token:

:: parser

%input input;

input :
    adoptopt { mid() } 'b'
  | adoptopt { mid() } 'c'
  | 'd' adoptopt 'e'              { _ = $adopt }
  | 'f' optopt ';'                { _ = $opt }
  | 'g' Xoptopt { mid2() } ';'    { _ = $Xopt }
  | 'h' X Xoptopt ';'             { _ = $X; _ = $Xopt }
  | 'i' X Xopt Xoptopt ';'        { _ = $X }
;

adopt : 'a' ;
opt : 'b' 'b' ;
Xopt : 'c' 'c' ;
X : 'e' 'e' ;

%%

{{define "onAfterParser"}}
func mid()  {}
func mid2() {}
{{end}}
