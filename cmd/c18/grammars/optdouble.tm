# Feature: double opt instantiation with aliasIncludesOptSuffix = false: `ad` and `Y` are declared,
# `adopt`/`Yopt` (instances of ad/Y) and `adoptopt`/`Yoptopt` (instances of the instances) are not.
# Stripping the suffix from `adoptopt` yields `adopt`, which is itself an opt instance.
language optdouble(go);

lang = "optdouble"
package = "example.com/verif/optdouble"
aliasIncludesOptSuffix = false

:: lexer

space: /[ \t\r\n]+/ (space)
'a': /a/
'b': /b/
'c': /c/
'd': /d/
'e': /e/
'f': /f/
'g': /g/
'x': /x/
';': /;/
error:
invalid_token:

:: parser

%input input;

%expect-rr 3;

input :
    adopt 'x'
  | adoptopt { mid() } 'b'
  | adoptopt { mid() } 'c'
  | 'd' adoptopt 'e'              { _ = $adopt }
  | 'f' Yopt ';'                  { _ = $Y }
;

ad : 'a' ;
Y : 'b' 'b' ;

%%

{{define "onAfterParser"}}
func mid()  {}
func mid2() {}
{{end}}
