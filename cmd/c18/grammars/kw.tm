# Feature: keyword (class) specialisations -> grammar.ClassAction.Custom (map[string]int),
# rendered by gen/funcs.go:asStringSwitch (hash buckets with several colliding keywords).
language kw(go);

lang = "kw"
package = "example.com/verif/kw"
eventBased = true

:: lexer

space: /[ \t\r\n]+/ (space)

ident: /[a-z]+/ (class)
upper: /[A-Z][A-Za-z]*/ (class)

# 25 keywords => 32 hash buckets.
'if':     /if/
'in':     /in/
'is':     /is/
'as':     /as/
'at':     /at/
'do':     /do/
'for':    /for/
'let':    /let/
'var':    /var/
'new':    /new/
'not':    /not/
'and':    /and/
'or':     /or/
'else':   /else/
'elif':   /elif/
'while':  /while/
'until':  /until/

# Two-letter keywords with equal letter distance share a bucket (hash%32 == c2-c1).
'ab': /ab/
'bc': /bc/
'cd': /cd/
'de': /de/
'ef': /ef/
'ac': /ac/
'bd': /bd/
'ce': /ce/

'True':   /True/
'False':  /False/
'None':   /None/

';': /;/
'=': /=/

error:
invalid_token:

:: parser

input -> File :
    stmt+ ;

stmt -> Stmt :
    'let' ident '=' expr ';'
  | 'if' expr 'do' stmt ('else' stmt)? 'at'
  | 'while' expr 'do' stmt 'until'
  | 'for' ident 'in' expr 'do' stmt 'elif'
  | 'var' ident ';'
;

expr -> Expr :
    ident
  | upper
  | 'True' | 'False' | 'None'
  | 'new' ident
  | 'not' ident 'and' ident
  | ident 'or' ident
  | ident 'is' ident 'as' ident
  | 'ab' | 'bc' | 'cd' | 'de' | 'ef' | 'ac' | 'bd' | 'ce'
;
