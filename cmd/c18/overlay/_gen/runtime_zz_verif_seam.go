// Overlay-ADDED file: build.sh copies it to overlay/_gen/runtime_zz_verif_seam.go and maps it to
// $GOROOT/src/runtime/zz_verif_seam.go (only for the C18 binary). It re-exports the seam of
// internal/runtime/maps (see maps_seam.go.in), which user code cannot import directly.

package runtime

import "internal/runtime/maps"

// VerifMapIterReset clears the map-iteration counter and all chosen deviations.
func VerifMapIterReset() { maps.VerifReset() }

// VerifSetMapIter: the k-th (0-based) map iteration since reset starts at entry offset e and
// directory offset d; every other iteration starts at offset 0. slot ∈ {0,1}.
func VerifSetMapIter(slot int, k int64, e, d uint64) {
	maps.VerifSetHook(verifCaptureSite)
	maps.VerifSet(slot, k, e, d)
}

var (
	verifSitePCs [24]uintptr
	verifSiteN   int
)

// verifCaptureSite runs inside Iter.Init of a deviating iteration (ordinary goroutine context).
func verifCaptureSite() { verifSiteN = Callers(1, verifSitePCs[:]) }

// VerifMapIterSite returns the call stack of the last deviating map iteration (for CallersFrames)
// and forgets it.
func VerifMapIterSite() []uintptr {
	out := make([]uintptr, verifSiteN)
	copy(out, verifSitePCs[:verifSiteN])
	verifSiteN = 0
	return out
}

// VerifMapIterPassthrough(true): random offsets as in the unpatched runtime.
func VerifMapIterPassthrough(on bool) { maps.VerifPassthrough(on) }

// VerifMapIterCount returns (iterations since reset, over single-group maps, over table maps).
func VerifMapIterCount() (total, small, large int64) { return maps.VerifCount() }

// VerifMapIterInfo returns the recorded shape of the k-th iteration (see maps.VerifInfo).
func VerifMapIterInfo(k int64) uint32 { return maps.VerifInfo(k) }

// VerifMapIterTraceLen is the number of iterations whose shape is recorded.
const VerifMapIterTraceLen = maps.VerifTraceLen
