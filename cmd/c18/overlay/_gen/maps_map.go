// Copyright 2024 The Go Authors. All rights reserved.
// Use of this source code is governed by a BSD-style
// license that can be found in the LICENSE file.

// Package maps implements Go's builtin map type.
package maps

import (
	"internal/abi"
	"internal/goarch"
	"internal/runtime/math"
	"internal/runtime/sys"
	"unsafe"
)

// This package contains the implementation of Go's builtin map type.
//
// The map design is based on Abseil's "Swiss Table" map design
// (https://abseil.io/about/design/swisstables), with additional modifications
// to cover Go's additional requirements, discussed below.
//
// Terminology:
// - Slot: A storage location of a single key/element pair.
// - Group: A group of abi.MapGroupSlots (8) slots, plus a control word.
// - Control word: An 8-byte word which denotes whether each slot is empty,
//   deleted, or used. If a slot is used, its control byte also contains the
//   lower 7 bits of the hash (H2).
// - H1: Upper 57 bits of a hash.
// - H2: Lower 7 bits of a hash.
// - Table: A complete "Swiss Table" hash table. A table consists of one or
//   more groups for storage plus metadata to handle operation and determining
//   when to grow.
// - Map: The top-level Map type consists of zero or more tables for storage.
//   The upper bits of the hash select which table a key belongs to.
// - Directory: Array of the tables used by the map.
//
// At its core, the table design is similar to a traditional open-addressed
// hash table. Storage consists of an array of groups, which effectively means
// an array of key/elem slots with some control words interspersed. Lookup uses
// the hash to determine an initial group to check. If, due to collisions, this
// group contains no match, the probe sequence selects the next group to check
// (see below for more detail about the probe sequence).
//
// The key difference occurs within a group. In a standard open-addressed
// linear probed hash table, we would check each slot one at a time to find a
// match. A swiss table utilizes the extra control word to check all 8 slots in
// parallel.
//
// Each byte in the control word corresponds to one of the slots in the group.
// In each byte, 1 bit is used to indicate whether the slot is in use, or if it
// is empty/deleted. The other 7 bits contain the lower 7 bits of the hash for
// the key in that slot. See [ctrl] for the exact encoding.
//
// During lookup, we can use some clever bitwise manipulation to compare all 8
// 7-bit hashes against the input hash in parallel (see [ctrlGroup.matchH2]).
// That is, we effectively perform 8 steps of probing in a single operation.
// With SIMD instructions, this could be extended to 16 slots with a 16-byte
// control word.
//
// Since we only use 7 bits of the 64 bit hash, there is a 1 in 128 (~0.7%)
// probability of false positive on each slot, but that's fine: we always need
// double check each match with a standard key comparison regardless.
//
// Probing
//
// Probing is done using the upper 57 bits (H1) of the hash as an index into
// the groups array. Probing walks through the groups using quadratic probing
// until it finds a group with a match or a group with an empty slot. See
// [probeSeq] for specifics about the probe sequence. Note the probe
// invariants: the number of groups must be a power of two, and the end of a
// probe sequence must be a group with an empty slot (the table can never be
// 100% full).
//
// Deletion
//
// Probing stops when it finds a group with an empty slot. This affects
// deletion: when deleting from a completely full group, we must not mark the
// slot as empty, as there could be more slots used later in a probe sequence
// and this deletion would cause probing to stop too early. Instead, we mark
// such slots as "deleted" with a tombstone. If the group still has an empty
// slot, we don't need a tombstone and directly mark the slot empty. Insert
// prioritizes reuse of tombstones over filling an empty slots. Otherwise,
// tombstones are only completely cleared during grow, as an in-place cleanup
// complicates iteration.
//
// Growth
//
// The probe sequence depends on the number of groups. Thus, when growing the
// group count all slots must be reordered to match the new probe sequence. In
// other words, an entire table must be grown at once.
//
// In order to support incremental growth, the map splits its contents across
// multiple tables. Each table is still a full hash table, but an individual
// table may only service a subset of the hash space. Growth occurs on
// individual tables, so while an entire table must grow at once, each of these
// grows is only a small portion of a map. The maximum size of a single grow is
// limited by limiting the maximum size of a table before it is split into
// multiple tables.
//
// A map starts with a single table. Up to [maxTableCapacity], growth simply
// replaces this table with a replacement with double capacity. Beyond this
// limit, growth splits the table into two.
//
// The map uses "extendible hashing" to select which table to use. In
// extendible hashing, we use the upper bits of the hash as an index into an
// array of tables (called the "directory"). The number of bits uses increases
// as the number of tables increases. For example, when there is only 1 table,
// we use 0 bits (no selection necessary). When there are 2 tables, we use 1
// bit to select either the 0th or 1st table. [Map.globalDepth] is the number
// of bits currently used for table selection, and by extension (1 <<
// globalDepth), the size of the directory.
//
// Note that each table has its own load factor and grows independently. If the
// 1st bucket grows, it will split. We'll need 2 bits to select tables, though
// we'll have 3 tables total rather than 4. We support this by allowing
// multiple indices to point to the same table. This example:
//
//	directory (globalDepth=2)
//	+----+
//	| 00 | --\
//	+----+    +--> table (localDepth=1)
//	| 01 | --/
//	+----+
//	| 10 | ------> table (localDepth=2)
//	+----+
//	| 11 | ------> table (localDepth=2)
//	+----+
//
// Tables track the depth they were created at (localDepth). It is necessary to
// grow the directory when splitting a table where globalDepth == localDepth.
//
// Iteration
//
// Iteration is the most complex part of the map due to Go's generous iteration
// semantics. A summary of semantics from the spec:
// 1. Adding and/or deleting entries during iteration MUST NOT cause iteration
//    to return the same entry more than once.
// 2. Entries added during iteration MAY be returned by iteration.
// 3. Entries modified during iteration MUST return their latest value.
// 4. Entries deleted during iteration MUST NOT be returned by iteration.
// 5. Iteration order is unspecified. In the implementation, it is explicitly
//    randomized.
//
// If the map never grows, these semantics are straightforward: just iterate
// over every table in the directory and every group and slot in each table.
// These semantics all land as expected.
//
// If the map grows during iteration, things complicate significantly. First
// and foremost, we need to track which entries we already returned to satisfy
// (1). There are three types of grow:
// a. A table replaced by a single larger table.
// b. A table split into two replacement tables.
// c. Growing the directory (occurs as part of (b) if necessary).
//
// For all of these cases, the replacement table(s) will have a different probe
// sequence, so simply tracking the current group and slot indices is not
// sufficient.
//
// For (a) and (b), note that grows of tables other than the one we are
// currently iterating over are irrelevant.
//
// We handle (a) and (b) by having the iterator keep a reference to the table
// it is currently iterating over, even after the table is replaced. We keep
// iterating over the original table to maintain the iteration order and avoid
// violating (1). Any new entries added only to the replacement table(s) will
// be skipped (allowed by (2)). To avoid violating (3) or (4), while we use the
// original table to select the keys, we must look them up again in the new
// table(s) to determine if they have been modified or deleted. There is yet
// another layer of complexity if the key does not compare equal itself. See
// [Iter.Next] for the gory details.
//
// Note that for (b) once we finish iterating over the old table we'll need to
// skip the next entry in the directory, as that contains the second split of
// the old table. We can use the old table's localDepth to determine the next
// logical index to use.
//
// For (b), we must adjust the current directory index when the directory
// grows. This is more straightforward, as the directory orders remains the
// same after grow, so we just double the index if the directory size doubles.

// Extracts the H1 portion of a hash: the 57 upper bits.
// TODO(prattmic): what about 32-bit systems?
func h1(h uintptr) uintptr {
	return h >> 7
}

// Extracts the H2 portion of a hash: the 7 bits not used for h1.
//
// These are used as an occupied control byte.
func h2(h uintptr) uintptr {
	return h & 0x7f
}

// Note: changes here must be reflected in cmd/compile/internal/reflectdata/map.go:MapType.
type Map struct {
	// The number of filled slots (i.e. the number of elements in all
	// tables). Excludes deleted slots.
	// Must be first (known by the compiler, for len() builtin).
	used uint64

	// seed is the hash seed, computed as a unique random number per map.
	seed uintptr

	// The directory of tables.
	//
	// Normally dirPtr points to an array of table pointers
	//
	// dirPtr *[dirLen]*table
	//
	// The length (dirLen) of this array is `1 << globalDepth`. Multiple
	// entries may point to the same table. See top-level comment for more
	// details.
	//
	// Small map optimization: if the map always contained
	// abi.MapGroupSlots or fewer entries, it fits entirely in a
	// single group. In that case dirPtr points directly to a single group.
	//
	// dirPtr *group
	//
	// In this case, dirLen is 0. used counts the number of used slots in
	// the group. Note that small maps never have deleted slots (as there
	// is no probe sequence to maintain).
	dirPtr unsafe.Pointer
	dirLen int

	// The number of bits to use in table directory lookups.
	globalDepth uint8

	// The number of bits to shift out of the hash for directory lookups.
	// On 64-bit systems, this is 64 - globalDepth.
	globalShift uint8

	// writing is a flag that is toggled (XOR 1) while the map is being
	// written. Normally it is set to 1 when writing, but if there are
	// multiple concurrent writers, then toggling increases the probability
	// that both sides will detect the race.
	writing uint8

	// tombstonePossible is false if we know that no table in this map
	// contains a tombstone.
	tombstonePossible bool

	// clearSeq is a sequence counter of calls to Clear. It is used to
	// detect map clears during iteration.
	clearSeq uint64
}

// Use 64-bit hash on 64-bit systems, except on Wasm, where we use
// 32-bit hash (see runtime/hash32.go).
const Use64BitHash = goarch.PtrSize == 8 && goarch.IsWasm == 0

func depthToShift(depth uint8) uint8 {
	if !Use64BitHash {
		return 32 - depth
	}
	return 64 - depth
}

// If m is non-nil, it should be used rather than allocating.
//
// maxAlloc should be runtime.maxAlloc.
//
// TODO(prattmic): Put maxAlloc somewhere accessible.
func NewMap(mt *abi.MapType, hint uintptr, m *Map, maxAlloc uintptr) *Map {
	if m == nil {
		m = new(Map)
	}

	m.seed = uintptr(rand())

	if hint <= abi.MapGroupSlots {
		// A small map can fill all 8 slots, so no need to increase
		// target capacity.
		//
		// In fact, since an 8 slot group is what the first assignment
		// to an empty map would allocate anyway, it doesn't matter if
		// we allocate here or on the first assignment.
		//
		// Thus we just return without allocating. (We'll save the
		// allocation completely if no assignment comes.)

		// Note that the compiler may have initialized m.dirPtr with a
		// pointer to a stack-allocated group, in which case we already
		// have a group. The control word is already initialized.

		return m
	}

	// Full size map.

	// Set initial capacity to hold hint entries without growing in the
	// average case.
	targetCapacity := (hint * abi.MapGroupSlots) / maxAvgGroupLoad
	if targetCapacity < hint { // overflow
		return m // return an empty map.
	}

	dirSize := (uint64(targetCapacity) + maxTableCapacity - 1) / maxTableCapacity
	dirSize, overflow := alignUpPow2(dirSize)
	if overflow || dirSize > uint64(math.MaxUintptr) {
		return m // return an empty map.
	}

	// Reject hints that are obviously too large.
	groups, overflow := math.MulUintptr(uintptr(dirSize), maxTableCapacity)
	if overflow {
		return m // return an empty map.
	} else {
		mem, overflow := math.MulUintptr(groups, mt.GroupSize)
		if overflow || mem > maxAlloc {
			return m // return an empty map.
		}
	}

	m.globalDepth = uint8(sys.TrailingZeros64(dirSize))
	m.globalShift = depthToShift(m.globalDepth)

	directory := make([]*table, dirSize)

	for i := range directory {
		// TODO: Think more about initial table capacity.
		directory[i] = newTable(mt, uint64(targetCapacity)/dirSize, i, m.globalDepth)
	}

	m.dirPtr = unsafe.Pointer(&directory[0])
	m.dirLen = len(directory)

	return m
}

func NewEmptyMap() *Map {
	m := new(Map)
	m.seed = uintptr(rand())
	// See comment in NewMap. No need to eager allocate a group.
	return m
}

func (m *Map) directoryIndex(hash uintptr) uintptr {
	if m.dirLen == 1 {
		return 0
	}
	return hash >> (m.globalShift & 63)
}

func (m *Map) directoryAt(i uintptr) *table {
	return *(**table)(unsafe.Pointer(uintptr(m.dirPtr) + goarch.PtrSize*i))
}

func (m *Map) directorySet(i uintptr, nt *table) {
	*(**table)(unsafe.Pointer(uintptr(m.dirPtr) + goarch.PtrSize*i)) = nt
}

func (m *Map) replaceTable(nt *table) {
	// The number of entries that reference the same table doubles for each
	// time the globalDepth grows without the table splitting.
	entries := 1 << (m.globalDepth - nt.localDepth)
	for i := 0; i < entries; i++ {
		//m.directory[nt.index+i] = nt
		m.directorySet(uintptr(nt.index+i), nt)
	}
}

func (m *Map) installTableSplit(old, left, right *table) {
	if old.localDepth == m.globalDepth {
		// No room for another level in the directory. Grow the
		// directory.
		newDir := make([]*table, m.dirLen*2)
		for i := range m.dirLen {
			t := m.directoryAt(uintptr(i))
			newDir[2*i] = t
			newDir[2*i+1] = t
			// t may already exist in multiple indices. We should
			// only update t.index once. Since the index must
			// increase, seeing the original index means this must
			// be the first time we've encountered this table.
			if t.index == i {
				t.index = 2 * i
			}
		}
		m.globalDepth++
		m.globalShift--
		//m.directory = newDir
		m.dirPtr = unsafe.Pointer(&newDir[0])
		m.dirLen = len(newDir)
	}

	// N.B. left and right may still consume multiple indices if the
	// directory has grown multiple times since old was last split.
	left.index = old.index
	m.replaceTable(left)

	entries := 1 << (m.globalDepth - left.localDepth)
	right.index = left.index + entries
	m.replaceTable(right)
}

func (m *Map) Used() uint64 {
	return m.used
}

// Get performs a lookup of the key that key points to. It returns a pointer to
// the element, or false if the key doesn't exist.
func (m *Map) Get(typ *abi.MapType, key unsafe.Pointer) (unsafe.Pointer, bool) {
	return m.getWithoutKey(typ, key)
}

func (m *Map) getWithKey(typ *abi.MapType, key unsafe.Pointer) (unsafe.Pointer, unsafe.Pointer, bool) {
	if m.Used() == 0 {
		return nil, nil, false
	}

	if m.writing != 0 {
		fatal("concurrent map read and map write")
	}

	hash := typ.Hasher(key, verifSeed)

	if m.dirLen == 0 {
		return m.getWithKeySmall(typ, hash, key)
	}

	idx := m.directoryIndex(hash)
	return m.directoryAt(idx).getWithKey(typ, hash, key)
}

func (m *Map) getWithoutKey(typ *abi.MapType, key unsafe.Pointer) (unsafe.Pointer, bool) {
	if m.Used() == 0 {
		return nil, false
	}

	if m.writing != 0 {
		fatal("concurrent map read and map write")
	}

	hash := typ.Hasher(key, verifSeed)

	if m.dirLen == 0 {
		_, elem, ok := m.getWithKeySmall(typ, hash, key)
		return elem, ok
	}

	idx := m.directoryIndex(hash)
	return m.directoryAt(idx).getWithoutKey(typ, hash, key)
}

func (m *Map) getWithKeySmall(typ *abi.MapType, hash uintptr, key unsafe.Pointer) (unsafe.Pointer, unsafe.Pointer, bool) {
	g := groupReference{
		data: m.dirPtr,
	}

	match := g.ctrls().matchH2(h2(hash))

	for match != 0 {
		i := match.first()

		slotKey := g.key(typ, i)
		if typ.IndirectKey() {
			slotKey = *((*unsafe.Pointer)(slotKey))
		}

		if typ.Key.Equal(key, slotKey) {
			slotElem := g.elem(typ, i)
			if typ.IndirectElem() {
				slotElem = *((*unsafe.Pointer)(slotElem))
			}
			return slotKey, slotElem, true
		}

		match = match.removeFirst()
	}

	// No match here means key is not in the map.
	// (A single group means no need to probe or check for empty).
	return nil, nil, false
}

func (m *Map) Put(typ *abi.MapType, key, elem unsafe.Pointer) {
	slotElem := m.PutSlot(typ, key)
	typedmemmove(typ.Elem, slotElem, elem)
}

// PutSlot returns a pointer to the element slot where an inserted element
// should be written.
//
// PutSlot never returns nil.
func (m *Map) PutSlot(typ *abi.MapType, key unsafe.Pointer) unsafe.Pointer {
	if m.writing != 0 {
		fatal("concurrent map writes")
	}

	hash := typ.Hasher(key, verifSeed)

	// Set writing after calling Hasher, since Hasher may panic, in which
	// case we have not actually done a write.
	m.writing ^= 1 // toggle, see comment on writing

	if m.dirPtr == nil {
		m.growToSmall(typ)
	}

	if m.dirLen == 0 {
		if m.used < abi.MapGroupSlots {
			elem := m.putSlotSmall(typ, hash, key)

			if m.writing == 0 {
				fatal("concurrent map writes")
			}
			m.writing ^= 1

			return elem
		}

		// Can't fit another entry, grow to full size map.
		//
		// TODO(prattmic): If this is an update to an existing key then
		// we actually don't need to grow.
		m.growToTable(typ)
	}

	for {
		idx := m.directoryIndex(hash)
		elem, ok := m.directoryAt(idx).PutSlot(typ, m, hash, key)
		if !ok {
			continue
		}

		if m.writing == 0 {
			fatal("concurrent map writes")
		}
		m.writing ^= 1

		return elem
	}
}

func (m *Map) putSlotSmall(typ *abi.MapType, hash uintptr, key unsafe.Pointer) unsafe.Pointer {
	g := groupReference{
		data: m.dirPtr,
	}

	match := g.ctrls().matchH2(h2(hash))

	// Look for an existing slot containing this key.
	for match != 0 {
		i := match.first()

		slotKey := g.key(typ, i)
		if typ.IndirectKey() {
			slotKey = *((*unsafe.Pointer)(slotKey))
		}
		if typ.Key.Equal(key, slotKey) {
			if typ.NeedKeyUpdate() {
				typedmemmove(typ.Key, slotKey, key)
			}

			slotElem := g.elem(typ, i)
			if typ.IndirectElem() {
				slotElem = *((*unsafe.Pointer)(slotElem))
			}

			return slotElem
		}
		match = match.removeFirst()
	}

	// There can't be deleted slots, small maps can't have them
	// (see deleteSmall). Use matchEmptyOrDeleted as it is a bit
	// more efficient than matchEmpty.
	match = g.ctrls().matchEmptyOrDeleted()
	if match == 0 {
		fatal("small map with no empty slot (concurrent map writes?)")
		return nil
	}

	i := match.first()

	slotKey := g.key(typ, i)
	if typ.IndirectKey() {
		kmem := newobject(typ.Key)
		*(*unsafe.Pointer)(slotKey) = kmem
		slotKey = kmem
	}
	typedmemmove(typ.Key, slotKey, key)

	slotElem := g.elem(typ, i)
	if typ.IndirectElem() {
		emem := newobject(typ.Elem)
		*(*unsafe.Pointer)(slotElem) = emem
		slotElem = emem
	}

	g.ctrls().set(i, ctrl(h2(hash)))
	m.used++

	return slotElem
}

func (m *Map) growToSmall(typ *abi.MapType) {
	grp := newGroups(typ, 1)
	m.dirPtr = grp.data

	g := groupReference{
		data: m.dirPtr,
	}
	g.ctrls().setEmpty()
}

func (m *Map) growToTable(typ *abi.MapType) {
	tab := newTable(typ, 2*abi.MapGroupSlots, 0, 0)

	g := groupReference{
		data: m.dirPtr,
	}

	for i := uintptr(0); i < abi.MapGroupSlots; i++ {
		if (g.ctrls().get(i) & ctrlEmpty) == ctrlEmpty {
			// Empty
			continue
		}

		key := g.key(typ, i)
		if typ.IndirectKey() {
			key = *((*unsafe.Pointer)(key))
		}

		elem := g.elem(typ, i)
		if typ.IndirectElem() {
			elem = *((*unsafe.Pointer)(elem))
		}

		hash := typ.Hasher(key, verifSeed)

		tab.uncheckedPutSlot(typ, hash, key, elem)
	}

	directory := make([]*table, 1)

	directory[0] = tab

	m.dirPtr = unsafe.Pointer(&directory[0])
	m.dirLen = len(directory)

	m.globalDepth = 0
	m.globalShift = depthToShift(m.globalDepth)
}

func (m *Map) Delete(typ *abi.MapType, key unsafe.Pointer) {
	if m == nil || m.Used() == 0 {
		if err := mapKeyError(typ, key); err != nil {
			panic(err) // see issue 23734
		}
		return
	}

	if m.writing != 0 {
		fatal("concurrent map writes")
	}

	hash := typ.Hasher(key, verifSeed)

	// Set writing after calling Hasher, since Hasher may panic, in which
	// case we have not actually done a write.
	m.writing ^= 1 // toggle, see comment on writing

	if m.dirLen == 0 {
		m.deleteSmall(typ, hash, key)
	} else {
		idx := m.directoryIndex(hash)
		if m.directoryAt(idx).Delete(typ, m, hash, key) {
			m.tombstonePossible = true
		}
	}

	if m.used == 0 {
		// Reset the hash seed to make it more difficult for attackers
		// to repeatedly trigger hash collisions. See
		// https://go.dev/issue/25237.
		m.seed = uintptr(rand())
	}

	if m.writing == 0 {
		fatal("concurrent map writes")
	}
	m.writing ^= 1
}

func (m *Map) deleteSmall(typ *abi.MapType, hash uintptr, key unsafe.Pointer) {
	g := groupReference{
		data: m.dirPtr,
	}

	match := g.ctrls().matchH2(h2(hash))

	for match != 0 {
		i := match.first()
		slotKey := g.key(typ, i)
		origSlotKey := slotKey
		if typ.IndirectKey() {
			slotKey = *((*unsafe.Pointer)(slotKey))
		}
		if typ.Key.Equal(key, slotKey) {
			m.used--

			if typ.IndirectKey() {
				// Clearing the pointer is sufficient.
				*(*unsafe.Pointer)(origSlotKey) = nil
			} else if typ.Key.Pointers() {
				// Only bother clearing if there are pointers.
				typedmemclr(typ.Key, slotKey)
			}

			slotElem := g.elem(typ, i)
			if typ.IndirectElem() {
				// Clearing the pointer is sufficient.
				*(*unsafe.Pointer)(slotElem) = nil
			} else {
				// Unlike keys, always clear the elem (even if
				// it contains no pointers), as compound
				// assignment operations depend on cleared
				// deleted values. See
				// https://go.dev/issue/25936.
				typedmemclr(typ.Elem, slotElem)
			}

			// We only have 1 group, so it is OK to immediately
			// reuse deleted slots.
			g.ctrls().set(i, ctrlEmpty)
			return
		}
		match = match.removeFirst()
	}
}

// Clear deletes all entries from the map resulting in an empty map.
func (m *Map) Clear(typ *abi.MapType) {
	if m == nil || m.Used() == 0 && !m.tombstonePossible {
		return
	}

	if m.writing != 0 {
		fatal("concurrent map writes")
	}
	m.writing ^= 1 // toggle, see comment on writing

	if m.dirLen == 0 {
		m.clearSmall(typ)
	} else {
		var lastTab *table
		for i := range m.dirLen {
			t := m.directoryAt(uintptr(i))
			if t == lastTab {
				continue
			}
			t.Clear(typ)
			lastTab = t
		}
		m.used = 0
		m.tombstonePossible = false
		// TODO: shrink directory?
	}
	m.clearSeq++

	// Reset the hash seed to make it more difficult for attackers to
	// repeatedly trigger hash collisions. See https://go.dev/issue/25237.
	m.seed = uintptr(rand())

	if m.writing == 0 {
		fatal("concurrent map writes")
	}
	m.writing ^= 1
}

func (m *Map) clearSmall(typ *abi.MapType) {
	g := groupReference{
		data: m.dirPtr,
	}

	typedmemclr(typ.Group, g.data)
	g.ctrls().setEmpty()

	m.used = 0
}

func (m *Map) Clone(typ *abi.MapType) *Map {
	// Note: this should never be called with a nil map.
	if m.writing != 0 {
		fatal("concurrent map clone and map write")
	}

	// Shallow copy the Map structure.
	m2 := new(Map)
	*m2 = *m
	m = m2

	// We need to just deep copy the dirPtr field.
	if m.dirPtr == nil {
		// delayed group allocation, nothing to do.
	} else if m.dirLen == 0 {
		// Clone one group.
		oldGroup := groupReference{data: m.dirPtr}
		newGroup := groupReference{data: newGroups(typ, 1).data}
		cloneGroup(typ, newGroup, oldGroup)
		m.dirPtr = newGroup.data
	} else {
		// Clone each (different) table.
		oldDir := unsafe.Slice((**table)(m.dirPtr), m.dirLen)
		newDir := make([]*table, m.dirLen)
		for i, t := range oldDir {
			if i > 0 && t == oldDir[i-1] {
				newDir[i] = newDir[i-1]
				continue
			}
			newDir[i] = t.clone(typ)
		}
		m.dirPtr = unsafe.Pointer(&newDir[0])
	}

	return m
}

func mapKeyError(t *abi.MapType, p unsafe.Pointer) error {
	if !t.HashMightPanic() {
		return nil
	}
	return mapKeyError2(t.Key, p)
}

func mapKeyError2(t *abi.Type, p unsafe.Pointer) error {
	if t.TFlag&abi.TFlagRegularMemory != 0 {
		return nil
	}
	switch t.Kind() {
	case abi.Float32, abi.Float64, abi.Complex64, abi.Complex128, abi.String:
		return nil
	case abi.Interface:
		i := (*abi.InterfaceType)(unsafe.Pointer(t))
		var t *abi.Type
		var pdata *unsafe.Pointer
		if len(i.Methods) == 0 {
			a := (*abi.EmptyInterface)(p)
			t = a.Type
			if t == nil {
				return nil
			}
			pdata = &a.Data
		} else {
			a := (*abi.NonEmptyInterface)(p)
			if a.ITab == nil {
				return nil
			}
			t = a.ITab.Type
			pdata = &a.Data
		}

		if t.Equal == nil {
			return unhashableTypeError{t}
		}

		if t.IsDirectIface() {
			return mapKeyError2(t, unsafe.Pointer(pdata))
		} else {
			return mapKeyError2(t, *pdata)
		}
	case abi.Array:
		a := (*abi.ArrayType)(unsafe.Pointer(t))
		for i := uintptr(0); i < a.Len; i++ {
			if err := mapKeyError2(a.Elem, unsafe.Pointer(uintptr(p)+i*a.Elem.Size_)); err != nil {
				return err
			}
		}
		return nil
	case abi.Struct:
		s := (*abi.StructType)(unsafe.Pointer(t))
		for _, f := range s.Fields {
			if f.Name.IsBlank() {
				continue
			}
			if err := mapKeyError2(f.Typ, unsafe.Pointer(uintptr(p)+f.Offset)); err != nil {
				return err
			}
		}
		return nil
	default:
		// Should never happen, keep this case for robustness.
		return unhashableTypeError{t}
	}
}

type unhashableTypeError struct{ typ *abi.Type }

func (unhashableTypeError) RuntimeError() {}

func (e unhashableTypeError) Error() string { return "hash of unhashable type: " + typeString(e.typ) }

// Pushed from runtime
//
//go:linkname typeString
func typeString(typ *abi.Type) string
