// Copyright 2014 The Go Authors. All rights reserved.
// Use of this source code is governed by a BSD-style
// license that can be found in the LICENSE file.

package runtime

import (
	"internal/abi"
	"internal/byteorder"
	"internal/cpu"
	"internal/goarch"
	"internal/runtime/sys"
	"unsafe"
)

const (
	// We use 32-bit hash on Wasm, see hash32.go.
	hashSize = (1-goarch.IsWasm)*goarch.PtrSize + goarch.IsWasm*4
	c0       = uintptr((8-hashSize)/4*2860486313 + (hashSize-4)/4*33054211828000289)
	c1       = uintptr((8-hashSize)/4*3267000013 + (hashSize-4)/4*23344194077549503)
)

func trimHash(h uintptr) uintptr {
	if goarch.IsWasm != 0 {
		// On Wasm, we use 32-bit hash, despite that uintptr is 64-bit.
		// memhash* always returns a uintptr with high 32-bit being 0
		// (see hash32.go). We trim the hash in other places where we
		// compute the hash manually, e.g. in interhash.
		return uintptr(uint32(h))
	}
	return h
}

func memhash0(p unsafe.Pointer, h uintptr) uintptr {
	return h
}

func memhash8(p unsafe.Pointer, h uintptr) uintptr {
	return memhash(p, h, 1)
}

func memhash16(p unsafe.Pointer, h uintptr) uintptr {
	return memhash(p, h, 2)
}

func memhash128(p unsafe.Pointer, h uintptr) uintptr {
	return memhash(p, h, 16)
}

//go:nosplit
func memhash_varlen(p unsafe.Pointer, h uintptr) uintptr {
	ptr := sys.GetClosurePtr()
	size := *(*uintptr)(unsafe.Pointer(ptr + unsafe.Sizeof(h)))
	return memhash(p, h, size)
}

// runtime variable to check if the processor we're running on
// actually supports the instructions used by the AES-based
// hash implementation.
var useAeshash bool

// in asm_*.s

// memhash should be an internal detail,
// but widely used packages access it using linkname.
// Notable members of the hall of shame include:
//   - github.com/aacfactory/fns
//   - github.com/dgraph-io/ristretto
//   - github.com/minio/simdjson-go
//   - github.com/nbd-wtf/go-nostr
//   - github.com/outcaste-io/ristretto
//   - github.com/puzpuzpuz/xsync/v2
//   - github.com/puzpuzpuz/xsync/v3
//   - github.com/authzed/spicedb
//   - github.com/pingcap/badger
//
// Do not remove or change the type signature.
// See go.dev/issue/67401.
//
//go:linkname memhash
func memhash(p unsafe.Pointer, h, s uintptr) uintptr

func memhash32(p unsafe.Pointer, h uintptr) uintptr

func memhash64(p unsafe.Pointer, h uintptr) uintptr

// strhash should be an internal detail,
// but widely used packages access it using linkname.
// Notable members of the hall of shame include:
//   - github.com/aristanetworks/goarista
//   - github.com/bytedance/sonic
//   - github.com/bytedance/go-tagexpr/v2
//   - github.com/cloudwego/dynamicgo
//   - github.com/v2fly/v2ray-core/v5
//
// Do not remove or change the type signature.
// See go.dev/issue/67401.
//
//go:linkname strhash
func strhash(p unsafe.Pointer, h uintptr) uintptr

func strhashFallback(a unsafe.Pointer, h uintptr) uintptr {
	x := (*stringStruct)(a)
	return memhashFallback(x.str, h, uintptr(x.len))
}

// NOTE: Because NaN != NaN, a map can contain any
// number of (mostly useless) entries keyed with NaNs.
// To avoid long hash chains, we assign a random number
// as the hash value for a NaN.

func f32hash(p unsafe.Pointer, h uintptr) uintptr {
	f := *(*float32)(p)
	switch {
	case f == 0:
		return trimHash(c1 * (c0 ^ h)) // +0, -0
	case f != f:
		return trimHash(c1 * (c0 ^ h ^ uintptr(rand()))) // any kind of NaN
	default:
		return memhash(p, h, 4)
	}
}

func f64hash(p unsafe.Pointer, h uintptr) uintptr {
	f := *(*float64)(p)
	switch {
	case f == 0:
		return trimHash(c1 * (c0 ^ h)) // +0, -0
	case f != f:
		return trimHash(c1 * (c0 ^ h ^ uintptr(rand()))) // any kind of NaN
	default:
		return memhash(p, h, 8)
	}
}

func c64hash(p unsafe.Pointer, h uintptr) uintptr {
	x := (*[2]float32)(p)
	return f32hash(unsafe.Pointer(&x[1]), f32hash(unsafe.Pointer(&x[0]), h))
}

func c128hash(p unsafe.Pointer, h uintptr) uintptr {
	x := (*[2]float64)(p)
	return f64hash(unsafe.Pointer(&x[1]), f64hash(unsafe.Pointer(&x[0]), h))
}

func interhash(p unsafe.Pointer, h uintptr) uintptr {
	a := (*iface)(p)
	tab := a.tab
	if tab == nil {
		return h
	}
	t := tab.Type
	if t.Equal == nil {
		// Check hashability here. We could do this check inside
		// typehash, but we want to report the topmost type in
		// the error text (e.g. in a struct with a field of slice type
		// we want to report the struct, not the slice).
		panic(errorString("hash of unhashable type " + toRType(t).string()))
	}
	if t.IsDirectIface() {
		return trimHash(c1 * typehash(t, unsafe.Pointer(&a.data), h^c0))
	} else {
		return trimHash(c1 * typehash(t, a.data, h^c0))
	}
}

// nilinterhash should be an internal detail,
// but widely used packages access it using linkname.
// Notable members of the hall of shame include:
//   - github.com/anacrolix/stm
//   - github.com/aristanetworks/goarista
//
// Do not remove or change the type signature.
// See go.dev/issue/67401.
//
//go:linkname nilinterhash
func nilinterhash(p unsafe.Pointer, h uintptr) uintptr {
	a := (*eface)(p)
	t := a._type
	if t == nil {
		return h
	}
	if t.Equal == nil {
		// See comment in interhash above.
		panic(errorString("hash of unhashable type " + toRType(t).string()))
	}
	if t.IsDirectIface() {
		return trimHash(c1 * typehash(t, unsafe.Pointer(&a.data), h^c0))
	} else {
		return trimHash(c1 * typehash(t, a.data, h^c0))
	}
}

// typehash computes the hash of the object of type t at address p.
// h is the seed.
// This function is seldom used. Most maps use for hashing either
// fixed functions (e.g. f32hash) or compiler-generated functions
// (e.g. for a type like struct { x, y string }). This implementation
// is slower but more general and is used for hashing interface types
// (called from interhash or nilinterhash, above) or for hashing in
// maps generated by reflect.MapOf (reflect_typehash, below).
// Note: this function must match the compiler generated
// functions exactly. See issue 37716.
//
// typehash should be an internal detail,
// but widely used packages access it using linkname.
// Notable members of the hall of shame include:
//   - github.com/puzpuzpuz/xsync/v2
//   - github.com/puzpuzpuz/xsync/v3
//
// Do not remove or change the type signature.
// See go.dev/issue/67401.
//
//go:linkname typehash
func typehash(t *_type, p unsafe.Pointer, h uintptr) uintptr {
	if t.TFlag&abi.TFlagRegularMemory != 0 {
		// Handle ptr sizes specially, see issue 37086.
		switch t.Size_ {
		case 4:
			return memhash32(p, h)
		case 8:
			return memhash64(p, h)
		default:
			return memhash(p, h, t.Size_)
		}
	}
	switch t.Kind() {
	case abi.Float32:
		return f32hash(p, h)
	case abi.Float64:
		return f64hash(p, h)
	case abi.Complex64:
		return c64hash(p, h)
	case abi.Complex128:
		return c128hash(p, h)
	case abi.String:
		return strhash(p, h)
	case abi.Interface:
		i := (*interfacetype)(unsafe.Pointer(t))
		if len(i.Methods) == 0 {
			return nilinterhash(p, h)
		}
		return interhash(p, h)
	case abi.Array:
		a := (*arraytype)(unsafe.Pointer(t))
		for i := uintptr(0); i < a.Len; i++ {
			h = typehash(a.Elem, add(p, i*a.Elem.Size_), h)
		}
		return h
	case abi.Struct:
		s := (*structtype)(unsafe.Pointer(t))
		for _, f := range s.Fields {
			if f.Name.IsBlank() {
				continue
			}
			h = typehash(f.Typ, add(p, f.Offset), h)
		}
		return h
	default:
		// Should never happen, as typehash should only be called
		// with comparable types.
		panic(errorString("hash of unhashable type " + toRType(t).string()))
	}
}

//go:linkname reflect_typehash reflect.typehash
func reflect_typehash(t *_type, p unsafe.Pointer, h uintptr) uintptr {
	return typehash(t, p, h)
}

func memequal0(p, q unsafe.Pointer) bool {
	return true
}
func memequal8(p, q unsafe.Pointer) bool {
	return *(*int8)(p) == *(*int8)(q)
}
func memequal16(p, q unsafe.Pointer) bool {
	return *(*int16)(p) == *(*int16)(q)
}
func memequal32(p, q unsafe.Pointer) bool {
	return *(*int32)(p) == *(*int32)(q)
}
func memequal64(p, q unsafe.Pointer) bool {
	return *(*int64)(p) == *(*int64)(q)
}
func memequal128(p, q unsafe.Pointer) bool {
	return *(*[2]int64)(p) == *(*[2]int64)(q)
}
func f32equal(p, q unsafe.Pointer) bool {
	return *(*float32)(p) == *(*float32)(q)
}
func f64equal(p, q unsafe.Pointer) bool {
	return *(*float64)(p) == *(*float64)(q)
}
func c64equal(p, q unsafe.Pointer) bool {
	return *(*complex64)(p) == *(*complex64)(q)
}
func c128equal(p, q unsafe.Pointer) bool {
	return *(*complex128)(p) == *(*complex128)(q)
}
func strequal(p, q unsafe.Pointer) bool {
	return *(*string)(p) == *(*string)(q)
}
func interequal(p, q unsafe.Pointer) bool {
	x := *(*iface)(p)
	y := *(*iface)(q)
	return x.tab == y.tab && ifaceeq(x.tab, x.data, y.data)
}
func nilinterequal(p, q unsafe.Pointer) bool {
	x := *(*eface)(p)
	y := *(*eface)(q)
	return x._type == y._type && efaceeq(x._type, x.data, y.data)
}
func efaceeq(t *_type, x, y unsafe.Pointer) bool {
	if t == nil {
		return true
	}
	eq := t.Equal
	if eq == nil {
		panic(errorString("comparing uncomparable type " + toRType(t).string()))
	}
	if t.IsDirectIface() {
		// Direct interface types are ptr, chan, map, func, and single-element structs/arrays thereof.
		// Maps and funcs are not comparable, so they can't reach here.
		// Ptrs, chans, and single-element items can be compared directly using ==.
		return x == y
	}
	return eq(x, y)
}
func ifaceeq(tab *itab, x, y unsafe.Pointer) bool {
	if tab == nil {
		return true
	}
	t := tab.Type
	eq := t.Equal
	if eq == nil {
		panic(errorString("comparing uncomparable type " + toRType(t).string()))
	}
	if t.IsDirectIface() {
		// See comment in efaceeq.
		return x == y
	}
	return eq(x, y)
}

// Testing adapters for hash quality tests (see hash_test.go)
//
// stringHash should be an internal detail,
// but widely used packages access it using linkname.
// Notable members of the hall of shame include:
//   - github.com/k14s/starlark-go
//
// Do not remove or change the type signature.
// See go.dev/issue/67401.
//
//go:linkname stringHash
func stringHash(s string, seed uintptr) uintptr {
	return strhash(noescape(unsafe.Pointer(&s)), seed)
}

func bytesHash(b []byte, seed uintptr) uintptr {
	s := (*slice)(unsafe.Pointer(&b))
	return memhash(s.array, seed, uintptr(s.len))
}

func int32Hash(i uint32, seed uintptr) uintptr {
	return memhash32(noescape(unsafe.Pointer(&i)), seed)
}

func int64Hash(i uint64, seed uintptr) uintptr {
	return memhash64(noescape(unsafe.Pointer(&i)), seed)
}

func efaceHash(i any, seed uintptr) uintptr {
	return nilinterhash(noescape(unsafe.Pointer(&i)), seed)
}

func ifaceHash(i interface {
	F()
}, seed uintptr) uintptr {
	return interhash(noescape(unsafe.Pointer(&i)), seed)
}

const hashRandomBytes = goarch.PtrSize / 4 * 64

// used in asm_{386,amd64,arm64}.s to seed the hash function
var aeskeysched [hashRandomBytes]byte

// used in hash{32,64}.go to seed the hash function
var hashkey [4]uintptr

func alginit() {
	// Install AES hash algorithms if the instructions needed are present.
	if (GOARCH == "386" || GOARCH == "amd64") &&
		cpu.X86.HasAES && // AESENC
		cpu.X86.HasSSSE3 && // PSHUFB
		cpu.X86.HasSSE41 { // PINSR{D,Q}
		initAlgAES()
		return
	}
	if GOARCH == "arm64" && cpu.ARM64.HasAES {
		initAlgAES()
		return
	}
	for i := range hashkey {
		hashkey[i] = uintptr(0x9e3779b97f4a7c15) + uintptr(i)*2 // verif: pinned
	}
}

func initAlgAES() {
	useAeshash = true
	// Initialize with random data so hash collisions will be hard to engineer.
	key := (*[hashRandomBytes / 8]uint64)(unsafe.Pointer(&aeskeysched))
	for i := range key {
		key[i] = 0x9e3779b97f4a7c15 + uint64(i)*0xbf58476d1ce4e5b9 // verif: pinned
	}
}

// Note: These routines perform the read with a native endianness.
func readUnaligned32(p unsafe.Pointer) uint32 {
	q := (*[4]byte)(p)
	if goarch.BigEndian {
		return byteorder.BEUint32(q[:])
	}
	return byteorder.LEUint32(q[:])
}

func readUnaligned64(p unsafe.Pointer) uint64 {
	q := (*[8]byte)(p)
	if goarch.BigEndian {
		return byteorder.BEUint64(q[:])
	}
	return byteorder.LEUint64(q[:])
}
