// Copyright 2024 The Go Authors. All rights reserved.
// Use of this source code is governed by a BSD-style
// license that can be found in the LICENSE file.

package maps

import (
	"internal/abi"
	"internal/goarch"
	"internal/race"
	"internal/runtime/sys"
	"unsafe"
)

func (m *Map) getWithoutKeySmallFastStr(typ *abi.MapType, key string) unsafe.Pointer {
	g := groupReference{
		data: m.dirPtr,
	}

	ctrls := *g.ctrls()
	slotKey := g.key(typ, 0)
	slotSize := typ.SlotSize

	// The 64 threshold was chosen based on performance of BenchmarkMapStringKeysEight,
	// where there are 8 keys to check, all of which don't quick-match the lookup key.
	// In that case, we can save hashing the lookup key. That savings is worth this extra code
	// for strings that are long enough that hashing is expensive.
	if len(key) > 64 {
		// String hashing and equality might be expensive. Do a quick check first.
		j := abi.MapGroupSlots
		for i := range abi.MapGroupSlots {
			if ctrls&(1<<7) == 0 && longStringQuickEqualityTest(key, *(*string)(slotKey)) {
				if j < abi.MapGroupSlots {
					// 2 strings both passed the quick equality test.
					// Break out of this loop and do it the slow way.
					goto dohash
				}
				j = i
			}
			slotKey = unsafe.Pointer(uintptr(slotKey) + slotSize)
			ctrls >>= 8
		}
		if j == abi.MapGroupSlots {
			// No slot passed the quick test.
			return nil
		}
		// There's exactly one slot that passed the quick test. Do the single expensive comparison.
		slotKey = g.key(typ, uintptr(j))
		if key == *(*string)(slotKey) {
			return unsafe.Pointer(uintptr(slotKey) + 2*goarch.PtrSize)
		}
		return nil
	}

dohash:
	// This path will cost 1 hash and 1+ε comparisons.
	hash := typ.Hasher(abi.NoEscape(unsafe.Pointer(&key)), verifSeed)
	h2 := uint8(h2(hash))
	ctrls = *g.ctrls()
	slotKey = g.key(typ, 0)

	for range abi.MapGroupSlots {
		if uint8(ctrls) == h2 && key == *(*string)(slotKey) {
			return unsafe.Pointer(uintptr(slotKey) + 2*goarch.PtrSize)
		}
		slotKey = unsafe.Pointer(uintptr(slotKey) + slotSize)
		ctrls >>= 8
	}
	return nil
}

// Returns true if a and b might be equal.
// Returns false if a and b are definitely not equal.
// Requires len(a)>=8.
func longStringQuickEqualityTest(a, b string) bool {
	if len(a) != len(b) {
		return false
	}
	x, y := stringPtr(a), stringPtr(b)
	// Check first 8 bytes.
	if *(*[8]byte)(x) != *(*[8]byte)(y) {
		return false
	}
	// Check last 8 bytes.
	x = unsafe.Pointer(uintptr(x) + uintptr(len(a)) - 8)
	y = unsafe.Pointer(uintptr(y) + uintptr(len(a)) - 8)
	if *(*[8]byte)(x) != *(*[8]byte)(y) {
		return false
	}
	return true
}
func stringPtr(s string) unsafe.Pointer {
	type stringStruct struct {
		ptr unsafe.Pointer
		len int
	}
	return (*stringStruct)(unsafe.Pointer(&s)).ptr
}

//go:linkname runtime_mapaccess1_faststr runtime.mapaccess1_faststr
func runtime_mapaccess1_faststr(typ *abi.MapType, m *Map, key string) unsafe.Pointer {
	if race.Enabled && m != nil {
		callerpc := sys.GetCallerPC()
		pc := abi.FuncPCABIInternal(runtime_mapaccess1_faststr)
		race.ReadPC(unsafe.Pointer(m), callerpc, pc)
	}

	if m == nil || m.Used() == 0 {
		return unsafe.Pointer(&zeroVal[0])
	}

	if m.writing != 0 {
		fatal("concurrent map read and map write")
		return nil
	}

	if m.dirLen <= 0 {
		elem := m.getWithoutKeySmallFastStr(typ, key)
		if elem == nil {
			return unsafe.Pointer(&zeroVal[0])
		}
		return elem
	}

	k := key
	hash := typ.Hasher(abi.NoEscape(unsafe.Pointer(&k)), verifSeed)

	// Select table.
	idx := m.directoryIndex(hash)
	t := m.directoryAt(idx)

	// Probe table.
	seq := makeProbeSeq(h1(hash), t.groups.lengthMask)
	h2Hash := h2(hash)
	for ; ; seq = seq.next() {
		g := t.groups.group(typ, seq.offset)

		match := g.ctrls().matchH2(h2Hash)

		for match != 0 {
			i := match.first()

			slotKey := g.key(typ, i)
			if key == *(*string)(slotKey) {
				slotElem := unsafe.Pointer(uintptr(slotKey) + 2*goarch.PtrSize)
				return slotElem
			}
			match = match.removeFirst()
		}

		match = g.ctrls().matchEmpty()
		if match != 0 {
			// Finding an empty slot means we've reached the end of
			// the probe sequence.
			return unsafe.Pointer(&zeroVal[0])
		}
	}
}

//go:linkname runtime_mapaccess2_faststr runtime.mapaccess2_faststr
func runtime_mapaccess2_faststr(typ *abi.MapType, m *Map, key string) (unsafe.Pointer, bool) {
	if race.Enabled && m != nil {
		callerpc := sys.GetCallerPC()
		pc := abi.FuncPCABIInternal(runtime_mapaccess2_faststr)
		race.ReadPC(unsafe.Pointer(m), callerpc, pc)
	}

	if m == nil || m.Used() == 0 {
		return unsafe.Pointer(&zeroVal[0]), false
	}

	if m.writing != 0 {
		fatal("concurrent map read and map write")
		return nil, false
	}

	if m.dirLen <= 0 {
		elem := m.getWithoutKeySmallFastStr(typ, key)
		if elem == nil {
			return unsafe.Pointer(&zeroVal[0]), false
		}
		return elem, true
	}

	k := key
	hash := typ.Hasher(abi.NoEscape(unsafe.Pointer(&k)), verifSeed)

	// Select table.
	idx := m.directoryIndex(hash)
	t := m.directoryAt(idx)

	// Probe table.
	seq := makeProbeSeq(h1(hash), t.groups.lengthMask)
	h2Hash := h2(hash)
	for ; ; seq = seq.next() {
		g := t.groups.group(typ, seq.offset)

		match := g.ctrls().matchH2(h2Hash)

		for match != 0 {
			i := match.first()

			slotKey := g.key(typ, i)
			if key == *(*string)(slotKey) {
				slotElem := unsafe.Pointer(uintptr(slotKey) + 2*goarch.PtrSize)
				return slotElem, true
			}
			match = match.removeFirst()
		}

		match = g.ctrls().matchEmpty()
		if match != 0 {
			// Finding an empty slot means we've reached the end of
			// the probe sequence.
			return unsafe.Pointer(&zeroVal[0]), false
		}
	}
}

func (m *Map) putSlotSmallFastStr(typ *abi.MapType, hash uintptr, key string) unsafe.Pointer {
	g := groupReference{
		data: m.dirPtr,
	}

	match := g.ctrls().matchH2(h2(hash))

	// Look for an existing slot containing this key.
	for match != 0 {
		i := match.first()

		slotKey := g.key(typ, i)
		if key == *(*string)(slotKey) {
			// Key needs update, as the backing storage may differ.
			*(*string)(slotKey) = key
			slotElem := g.elem(typ, i)
			return slotElem
		}
		match = match.removeFirst()
	}

	// There can't be deleted slots, small maps can't have them
	// (see deleteSmall). Use matchEmptyOrDeleted as it is a bit
	// more efficient than matchEmpty.
	match = g.ctrls().matchEmptyOrDeleted()
	if match == 0 {
		fatal("small map with no empty slot (concurrent map writes?)")
	}

	i := match.first()

	slotKey := g.key(typ, i)
	*(*string)(slotKey) = key

	slotElem := g.elem(typ, i)

	g.ctrls().set(i, ctrl(h2(hash)))
	m.used++

	return slotElem
}

//go:linkname runtime_mapassign_faststr runtime.mapassign_faststr
func runtime_mapassign_faststr(typ *abi.MapType, m *Map, key string) unsafe.Pointer {
	if m == nil {
		panic(errNilAssign)
	}
	if race.Enabled {
		callerpc := sys.GetCallerPC()
		pc := abi.FuncPCABIInternal(runtime_mapassign_faststr)
		race.WritePC(unsafe.Pointer(m), callerpc, pc)
	}
	if m.writing != 0 {
		fatal("concurrent map writes")
	}

	k := key
	hash := typ.Hasher(abi.NoEscape(unsafe.Pointer(&k)), verifSeed)

	// Set writing after calling Hasher, since Hasher may panic, in which
	// case we have not actually done a write.
	m.writing ^= 1 // toggle, see comment on writing

	if m.dirPtr == nil {
		m.growToSmall(typ)
	}

	if m.dirLen == 0 {
		if m.used < abi.MapGroupSlots {
			elem := m.putSlotSmallFastStr(typ, hash, key)

			if m.writing == 0 {
				fatal("concurrent map writes")
			}
			m.writing ^= 1

			return elem
		}

		// Can't fit another entry, grow to full size map.
		m.growToTable(typ)
	}

	var slotElem unsafe.Pointer
outer:
	for {
		// Select table.
		idx := m.directoryIndex(hash)
		t := m.directoryAt(idx)

		seq := makeProbeSeq(h1(hash), t.groups.lengthMask)

		// As we look for a match, keep track of the first deleted slot
		// we find, which we'll use to insert the new entry if
		// necessary.
		var firstDeletedGroup groupReference
		var firstDeletedSlot uintptr

		h2Hash := h2(hash)
		for ; ; seq = seq.next() {
			g := t.groups.group(typ, seq.offset)
			match := g.ctrls().matchH2(h2Hash)

			// Look for an existing slot containing this key.
			for match != 0 {
				i := match.first()

				slotKey := g.key(typ, i)
				if key == *(*string)(slotKey) {
					// Key needs update, as the backing
					// storage may differ.
					*(*string)(slotKey) = key
					slotElem = g.elem(typ, i)

					t.checkInvariants(typ, m)
					break outer
				}
				match = match.removeFirst()
			}

			// No existing slot for this key in this group. Is this the end
			// of the probe sequence?
			match = g.ctrls().matchEmptyOrDeleted()
			if match == 0 {
				continue // nothing but filled slots. Keep probing.
			}
			i := match.first()
			if g.ctrls().get(i) == ctrlDeleted {
				// There are some deleted slots. Remember
				// the first one, and keep probing.
				if firstDeletedGroup.data == nil {
					firstDeletedGroup = g
					firstDeletedSlot = i
				}
				continue
			}
			// We've found an empty slot, which means we've reached the end of
			// the probe sequence.

			// If we found a deleted slot along the way, we can
			// replace it without consuming growthLeft.
			if firstDeletedGroup.data != nil {
				g = firstDeletedGroup
				i = firstDeletedSlot
				t.growthLeft++ // will be decremented below to become a no-op.
			}

			// If we have no space left, first try to remove some tombstones.
			if t.growthLeft == 0 {
				t.pruneTombstones(typ, m)
			}

			// If there is room left to grow, just insert the new entry.
			if t.growthLeft > 0 {
				slotKey := g.key(typ, i)
				*(*string)(slotKey) = key

				slotElem = g.elem(typ, i)

				g.ctrls().set(i, ctrl(h2Hash))
				t.growthLeft--
				t.used++
				m.used++

				t.checkInvariants(typ, m)
				break outer
			}

			t.rehash(typ, m)
			continue outer
		}
	}

	if m.writing == 0 {
		fatal("concurrent map writes")
	}
	m.writing ^= 1

	return slotElem
}

//go:linkname runtime_mapdelete_faststr runtime.mapdelete_faststr
func runtime_mapdelete_faststr(typ *abi.MapType, m *Map, key string) {
	if race.Enabled {
		callerpc := sys.GetCallerPC()
		pc := abi.FuncPCABIInternal(runtime_mapdelete_faststr)
		race.WritePC(unsafe.Pointer(m), callerpc, pc)
	}

	if m == nil || m.Used() == 0 {
		return
	}

	m.Delete(typ, abi.NoEscape(unsafe.Pointer(&key)))
}
