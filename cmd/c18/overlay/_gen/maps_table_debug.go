// Copyright 2024 The Go Authors. All rights reserved.
// Use of this source code is governed by a BSD-style
// license that can be found in the LICENSE file.

package maps

import (
	"internal/abi"
	"unsafe"
)

const debugLog = false

func (t *table) checkInvariants(typ *abi.MapType, m *Map) {
	if !debugLog {
		return
	}

	// For every non-empty slot, verify we can retrieve the key using Get.
	// Count the number of used and deleted slots.
	var used uint16
	var deleted uint16
	var empty uint16
	for i := uint64(0); i <= t.groups.lengthMask; i++ {
		g := t.groups.group(typ, i)
		for j := uintptr(0); j < abi.MapGroupSlots; j++ {
			c := g.ctrls().get(j)
			switch {
			case c == ctrlDeleted:
				deleted++
			case c == ctrlEmpty:
				empty++
			default:
				used++

				key := g.key(typ, j)
				if typ.IndirectKey() {
					key = *((*unsafe.Pointer)(key))
				}

				// Can't lookup keys that don't compare equal
				// to themselves (e.g., NaN).
				if !typ.Key.Equal(key, key) {
					continue
				}

				if _, ok := t.Get(typ, m, key); !ok {
					hash := typ.Hasher(key, verifSeed)
					print("invariant failed: slot(", i, "/", j, "): key ")
					dump(key, typ.Key.Size_)
					print(" not found [hash=", hash, ", h2=", h2(hash), " h1=", h1(hash), "]\n")
					t.Print(typ, m)
					panic("invariant failed: slot: key not found")
				}
			}
		}
	}

	if used != t.used {
		print("invariant failed: found ", used, " used slots, but used count is ", t.used, "\n")
		t.Print(typ, m)
		panic("invariant failed: found mismatched used slot count")
	}

	growthLeft := (t.capacity*maxAvgGroupLoad)/abi.MapGroupSlots - t.used - deleted
	if growthLeft != t.growthLeft {
		print("invariant failed: found ", t.growthLeft, " growthLeft, but expected ", growthLeft, "\n")
		t.Print(typ, m)
		panic("invariant failed: found mismatched growthLeft")
	}
	if deleted != t.tombstones() {
		print("invariant failed: found ", deleted, " tombstones, but expected ", t.tombstones(), "\n")
		t.Print(typ, m)
		panic("invariant failed: found mismatched tombstones")
	}

	if empty == 0 {
		print("invariant failed: found no empty slots (violates probe invariant)\n")
		t.Print(typ, m)
		panic("invariant failed: found no empty slots (violates probe invariant)")
	}
}
func (t *table) Print(typ *abi.MapType, m *Map) {
	print(`table{
	index: `, t.index, `
	localDepth: `, t.localDepth, `
	capacity: `, t.capacity, `
	used: `, t.used, `
	growthLeft: `, t.growthLeft, `
	groups:
`)

	for i := uint64(0); i <= t.groups.lengthMask; i++ {
		print("\t\tgroup ", i, "\n")

		g := t.groups.group(typ, i)
		ctrls := g.ctrls()
		for j := uintptr(0); j < abi.MapGroupSlots; j++ {
			print("\t\t\tslot ", j, "\n")

			c := ctrls.get(j)
			print("\t\t\t\tctrl ", c)
			switch c {
			case ctrlEmpty:
				print(" (empty)\n")
			case ctrlDeleted:
				print(" (deleted)\n")
			default:
				print("\n")
			}

			print("\t\t\t\tkey  ")
			dump(g.key(typ, j), typ.Key.Size_)
			println("")
			print("\t\t\t\telem ")
			dump(g.elem(typ, j), typ.Elem.Size_)
			println("")
		}
	}
}

// TODO(prattmic): not in hex because print doesn't have a way to print in hex
// outside the runtime.
func dump(ptr unsafe.Pointer, size uintptr) {
	for size > 0 {
		print(*(*byte)(ptr), " ")
		ptr = unsafe.Pointer(uintptr(ptr) + 1)
		size--
	}
}
