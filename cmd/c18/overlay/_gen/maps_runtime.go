// Copyright 2024 The Go Authors. All rights reserved.
// Use of this source code is governed by a BSD-style
// license that can be found in the LICENSE file.

package maps

import (
	"internal/abi"
	"internal/asan"
	"internal/msan"
	"internal/race"
	"internal/runtime/sys"
	"unsafe"
)

// Functions below pushed from runtime.

//go:linkname fatal
func fatal(s string)

//go:linkname rand
func rand() uint64

//go:linkname typedmemmove
func typedmemmove(typ *abi.Type, dst, src unsafe.Pointer)

//go:linkname typedmemclr
func typedmemclr(typ *abi.Type, ptr unsafe.Pointer)

//go:linkname newarray
func newarray(typ *abi.Type, n int) unsafe.Pointer

//go:linkname newobject
func newobject(typ *abi.Type) unsafe.Pointer

// Pushed from runtime in order to use runtime.plainError
//
//go:linkname errNilAssign
var errNilAssign error

// Pull from runtime. It is important that is this the exact same copy as the
// runtime because runtime.mapaccess1_fat compares the returned pointer with
// &runtime.zeroVal[0].
// TODO: move zeroVal to internal/abi?
//
//go:linkname zeroVal runtime.zeroVal
var zeroVal [abi.ZeroValSize]byte

// mapaccess1 returns a pointer to h[key].  Never returns nil, instead
// it will return a reference to the zero object for the elem type if
// the key is not in the map.
// NOTE: The returned pointer may keep the whole map live, so don't
// hold onto it for very long.
//
//go:linkname runtime_mapaccess1 runtime.mapaccess1
func runtime_mapaccess1(typ *abi.MapType, m *Map, key unsafe.Pointer) unsafe.Pointer {
	if race.Enabled && m != nil {
		callerpc := sys.GetCallerPC()
		pc := abi.FuncPCABIInternal(runtime_mapaccess1)
		race.ReadPC(unsafe.Pointer(m), callerpc, pc)
		race.ReadObjectPC(typ.Key, key, callerpc, pc)
	}
	if msan.Enabled && m != nil {
		msan.Read(key, typ.Key.Size_)
	}
	if asan.Enabled && m != nil {
		asan.Read(key, typ.Key.Size_)
	}

	if m == nil || m.Used() == 0 {
		if err := mapKeyError(typ, key); err != nil {
			panic(err) // see issue 23734
		}
		return unsafe.Pointer(&zeroVal[0])
	}

	if m.writing != 0 {
		fatal("concurrent map read and map write")
	}

	hash := typ.Hasher(key, verifSeed)

	if m.dirLen <= 0 {
		_, elem, ok := m.getWithKeySmall(typ, hash, key)
		if !ok {
			return unsafe.Pointer(&zeroVal[0])
		}
		return elem
	}

	// Select table.
	idx := m.directoryIndex(hash)
	t := m.directoryAt(idx)

	// Probe table.
	seq := makeProbeSeq(h1(hash), t.groups.lengthMask)
	h2Hash := h2(hash)
	for ; ; seq = seq.next() {
		g := t.groups.group(typ, seq.offset)

		match := g.ctrls().matchH2(h2Hash)

		for match != 0 {
			i := match.first()

			slotKey := g.key(typ, i)
			slotKeyOrig := slotKey
			if typ.IndirectKey() {
				slotKey = *((*unsafe.Pointer)(slotKey))
			}
			if typ.Key.Equal(key, slotKey) {
				slotElem := unsafe.Pointer(uintptr(slotKeyOrig) + typ.ElemOff)
				if typ.IndirectElem() {
					slotElem = *((*unsafe.Pointer)(slotElem))
				}
				return slotElem
			}
			match = match.removeFirst()
		}

		match = g.ctrls().matchEmpty()
		if match != 0 {
			// Finding an empty slot means we've reached the end of
			// the probe sequence.
			return unsafe.Pointer(&zeroVal[0])
		}
	}
}

//go:linkname runtime_mapaccess2 runtime.mapaccess2
func runtime_mapaccess2(typ *abi.MapType, m *Map, key unsafe.Pointer) (unsafe.Pointer, bool) {
	if race.Enabled && m != nil {
		callerpc := sys.GetCallerPC()
		pc := abi.FuncPCABIInternal(runtime_mapaccess1)
		race.ReadPC(unsafe.Pointer(m), callerpc, pc)
		race.ReadObjectPC(typ.Key, key, callerpc, pc)
	}
	if msan.Enabled && m != nil {
		msan.Read(key, typ.Key.Size_)
	}
	if asan.Enabled && m != nil {
		asan.Read(key, typ.Key.Size_)
	}

	if m == nil || m.Used() == 0 {
		if err := mapKeyError(typ, key); err != nil {
			panic(err) // see issue 23734
		}
		return unsafe.Pointer(&zeroVal[0]), false
	}

	if m.writing != 0 {
		fatal("concurrent map read and map write")
	}

	hash := typ.Hasher(key, verifSeed)

	if m.dirLen == 0 {
		_, elem, ok := m.getWithKeySmall(typ, hash, key)
		if !ok {
			return unsafe.Pointer(&zeroVal[0]), false
		}
		return elem, true
	}

	// Select table.
	idx := m.directoryIndex(hash)
	t := m.directoryAt(idx)

	// Probe table.
	seq := makeProbeSeq(h1(hash), t.groups.lengthMask)
	h2Hash := h2(hash)
	for ; ; seq = seq.next() {
		g := t.groups.group(typ, seq.offset)

		match := g.ctrls().matchH2(h2Hash)

		for match != 0 {
			i := match.first()

			slotKey := g.key(typ, i)
			slotKeyOrig := slotKey
			if typ.IndirectKey() {
				slotKey = *((*unsafe.Pointer)(slotKey))
			}
			if typ.Key.Equal(key, slotKey) {
				slotElem := unsafe.Pointer(uintptr(slotKeyOrig) + typ.ElemOff)
				if typ.IndirectElem() {
					slotElem = *((*unsafe.Pointer)(slotElem))
				}
				return slotElem, true
			}
			match = match.removeFirst()
		}

		match = g.ctrls().matchEmpty()
		if match != 0 {
			// Finding an empty slot means we've reached the end of
			// the probe sequence.
			return unsafe.Pointer(&zeroVal[0]), false
		}
	}
}

//go:linkname runtime_mapassign runtime.mapassign
func runtime_mapassign(typ *abi.MapType, m *Map, key unsafe.Pointer) unsafe.Pointer {
	if m == nil {
		panic(errNilAssign)
	}
	if race.Enabled {
		callerpc := sys.GetCallerPC()
		pc := abi.FuncPCABIInternal(runtime_mapassign)
		race.WritePC(unsafe.Pointer(m), callerpc, pc)
		race.ReadObjectPC(typ.Key, key, callerpc, pc)
	}
	if msan.Enabled {
		msan.Read(key, typ.Key.Size_)
	}
	if asan.Enabled {
		asan.Read(key, typ.Key.Size_)
	}
	if m.writing != 0 {
		fatal("concurrent map writes")
	}

	hash := typ.Hasher(key, verifSeed)

	// Set writing after calling Hasher, since Hasher may panic, in which
	// case we have not actually done a write.
	m.writing ^= 1 // toggle, see comment on writing

	if m.dirPtr == nil {
		m.growToSmall(typ)
	}

	if m.dirLen == 0 {
		if m.used < abi.MapGroupSlots {
			elem := m.putSlotSmall(typ, hash, key)

			if m.writing == 0 {
				fatal("concurrent map writes")
			}
			m.writing ^= 1

			return elem
		}

		// Can't fit another entry, grow to full size map.
		m.growToTable(typ)
	}

	var slotElem unsafe.Pointer
outer:
	for {
		// Select table.
		idx := m.directoryIndex(hash)
		t := m.directoryAt(idx)

		seq := makeProbeSeq(h1(hash), t.groups.lengthMask)

		// As we look for a match, keep track of the first deleted slot
		// we find, which we'll use to insert the new entry if
		// necessary.
		var firstDeletedGroup groupReference
		var firstDeletedSlot uintptr

		h2Hash := h2(hash)
		for ; ; seq = seq.next() {
			g := t.groups.group(typ, seq.offset)
			match := g.ctrls().matchH2(h2Hash)

			// Look for an existing slot containing this key.
			for match != 0 {
				i := match.first()

				slotKey := g.key(typ, i)
				slotKeyOrig := slotKey
				if typ.IndirectKey() {
					slotKey = *((*unsafe.Pointer)(slotKey))
				}
				if typ.Key.Equal(key, slotKey) {
					if typ.NeedKeyUpdate() {
						typedmemmove(typ.Key, slotKey, key)
					}

					slotElem = unsafe.Pointer(uintptr(slotKeyOrig) + typ.ElemOff)
					if typ.IndirectElem() {
						slotElem = *((*unsafe.Pointer)(slotElem))
					}

					t.checkInvariants(typ, m)
					break outer
				}
				match = match.removeFirst()
			}

			// No existing slot for this key in this group. Is this the end
			// of the probe sequence?
			match = g.ctrls().matchEmpty()
			if match != 0 {
				// Finding an empty slot means we've reached the end of
				// the probe sequence.

				var i uintptr

				// If we found a deleted slot along the way, we
				// can replace it without consuming growthLeft.
				if firstDeletedGroup.data != nil {
					g = firstDeletedGroup
					i = firstDeletedSlot
					t.growthLeft++ // will be decremented below to become a no-op.
				} else {
					// Otherwise, use the empty slot.
					i = match.first()
				}

				// If there is room left to grow, just insert the new entry.
				if t.growthLeft > 0 {
					slotKey := g.key(typ, i)
					slotKeyOrig := slotKey
					if typ.IndirectKey() {
						kmem := newobject(typ.Key)
						*(*unsafe.Pointer)(slotKey) = kmem
						slotKey = kmem
					}
					typedmemmove(typ.Key, slotKey, key)

					slotElem = unsafe.Pointer(uintptr(slotKeyOrig) + typ.ElemOff)
					if typ.IndirectElem() {
						emem := newobject(typ.Elem)
						*(*unsafe.Pointer)(slotElem) = emem
						slotElem = emem
					}

					g.ctrls().set(i, ctrl(h2Hash))
					t.growthLeft--
					t.used++
					m.used++

					t.checkInvariants(typ, m)
					break outer
				}

				t.rehash(typ, m)
				continue outer
			}

			// No empty slots in this group. Check for a deleted
			// slot, which we'll use if we don't find a match later
			// in the probe sequence.
			//
			// We only need to remember a single deleted slot.
			if firstDeletedGroup.data == nil {
				// Since we already checked for empty slots
				// above, matches here must be deleted slots.
				match = g.ctrls().matchEmptyOrDeleted()
				if match != 0 {
					firstDeletedGroup = g
					firstDeletedSlot = match.first()
				}
			}
		}
	}

	if m.writing == 0 {
		fatal("concurrent map writes")
	}
	m.writing ^= 1

	return slotElem
}
