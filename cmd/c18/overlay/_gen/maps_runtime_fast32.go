// Copyright 2024 The Go Authors. All rights reserved.
// Use of this source code is governed by a BSD-style
// license that can be found in the LICENSE file.

package maps

import (
	"internal/abi"
	"internal/race"
	"internal/runtime/sys"
	"unsafe"
)

//go:linkname runtime_mapaccess1_fast32 runtime.mapaccess1_fast32
func runtime_mapaccess1_fast32(typ *abi.MapType, m *Map, key uint32) unsafe.Pointer {
	if race.Enabled && m != nil {
		callerpc := sys.GetCallerPC()
		pc := abi.FuncPCABIInternal(runtime_mapaccess1_fast32)
		race.ReadPC(unsafe.Pointer(m), callerpc, pc)
	}

	if m == nil || m.Used() == 0 {
		return unsafe.Pointer(&zeroVal[0])
	}

	if m.writing != 0 {
		fatal("concurrent map read and map write")
		return nil
	}

	if m.dirLen == 0 {
		g := groupReference{
			data: m.dirPtr,
		}
		full := g.ctrls().matchFull()
		slotKey := g.key(typ, 0)
		slotSize := typ.SlotSize
		for full != 0 {
			if key == *(*uint32)(slotKey) && full.lowestSet() {
				slotElem := unsafe.Pointer(uintptr(slotKey) + typ.ElemOff)
				return slotElem
			}
			slotKey = unsafe.Pointer(uintptr(slotKey) + slotSize)
			full = full.shiftOutLowest()
		}
		return unsafe.Pointer(&zeroVal[0])
	}

	k := key
	hash := typ.Hasher(abi.NoEscape(unsafe.Pointer(&k)), verifSeed)

	// Select table.
	idx := m.directoryIndex(hash)
	t := m.directoryAt(idx)

	// Probe table.
	seq := makeProbeSeq(h1(hash), t.groups.lengthMask)
	h2Hash := h2(hash)
	for ; ; seq = seq.next() {
		g := t.groups.group(typ, seq.offset)

		match := g.ctrls().matchH2(h2Hash)

		for match != 0 {
			i := match.first()

			slotKey := g.key(typ, i)
			if key == *(*uint32)(slotKey) {
				slotElem := unsafe.Pointer(uintptr(slotKey) + typ.ElemOff)
				return slotElem
			}
			match = match.removeFirst()
		}

		match = g.ctrls().matchEmpty()
		if match != 0 {
			// Finding an empty slot means we've reached the end of
			// the probe sequence.
			return unsafe.Pointer(&zeroVal[0])
		}
	}
}

//go:linkname runtime_mapaccess2_fast32 runtime.mapaccess2_fast32
func runtime_mapaccess2_fast32(typ *abi.MapType, m *Map, key uint32) (unsafe.Pointer, bool) {
	if race.Enabled && m != nil {
		callerpc := sys.GetCallerPC()
		pc := abi.FuncPCABIInternal(runtime_mapaccess2_fast32)
		race.ReadPC(unsafe.Pointer(m), callerpc, pc)
	}

	if m == nil || m.Used() == 0 {
		return unsafe.Pointer(&zeroVal[0]), false
	}

	if m.writing != 0 {
		fatal("concurrent map read and map write")
		return nil, false
	}

	if m.dirLen == 0 {
		g := groupReference{
			data: m.dirPtr,
		}
		full := g.ctrls().matchFull()
		slotKey := g.key(typ, 0)
		slotSize := typ.SlotSize
		for full != 0 {
			if key == *(*uint32)(slotKey) && full.lowestSet() {
				slotElem := unsafe.Pointer(uintptr(slotKey) + typ.ElemOff)
				return slotElem, true
			}
			slotKey = unsafe.Pointer(uintptr(slotKey) + slotSize)
			full = full.shiftOutLowest()
		}
		return unsafe.Pointer(&zeroVal[0]), false
	}

	k := key
	hash := typ.Hasher(abi.NoEscape(unsafe.Pointer(&k)), verifSeed)

	// Select table.
	idx := m.directoryIndex(hash)
	t := m.directoryAt(idx)

	// Probe table.
	seq := makeProbeSeq(h1(hash), t.groups.lengthMask)
	h2Hash := h2(hash)
	for ; ; seq = seq.next() {
		g := t.groups.group(typ, seq.offset)

		match := g.ctrls().matchH2(h2Hash)

		for match != 0 {
			i := match.first()

			slotKey := g.key(typ, i)
			if key == *(*uint32)(slotKey) {
				slotElem := unsafe.Pointer(uintptr(slotKey) + typ.ElemOff)
				return slotElem, true
			}
			match = match.removeFirst()
		}

		match = g.ctrls().matchEmpty()
		if match != 0 {
			// Finding an empty slot means we've reached the end of
			// the probe sequence.
			return unsafe.Pointer(&zeroVal[0]), false
		}
	}
}

func (m *Map) putSlotSmallFast32(typ *abi.MapType, hash uintptr, key uint32) unsafe.Pointer {
	g := groupReference{
		data: m.dirPtr,
	}

	match := g.ctrls().matchH2(h2(hash))

	// Look for an existing slot containing this key.
	for match != 0 {
		i := match.first()

		slotKey := g.key(typ, i)
		if key == *(*uint32)(slotKey) {
			slotElem := g.elem(typ, i)
			return slotElem
		}
		match = match.removeFirst()
	}

	// There can't be deleted slots, small maps can't have them
	// (see deleteSmall). Use matchEmptyOrDeleted as it is a bit
	// more efficient than matchEmpty.
	match = g.ctrls().matchEmptyOrDeleted()
	if match == 0 {
		fatal("small map with no empty slot (concurrent map writes?)")
	}

	i := match.first()

	slotKey := g.key(typ, i)
	*(*uint32)(slotKey) = key

	slotElem := g.elem(typ, i)

	g.ctrls().set(i, ctrl(h2(hash)))
	m.used++

	return slotElem
}

//go:linkname runtime_mapassign_fast32 runtime.mapassign_fast32
func runtime_mapassign_fast32(typ *abi.MapType, m *Map, key uint32) unsafe.Pointer {
	if m == nil {
		panic(errNilAssign)
	}
	if race.Enabled {
		callerpc := sys.GetCallerPC()
		pc := abi.FuncPCABIInternal(runtime_mapassign_fast32)
		race.WritePC(unsafe.Pointer(m), callerpc, pc)
	}
	if m.writing != 0 {
		fatal("concurrent map writes")
	}

	k := key
	hash := typ.Hasher(abi.NoEscape(unsafe.Pointer(&k)), verifSeed)

	// Set writing after calling Hasher, since Hasher may panic, in which
	// case we have not actually done a write.
	m.writing ^= 1 // toggle, see comment on writing

	if m.dirPtr == nil {
		m.growToSmall(typ)
	}

	if m.dirLen == 0 {
		if m.used < abi.MapGroupSlots {
			elem := m.putSlotSmallFast32(typ, hash, key)

			if m.writing == 0 {
				fatal("concurrent map writes")
			}
			m.writing ^= 1

			return elem
		}

		// Can't fit another entry, grow to full size map.
		m.growToTable(typ)
	}

	var slotElem unsafe.Pointer
outer:
	for {
		// Select table.
		idx := m.directoryIndex(hash)
		t := m.directoryAt(idx)

		seq := makeProbeSeq(h1(hash), t.groups.lengthMask)

		// As we look for a match, keep track of the first deleted slot
		// we find, which we'll use to insert the new entry if
		// necessary.
		var firstDeletedGroup groupReference
		var firstDeletedSlot uintptr

		h2Hash := h2(hash)
		for ; ; seq = seq.next() {
			g := t.groups.group(typ, seq.offset)
			match := g.ctrls().matchH2(h2Hash)

			// Look for an existing slot containing this key.
			for match != 0 {
				i := match.first()

				slotKey := g.key(typ, i)
				if key == *(*uint32)(slotKey) {
					slotElem = g.elem(typ, i)

					t.checkInvariants(typ, m)
					break outer
				}
				match = match.removeFirst()
			}

			// No existing slot for this key in this group. Is this the end
			// of the probe sequence?
			match = g.ctrls().matchEmptyOrDeleted()
			if match == 0 {
				continue // nothing but filled slots. Keep probing.
			}
			i := match.first()
			if g.ctrls().get(i) == ctrlDeleted {
				// There are some deleted slots. Remember
				// the first one, and keep probing.
				if firstDeletedGroup.data == nil {
					firstDeletedGroup = g
					firstDeletedSlot = i
				}
				continue
			}
			// We've found an empty slot, which means we've reached the end of
			// the probe sequence.

			// If we found a deleted slot along the way, we can
			// replace it without consuming growthLeft.
			if firstDeletedGroup.data != nil {
				g = firstDeletedGroup
				i = firstDeletedSlot
				t.growthLeft++ // will be decremented below to become a no-op.
			}

			// If we have no space left, first try to remove some tombstones.
			if t.growthLeft == 0 {
				t.pruneTombstones(typ, m)
			}

			// If there is room left to grow, just insert the new entry.
			if t.growthLeft > 0 {
				slotKey := g.key(typ, i)
				*(*uint32)(slotKey) = key

				slotElem = g.elem(typ, i)

				g.ctrls().set(i, ctrl(h2Hash))
				t.growthLeft--
				t.used++
				m.used++

				t.checkInvariants(typ, m)
				break outer
			}

			t.rehash(typ, m)
			continue outer
		}
	}

	if m.writing == 0 {
		fatal("concurrent map writes")
	}
	m.writing ^= 1

	return slotElem
}

// Key is a 32-bit pointer (only called on 32-bit GOARCH). This source is identical to fast64ptr.
//
// TODO(prattmic): With some compiler refactoring we could avoid duplication of this function.
//
//go:linkname runtime_mapassign_fast32ptr runtime.mapassign_fast32ptr
func runtime_mapassign_fast32ptr(typ *abi.MapType, m *Map, key unsafe.Pointer) unsafe.Pointer {
	if m == nil {
		panic(errNilAssign)
	}
	if race.Enabled {
		callerpc := sys.GetCallerPC()
		pc := abi.FuncPCABIInternal(runtime_mapassign_fast32ptr)
		race.WritePC(unsafe.Pointer(m), callerpc, pc)
	}
	if m.writing != 0 {
		fatal("concurrent map writes")
	}

	k := key
	hash := typ.Hasher(abi.NoEscape(unsafe.Pointer(&k)), verifSeed)

	// Set writing after calling Hasher, since Hasher may panic, in which
	// case we have not actually done a write.
	m.writing ^= 1 // toggle, see comment on writing

	if m.dirPtr == nil {
		m.growToSmall(typ)
	}

	if m.dirLen == 0 {
		if m.used < abi.MapGroupSlots {
			elem := m.putSlotSmallFastPtr(typ, hash, key)

			if m.writing == 0 {
				fatal("concurrent map writes")
			}
			m.writing ^= 1

			return elem
		}

		// Can't fit another entry, grow to full size map.
		m.growToTable(typ)
	}

	var slotElem unsafe.Pointer
outer:
	for {
		// Select table.
		idx := m.directoryIndex(hash)
		t := m.directoryAt(idx)

		seq := makeProbeSeq(h1(hash), t.groups.lengthMask)

		// As we look for a match, keep track of the first deleted slot we
		// find, which we'll use to insert the new entry if necessary.
		var firstDeletedGroup groupReference
		var firstDeletedSlot uintptr

		h2Hash := h2(hash)
		for ; ; seq = seq.next() {
			g := t.groups.group(typ, seq.offset)
			match := g.ctrls().matchH2(h2Hash)

			// Look for an existing slot containing this key.
			for match != 0 {
				i := match.first()

				slotKey := g.key(typ, i)
				if key == *(*unsafe.Pointer)(slotKey) {
					slotElem = g.elem(typ, i)

					t.checkInvariants(typ, m)
					break outer
				}
				match = match.removeFirst()
			}

			// No existing slot for this key in this group. Is this the end
			// of the probe sequence?
			match = g.ctrls().matchEmptyOrDeleted()
			if match == 0 {
				continue // nothing but filled slots. Keep probing.
			}
			i := match.first()
			if g.ctrls().get(i) == ctrlDeleted {
				// There are some deleted slots. Remember
				// the first one, and keep probing.
				if firstDeletedGroup.data == nil {
					firstDeletedGroup = g
					firstDeletedSlot = i
				}
				continue
			}
			// We've found an empty slot, which means we've reached the end of
			// the probe sequence.

			// If we found a deleted slot along the way, we can
			// replace it without consuming growthLeft.
			if firstDeletedGroup.data != nil {
				g = firstDeletedGroup
				i = firstDeletedSlot
				t.growthLeft++ // will be decremented below to become a no-op.
			}

			// If there is room left to grow, just insert the new entry.
			if t.growthLeft > 0 {
				slotKey := g.key(typ, i)
				*(*unsafe.Pointer)(slotKey) = key

				slotElem = g.elem(typ, i)

				g.ctrls().set(i, ctrl(h2Hash))
				t.growthLeft--
				t.used++
				m.used++

				t.checkInvariants(typ, m)
				break outer
			}

			t.rehash(typ, m)
			continue outer
		}
	}

	if m.writing == 0 {
		fatal("concurrent map writes")
	}
	m.writing ^= 1

	return slotElem
}

//go:linkname runtime_mapdelete_fast32 runtime.mapdelete_fast32
func runtime_mapdelete_fast32(typ *abi.MapType, m *Map, key uint32) {
	if race.Enabled {
		callerpc := sys.GetCallerPC()
		pc := abi.FuncPCABIInternal(runtime_mapdelete_fast32)
		race.WritePC(unsafe.Pointer(m), callerpc, pc)
	}

	if m == nil || m.Used() == 0 {
		return
	}

	m.Delete(typ, abi.NoEscape(unsafe.Pointer(&key)))
}
