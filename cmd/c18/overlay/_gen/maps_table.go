// Copyright 2024 The Go Authors. All rights reserved.
// Use of this source code is governed by a BSD-style
// license that can be found in the LICENSE file.

package maps

import (
	"internal/abi"
	"internal/runtime/math"
	"unsafe"
)

// Maximum size of a table before it is split at the directory level.
//
// TODO: Completely made up value. This should be tuned for performance vs grow
// latency.
// TODO: This should likely be based on byte size, as copying costs will
// dominate grow latency for large objects.
const maxTableCapacity = 1024

// Ensure the max capacity fits in uint16, used for capacity and growthLeft
// below.
var _ = uint16(maxTableCapacity)

// table is a Swiss table hash table structure.
//
// Each table is a complete hash table implementation.
//
// Map uses one or more tables to store entries. Extendible hashing (hash
// prefix) is used to select the table to use for a specific key. Using
// multiple tables enables incremental growth by growing only one table at a
// time.
type table struct {
	// The number of filled slots (i.e. the number of elements in the table).
	used uint16

	// The total number of slots (always 2^N). Equal to
	// `(groups.lengthMask+1)*abi.MapGroupSlots`.
	capacity uint16

	// The number of slots we can still fill without needing to rehash.
	//
	// We rehash when used + tombstones > loadFactor*capacity, including
	// tombstones so the table doesn't overfill with tombstones. This field
	// counts down remaining empty slots before the next rehash.
	growthLeft uint16

	// The number of bits used by directory lookups above this table. Note
	// that this may be less then globalDepth, if the directory has grown
	// but this table has not yet been split.
	localDepth uint8

	// Index of this table in the Map directory. This is the index of the
	// _first_ location in the directory. The table may occur in multiple
	// sequential indices.
	//
	// index is -1 if the table is stale (no longer installed in the
	// directory).
	index int

	// groups is an array of slot groups. Each group holds abi.MapGroupSlots
	// key/elem slots and their control bytes. A table has a fixed size
	// groups array. The table is replaced (in rehash) when more space is
	// required.
	//
	// TODO(prattmic): keys and elements are interleaved to maximize
	// locality, but it comes at the expense of wasted space for some types
	// (consider uint8 key, uint64 element). Consider placing all keys
	// together in these cases to save space.
	groups groupsReference
}

func newTable(typ *abi.MapType, capacity uint64, index int, localDepth uint8) *table {
	if capacity < abi.MapGroupSlots {
		capacity = abi.MapGroupSlots
	}

	t := &table{
		index:      index,
		localDepth: localDepth,
	}

	if capacity > maxTableCapacity {
		panic("initial table capacity too large")
	}

	// N.B. group count must be a power of two for probeSeq to visit every
	// group.
	capacity, overflow := alignUpPow2(capacity)
	if overflow {
		panic("rounded-up capacity overflows uint64")
	}

	t.reset(typ, uint16(capacity))

	return t
}

// reset resets the table with new, empty groups with the specified new total
// capacity.
func (t *table) reset(typ *abi.MapType, capacity uint16) {
	groupCount := uint64(capacity) / abi.MapGroupSlots
	t.groups = newGroups(typ, groupCount)
	t.capacity = capacity
	t.growthLeft = t.maxGrowthLeft()

	for i := uint64(0); i <= t.groups.lengthMask; i++ {
		g := t.groups.group(typ, i)
		g.ctrls().setEmpty()
	}
}

// maxGrowthLeft is the number of inserts we can do before
// resizing, starting from an empty table.
func (t *table) maxGrowthLeft() uint16 {
	if t.capacity == 0 {
		// No real reason to support zero capacity table, since an
		// empty Map simply won't have a table.
		panic("table must have positive capacity")
	} else if t.capacity <= abi.MapGroupSlots {
		// If the map fits in a single group then we're able to fill all of
		// the slots except 1 (an empty slot is needed to terminate find
		// operations).
		//
		// TODO(go.dev/issue/54766): With a special case in probing for
		// single-group tables, we could fill all slots.
		return t.capacity - 1
	} else {
		if t.capacity > math.MaxUint16/maxAvgGroupLoad {
			panic("overflow")
		}
		return (t.capacity * maxAvgGroupLoad) / abi.MapGroupSlots
	}

}

func (t *table) Used() uint64 {
	return uint64(t.used)
}

// Get performs a lookup of the key that key points to. It returns a pointer to
// the element, or false if the key doesn't exist.
func (t *table) Get(typ *abi.MapType, m *Map, key unsafe.Pointer) (unsafe.Pointer, bool) {
	// TODO(prattmic): We could avoid hashing in a variety of special
	// cases.
	//
	// - One entry maps could just directly compare the single entry
	//   without hashing.
	// - String keys could do quick checks of a few bytes before hashing.
	hash := typ.Hasher(key, verifSeed)
	_, elem, ok := t.getWithKey(typ, hash, key)
	return elem, ok
}

// getWithKey performs a lookup of key, returning a pointer to the version of
// the key in the map in addition to the element.
//
// This is relevant when multiple different key values compare equal (e.g.,
// +0.0 and -0.0). When a grow occurs during iteration, iteration perform a
// lookup of keys from the old group in the new group in order to correctly
// expose updated elements. For NeedsKeyUpdate keys, iteration also must return
// the new key value, not the old key value.
// hash must be the hash of the key.
func (t *table) getWithKey(typ *abi.MapType, hash uintptr, key unsafe.Pointer) (unsafe.Pointer, unsafe.Pointer, bool) {
	// To find the location of a key in the table, we compute hash(key). From
	// h1(hash(key)) and the capacity, we construct a probeSeq that visits
	// every group of slots in some interesting order. See [probeSeq].
	//
	// We walk through these indices. At each index, we select the entire
	// group starting with that index and extract potential candidates:
	// occupied slots with a control byte equal to h2(hash(key)). The key
	// at candidate slot i is compared with key; if key == g.slot(i).key
	// we are done and return the slot; if there is an empty slot in the
	// group, we stop and return an error; otherwise we continue to the
	// next probe index. Tombstones (ctrlDeleted) effectively behave like
	// full slots that never match the value we're looking for.
	//
	// The h2 bits ensure when we compare a key we are likely to have
	// actually found the object. That is, the chance is low that keys
	// compare false. Thus, when we search for an object, we are unlikely
	// to call Equal many times. This likelihood can be analyzed as follows
	// (assuming that h2 is a random enough hash function).
	//
	// Let's assume that there are k "wrong" objects that must be examined
	// in a probe sequence. For example, when doing a find on an object
	// that is in the table, k is the number of objects between the start
	// of the probe sequence and the final found object (not including the
	// final found object). The expected number of objects with an h2 match
	// is then k/128. Measurements and analysis indicate that even at high
	// load factors, k is less than 32, meaning that the number of false
	// positive comparisons we must perform is less than 1/8 per find.
	seq := makeProbeSeq(h1(hash), t.groups.lengthMask)
	h2Hash := h2(hash)
	for ; ; seq = seq.next() {
		g := t.groups.group(typ, seq.offset)

		match := g.ctrls().matchH2(h2Hash)

		for match != 0 {
			i := match.first()

			slotKey := g.key(typ, i)
			if typ.IndirectKey() {
				slotKey = *((*unsafe.Pointer)(slotKey))
			}
			if typ.Key.Equal(key, slotKey) {
				slotElem := g.elem(typ, i)
				if typ.IndirectElem() {
					slotElem = *((*unsafe.Pointer)(slotElem))
				}
				return slotKey, slotElem, true
			}
			match = match.removeFirst()
		}

		match = g.ctrls().matchEmpty()
		if match != 0 {
			// Finding an empty slot means we've reached the end of
			// the probe sequence.
			return nil, nil, false
		}
	}
}

func (t *table) getWithoutKey(typ *abi.MapType, hash uintptr, key unsafe.Pointer) (unsafe.Pointer, bool) {
	seq := makeProbeSeq(h1(hash), t.groups.lengthMask)
	h2Hash := h2(hash)
	for ; ; seq = seq.next() {
		g := t.groups.group(typ, seq.offset)

		match := g.ctrls().matchH2(h2Hash)

		for match != 0 {
			i := match.first()

			slotKey := g.key(typ, i)
			if typ.IndirectKey() {
				slotKey = *((*unsafe.Pointer)(slotKey))
			}
			if typ.Key.Equal(key, slotKey) {
				slotElem := g.elem(typ, i)
				if typ.IndirectElem() {
					slotElem = *((*unsafe.Pointer)(slotElem))
				}
				return slotElem, true
			}
			match = match.removeFirst()
		}

		match = g.ctrls().matchEmpty()
		if match != 0 {
			// Finding an empty slot means we've reached the end of
			// the probe sequence.
			return nil, false
		}
	}
}

// PutSlot returns a pointer to the element slot where an inserted element
// should be written, and ok if it returned a valid slot.
//
// PutSlot returns ok false if the table was split and the Map needs to find
// the new table.
//
// hash must be the hash of key.
func (t *table) PutSlot(typ *abi.MapType, m *Map, hash uintptr, key unsafe.Pointer) (unsafe.Pointer, bool) {
	seq := makeProbeSeq(h1(hash), t.groups.lengthMask)

	// As we look for a match, keep track of the first deleted slot we
	// find, which we'll use to insert the new entry if necessary.
	var firstDeletedGroup groupReference
	var firstDeletedSlot uintptr

	h2Hash := h2(hash)
	for ; ; seq = seq.next() {
		g := t.groups.group(typ, seq.offset)
		match := g.ctrls().matchH2(h2Hash)

		// Look for an existing slot containing this key.
		for match != 0 {
			i := match.first()

			slotKey := g.key(typ, i)
			if typ.IndirectKey() {
				slotKey = *((*unsafe.Pointer)(slotKey))
			}
			if typ.Key.Equal(key, slotKey) {
				if typ.NeedKeyUpdate() {
					typedmemmove(typ.Key, slotKey, key)
				}

				slotElem := g.elem(typ, i)
				if typ.IndirectElem() {
					slotElem = *((*unsafe.Pointer)(slotElem))
				}

				t.checkInvariants(typ, m)
				return slotElem, true
			}
			match = match.removeFirst()
		}

		// No existing slot for this key in this group. Is this the end
		// of the probe sequence?
		match = g.ctrls().matchEmptyOrDeleted()
		if match == 0 {
			continue // nothing but filled slots. Keep probing.
		}
		i := match.first()
		if g.ctrls().get(i) == ctrlDeleted {
			// There are some deleted slots. Remember
			// the first one, and keep probing.
			if firstDeletedGroup.data == nil {
				firstDeletedGroup = g
				firstDeletedSlot = i
			}
			continue
		}
		// We've found an empty slot, which means we've reached the end of
		// the probe sequence.

		// If we found a deleted slot along the way, we can
		// replace it without consuming growthLeft.
		if firstDeletedGroup.data != nil {
			g = firstDeletedGroup
			i = firstDeletedSlot
			t.growthLeft++ // will be decremented below to become a no-op.
		}

		// If we have no space left, first try to remove some tombstones.
		if t.growthLeft == 0 {
			t.pruneTombstones(typ, m)
		}

		// If there is room left to grow, just insert the new entry.
		if t.growthLeft > 0 {
			slotKey := g.key(typ, i)
			if typ.IndirectKey() {
				kmem := newobject(typ.Key)
				*(*unsafe.Pointer)(slotKey) = kmem
				slotKey = kmem
			}
			typedmemmove(typ.Key, slotKey, key)

			slotElem := g.elem(typ, i)
			if typ.IndirectElem() {
				emem := newobject(typ.Elem)
				*(*unsafe.Pointer)(slotElem) = emem
				slotElem = emem
			}

			g.ctrls().set(i, ctrl(h2Hash))
			t.growthLeft--
			t.used++
			m.used++

			t.checkInvariants(typ, m)
			return slotElem, true
		}

		t.rehash(typ, m)
		return nil, false
	}
}

// uncheckedPutSlot inserts an entry known not to be in the table.
// This is used for grow/split where we are making a new table from
// entries in an existing table.
//
// Decrements growthLeft and increments used.
//
// Requires that the entry does not exist in the table, and that the table has
// room for another element without rehashing.
//
// Requires that there are no deleted entries in the table.
//
// For indirect keys and/or elements, the key and elem pointers can be
// put directly into the map, they do not need to be copied. This
// requires the caller to ensure that the referenced memory never
// changes (by sourcing those pointers from another indirect key/elem
// map).
func (t *table) uncheckedPutSlot(typ *abi.MapType, hash uintptr, key, elem unsafe.Pointer) {
	if t.growthLeft == 0 {
		panic("invariant failed: growthLeft is unexpectedly 0")
	}

	// Given key and its hash hash(key), to insert it, we construct a
	// probeSeq, and use it to find the first group with an unoccupied (empty
	// or deleted) slot. We place the key/value into the first such slot in
	// the group and mark it as full with key's H2.
	seq := makeProbeSeq(h1(hash), t.groups.lengthMask)
	for ; ; seq = seq.next() {
		g := t.groups.group(typ, seq.offset)

		match := g.ctrls().matchEmptyOrDeleted()
		if match != 0 {
			i := match.first()

			slotKey := g.key(typ, i)
			if typ.IndirectKey() {
				*(*unsafe.Pointer)(slotKey) = key
			} else {
				typedmemmove(typ.Key, slotKey, key)
			}

			slotElem := g.elem(typ, i)
			if typ.IndirectElem() {
				*(*unsafe.Pointer)(slotElem) = elem
			} else {
				typedmemmove(typ.Elem, slotElem, elem)
			}

			t.growthLeft--
			t.used++
			g.ctrls().set(i, ctrl(h2(hash)))
			return
		}
	}
}

// Delete returns true if it put a tombstone in t.
func (t *table) Delete(typ *abi.MapType, m *Map, hash uintptr, key unsafe.Pointer) bool {
	seq := makeProbeSeq(h1(hash), t.groups.lengthMask)
	h2Hash := h2(hash)
	for ; ; seq = seq.next() {
		g := t.groups.group(typ, seq.offset)
		match := g.ctrls().matchH2(h2Hash)

		for match != 0 {
			i := match.first()

			slotKey := g.key(typ, i)
			origSlotKey := slotKey
			if typ.IndirectKey() {
				slotKey = *((*unsafe.Pointer)(slotKey))
			}

			if typ.Key.Equal(key, slotKey) {
				t.used--
				m.used--

				if typ.IndirectKey() {
					// Clearing the pointer is sufficient.
					*(*unsafe.Pointer)(origSlotKey) = nil
				} else if typ.Key.Pointers() {
					// Only bothing clear the key if there
					// are pointers in it.
					typedmemclr(typ.Key, slotKey)
				}

				slotElem := g.elem(typ, i)
				if typ.IndirectElem() {
					// Clearing the pointer is sufficient.
					*(*unsafe.Pointer)(slotElem) = nil
				} else {
					// Unlike keys, always clear the elem (even if
					// it contains no pointers), as compound
					// assignment operations depend on cleared
					// deleted values. See
					// https://go.dev/issue/25936.
					typedmemclr(typ.Elem, slotElem)
				}

				// Only a full group can appear in the middle
				// of a probe sequence (a group with at least
				// one empty slot terminates probing). Once a
				// group becomes full, it stays full until
				// rehashing/resizing. So if the group isn't
				// full now, we can simply remove the element.
				// Otherwise, we create a tombstone to mark the
				// slot as deleted.
				var tombstone bool
				if g.ctrls().matchEmpty() != 0 {
					g.ctrls().set(i, ctrlEmpty)
					t.growthLeft++
				} else {
					g.ctrls().set(i, ctrlDeleted)
					tombstone = true
				}

				t.checkInvariants(typ, m)
				return tombstone
			}
			match = match.removeFirst()
		}

		match = g.ctrls().matchEmpty()
		if match != 0 {
			// Finding an empty slot means we've reached the end of
			// the probe sequence.
			return false
		}
	}
}

// pruneTombstones goes through the table and tries to remove
// tombstones that are no longer needed. Best effort.
// Note that it only removes tombstones, it does not move elements.
// Moving elements would do a better job but is infeasbile due to
// iterator semantics.
//
// Pruning should only succeed if it can remove O(n) tombstones.
// It would be bad if we did O(n) work to find 1 tombstone to remove.
// Then the next insert would spend another O(n) work to find 1 more
// tombstone to remove, etc.
//
// We really need to remove O(n) tombstones so we can pay for the cost
// of finding them. If we can't, then we need to grow (which is also O(n),
// but guarantees O(n) subsequent inserts can happen in constant time).
func (t *table) pruneTombstones(typ *abi.MapType, m *Map) {
	if t.tombstones()*10 < t.capacity { // 10% of capacity
		// Not enough tombstones to be worth the effort.
		return
	}

	// Bit set marking all the groups whose tombstones are needed.
	var needed [(maxTableCapacity/abi.MapGroupSlots + 31) / 32]uint32

	// Trace the probe sequence of every full entry.
	for i := uint64(0); i <= t.groups.lengthMask; i++ {
		g := t.groups.group(typ, i)
		match := g.ctrls().matchFull()
		for match != 0 {
			j := match.first()
			match = match.removeFirst()
			key := g.key(typ, j)
			if typ.IndirectKey() {
				key = *((*unsafe.Pointer)(key))
			}
			if !typ.Key.Equal(key, key) {
				// Key not equal to itself. We never have to find these
				// keys on lookup (only on iteration), so we can break
				// their probe sequences at will.
				continue
			}
			// Walk probe sequence for this key.
			// Each tombstone group we need to walk past is marked required.
			hash := typ.Hasher(key, verifSeed)
			for seq := makeProbeSeq(h1(hash), t.groups.lengthMask); ; seq = seq.next() {
				if seq.offset == i {
					break // reached group of element in probe sequence
				}
				g := t.groups.group(typ, seq.offset)
				m := g.ctrls().matchEmptyOrDeleted()
				if m != 0 { // must be deleted, not empty, as we haven't found our key yet
					// Mark this group's tombstone as required.
					needed[seq.offset/32] |= 1 << (seq.offset % 32)
				}
			}
		}
		if g.ctrls().matchEmpty() != 0 {
			// Also mark non-tombstone-containing groups, so we don't try
			// to remove tombstones from them below.
			needed[i/32] |= 1 << (i % 32)
		}
	}

	// First, see if we can remove enough tombstones to restore capacity.
	// This function is O(n), so only remove tombstones if we can remove
	// enough of them to justify the O(n) cost.
	cnt := 0
	for i := uint64(0); i <= t.groups.lengthMask; i++ {
		if needed[i/32]>>(i%32)&1 != 0 {
			continue
		}
		g := t.groups.group(typ, i)
		m := g.ctrls().matchEmptyOrDeleted() // must be deleted
		cnt += m.count()
	}
	if cnt*10 < int(t.capacity) { // Can we restore 10% of capacity?
		return // don't bother removing tombstones. Caller will grow instead.
	}

	// Prune unneeded tombstones.
	for i := uint64(0); i <= t.groups.lengthMask; i++ {
		if needed[i/32]>>(i%32)&1 != 0 {
			continue
		}
		g := t.groups.group(typ, i)
		m := g.ctrls().matchEmptyOrDeleted() // must be deleted
		for m != 0 {
			k := m.first()
			m = m.removeFirst()
			g.ctrls().set(k, ctrlEmpty)
			t.growthLeft++
		}
		// TODO: maybe we could convert all slots at once
		// using some bitvector trickery.
	}
}

// tombstones returns the number of deleted (tombstone) entries in the table. A
// tombstone is a slot that has been deleted but is still considered occupied
// so as not to violate the probing invariant.
func (t *table) tombstones() uint16 {
	return (t.capacity*maxAvgGroupLoad)/abi.MapGroupSlots - t.used - t.growthLeft
}

// Clear deletes all entries from the table resulting in an empty table.
func (t *table) Clear(typ *abi.MapType) {
	mgl := t.maxGrowthLeft()
	if t.used == 0 && t.growthLeft == mgl { // no current entries and no tombstones
		return
	}
	// We only want to do the work of clearing slots
	// if they are full. But we also don't want to do too
	// much work to figure out whether a slot is full or not,
	// especially if clearing a slot is cheap.
	//  1) We decide group-by-group instead of slot-by-slot.
	//     If any slot in a group is full, we zero the whole group.
	//  2) If groups are unlikely to be empty, don't bother
	//     testing for it.
	//  3) If groups are 50%/50% likely to be empty, also don't
	//     bother testing, as it confuses the branch predictor. See #75097.
	//  4) But if a group is really large, do the test anyway, as
	//     clearing is expensive.
	fullTest := uint64(t.used)*4 <= t.groups.lengthMask // less than ~0.25 entries per group -> >3/4 empty groups
	if typ.SlotSize > 32 {
		// For large slots, it is always worth doing the test first.
		fullTest = true
	}
	if fullTest {
		for i := uint64(0); i <= t.groups.lengthMask; i++ {
			g := t.groups.group(typ, i)
			if g.ctrls().anyFull() {
				typedmemclr(typ.Group, g.data)
			}
			g.ctrls().setEmpty()
		}
	} else {
		for i := uint64(0); i <= t.groups.lengthMask; i++ {
			g := t.groups.group(typ, i)
			typedmemclr(typ.Group, g.data)
			g.ctrls().setEmpty()
		}
	}
	t.used = 0
	t.growthLeft = mgl
}

type Iter struct {
	key  unsafe.Pointer // Must be in first position.  Write nil to indicate iteration end (see cmd/compile/internal/walk/range.go).
	elem unsafe.Pointer // Must be in second position (see cmd/compile/internal/walk/range.go).
	typ  *abi.MapType
	m    *Map

	// Randomize iteration order by starting iteration at a random slot
	// offset. The offset into the directory uses a separate offset, as it
	// must adjust when the directory grows.
	entryOffset uint64
	dirOffset   uint64

	// Snapshot of Map.clearSeq at iteration initialization time. Used to
	// detect clear during iteration.
	clearSeq uint64

	// Value of Map.globalDepth during the last call to Next. Used to
	// detect directory grow during iteration.
	globalDepth uint8

	// dirIdx is the current directory index, prior to adjustment by
	// dirOffset.
	dirIdx int

	// tab is the table at dirIdx during the previous call to Next.
	tab *table

	// group is the group at entryIdx during the previous call to Next.
	group groupReference

	// entryIdx is the current entry index, prior to adjustment by entryOffset.
	// The lower 3 bits of the index are the slot index, and the upper bits
	// are the group index.
	entryIdx uint64
}

// Init initializes Iter for iteration.
func (it *Iter) Init(typ *abi.MapType, m *Map) {
	it.typ = typ

	if m == nil || m.used == 0 {
		return
	}

	dirIdx := 0
	var groupSmall groupReference
	if m.dirLen <= 0 {
		// Use dirIdx == -1 as sentinel for small maps.
		dirIdx = -1
		groupSmall.data = m.dirPtr
	}

	it.m = m
	it.entryOffset, it.dirOffset = verifIterOffsets(m)
	it.globalDepth = m.globalDepth
	it.dirIdx = dirIdx
	it.group = groupSmall
	it.clearSeq = m.clearSeq
}

func (it *Iter) Initialized() bool {
	return it.typ != nil
}

// Map returns the map this iterator is iterating over.
func (it *Iter) Map() *Map {
	return it.m
}

// Key returns a pointer to the current key. nil indicates end of iteration.
//
// Must not be called prior to Next.
func (it *Iter) Key() unsafe.Pointer {
	return it.key
}

// Elem returns a pointer to the current element. nil indicates end of
// iteration.
//
// Must not be called prior to Next.
func (it *Iter) Elem() unsafe.Pointer {
	return it.elem
}

func (it *Iter) nextDirIdx() {
	// Skip other entries in the directory that refer to the same
	// logical table. There are two cases of this:
	//
	// Consider this directory:
	//
	// - 0: *t1
	// - 1: *t1
	// - 2: *t2a
	// - 3: *t2b
	//
	// At some point, the directory grew to accommodate a split of
	// t2. t1 did not split, so entries 0 and 1 both point to t1.
	// t2 did split, so the two halves were installed in entries 2
	// and 3.
	//
	// If dirIdx is 0 and it.tab is t1, then we should skip past
	// entry 1 to avoid repeating t1.
	//
	// If dirIdx is 2 and it.tab is t2 (pre-split), then we should
	// skip past entry 3 because our pre-split t2 already covers
	// all keys from t2a and t2b (except for new insertions, which
	// iteration need not return).
	//
	// We can achieve both of these by using to difference between
	// the directory and table depth to compute how many entries
	// the table covers.
	entries := 1 << (it.m.globalDepth - it.tab.localDepth)
	it.dirIdx += entries
	it.tab = nil
	it.group = groupReference{}
	it.entryIdx = 0
}

// Return the appropriate key/elem for key at slotIdx index within it.group, if
// any.
func (it *Iter) grownKeyElem(key unsafe.Pointer, slotIdx uintptr) (unsafe.Pointer, unsafe.Pointer, bool) {
	newKey, newElem, ok := it.m.getWithKey(it.typ, key)
	if !ok {
		// Key has likely been deleted, and
		// should be skipped.
		//
		// One exception is keys that don't
		// compare equal to themselves (e.g.,
		// NaN). These keys cannot be looked
		// up, so getWithKey will fail even if
		// the key exists.
		//
		// However, we are in luck because such
		// keys cannot be updated and they
		// cannot be deleted except with clear.
		// Thus if no clear has occurred, the
		// key/elem must still exist exactly as
		// in the old groups, so we can return
		// them from there.
		//
		// TODO(prattmic): Consider checking
		// clearSeq early. If a clear occurred,
		// Next could always return
		// immediately, as iteration doesn't
		// need to return anything added after
		// clear.
		if it.clearSeq == it.m.clearSeq && !it.typ.Key.Equal(key, key) {
			elem := it.group.elem(it.typ, slotIdx)
			if it.typ.IndirectElem() {
				elem = *((*unsafe.Pointer)(elem))
			}
			return key, elem, true
		}

		// This entry doesn't exist anymore.
		return nil, nil, false
	}

	return newKey, newElem, true
}

// Next proceeds to the next element in iteration, which can be accessed via
// the Key and Elem methods.
//
// The table can be mutated during iteration, though there is no guarantee that
// the mutations will be visible to the iteration.
//
// Init must be called prior to Next.
func (it *Iter) Next() {
	if it.m == nil {
		// Map was empty at Iter.Init.
		it.key = nil
		it.elem = nil
		return
	}

	if it.m.writing != 0 {
		fatal("concurrent map iteration and map write")
		return
	}

	if it.dirIdx < 0 {
		// Map was small at Init.
		for ; it.entryIdx < abi.MapGroupSlots; it.entryIdx++ {
			k := uintptr(it.entryIdx+it.entryOffset) % abi.MapGroupSlots

			if (it.group.ctrls().get(k) & ctrlEmpty) == ctrlEmpty {
				// Empty or deleted.
				continue
			}

			key := it.group.key(it.typ, k)
			if it.typ.IndirectKey() {
				key = *((*unsafe.Pointer)(key))
			}

			// As below, if we have grown to a full map since Init,
			// we continue to use the old group to decide the keys
			// to return, but must look them up again in the new
			// tables.
			grown := it.m.dirLen > 0
			var elem unsafe.Pointer
			if grown {
				var ok bool
				newKey, newElem, ok := it.m.getWithKey(it.typ, key)
				if !ok {
					// See comment below.
					if it.clearSeq == it.m.clearSeq && !it.typ.Key.Equal(key, key) {
						elem = it.group.elem(it.typ, k)
						if it.typ.IndirectElem() {
							elem = *((*unsafe.Pointer)(elem))
						}
					} else {
						continue
					}
				} else {
					key = newKey
					elem = newElem
				}
			} else {
				elem = it.group.elem(it.typ, k)
				if it.typ.IndirectElem() {
					elem = *((*unsafe.Pointer)(elem))
				}
			}

			it.entryIdx++
			it.key = key
			it.elem = elem
			return
		}
		it.key = nil
		it.elem = nil
		return
	}

	if it.globalDepth != it.m.globalDepth {
		// Directory has grown since the last call to Next. Adjust our
		// directory index.
		//
		// Consider:
		//
		// Before:
		// - 0: *t1
		// - 1: *t2  <- dirIdx
		//
		// After:
		// - 0: *t1a (split)
		// - 1: *t1b (split)
		// - 2: *t2  <- dirIdx
		// - 3: *t2
		//
		// That is, we want to double the current index when the
		// directory size doubles (or quadruple when the directory size
		// quadruples, etc).
		//
		// The actual (randomized) dirIdx is computed below as:
		//
		// dirIdx := (it.dirIdx + it.dirOffset) % it.m.dirLen
		//
		// Multiplication is associative across modulo operations,
		// A * (B % C) = (A * B) % (A * C),
		// provided that A is positive.
		//
		// Thus we can achieve this by adjusting it.dirIdx,
		// it.dirOffset, and it.m.dirLen individually.
		orders := it.m.globalDepth - it.globalDepth
		it.dirIdx <<= orders
		it.dirOffset <<= orders
		// it.m.dirLen was already adjusted when the directory grew.

		it.globalDepth = it.m.globalDepth
	}

	// Continue iteration until we find a full slot.
	for ; it.dirIdx < it.m.dirLen; it.nextDirIdx() {
		// Resolve the table.
		if it.tab == nil {
			dirIdx := int((uint64(it.dirIdx) + it.dirOffset) & uint64(it.m.dirLen-1))
			newTab := it.m.directoryAt(uintptr(dirIdx))
			if newTab.index != dirIdx {
				// Normally we skip past all duplicates of the
				// same entry in the table (see updates to
				// it.dirIdx at the end of the loop below), so
				// this case wouldn't occur.
				//
				// But on the very first call, we have a
				// completely randomized dirIdx that may refer
				// to a middle of a run of tables in the
				// directory. Do a one-time adjustment of the
				// offset to ensure we start at first index for
				// newTable.
				diff := dirIdx - newTab.index
				it.dirOffset -= uint64(diff)
				dirIdx = newTab.index
			}
			it.tab = newTab
		}

		// N.B. Use it.tab, not newTab. It is important to use the old
		// table for key selection if the table has grown. See comment
		// on grown below.

		entryMask := uint64(it.tab.capacity) - 1
		if it.entryIdx > entryMask {
			// Continue to next table.
			continue
		}

		// Fast path: skip matching and directly check if entryIdx is a
		// full slot.
		//
		// In the slow path below, we perform an 8-slot match check to
		// look for full slots within the group.
		//
		// However, with a max load factor of 7/8, each slot in a
		// mostly full map has a high probability of being full. Thus
		// it is cheaper to check a single slot than do a full control
		// match.

		entryIdx := (it.entryIdx + it.entryOffset) & entryMask
		slotIdx := uintptr(entryIdx & (abi.MapGroupSlots - 1))
		if slotIdx == 0 || it.group.data == nil {
			// Only compute the group (a) when we switch
			// groups (slotIdx rolls over) and (b) on the
			// first iteration in this table (slotIdx may
			// not be zero due to entryOffset).
			groupIdx := entryIdx >> abi.MapGroupSlotsBits
			it.group = it.tab.groups.group(it.typ, groupIdx)
		}

		if (it.group.ctrls().get(slotIdx) & ctrlEmpty) == 0 {
			// Slot full.

			key := it.group.key(it.typ, slotIdx)
			if it.typ.IndirectKey() {
				key = *((*unsafe.Pointer)(key))
			}

			grown := it.tab.index == -1
			var elem unsafe.Pointer
			if grown {
				newKey, newElem, ok := it.grownKeyElem(key, slotIdx)
				if !ok {
					// This entry doesn't exist
					// anymore. Continue to the
					// next one.
					goto next
				} else {
					key = newKey
					elem = newElem
				}
			} else {
				elem = it.group.elem(it.typ, slotIdx)
				if it.typ.IndirectElem() {
					elem = *((*unsafe.Pointer)(elem))
				}
			}

			it.entryIdx++
			it.key = key
			it.elem = elem
			return
		}

	next:
		it.entryIdx++

		// Slow path: use a match on the control word to jump ahead to
		// the next full slot.
		//
		// This is highly effective for maps with particularly low load
		// (e.g., map allocated with large hint but few insertions).
		//
		// For maps with medium load (e.g., 3-4 empty slots per group)
		// it also tends to work pretty well. Since slots within a
		// group are filled in order, then if there have been no
		// deletions, a match will allow skipping past all empty slots
		// at once.
		//
		// Note: it is tempting to cache the group match result in the
		// iterator to use across Next calls. However because entries
		// may be deleted between calls later calls would still need to
		// double-check the control value.

		var groupMatch bitset
		for it.entryIdx <= entryMask {
			entryIdx := (it.entryIdx + it.entryOffset) & entryMask
			slotIdx := uintptr(entryIdx & (abi.MapGroupSlots - 1))

			if slotIdx == 0 || it.group.data == nil {
				// Only compute the group (a) when we switch
				// groups (slotIdx rolls over) and (b) on the
				// first iteration in this table (slotIdx may
				// not be zero due to entryOffset).
				groupIdx := entryIdx >> abi.MapGroupSlotsBits
				it.group = it.tab.groups.group(it.typ, groupIdx)
			}

			if groupMatch == 0 {
				groupMatch = it.group.ctrls().matchFull()

				if slotIdx != 0 {
					// Starting in the middle of the group.
					// Ignore earlier groups.
					groupMatch = groupMatch.removeBelow(slotIdx)
				}

				// Skip over groups that are composed of only empty or
				// deleted slots.
				if groupMatch == 0 {
					// Jump past remaining slots in this
					// group.
					it.entryIdx += abi.MapGroupSlots - uint64(slotIdx)
					continue
				}

				i := groupMatch.first()
				it.entryIdx += uint64(i - slotIdx)
				if it.entryIdx > entryMask {
					// Past the end of this table's iteration.
					continue
				}
				entryIdx += uint64(i - slotIdx)
				slotIdx = i
			}

			key := it.group.key(it.typ, slotIdx)
			if it.typ.IndirectKey() {
				key = *((*unsafe.Pointer)(key))
			}

			// If the table has changed since the last
			// call, then it has grown or split. In this
			// case, further mutations (changes to
			// key->elem or deletions) will not be visible
			// in our snapshot table. Instead we must
			// consult the new table by doing a full
			// lookup.
			//
			// We still use our old table to decide which
			// keys to lookup in order to avoid returning
			// the same key twice.
			grown := it.tab.index == -1
			var elem unsafe.Pointer
			if grown {
				newKey, newElem, ok := it.grownKeyElem(key, slotIdx)
				if !ok {
					// This entry doesn't exist anymore.
					// Continue to the next one.
					groupMatch = groupMatch.removeFirst()
					if groupMatch == 0 {
						// No more entries in this
						// group. Continue to next
						// group.
						it.entryIdx += abi.MapGroupSlots - uint64(slotIdx)
						continue
					}

					// Next full slot.
					i := groupMatch.first()
					it.entryIdx += uint64(i - slotIdx)
					continue
				} else {
					key = newKey
					elem = newElem
				}
			} else {
				elem = it.group.elem(it.typ, slotIdx)
				if it.typ.IndirectElem() {
					elem = *((*unsafe.Pointer)(elem))
				}
			}

			// Jump ahead to the next full slot or next group.
			groupMatch = groupMatch.removeFirst()
			if groupMatch == 0 {
				// No more entries in
				// this group. Continue
				// to next group.
				it.entryIdx += abi.MapGroupSlots - uint64(slotIdx)
			} else {
				// Next full slot.
				i := groupMatch.first()
				it.entryIdx += uint64(i - slotIdx)
			}

			it.key = key
			it.elem = elem
			return
		}

		// Continue to next table.
	}

	it.key = nil
	it.elem = nil
	return
}

// Replaces the table with one larger table or two split tables to fit more
// entries. Since the table is replaced, t is now stale and should not be
// modified.
func (t *table) rehash(typ *abi.MapType, m *Map) {
	// TODO(prattmic): SwissTables typically perform a "rehash in place"
	// operation which recovers capacity consumed by tombstones without growing
	// the table by reordering slots as necessary to maintain the probe
	// invariant while eliminating all tombstones.
	//
	// However, it is unclear how to make rehash in place work with
	// iteration. Since iteration simply walks through all slots in order
	// (with random start offset), reordering the slots would break
	// iteration.
	//
	// As an alternative, we could do a "resize" to new groups allocation
	// of the same size. This would eliminate the tombstones, but using a
	// new allocation, so the existing grow support in iteration would
	// continue to work.

	newCapacity := 2 * t.capacity
	if newCapacity <= maxTableCapacity {
		t.grow(typ, m, newCapacity)
		return
	}

	t.split(typ, m)
}

// Bitmask for the last selection bit at this depth.
func localDepthMask(localDepth uint8) uintptr {
	if !Use64BitHash {
		return uintptr(1) << (32 - localDepth)
	}
	return uintptr(1) << (64 - localDepth)
}

// split the table into two, installing the new tables in the map directory.
func (t *table) split(typ *abi.MapType, m *Map) {
	localDepth := t.localDepth
	localDepth++

	// TODO: is this the best capacity?
	left := newTable(typ, maxTableCapacity, -1, localDepth)
	right := newTable(typ, maxTableCapacity, -1, localDepth)

	// Split in half at the localDepth bit from the top.
	mask := localDepthMask(localDepth)

	for i := uint64(0); i <= t.groups.lengthMask; i++ {
		g := t.groups.group(typ, i)
		for j := uintptr(0); j < abi.MapGroupSlots; j++ {
			if (g.ctrls().get(j) & ctrlEmpty) == ctrlEmpty {
				// Empty or deleted
				continue
			}

			key := g.key(typ, j)
			if typ.IndirectKey() {
				key = *((*unsafe.Pointer)(key))
			}

			elem := g.elem(typ, j)
			if typ.IndirectElem() {
				elem = *((*unsafe.Pointer)(elem))
			}

			hash := typ.Hasher(key, verifSeed)
			var newTable *table
			if hash&mask == 0 {
				newTable = left
			} else {
				newTable = right
			}
			newTable.uncheckedPutSlot(typ, hash, key, elem)
		}
	}

	m.installTableSplit(t, left, right)
	t.index = -1
}

// grow the capacity of the table by allocating a new table with a bigger array
// and uncheckedPutting each element of the table into the new table (we know
// that no insertion here will Put an already-present value), and discard the
// old table.
func (t *table) grow(typ *abi.MapType, m *Map, newCapacity uint16) {
	newTable := newTable(typ, uint64(newCapacity), t.index, t.localDepth)

	if t.capacity > 0 {
		for i := uint64(0); i <= t.groups.lengthMask; i++ {
			g := t.groups.group(typ, i)
			for j := uintptr(0); j < abi.MapGroupSlots; j++ {
				if (g.ctrls().get(j) & ctrlEmpty) == ctrlEmpty {
					// Empty or deleted
					continue
				}

				key := g.key(typ, j)
				if typ.IndirectKey() {
					key = *((*unsafe.Pointer)(key))
				}

				elem := g.elem(typ, j)
				if typ.IndirectElem() {
					elem = *((*unsafe.Pointer)(elem))
				}

				hash := typ.Hasher(key, verifSeed)

				newTable.uncheckedPutSlot(typ, hash, key, elem)
			}
		}
	}

	newTable.checkInvariants(typ, m)
	m.replaceTable(newTable)
	t.index = -1
}

// probeSeq maintains the state for a probe sequence that iterates through the
// groups in a table. The sequence is a triangular progression of the form
// hash, hash + 1, hash + 1 + 2, hash + 1 + 2 + 3, ..., modulo mask + 1.
// The i-th term of the sequence is
//
//	p(i) := hash + (i^2 + i)/2 (mod mask+1)
//
// The sequence effectively outputs the indexes of *groups*. The group
// machinery allows us to check an entire group with minimal branching.
//
// It turns out that this probe sequence visits every group exactly once if
// the number of groups is a power of two, since (i^2+i)/2 is a bijection in
// Z/(2^m). See https://en.wikipedia.org/wiki/Quadratic_probing
type probeSeq struct {
	mask   uint64
	offset uint64
	index  uint64
}

func makeProbeSeq(hash uintptr, mask uint64) probeSeq {
	return probeSeq{
		mask:   mask,
		offset: uint64(hash) & mask,
		index:  0,
	}
}

func (s probeSeq) next() probeSeq {
	s.index++
	s.offset = (s.offset + s.index) & s.mask
	return s
}

func (t *table) clone(typ *abi.MapType) *table {
	// Shallow copy the table structure.
	t2 := new(table)
	*t2 = *t
	t = t2

	// We need to just deep copy the groups.data field.
	oldGroups := t.groups
	newGroups := newGroups(typ, oldGroups.lengthMask+1)
	for i := uint64(0); i <= oldGroups.lengthMask; i++ {
		oldGroup := oldGroups.group(typ, i)
		newGroup := newGroups.group(typ, i)
		cloneGroup(typ, newGroup, oldGroup)
	}
	t.groups = newGroups

	return t
}
