// Overlay-ADDED file: build.sh copies it to overlay/_gen/maps_zz_verif_seam.go and maps it to
// $GOROOT/src/internal/runtime/maps/zz_verif_seam.go (only for the C18 binary).
//
// It is the seam that lets the C18 harness own Go's randomized map iteration order:
//   - Iter.Init (table.go, patched by build.sh) takes entryOffset/dirOffset from verifIterOffsets
//     instead of rand(): offset 0 for every iteration, except for up to two chosen iteration
//     ordinals (counted since the last reset) which get the offsets chosen by the harness;
//   - the per-map hash seed is pinned: every `typ.Hasher(key, m.seed)` of the package is patched to
//     `typ.Hasher(key, verifSeed)` (a constant; m.seed itself is still written but never read), and
//     runtime/alg.go is patched to use constant hash keys, so that the slot layout of maps with more
//     than 8 entries is a function of the inserted keys only (not of the process).
//
// The file has a .go.in name so that `go build ./...` in /verif never sees a package here.

package maps

import "internal/runtime/atomic"

// verifSeed replaces the per-map random hash seed.
const verifSeed uintptr = 0x5eed_c18

// VerifTraceLen is the number of iterations (since reset) whose map shape is recorded.
const VerifTraceLen = 1 << 22

var (
	verifPass  atomic.Uint32 // != 0: offsets come from rand() exactly as in the unpatched runtime
	verifCount atomic.Int64  // Iter.Init calls on non-empty maps since the last reset
	verifK     [2]atomic.Int64
	verifE     [2]atomic.Uint64
	verifD     [2]atomic.Uint64
	verifSmall atomic.Int64 // iterations over single-group maps (order = rotation by entryOffset&7)
	verifLarge atomic.Int64 // iterations over table-backed maps
	verifTrace [VerifTraceLen]uint32
	verifHook  func() // called (if set) inside Iter.Init of a deviating iteration: records the call site
)

func verifLog2(x uint64) uint32 {
	var n uint32
	for x > 1 {
		x >>= 1
		n++
	}
	return n
}

// verifIterOffsets is called by Iter.Init for every iteration over a non-empty map.
func verifIterOffsets(m *Map) (entryOffset, dirOffset uint64) {
	n := verifCount.Add(1) - 1
	used := m.used
	if used > 0xfffff {
		used = 0xfffff
	}
	info := uint32(used)
	if m.dirLen <= 0 {
		verifSmall.Add(1)
	} else {
		verifLarge.Add(1)
		// bits 20..24: log2(dirLen)+1, bits 25..29: log2(capacity of the first table)
		info |= (verifLog2(uint64(m.dirLen)) + 1) << 20
		info |= verifLog2(uint64(m.directoryAt(0).capacity)) << 25
	}
	if n >= 0 && n < VerifTraceLen {
		verifTrace[n] = info
	}
	if verifPass.Load() != 0 {
		return rand(), rand()
	}
	for i := range verifK {
		if verifK[i].Load() == n+1 {
			if verifHook != nil {
				verifHook()
			}
			return verifE[i].Load(), verifD[i].Load()
		}
	}
	return 0, 0
}

// VerifReset clears the iteration counter, the chosen deviations and the shape statistics.
func VerifReset() {
	for i := range verifK {
		verifK[i].Store(0)
		verifE[i].Store(0)
		verifD[i].Store(0)
	}
	verifSmall.Store(0)
	verifLarge.Store(0)
	verifCount.Store(0)
}

// VerifSet makes the k-th (0-based, since reset) iteration start at entry offset e and directory
// offset d. slot is 0 or 1 (two independent deviations); k < 0 clears the slot.
func VerifSet(slot int, k int64, e, d uint64) {
	if slot < 0 || slot >= len(verifK) {
		return
	}
	verifE[slot].Store(e)
	verifD[slot].Store(d)
	verifK[slot].Store(k + 1)
}

// VerifSetHook installs the function called from Iter.Init of every deviating iteration.
func VerifSetHook(f func()) { verifHook = f }

// VerifPassthrough(true) restores the unpatched behaviour (random offsets) while still counting.
func VerifPassthrough(on bool) {
	if on {
		verifPass.Store(1)
	} else {
		verifPass.Store(0)
	}
}

// VerifCount returns the number of iterations since reset, and how many of them were over
// single-group ("small") and table-backed ("large") maps.
func VerifCount() (total, small, large int64) {
	return verifCount.Load(), verifSmall.Load(), verifLarge.Load()
}

// VerifInfo returns the recorded shape of the k-th iteration since reset (0 if not recorded):
// bits 0..19 number of entries, bits 20..24 log2(dirLen)+1 (0 = single-group map),
// bits 25..29 log2(capacity of the first table).
func VerifInfo(k int64) uint32 {
	if k < 0 || k >= VerifTraceLen {
		return 0
	}
	return verifTrace[k]
}
