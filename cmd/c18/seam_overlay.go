//go:build verifoverlay

package main

import "runtime"

// The binary was built by build.sh with the patched standard library (see overlay/).
const overlayBuilt = true

func seamReset()                               { runtime.VerifMapIterReset() }
func seamSet(slot int, k int64, e, d uint64)   { runtime.VerifSetMapIter(slot, k, e, d) }
func seamPassthrough(on bool)                  { runtime.VerifMapIterPassthrough(on) }
func seamCount() (total, small, large int64)   { return runtime.VerifMapIterCount() }
func seamInfo(k int64) uint32                  { return runtime.VerifMapIterInfo(k) }

const seamTraceLen = runtime.VerifMapIterTraceLen
