//go:build verifoverlay

package main

import (
	"fmt"
	"runtime"
	"strings"
)

// The binary was built by build.sh with the patched standard library (see overlay/).
const overlayBuilt = true

func seamReset()                             { runtime.VerifMapIterReset() }
func seamSet(slot int, k int64, e, d uint64) { runtime.VerifSetMapIter(slot, k, e, d) }
func seamPassthrough(on bool)                { runtime.VerifMapIterPassthrough(on) }
func seamCount() (total, small, large int64) { return runtime.VerifMapIterCount() }
func seamInfo(k int64) uint32                { return runtime.VerifMapIterInfo(k) }

// seamSite describes where the last deviating map iteration was started: the innermost frame outside
// the runtime/reflect plumbing, e.g. "compiler.(*syntaxLoader).convertPart (compiler/syntax.go:866)".
func seamSite() (fn, pos string) {
	pcs := runtime.VerifMapIterSite()
	if len(pcs) == 0 {
		return "", ""
	}
	frames := runtime.CallersFrames(pcs)
	for {
		f, more := frames.Next()
		skip := strings.HasPrefix(f.Function, "runtime.") || strings.HasPrefix(f.Function, "internal/runtime/") ||
			strings.HasPrefix(f.Function, "reflect.") || strings.HasPrefix(f.Function, "internal/reflectlite.") || f.Function == ""
		if !skip {
			fn = f.Function
			if i := strings.LastIndex(fn, "/"); i >= 0 {
				fn = fn[i+1:]
			}
			return fn, fmt.Sprintf("%s:%d", shortPath(f.File), f.Line)
		}
		if !more {
			return "", ""
		}
	}
}

const seamTraceLen = runtime.VerifMapIterTraceLen
