#!/bin/bash
# Builds the C18 binary (and only this one) against a Go standard library in which the harness
# owns the map iteration order:
#   * internal/runtime/maps/table.go    Iter.Init: entryOffset/dirOffset come from a seam, not rand()
#   * internal/runtime/maps/*.go        every Hasher(key, m.seed) uses the constant verifSeed
#   * runtime/alg.go                    process-wide hash keys are constants instead of bootstrapRand()
#   * + two ADDED files (overlay/*.go.in) with the seam and its re-export from package runtime
# The patched copies are generated here from the installed GOROOT sources (sed + a count of the
# expected sites; any drift in the toolchain sources makes the overlay build fail loudly), then
# `go build -overlay`. If that does not work the binary is built without the overlay and falls back
# to plain repetitions (reported as sampling, exhaustive:false).
#
# Called by /verif/run with VERIF_BIN (output dir) and VERIF_MODFLAG (-modfile=... or empty).
set -u
HERE="$(cd "$(dirname "$0")" && pwd)"
ROOT="$(cd "$HERE/../.." && pwd)"
export GOROOT=/opt/veriftools/go1.26.8
export PATH="$GOROOT/bin:$PATH"
export GOTOOLCHAIN=local GOFLAGS=-mod=mod GOPROXY=off GOSUMDB=off
BIN="${VERIF_BIN:-$ROOT/bin}"
MODFLAG="${VERIF_MODFLAG:-}"
OV="$HERE/overlay"
GEN="$OV/_gen" # "_" prefix: ignored by ./... patterns
mkdir -p "$BIN" "$GEN"
cd "$ROOT"

fail=""
TMP="$(mktemp -d)"
trap 'rm -rf "$TMP"' EXIT

# install <tmpfile> <name>: atomically place a generated file (keeps identical files untouched so
# concurrent builds never see a torn file).
install_gen() {
  if [ -f "$GEN/$2" ] && cmp -s "$1" "$GEN/$2"; then return 0; fi
  cp "$1" "$GEN/.$2.$$" && mv -f "$GEN/.$2.$$" "$GEN/$2"
}

MAPS="$GOROOT/src/internal/runtime/maps"
RT="$GOROOT/src/runtime"
json="$TMP/overlay.json"
printf '{\n "Replace": {\n' > "$json"
sep=""
add_entry() { printf '%s  "%s": "%s"' "$sep" "$1" "$2" >> "$json"; sep=$',\n'; }

gen_overlay() {
  [ -f "$MAPS/table.go" ] && [ -f "$RT/alg.go" ] || { fail="GOROOT sources not found under $GOROOT"; return 1; }

  # 1. Iter.Init: exactly one line of each kind is expected.
  local n1 n2
  n1=$(grep -c '^	it\.entryOffset = rand()$' "$MAPS/table.go")
  n2=$(grep -c '^	it\.dirOffset = rand()$' "$MAPS/table.go")
  if [ "$n1" != 1 ] || [ "$n2" != 1 ]; then
    fail="table.go: expected exactly one 'it.entryOffset = rand()' and one 'it.dirOffset = rand()' line, found $n1/$n2"; return 1
  fi

  # 2. every non-test file of the package: Hasher(..., m.seed) -> Hasher(..., verifSeed)
  local total=0 f base c left
  for f in "$MAPS"/*.go; do
    base="$(basename "$f")"
    case "$base" in *_test.go) continue;; esac
    c=$(grep -c 'typ\.Hasher(.*, m\.seed)' "$f")
    if [ "$base" = table.go ] || [ "$c" -gt 0 ]; then
      sed -e 's/^	it\.entryOffset = rand()$/	it.entryOffset, it.dirOffset = verifIterOffsets(m)/' \
          -e '/^	it\.dirOffset = rand()$/d' \
          -e '/typ\.Hasher(/s/, m\.seed)/, verifSeed)/' "$f" > "$TMP/maps_$base" || { fail="sed failed on $base"; return 1; }
      # sanity: no read of the seed field may be left (only the field, comments and `m.seed = ...`)
      left=$(grep 'm\.seed' "$TMP/maps_$base" | grep -v 'm\.seed = uintptr(rand())' | grep -vc '^[[:space:]]*//')
      if [ "$left" != 0 ]; then fail="$base: $left unexpected use(s) of the map seed left after patching"; return 1; fi
      install_gen "$TMP/maps_$base" "maps_$base" || { fail="cannot write $GEN/maps_$base"; return 1; }
      add_entry "$MAPS/$base" "$GEN/maps_$base"
      total=$((total + c))
    fi
  done
  if [ "$total" -lt 20 ]; then fail="only $total Hasher(key, m.seed) sites found in $MAPS (expected >= 20)"; return 1; fi
  if ! grep -q 'it\.entryOffset, it\.dirOffset = verifIterOffsets(m)' "$TMP/maps_table.go" || grep -q 'Offset = rand()' "$TMP/maps_table.go"; then
    fail="table.go: patch of Iter.Init did not apply"; return 1
  fi

  # 3. runtime/alg.go: constant hash keys
  n1=$(grep -c '^		hashkey\[i\] = uintptr(bootstrapRand())$' "$RT/alg.go")
  n2=$(grep -c '^		key\[i\] = bootstrapRand()$' "$RT/alg.go")
  if [ "$n1" != 1 ] || [ "$n2" != 1 ]; then
    fail="alg.go: expected one 'hashkey[i] = uintptr(bootstrapRand())' and one 'key[i] = bootstrapRand()' line, found $n1/$n2"; return 1
  fi
  sed -e 's/^		hashkey\[i\] = uintptr(bootstrapRand())$/		hashkey[i] = uintptr(0x9e3779b97f4a7c15) + uintptr(i)*2 \/\/ verif: pinned/' \
      -e 's/^		key\[i\] = bootstrapRand()$/		key[i] = 0x9e3779b97f4a7c15 + uint64(i)*0xbf58476d1ce4e5b9 \/\/ verif: pinned/' \
      "$RT/alg.go" > "$TMP/runtime_alg.go" || { fail="sed failed on alg.go"; return 1; }
  if grep -q 'bootstrapRand()' "$TMP/runtime_alg.go"; then fail="alg.go: bootstrapRand() still present after patching"; return 1; fi
  install_gen "$TMP/runtime_alg.go" runtime_alg.go || { fail="cannot write runtime_alg.go"; return 1; }
  add_entry "$RT/alg.go" "$GEN/runtime_alg.go"

  # 4. added files
  install_gen "$OV/maps_seam.go.in" maps_zz_verif_seam.go || { fail="cannot write seam"; return 1; }
  install_gen "$OV/runtime_seam.go.in" runtime_zz_verif_seam.go || { fail="cannot write seam"; return 1; }
  add_entry "$MAPS/zz_verif_seam.go" "$GEN/maps_zz_verif_seam.go"
  add_entry "$RT/zz_verif_seam.go" "$GEN/runtime_zz_verif_seam.go"
  printf '\n }\n}\n' >> "$json"
  install_gen "$json" overlay.json || { fail="cannot write overlay.json"; return 1; }
  return 0
}

if [ "${C18_NO_OVERLAY:-0}" = 1 ]; then
  fail="disabled by C18_NO_OVERLAY=1"
elif gen_overlay; then
  if go build $MODFLAG -overlay "$GEN/overlay.json" -tags verifoverlay -o "$BIN/c18" ./cmd/c18 2>"$TMP/build.err"; then
    exit 0
  fi
  fail="go build -overlay failed: $(head -5 "$TMP/build.err" | tr '\n' ' ')"
fi

echo "C18 build.sh: ****************************************************************" >&2
echo "C18 build.sh: MAP-ORDER OVERLAY NOT AVAILABLE: $fail" >&2
echo "C18 build.sh: building WITHOUT it; the check falls back to 32 plain repetitions" >&2
echo "C18 build.sh: per grammar (sampling, exhaustive:false)." >&2
echo "C18 build.sh: ****************************************************************" >&2
go build $MODFLAG -o "$BIN/c18" ./cmd/c18
