// C18: generation is deterministic.
//
// Real code under test: compiler.Compile + gen.Generate (exactly what `textmapper generate` runs,
// cmd/textmapper/generate.go: the CLI writes Writer.Write's content verbatim to <dir>/<filename>).
//
// Part 1 (histories/processes): every sequence of <= 2 (thorough: <= 3) generations over the 5
// shipped grammars + the feature grammars in grammars/*.tm inside ONE process; the (filename,
// content) stream of each generation must equal the stream of the same grammar generated first in a
// fresh process, under GOMAXPROCS 1, 2 and 16, and (shipped grammars) the files committed in the repo.
//
// Part 2 (map iteration order, the real risk): the binary is linked against a standard library in
// which the harness owns Iter.Init's random offsets and the hash seeds are pinned (see build.sh and
// overlay/*.go.in). Run 0 = every map iteration starts at offset 0. Then, for every k-th map
// iteration of one generation (n is measured) and every other start offset of that map, one
// generation in which only that iteration deviates: the output must be byte-identical to run 0.
//   - maps with <= 8 entries that never grew (one group): the 8 offsets are ALL orders the real
//     runtime can produce -> exact.
//   - table-backed maps (> 8 entries): with the seed pinned the slot layout is fixed, and every
//     rotation (entry offset 0..capacity-1, directory offset 0..dirLen-1) is enumerated in the
//     thorough tier (quick: offsets 1..7 and the 7 multiples of capacity/8). Layouts that only other
//     hash seeds would produce are NOT enumerated (only sampled by the unpinned fresh-process runs).
//   - single-entry maps are explored as well: a loop body that inserts into the map it ranges over
//     makes even a singleton order-dependent (whether the new entry is visited depends on the offset).
//   - deviation bound: one deviating iteration per generation (thorough: also all pairs for the two
//     smallest feature grammars). Orders that need >= 2 (resp. 3) simultaneous deviations are not covered.
//
// The seam is process-global, so every generation that is compared runs in a worker subprocess
// (single goroutine); the parent only aggregates.
package main

import (
	"bytes"
	"context"
	"crypto/sha256"
	"embed"
	"encoding/hex"
	"encoding/json"
	"fmt"
	"os"
	"path/filepath"
	"runtime"
	"sort"
	"strconv"
	"strings"
	"sync"
	"time"

	"github.com/inspirer/textmapper/compiler"
	"github.com/inspirer/textmapper/gen"

	"verif/internal/core"
)

//go:embed grammars/*.tm
var featureFS embed.FS

func main() { core.Main("C18", "model_checking", run, replay, worker) }

// ---------------------------------------------------------------- grammars

type gram struct {
	Name    string // "json", "f-kw", ...
	Path    string // path given to compiler.Compile (the CLI passes the base name found by Glob("*.tm"))
	Dir     string // shipped grammars: directory holding the committed generated files
	Shipped bool
	Heavy   bool // js: histories containing it are limited to length 2
	Big     bool // tm, js: map-order exploration only in the thorough tier
	Content string
	Err     string
}

// grammars returns the fixed grammar list, simplest (shortest source) first.
func grammars() []*gram {
	var out []*gram
	ents, _ := featureFS.ReadDir("grammars")
	for _, e := range ents {
		data, err := featureFS.ReadFile("grammars/" + e.Name())
		g := &gram{Name: "f-" + strings.TrimSuffix(e.Name(), ".tm"), Path: e.Name(), Content: string(data)}
		if err != nil {
			g.Err = err.Error()
		}
		out = append(out, g)
	}
	for _, s := range [][2]string{{"json", "json.tm"}, {"simple", "simple.tm"}, {"test", "test.tm"}, {"tm", "textmapper.tm"}, {"js", "js.tm"}} {
		dir := filepath.Join(core.RepoDir(), "parsers", s[0])
		g := &gram{Name: s[0], Path: s[1], Dir: dir, Shipped: true, Heavy: s[0] == "js", Big: s[0] == "js" || s[0] == "tm"}
		data, err := os.ReadFile(filepath.Join(dir, s[1]))
		if err != nil {
			g.Err = err.Error()
		}
		g.Content = string(data)
		out = append(out, g)
	}
	sort.SliceStable(out, func(i, j int) bool {
		if len(out[i].Content) != len(out[j].Content) {
			return len(out[i].Content) < len(out[j].Content)
		}
		return out[i].Name < out[j].Name
	})
	return out
}

func gramIndex(gs []*gram, name string) int {
	for i, g := range gs {
		if g.Name == name {
			return i
		}
	}
	return -1
}

// ---------------------------------------------------------------- one generation

type output struct {
	Names    []string `json:"names"`
	Contents []string `json:"contents"`
	Err      string   `json:"err,omitempty"`
}

func (o *output) Write(filename, content string) error {
	o.Names = append(o.Names, filename)
	o.Contents = append(o.Contents, content)
	return nil
}

// digest covers the whole Write stream (order, names, contents) and the error, if any.
func (o *output) digest() string {
	h := sha256.New()
	for i, n := range o.Names {
		fmt.Fprintf(h, "%d:%s\x00%d:", len(n), n, len(o.Contents[i]))
		h.Write([]byte(o.Contents[i]))
	}
	fmt.Fprintf(h, "\x00err=%s", o.Err)
	return hex.EncodeToString(h.Sum(nil)[:16])
}

// generate is what `textmapper generate` does for one file (gen.GenerateFile minus the file read
// and the timing statistics), with an in-memory Writer.
func generate(g *gram) *output {
	o := &output{}
	if g.Err != "" {
		o.Err = "cannot read grammar: " + g.Err
		return o
	}
	perr := core.Guard(func() {
		gr, err := compiler.Compile(context.Background(), g.Path, g.Content, compiler.Params{})
		if err != nil {
			o.Err = "compile: " + err.Error()
			return
		}
		if gr.TargetLang == "" {
			o.Err = "no target language"
			return
		}
		if err := gen.Generate(gr, o, gen.Options{}); err != nil {
			o.Err = "generate: " + err.Error()
		}
	})
	if perr != nil {
		o.Err = "panic: " + core.PanicSite(perr) + ": " + strings.SplitN(perr.Error(), "\n", 2)[0]
	}
	return o
}

type diffInfo struct {
	File string `json:"file"`
	Line int    `json:"line,omitempty"`
	Got  string `json:"got,omitempty"`
	Want string `json:"want,omitempty"`
	Note string `json:"note,omitempty"`
}

func (d *diffInfo) String() string {
	if d == nil {
		return "identical"
	}
	if d.Note != "" {
		return fmt.Sprintf("%s: %s", d.File, d.Note)
	}
	return fmt.Sprintf("%s:%d: got %q, want %q", d.File, d.Line, clip(d.Got), clip(d.Want))
}

// shortPath makes a source path relative to the repository under check (or to GOROOT/src).
func shortPath(file string) string {
	if rest, ok := strings.CutPrefix(file, core.RepoDir()+"/"); ok {
		return rest
	}
	if i := strings.LastIndex(file, "/src/"); i >= 0 {
		return file[i+len("/src/"):]
	}
	return file
}

func clip(s string) string {
	if len(s) > 120 {
		return s[:120] + "…"
	}
	return s
}

func firstLineDiff(file, got, want string) *diffInfo {
	gl, wl := strings.Split(got, "\n"), strings.Split(want, "\n")
	for i := 0; i < len(gl) || i < len(wl); i++ {
		var a, b string
		if i < len(gl) {
			a = gl[i]
		} else {
			a = "<end of file>"
		}
		if i < len(wl) {
			b = wl[i]
		} else {
			b = "<end of file>"
		}
		if a != b {
			return &diffInfo{File: file, Line: i + 1, Got: a, Want: b}
		}
	}
	return &diffInfo{File: file, Note: "contents differ"}
}

// compare returns the first difference between two Write streams (nil = byte-identical).
func compare(got, want *output) *diffInfo {
	if got.Err != want.Err {
		return &diffInfo{File: "(result)", Line: 0, Note: fmt.Sprintf("error differs: got %q, want %q", clip(got.Err), clip(want.Err))}
	}
	for i := 0; i < len(got.Names) || i < len(want.Names); i++ {
		if i >= len(got.Names) {
			return &diffInfo{File: want.Names[i], Note: "file not written"}
		}
		if i >= len(want.Names) {
			return &diffInfo{File: got.Names[i], Note: "extra file written"}
		}
		if got.Names[i] != want.Names[i] {
			return &diffInfo{File: got.Names[i], Note: fmt.Sprintf("write #%d goes to %q, expected %q", i, got.Names[i], want.Names[i])}
		}
		if got.Contents[i] != want.Contents[i] {
			return firstLineDiff(got.Names[i], got.Contents[i], want.Contents[i])
		}
	}
	return nil
}

// compareCommitted compares a generation of a shipped grammar with the files in the repo
// (file by file: <dir>/<filename> must hold exactly the content passed to Writer.Write).
func compareCommitted(g *gram, o *output) []*diffInfo {
	var out []*diffInfo
	if o.Err != "" {
		return []*diffInfo{{File: "(result)", Note: "generation failed: " + clip(o.Err)}}
	}
	for i, n := range o.Names {
		data, err := os.ReadFile(filepath.Join(g.Dir, n))
		if err != nil {
			out = append(out, &diffInfo{File: n, Note: "committed file missing: " + err.Error()})
			continue
		}
		if string(data) != o.Contents[i] {
			out = append(out, firstLineDiff(n, o.Contents[i], string(data)))
		}
	}
	return out
}

// ---------------------------------------------------------------- reference store

func refPath(refdir string, gi int) string {
	return filepath.Join(refdir, fmt.Sprintf("ref-%02d.json", gi))
}

func saveRef(refdir string, gi int, o *output) error {
	data, err := json.Marshal(o)
	if err != nil {
		return err
	}
	tmp := refPath(refdir, gi) + ".tmp"
	if err := os.WriteFile(tmp, data, 0o644); err != nil {
		return err
	}
	return os.Rename(tmp, refPath(refdir, gi))
}

type refCache struct {
	dir string
	m   []*output
}

func (r *refCache) get(gi int) (*output, error) {
	for len(r.m) <= gi {
		r.m = append(r.m, nil)
	}
	if r.m[gi] != nil {
		return r.m[gi], nil
	}
	data, err := os.ReadFile(refPath(r.dir, gi))
	if err != nil {
		return nil, err
	}
	o := &output{}
	if err := json.Unmarshal(data, o); err != nil {
		return nil, err
	}
	r.m[gi] = o
	return o, nil
}

// ---------------------------------------------------------------- iteration shapes and offsets

type iterShape struct {
	Used   int  // entries at Init time
	Large  bool // table-backed (otherwise a single group of 8 slots)
	DirLen int
	Cap    int // capacity of the first table
}

func decodeInfo(in uint32) iterShape {
	s := iterShape{Used: int(in & 0xfffff)}
	if d := (in >> 20) & 0x1f; d != 0 {
		s.Large = true
		s.DirLen = 1 << (d - 1)
		s.Cap = 1 << ((in >> 25) & 0x1f)
	}
	return s
}

type offset struct{ E, D uint64 }

const maxOffsetsPerIter = 4096

// offsets lists the non-zero start offsets explored for one iteration. full=false is the quick
// selection for table-backed maps. exact reports whether the list is every order the real runtime
// can produce for this map (given its slot layout).
func offsets(s iterShape, full bool) (list []offset, exact bool) {
	// Note: a map with a single entry is explored too. It has one order as long as the loop body leaves
	// the map alone, but a body that inserts into the map it ranges over makes even a singleton
	// order-dependent (whether the new entry is visited depends on the start offset).
	if !s.Large {
		for v := uint64(1); v < 8; v++ {
			list = append(list, offset{v, 0})
		}
		return list, true
	}
	capacity := uint64(s.Cap)
	if s.DirLen > 1 {
		capacity = 1024 // maxTableCapacity: tables of a split map may have different sizes
	}
	if !full {
		seen := map[uint64]bool{0: true}
		add := func(v uint64) {
			if !seen[v%capacity] {
				seen[v%capacity] = true
				list = append(list, offset{v % capacity, 0})
			}
		}
		for v := uint64(1); v < 8; v++ {
			add(v)
		}
		for i := uint64(1); i < 8; i++ {
			add(capacity * i / 8)
		}
		if s.DirLen > 1 {
			list = append(list, offset{0, 1})
		}
		return list, false
	}
	exact = true
	for d := uint64(0); d < uint64(s.DirLen); d++ {
		for e := uint64(0); e < capacity; e++ {
			if e == 0 && d == 0 {
				continue
			}
			if len(list) >= maxOffsetsPerIter {
				return list, false
			}
			list = append(list, offset{e, d})
		}
	}
	return list, exact
}

// ---------------------------------------------------------------- worker side

type rec struct {
	Phase string `json:"phase"`
	G     int    `json:"g"`
	// ref / measure
	Digest    string      `json:"digest,omitempty"`
	Err       string      `json:"err,omitempty"`
	Files     int         `json:"files,omitempty"`
	N         int64       `json:"n,omitempty"`      // map iterations of one warm generation
	NFirst    int64       `json:"nfirst,omitempty"` // ... of the first generation of the process
	Small     int64       `json:"small,omitempty"`
	Large     int64       `json:"large,omitempty"`
	Nontriv   int64       `json:"nontriv,omitempty"` // iterations over maps with >= 2 entries
	MaxUsed   int         `json:"maxused,omitempty"`
	Millis    int64       `json:"ms,omitempty"`
	Committed []*diffInfo `json:"committed,omitempty"`
	Compared  int         `json:"compared,omitempty"`
	// comparisons
	Diff   *diffInfo `json:"diff,omitempty"`
	Gens   int64     `json:"gens,omitempty"`
	Hist   []int     `json:"hist,omitempty"`
	Prefix []int     `json:"prefix,omitempty"`
	Pos    int       `json:"pos,omitempty"`
	Count  int64     `json:"count,omitempty"`
	Gmp    int       `json:"gmp,omitempty"`
	Mode   string    `json:"mode,omitempty"`
	// order exploration
	K        []int64  `json:"k,omitempty"`
	Off      []offset `json:"off,omitempty"`
	Runs     int64    `json:"runs,omitempty"`
	Choices  int64    `json:"choices,omitempty"`
	Trivial  int64    `json:"trivial,omitempty"`
	ExactK   int64    `json:"exactk,omitempty"`
	SmallK   int64    `json:"smallk,omitempty"`
	LargeK   int64    `json:"largek,omitempty"`
	Unstable string   `json:"unstable,omitempty"`
	Skipped  int64    `json:"skipped,omitempty"`
	Note     string   `json:"note,omitempty"`
	Site     string   `json:"site,omitempty"`    // function that started the deviating map iteration
	SitePos  string   `json:"sitepos,omitempty"` // its file:line
}

func controlled(f func()) (n, small, large int64) {
	seamPassthrough(false)
	seamReset()
	f()
	return seamCount()
}

func worker(w *core.Worker) {
	if len(w.Args) == 0 {
		return
	}
	gs := grammars()
	switch w.Args[0] {
	case "ref":
		workerRef(w, gs)
	case "fresh":
		workerFresh(w, gs)
	case "hist":
		workerHist(w, gs)
	case "seq":
		workerSeq(w, gs)
	case "order":
		workerOrder(w, gs)
	case "pairs":
		workerPairs(w, gs)
	case "one":
		workerOne(w, gs)
	case "reps":
		workerReps(w, gs)
	}
}

// ref: case gi (one per process): the FIRST generation of a fresh process is the reference stream of
// grammar gi (stored in refdir, compared with the committed files); a second generation gives the
// warm iteration count n and must already equal the first.
// args: ref <refdir> <one char per grammar: 1 = also measure, 0 = reference only, x = skip>
func workerRef(w *core.Worker, gs []*gram) {
	refdir, measure := w.Args[1], w.Args[2]
	for gi, g := range gs {
		if !w.Mine(gi) || (gi < len(measure) && measure[gi] == 'x') {
			continue
		}
		w.Case(gi, "ref "+g.Name)
		r := rec{Phase: "ref", G: gi}
		t0 := time.Now()
		var o *output
		r.NFirst, _, _ = controlled(func() { o = generate(g) })
		r.Millis = time.Since(t0).Milliseconds()
		r.Digest, r.Err, r.Files, r.Gens = o.digest(), o.Err, len(o.Names), 1
		if err := saveRef(refdir, gi, o); err != nil {
			r.Note = "cannot save reference: " + err.Error()
		}
		if g.Shipped {
			r.Committed = compareCommitted(g, o)
			r.Compared = len(o.Names)
		}
		if gi < len(measure) && measure[gi] == '1' {
			var o2 *output
			r.N, r.Small, r.Large = controlled(func() { o2 = generate(g) })
			r.Gens++
			for k := int64(0); k < r.N && k < seamTraceLen; k++ {
				s := decodeInfo(seamInfo(k))
				if s.Used > 1 {
					r.Nontriv++
				}
				if s.Used > r.MaxUsed {
					r.MaxUsed = s.Used
				}
			}
			r.Diff = compare(o2, o)
		}
		w.Emit(r)
	}
}

// fresh: case gi (one per process): one generation, compared with the reference.
// args: fresh <refdir> <mode ctl|rand> <gmp> <gi>
func workerFresh(w *core.Worker, gs []*gram) {
	refs := &refCache{dir: w.Args[1]}
	mode := w.Args[2]
	gmp, _ := strconv.Atoi(w.Args[3])
	only, _ := strconv.Atoi(w.Args[4])
	for gi, g := range gs {
		if gi != only || !w.Mine(gi) {
			continue
		}
		w.Case(gi, "fresh "+g.Name)
		seamReset()
		seamPassthrough(mode == "rand")
		o := generate(g)
		seamPassthrough(false)
		r := rec{Phase: "fresh", G: gi, Gens: 1, Gmp: gmp, Mode: mode}
		ref, err := refs.get(gi)
		if err != nil {
			r.Note = "no reference: " + err.Error()
		} else {
			r.Diff = compare(o, ref)
		}
		if g.Shipped && mode != "rand" { // a sampled order must not produce keys of the deterministic oracle
			r.Committed = compareCommitted(g, o)
			r.Compared = len(o.Names)
		}
		w.Emit(r)
	}
}

// historyList returns two sweeps (see below) followed by every sequence of length 1..maxLen over the grammars: shorter first, then
// lexicographic in grammar order (simplest first); sequences containing a Heavy grammar (js) are
// limited to length 2 and moved to the end of the list (so that idx%N spreads them evenly over the
// workers and a deadline cuts them first).
func historyList(gs []*gram, maxLen int) [][]int {
	var light, heavy [][]int
	h := make([]int, 0, maxLen)
	var recur func(left int)
	recur = func(left int) {
		if left == 0 {
			isHeavy := false
			for _, gi := range h {
				isHeavy = isHeavy || gs[gi].Heavy
			}
			if isHeavy && len(h) > 2 {
				return
			}
			if isHeavy {
				heavy = append(heavy, append([]int{}, h...))
			} else {
				light = append(light, append([]int{}, h...))
			}
			return
		}
		for gi := range gs {
			h = append(h, gi)
			recur(left - 1)
			h = h[:len(h)-1]
		}
	}
	for l := 1; l <= maxLen; l++ {
		recur(l)
	}
	// Two sweeps come first: every light grammar once, ascending and descending, each sweep in one
	// process. They are outside the length bound and add nothing to the enumeration as such, but for
	// every ordered pair (a, b) one of them generates a before b in the same process, so that a leak
	// that persists in the process (a package-level cache, a shared slice) shows up after ~2N
	// generations even when a loaded machine cuts the enumeration short.
	var up, down []int
	for gi := range gs {
		if !gs[gi].Heavy {
			up = append(up, gi)
			down = append([]int{gi}, down...)
		}
	}
	out := [][]int{up, down}
	out = append(out, light...)
	return append(out, heavy...)
}

func histNames(gs []*gram, h []int) []string {
	out := make([]string, len(h))
	for i, gi := range h {
		out[i] = gs[gi].Name
	}
	return out
}

// hist: args: hist <refdir> <maxLen> <deadline unix> <gmp label>
// Process state deliberately accumulates over the histories handled by one worker (every mismatch
// record carries the complete list of generations run so far in the process).
func workerHist(w *core.Worker, gs []*gram) {
	refs := &refCache{dir: w.Args[1]}
	maxLen, _ := strconv.Atoi(w.Args[2])
	deadline, _ := strconv.ParseInt(w.Args[3], 10, 64)
	gmp, _ := strconv.Atoi(w.Args[4])
	if gmp == 0 {
		gmp = []int{1, 2, 16}[w.Shard%3]
		runtime.GOMAXPROCS(gmp)
	}
	var prefix []int
	var done, gens, skipped, nontriv int64
	for idx, h := range historyList(gs, maxLen) {
		if !w.Mine(idx) {
			continue
		}
		if deadline > 0 && time.Now().Unix() > deadline {
			skipped++
			continue
		}
		w.Case(idx, "history "+strings.Join(histNames(gs, h), ","))
		for pos, gi := range h {
			var o *output
			controlled(func() { o = generate(gs[gi]) })
			prefix = append(prefix, gi)
			gens++
			ref, err := refs.get(gi)
			if err != nil {
				w.Emit(rec{Phase: "hist", G: gi, Note: "no reference: " + err.Error()})
				continue
			}
			if d := compare(o, ref); d != nil {
				w.Emit(rec{Phase: "hist", G: gi, Diff: d, Hist: append([]int{}, h...), Pos: pos, Prefix: append([]int{}, prefix...), Gmp: gmp})
			}
		}
		done++
		if len(h) >= 2 {
			nontriv++
		}
	}
	w.Emit(rec{Phase: "hist-done", Count: done, Gens: gens, Skipped: skipped, Gmp: gmp, Nontriv: nontriv})
}

func parseInts(s string) []int {
	var out []int
	for _, p := range strings.Split(s, ",") {
		if p == "" {
			continue
		}
		v, _ := strconv.Atoi(p)
		out = append(out, v)
	}
	return out
}

func joinInts(v []int) string {
	s := make([]string, len(v))
	for i, x := range v {
		s[i] = strconv.Itoa(x)
	}
	return strings.Join(s, ",")
}

// seq: args: seq <refdir> <gi,gi,...>: one fresh process runs exactly this sequence.
func workerSeq(w *core.Worker, gs []*gram) {
	if !w.Mine(0) {
		return
	}
	refs := &refCache{dir: w.Args[1]}
	seq := parseInts(w.Args[2])
	w.Case(0, "seq "+w.Args[2])
	for pos, gi := range seq {
		if gi < 0 || gi >= len(gs) {
			continue
		}
		var o *output
		controlled(func() { o = generate(gs[gi]) })
		ref, err := refs.get(gi)
		if err != nil {
			w.Emit(rec{Phase: "seq", G: gi, Note: "no reference: " + err.Error()})
			continue
		}
		if d := compare(o, ref); d != nil {
			w.Emit(rec{Phase: "seq", G: gi, Diff: d, Pos: pos})
		}
	}
	w.Emit(rec{Phase: "seq-done", Gens: int64(len(seq))})
}

// baseline warms grammar gi up in this process, runs "run 0" (all offsets 0) and returns its
// output and the shape of every map iteration it performed.
type baseline struct {
	out    *output
	digest string
	n      int64
	shapes []iterShape
}

func makeBaseline(g *gram) *baseline {
	controlled(func() { generate(g) }) // warm-up: lazily initialised state of the process
	b := &baseline{}
	b.n, _, _ = controlled(func() { b.out = generate(g) })
	b.digest = b.out.digest()
	for k := int64(0); k < b.n && k < seamTraceLen; k++ {
		b.shapes = append(b.shapes, decodeInfo(seamInfo(k)))
	}
	return b
}

type orderPlan struct {
	gis   []int   // grammars explored, in order
	ns    []int64 // expected warm iteration count per explored grammar
	start []int   // first case index per explored grammar
	total int
}

func parsePlan(gisArg, nsArg string) *orderPlan {
	p := &orderPlan{gis: parseInts(gisArg)}
	for _, v := range parseInts(nsArg) {
		p.ns = append(p.ns, int64(v))
	}
	for i := range p.gis {
		p.start = append(p.start, p.total)
		p.total += int(p.ns[i])
	}
	return p
}

// order: case (grammar, k): for every non-zero start offset of the k-th map iteration, one
// generation in which only that iteration deviates.
// args: order <refdir> <gis> <ns> <full 0/1> <deadline unix>
func workerOrder(w *core.Worker, gs []*gram) {
	refs := &refCache{dir: w.Args[1]}
	plan := parsePlan(w.Args[2], w.Args[3])
	full := w.Args[4] == "1"
	deadline, _ := strconv.ParseInt(w.Args[5], 10, 64)
	var procPrefix []int // grammars generated so far in this process
	for pi, gi := range plan.gis {
		g := gs[gi]
		var b *baseline
		sum := rec{Phase: "order-sum", G: gi}
		for k := int64(0); k < plan.ns[pi]; k++ {
			idx := plan.start[pi] + int(k)
			if !w.Mine(idx) {
				continue
			}
			if deadline > 0 && time.Now().Unix() > deadline {
				sum.Skipped++
				continue
			}
			w.Case(idx, fmt.Sprintf("order %s k=%d", g.Name, k))
			if b == nil {
				b = makeBaseline(g)
				sum.Gens += 2
				if b.n != plan.ns[pi] {
					sum.Unstable = fmt.Sprintf("%s: %d map iterations in this process, %d in the measuring process", g.Name, b.n, plan.ns[pi])
				}
				procPrefix = append(procPrefix, gi, gi)
				if ref, err := refs.get(gi); err == nil {
					if d := compare(b.out, ref); d != nil {
						// a history effect: this process generated procPrefix (each explored grammar, twice or more) before
						w.Emit(rec{Phase: "order", G: gi, Diff: d, Hist: append([]int{}, procPrefix...), Pos: len(procPrefix) - 1, Prefix: append([]int{}, procPrefix...),
							Note: "run 0 (all offsets 0, warm process) differs from the fresh-process reference"})
					}
				}
			}
			if k >= int64(len(b.shapes)) {
				sum.Skipped++
				continue
			}
			shape := b.shapes[k]
			offs, exact := offsets(shape, full)
			if shape.Used <= 1 {
				sum.Trivial++
			}
			if len(offs) == 0 {
				continue
			}
			if exact {
				sum.ExactK++
			}
			if shape.Large {
				sum.LargeK++
			} else {
				sum.SmallK++
			}
			for _, off := range offs {
				var o *output
				seamPassthrough(false)
				seamReset()
				seamSet(0, k, off.E, off.D)
				o = generate(g)
				seamReset()
				fn, pos := seamSite()
				sum.Runs++
				sum.Choices++
				if shape.Used > 1 {
					sum.Nontriv++
				}
				if sum.Site == "" && fn != "" {
					sum.K, sum.Off, sum.Site, sum.SitePos, sum.Note = []int64{k}, []offset{off}, fn, pos, fmt.Sprintf("%d entries", shape.Used)
				}
				if o.digest() != b.digest {
					w.Emit(rec{Phase: "order", G: gi, K: []int64{k}, Off: []offset{off}, Diff: compare(o, b.out), Site: fn, SitePos: pos,
						Note: fmt.Sprintf("a map with %d entries (table-backed=%v)", shape.Used, shape.Large)})
					break // one counterexample per iteration is enough
				}
			}
		}
		if sum.Runs > 0 || sum.Trivial > 0 || sum.Skipped > 0 || sum.Unstable != "" {
			w.Emit(sum)
		}
	}
}

// pairs: case (grammar, k1): for every k2 > k1 and every pair of (quick-selection) offsets, one
// generation in which exactly these two iterations deviate. Combinations in which one of the two
// deviations alone already changes the output are skipped (they belong to the single-deviation
// finding), so a record of this phase is a dependence that needs BOTH deviations.
// args: pairs <refdir> <gis> <ns> <deadline unix>
func workerPairs(w *core.Worker, gs []*gram) {
	plan := parsePlan(w.Args[2], w.Args[3])
	deadline, _ := strconv.ParseInt(w.Args[4], 10, 64)
	for pi, gi := range plan.gis {
		g := gs[gi]
		var b *baseline
		var offs [][]offset
		var bad [][]bool // bad[k][i]: deviation offs[k][i] alone changes the output
		sum := rec{Phase: "pairs-sum", G: gi}
		for k1 := int64(0); k1 < plan.ns[pi]; k1++ {
			idx := plan.start[pi] + int(k1)
			if !w.Mine(idx) {
				continue
			}
			if deadline > 0 && time.Now().Unix() > deadline {
				sum.Skipped++
				continue
			}
			w.Case(idx, fmt.Sprintf("pairs %s k1=%d", g.Name, k1))
			if b == nil {
				b = makeBaseline(g)
				sum.Gens += 2
				if b.n != plan.ns[pi] {
					sum.Unstable = fmt.Sprintf("%s: %d map iterations in this process, %d in the measuring process", g.Name, b.n, plan.ns[pi])
				}
				for k := range b.shapes {
					o, _ := offsets(b.shapes[k], false)
					if b.shapes[k].Used <= 1 {
						o = nil // pairs: singletons are covered by the single-deviation phase only
					}
					offs = append(offs, o)
					flags := make([]bool, len(o))
					for i, off := range o {
						seamPassthrough(false)
						seamReset()
						seamSet(0, int64(k), off.E, off.D)
						out := generate(g)
						seamReset()
						sum.Gens++
						flags[i] = out.digest() != b.digest
					}
					bad = append(bad, flags)
				}
			}
			if k1 >= int64(len(b.shapes)) {
				continue
			}
			found := false
			for k2 := k1 + 1; k2 < int64(len(b.shapes)) && !found; k2++ {
				for i1, o1 := range offs[k1] {
					if bad[k1][i1] {
						continue
					}
					for i2, o2 := range offs[k2] {
						if bad[k2][i2] {
							continue
						}
						seamPassthrough(false)
						seamReset()
						seamSet(0, k1, o1.E, o1.D)
						seamSet(1, k2, o2.E, o2.D)
						o := generate(g)
						seamReset()
						fn, pos := seamSite()
						sum.Runs++
						sum.Choices++
						if o.digest() != b.digest {
							found = true
							w.Emit(rec{Phase: "pairs", G: gi, K: []int64{k1, k2}, Off: []offset{o1, o2}, Diff: compare(o, b.out), Site: fn, SitePos: pos,
								Note: "two maps (neither deviation alone changes the output)"})
							break
						}
					}
					if found {
						break
					}
				}
			}
		}
		if sum.Runs > 0 || sum.Skipped > 0 || sum.Unstable != "" {
			w.Emit(sum)
		}
	}
}

// one: args: one <gi> <k list> <e list> <d list>: replay of one recorded deviation.
func workerOne(w *core.Worker, gs []*gram) {
	if !w.Mine(0) {
		return
	}
	gi, _ := strconv.Atoi(w.Args[1])
	ks, es, ds := parseInts(w.Args[2]), parseInts(w.Args[3]), parseInts(w.Args[4])
	w.Case(0, "one "+strings.Join(w.Args[1:], " "))
	b := makeBaseline(gs[gi])
	seamPassthrough(false)
	seamReset()
	for i := range ks {
		if i < 2 && i < len(es) && i < len(ds) {
			seamSet(i, int64(ks[i]), uint64(es[i]), uint64(ds[i]))
		}
	}
	o := generate(gs[gi])
	seamReset()
	fn, pos := seamSite()
	w.Emit(rec{Phase: "one", G: gi, Diff: compare(o, b.out), N: b.n, Site: fn, SitePos: pos})
}

// reps (fallback without the overlay): case (grammar, rep): plain repetitions under the real,
// randomized runtime. args: reps <refdir> <reps> <deadline unix>
func workerReps(w *core.Worker, gs []*gram) {
	refs := &refCache{dir: w.Args[1]}
	reps, _ := strconv.Atoi(w.Args[2])
	deadline, _ := strconv.ParseInt(w.Args[3], 10, 64)
	var runs, skipped int64
	for gi, g := range gs {
		for r := 0; r < reps; r++ {
			idx := gi*reps + r
			if !w.Mine(idx) {
				continue
			}
			if deadline > 0 && time.Now().Unix() > deadline {
				skipped++
				continue
			}
			w.Case(idx, fmt.Sprintf("rep %s #%d", g.Name, r))
			o := generate(g)
			runs++
			ref, err := refs.get(gi)
			if err != nil {
				continue
			}
			if d := compare(o, ref); d != nil {
				w.Emit(rec{Phase: "reps", G: gi, Diff: d})
			}
		}
	}
	w.Emit(rec{Phase: "reps-done", Runs: runs, Skipped: skipped})
}

// ---------------------------------------------------------------- parent side

// selfTest checks inside this process that the seam really owns the iteration order.
func selfTest() error {
	if !overlayBuilt {
		return fmt.Errorf("binary built without the overlay")
	}
	keys := []string{"k0", "k1", "k2", "k3", "k4"}
	m := map[string]int{}
	for i, k := range keys {
		m[k] = i
	}
	iter := func() string {
		var sb strings.Builder
		for k := range m {
			sb.WriteString(k)
		}
		return sb.String()
	}
	seamPassthrough(false)
	seamReset()
	for i := 0; i < 64; i++ {
		if got := iter(); got != "k0k1k2k3k4" {
			return fmt.Errorf("offset 0: iteration order %q, want insertion order", got)
		}
	}
	if n, _, _ := seamCount(); n != 64 {
		return fmt.Errorf("iteration counter = %d after 64 iterations", n)
	}
	seen := map[string]bool{}
	for v := uint64(0); v < 8; v++ {
		seamReset()
		seamSet(0, 1, v, 0)
		first, second, third := iter(), iter(), iter()
		if first != "k0k1k2k3k4" || third != "k0k1k2k3k4" {
			return fmt.Errorf("a deviation of iteration 1 leaked into iteration 0 or 2")
		}
		want := strings.Join(append(append([]string{}, keys[min(int(v), 5):]...), keys[:min(int(v), 5)]...), "")
		if second != want {
			return fmt.Errorf("offset %d: order %q, want rotation %q", v, second, want)
		}
		seen[second] = true
	}
	seamReset()
	if len(seen) != 5 {
		return fmt.Errorf("8 offsets gave %d distinct orders of a 5-entry map, want 5", len(seen))
	}
	// a table-backed map: same keys inserted in a fresh map must iterate identically (pinned seed)
	mk := func() string {
		big := map[string]int{}
		for i := 0; i < 40; i++ {
			big[fmt.Sprintf("key%d", i*7)] = i
		}
		var sb strings.Builder
		for k := range big {
			sb.WriteString(k + ",")
		}
		return sb.String()
	}
	if a, b := mk(), mk(); a != b {
		return fmt.Errorf("two identical 40-entry maps iterate differently: hash seed is not pinned")
	}
	return nil
}

type agg struct {
	mu           sync.Mutex
	c            *core.Ctx
	gs           []*gram
	orderFlagged map[int]bool // grammars for which the enumeration found a map-order dependence
	hp           *histPhase   // collects history effects of every phase
}

func (a *agg) name(gi int) string {
	if gi < 0 || gi >= len(a.gs) {
		return fmt.Sprintf("g%d", gi)
	}
	return a.gs[gi].Name
}

type replayCase struct {
	Kind    string   `json:"kind"` // committed | fresh | seq | order
	Grammar string   `json:"grammar,omitempty"`
	Seq     []string `json:"seq,omitempty"`
	Gmp     int      `json:"gmp,omitempty"`
	Mode    string   `json:"mode,omitempty"`
	K       []int64  `json:"k,omitempty"`
	E       []uint64 `json:"e,omitempty"`
	D       []uint64 `json:"d,omitempty"`
	File    string   `json:"file,omitempty"`
}

const longSilence = 30 * time.Minute // a loaded machine must never look like a hang (no wall-clock oracle)

func run(c *core.Ctx) {
	gs := grammars()
	a := &agg{c: c, gs: gs}
	c.Rule("case = one generation (compiler.Compile+gen.Generate, in-memory Writer) of one of " + strconv.Itoa(len(gs)) +
		" grammars under (a) a history: every sequence of <=2 (thorough <=3; with js <=2) generations in one process, " +
		"(b) a fresh process under GOMAXPROCS 1/2/16, (c) one chosen map-iteration-order deviation (grammar,k,offset): only the k-th map " +
		"iteration of the generation starts at a non-zero offset; oracle: Write stream byte-identical to the fresh-process reference / run 0 " +
		"(shipped grammars: and to the committed files); non-trivial = history of length >=2, or deviation of an iteration over a map with >=2 " +
		"entries; distinct by (history, GOMAXPROCS) resp. (grammar,k,entry offset,dir offset)")
	c.Assume("the generator pipeline starts no goroutines (checked by reading gen/compiler/lalr/syntax), so GOMAXPROCS only affects the runtime")
	c.Assume("the Go runtime iterates a map in slot order starting at Iter.entryOffset/dirOffset (go1.26.8 internal/runtime/maps), which is what the overlay controls")
	for _, g := range gs {
		if g.Err != "" {
			c.Capped("cannot read grammar " + g.Name + ": " + g.Err)
		}
	}

	ctlErr := selfTest()
	ctl := ctlErr == nil
	c.Set("map_order_control", ctl)
	if !ctl {
		msg := "MAP-ORDER OVERLAY NOT ACTIVE (" + ctlErr.Error() + "): falling back to 32 plain repetitions per grammar (sampling)"
		fmt.Fprintln(os.Stderr, "C18: ******** "+msg+" ********")
		fmt.Println("C18: ******** " + msg + " ********")
		c.Capped(msg)
		c.Set("level_note", "map iteration order NOT controlled in this run: plain repetitions only (sampling)")
	} else {
		c.Set("level_note", "map iteration order is owned through a -overlay of internal/runtime/maps (Iter.Init offsets from a seam, hash seed and "+
			"runtime hash keys pinned). Exact for single-group maps (<=8 entries, never grown): all 8 start offsets = all orders of the real runtime. "+
			"Table-backed maps: every rotation of the one slot layout given by the pinned seed (thorough; quick: 14 spread offsets); layouts of other "+
			"seeds are not enumerated. Deviation bound: 1 deviating iteration per generation (thorough: 2 for the two smallest feature grammars).")
	}

	refdir, err := os.MkdirTemp("", "c18-ref-")
	if err != nil {
		c.Capped("cannot create temp dir: " + err.Error())
		return
	}
	defer os.RemoveAll(refdir)

	// ---- phase 0: references (one fresh process per grammar) + warm iteration counts
	measure := make([]byte, len(gs))
	for gi, g := range gs {
		measure[gi] = '0'
		if ctl && (!g.Big || !c.Quick()) {
			measure[gi] = '1'
		}
	}
	refRecs := make([]*rec, len(gs))
	c.RunShards(core.ShardOpts{N: len(gs), Silence: longSilence, Args: []string{"ref", refdir, string(measure)},
		OnRecord: func(_ int, raw json.RawMessage) {
			var r rec
			if json.Unmarshal(raw, &r) != nil || r.Phase != "ref" {
				return
			}
			refRecs[r.G] = &r
		},
		OnDeath: func(idx int, desc, how, tail string) {
			c.Violate("death:ref:"+a.name(idx), fmt.Sprintf("generating %s in a fresh process kills the process (%s): %s", a.name(idx), how, lastLines(tail)), replayCase{Kind: "fresh", Grammar: a.name(idx), Gmp: 16, Mode: "ctl"})
		}})
	phaseSecs := map[string]float64{}
	phaseStart := c.Start
	endPhase := func(name string) {
		phaseSecs[name] += float64(int(time.Since(phaseStart).Seconds()*10)) / 10
		phaseStart = time.Now()
		c.Set("phase_seconds", phaseSecs)
	}
	endPhase("references")
	perGrammar := map[string]any{}
	var names []string
	for gi, g := range gs {
		names = append(names, g.Name)
		r := refRecs[gi]
		if r == nil {
			c.Capped("no reference for " + g.Name)
			continue
		}
		c.Eval(r.Gens)
		c.Transitions(r.Gens)
		info := map[string]any{"files": r.Files, "first_generation_ms": r.Millis, "map_iterations_first_generation": r.NFirst}
		if r.Err != "" {
			// A grammar that does not generate is a set-up problem of the check, not a determinism
			// violation (its error text is still compared like an output).
			c.Capped(fmt.Sprintf("grammar %s does not generate: %s", g.Name, clip(r.Err)))
			info["error"] = clip(r.Err)
		}
		if r.Note != "" {
			c.Capped(g.Name + ": " + r.Note)
		}
		if measure[gi] == '1' {
			info["n_map_iterations"] = r.N
			info["n_over_maps_with_2plus_entries"] = r.Nontriv
			info["n_single_group_maps"] = r.Small
			info["n_table_backed_maps"] = r.Large
			info["largest_iterated_map_entries"] = r.MaxUsed
			c.Traces(1)
			c.Nontrivial(1)
			if r.Diff != nil {
				c.Violate("history:"+g.Name+":"+r.Diff.File, fmt.Sprintf("second generation of %s in the same process differs from the first: %s", g.Name, r.Diff), replayCase{Kind: "seq", Seq: []string{g.Name, g.Name}})
			}
		}
		if g.Shipped {
			a.committed(g, r)
		}
		perGrammar[g.Name] = info
	}
	c.Set("grammars", perGrammar)
	c.Set("grammar_order", names)

	// Soft deadline handed to the workers: they stop enumerating, the parent reports exhaustive:false.
	deadline := c.Deadline.Add(-15 * time.Second)
	if !c.Quick() {
		if d := c.Start.Add(20 * time.Minute); d.Before(deadline) {
			deadline = d
		}
	}
	dl := strconv.FormatInt(deadline.Unix(), 10)
	// Quick: the map-order phase may use at most half of the budget, so that a loaded machine cannot
	// starve the histories (both parts stop at their deadline and report what they did not reach).
	dlOrder := dl
	if c.Quick() {
		dlOrder = strconv.FormatInt(c.Start.Add(c.Deadline.Sub(c.Start)/2).Unix(), 10)
	}

	var small, big []int
	for gi, g := range gs {
		if measure[gi] != '1' || refRecs[gi] == nil || refRecs[gi].N == 0 {
			continue
		}
		if g.Big {
			big = append(big, gi)
		} else {
			small = append(small, gi)
		}
	}
	covered := map[string]any{}
	for _, g := range gs {
		covered[g.Name] = "map order not explored in this tier (histories/fresh processes only)"
	}

	a.hp = &histPhase{a: a, refdir: refdir, byKey: map[string][]rec{}}

	// ---- phase 1: map iteration order of the feature grammars + json/simple/test (the real risk first)
	if ctl {
		a.orderPhase(refdir, refRecs, small, dlOrder, covered)
	} else {
		a.repsPhase(refdir, dlOrder)
	}
	endPhase("map_order_small_grammars")

	// ---- phase 2: fresh processes under GOMAXPROCS 1/2/16 (few, long: run beside the histories)
	var wg sync.WaitGroup
	wg.Add(1)
	go func() { defer wg.Done(); a.freshPhase(refdir, ctl) }()

	// ---- phase 3: histories
	maxLen := 2
	if !c.Quick() {
		maxLen = 3
	}
	hl := historyList(gs, maxLen)
	for _, i := range []int{len(gs) + 3, len(hl) - 1} {
		if i >= 0 && i < len(hl) {
			c.Sample(map[string]any{"kind": "history", "generations_in_one_process": histNames(gs, hl[i])})
		}
	}
	c.Set("histories_per_setting", len(hl))
	c.Set("history_max_len", maxLen)
	hp := a.hp
	// One enumeration in which worker s runs under GOMAXPROCS {1,2,16}[s%3] (quick: the only one).
	hp.run(maxLen, dl, 0)
	wg.Wait()
	endPhase("histories_and_fresh_processes")

	// ---- phase 4 (thorough): tm, pairs of deviations, js as far as the budget allows, and
	// last (GOMAXPROCS is a vacuous dimension for a pipeline without goroutines) the complete history
	// enumeration once more under each GOMAXPROCS value.
	if !c.Quick() {
		if ctl {
			// tm before the pairs (a shipped grammar matters more), js after them (it is the most expensive).
			for _, gi := range big {
				if !gs[gi].Heavy {
					a.orderPhase(refdir, refRecs, []int{gi}, dl, covered)
					endPhase("map_order_" + gs[gi].Name)
				}
			}
			a.pairsPhase(refdir, refRecs, small, dl)
			endPhase("pairs")
			for _, gi := range big {
				if gs[gi].Heavy {
					a.orderPhase(refdir, refRecs, []int{gi}, dl, covered)
					endPhase("map_order_" + gs[gi].Name)
				}
			}
		}
		for _, gmp := range []int{1, 2, 16} {
			hp.run(maxLen, dl, gmp)
		}
		endPhase("histories_per_gomaxprocs")
	}
	hp.report()
	if ctl {
		c.Set("map_order_exploration", covered)
		if c.Quick() {
			c.Set("map_order_offsets", "single-group maps: all 7 non-zero offsets (exact); table-backed maps: offsets 1..7 and capacity*i/8 (i=1..7)")
		} else {
			c.Set("map_order_offsets", "single-group maps: all 7 non-zero offsets (exact); table-backed maps: every rotation 1..capacity-1 (x every directory offset)")
		}
	}
}

// committed records the comparison of one generation of a shipped grammar with the repo files.
func (a *agg) committed(g *gram, r *rec) {
	c := a.c
	c.Traces(int64(r.Compared))
	c.Add("committed_file_comparisons", int64(r.Compared))
	if len(r.Committed) == 0 {
		c.Outcome("committed:identical", 1)
	}
	for _, d := range r.Committed {
		c.Outcome("committed:differs", 1)
		c.Violate("committed:"+g.Name+":"+d.File, fmt.Sprintf("regenerating %s does not reproduce the committed %s: %s (got = generated, want = committed)", g.Path, filepath.Join("parsers", g.Name, d.File), d),
			replayCase{Kind: "committed", Grammar: g.Name, File: d.File})
	}
}

func lastLines(s string) string {
	s = strings.TrimSpace(s)
	lines := strings.Split(s, "\n")
	if len(lines) > 3 {
		lines = lines[len(lines)-3:]
	}
	return strings.Join(lines, " | ")
}

// freshPhase: one process per (GOMAXPROCS, map-order mode, grammar), at most 16 at a time.
// mode ctl = every iteration at offset 0; mode rand = offsets from rand() as in the unpatched runtime
// (this is the only place where the real randomisation is used: a sample, on top of the enumeration).
func (a *agg) freshPhase(refdir string, ctl bool) {
	c := a.c
	type job struct {
		gmp  int
		mode string
		gi   int
	}
	var jobs []job
	for gi := len(a.gs) - 1; gi >= 0; gi-- { // longest first: shortest makespan
		for _, gmp := range []int{1, 2, 16} {
			jobs = append(jobs, job{gmp, "ctl", gi})
			if ctl && (!c.Quick() || gmp == 16) {
				jobs = append(jobs, job{gmp, "rand", gi})
			}
		}
	}
	var mu sync.Mutex
	core.ParallelFor(len(jobs), 16, func(i int) {
		j := jobs[i]
		g := a.gs[j.gi]
		if c.Expired() {
			c.Capped("fresh-process runs: not all done before the deadline")
			return
		}
		c.RunShards(core.ShardOpts{N: 1, Silence: longSilence, Args: []string{"fresh", refdir, j.mode, strconv.Itoa(j.gmp), strconv.Itoa(j.gi)}, Env: []string{"GOMAXPROCS=" + strconv.Itoa(j.gmp)},
			OnRecord: func(_ int, raw json.RawMessage) {
				var r rec
				if json.Unmarshal(raw, &r) != nil || r.Phase != "fresh" {
					return
				}
				mu.Lock()
				defer mu.Unlock()
				c.Eval(1)
				c.Transitions(1)
				c.Add("fresh_process_generations", 1)
				if j.mode == "rand" {
					c.Add("fresh_process_generations_unpatched_random_order", 1)
				}
				if r.Note != "" {
					c.Capped(g.Name + ": " + r.Note)
					return
				}
				c.Traces(1)
				if r.Diff != nil {
					c.Outcome("fresh:differs", 1)
					what := fmt.Sprintf("%s generated in a fresh process (GOMAXPROCS=%d, map order %s) differs from the reference process: %s", g.Name, j.gmp,
						map[string]string{"ctl": "controlled, offset 0", "rand": "random as in the unpatched runtime"}[j.mode], r.Diff)
					// A fresh process with the real random map order that disagrees with the reference while the
					// offset-0 runs agree can only be a map-order dependence. It is a sample: reported only when
					// the (deterministic) enumeration did not already flag this grammar.
					key := "fresh:" + g.Name + ":" + r.Diff.File
					if j.mode == "rand" {
						a.mu.Lock()
						explained := a.orderFlagged[j.gi]
						a.mu.Unlock()
						if explained {
							// already reported, deterministically, by the enumeration of this grammar
							c.Outcome("fresh:random-order-differs(explained by the enumerated map-order finding)", 1)
							return
						}
						key = "maporder-random:" + g.Name + ":" + r.Diff.File
					}
					c.Violate(key, what, replayCase{Kind: "fresh", Grammar: g.Name, Gmp: j.gmp, Mode: j.mode})
				} else {
					c.Outcome("fresh:identical", 1)
				}
				if g.Shipped && j.mode != "rand" {
					a.committed(g, &r)
				}
			},
			OnDeath: func(idx int, desc, how, tail string) {
				c.Violate("death:fresh:"+g.Name, fmt.Sprintf("generating %s in a fresh process (GOMAXPROCS=%d) kills the process (%s): %s", g.Name, j.gmp, how, lastLines(tail)), replayCase{Kind: "fresh", Grammar: g.Name, Gmp: j.gmp, Mode: j.mode})
			}})
	})
}

type histPhase struct {
	a      *agg
	refdir string
	mu     sync.Mutex
	byKey  map[string][]rec
	keys   []string
}

// run enumerates every history in 16 worker processes. gmp == 0 (quick): worker shard s sets
// GOMAXPROCS to {1,2,16}[s%3] itself; otherwise all workers run under GOMAXPROCS=gmp.
func (h *histPhase) run(maxLen int, dl string, gmp int) {
	c := h.a.c
	if c.Expired() {
		c.Capped(fmt.Sprintf("histories (GOMAXPROCS setting %d) not run: budget used up", gmp))
		return
	}
	opts := core.ShardOpts{N: 16, Silence: longSilence, Args: []string{"hist", h.refdir, strconv.Itoa(maxLen), dl, strconv.Itoa(gmp)},
		OnRecord: func(shard int, raw json.RawMessage) {
			var r rec
			if json.Unmarshal(raw, &r) != nil {
				return
			}
			switch r.Phase {
			case "hist-done":
				c.Eval(r.Gens)
				c.Transitions(r.Gens)
				c.Traces(r.Gens)
				c.Nontrivial(r.Nontriv)
				c.Add("history_generations", r.Gens)
				c.Add("histories_run", r.Count)
				c.Outcome("history:compared", r.Gens)
				if r.Skipped > 0 {
					c.Capped(fmt.Sprintf("histories: %d not run before the deadline (GOMAXPROCS setting %d; the js histories come last)", r.Skipped, gmp))
				}
			case "hist":
				if r.Diff == nil {
					if r.Note != "" {
						c.Capped(h.a.name(r.G) + ": " + r.Note)
					}
					return
				}
				h.add(r)
			}
		},
		OnDeath: func(idx int, desc, how, tail string) {
			c.Violate("death:"+desc, fmt.Sprintf("%s: the process dies (%s) although every grammar generates in a fresh process: %s", desc, how, lastLines(tail)),
				replayCase{Kind: "seq", Seq: strings.Split(strings.TrimPrefix(desc, "history "), ",")})
		}}
	if gmp > 0 {
		opts.Env = []string{"GOMAXPROCS=" + strconv.Itoa(gmp)}
	}
	c.RunShards(opts)
}

// add records one generation that differs from its fresh-process reference because of what the
// process generated before.
func (h *histPhase) add(r rec) {
	h.a.c.Outcome("history:differs", 1)
	key := "history:" + h.a.name(r.G) + ":" + r.Diff.File
	h.mu.Lock()
	if _, ok := h.byKey[key]; !ok {
		h.keys = append(h.keys, key)
	}
	h.byKey[key] = append(h.byKey[key], r)
	h.mu.Unlock()
}

func (h *histPhase) report() {
	c := h.a.c
	gs := h.a.gs
	sort.Strings(h.keys)
	for _, key := range h.keys {
		recs := h.byKey[key]
		sort.SliceStable(recs, func(i, j int) bool { return len(recs[i].Hist) < len(recs[j].Hist) })
		// Prefer a counterexample that reproduces in a process of its own: the history alone.
		var chosen *rec
		var seq []int
		for i := range recs {
			if i >= 6 {
				break
			}
			cand := recs[i].Hist[:recs[i].Pos+1]
			if len(cand) < 2 || len(cand) > 3 {
				continue // a sweep: minimised below
			}
			if diffs := runSeq(c, h.refdir, cand); len(diffs) > 0 {
				chosen, seq = &recs[i], cand
				break
			}
		}
		if chosen == nil {
			// The leak came from a generation of an earlier history of the same worker process: try every
			// two-element sequence [x, g] with x taken from the process prefix, else keep the whole prefix.
			chosen, seq = &recs[0], recs[0].Prefix
			tried := map[int]bool{}
			for _, x := range recs[0].Prefix[:len(recs[0].Prefix)-1] {
				if tried[x] || gs[x].Heavy || len(tried) >= 32 {
					continue
				}
				tried[x] = true
				if diffs := runSeq(c, h.refdir, []int{x, recs[0].G}); len(diffs) > 0 {
					seq = []int{x, recs[0].G}
					break
				}
			}
		}
		what := fmt.Sprintf("%s generated after [%s] in the same process differs from a fresh process: %s",
			gs[chosen.G].Name, strings.Join(histNames(gs, seq[:len(seq)-1]), ", "), chosen.Diff)
		for range recs {
			c.Violate(key, what, replayCase{Kind: "seq", Seq: histNames(gs, seq)})
		}
	}
}

// runSeq runs one sequence in a process of its own and returns the mismatches.
func runSeq(c *core.Ctx, refdir string, seq []int) []rec {
	var out []rec
	c.RunShards(core.ShardOpts{N: 1, Silence: longSilence, Args: []string{"seq", refdir, joinInts(seq)},
		OnRecord: func(_ int, raw json.RawMessage) {
			var r rec
			if json.Unmarshal(raw, &r) == nil && r.Phase == "seq" && (r.Diff != nil || r.Note != "") {
				out = append(out, r)
			}
		},
		OnDeath: func(idx int, desc, how, tail string) {
			out = append(out, rec{Phase: "seq", Note: "process died: " + how})
		}})
	return out
}

// orderRecord aggregates the records of the order and pairs workers.
func (a *agg) orderRecord(raw json.RawMessage, progress map[int]*rec) {
	c := a.c
	var r rec
	if json.Unmarshal(raw, &r) != nil {
		return
	}
	g := a.gs[r.G]
	switch r.Phase {
	case "order-sum", "pairs-sum":
		c.Eval(r.Runs + r.Gens)
		c.Transitions(r.Runs + r.Gens)
		c.Traces(r.Runs)
		c.States(r.Choices)
		if r.Phase == "order-sum" {
			c.Nontrivial(r.Nontriv) // deviations of iterations over maps with >= 2 entries
		} else {
			c.Nontrivial(r.Choices)
		}
		if r.Phase == "order-sum" {
			p := progress[r.G]
			if p == nil {
				p = &rec{}
				progress[r.G] = p
			}
			p.Runs += r.Runs
			p.Trivial += r.Trivial
			p.Skipped += r.Skipped
			p.ExactK += r.ExactK
			p.SmallK += r.SmallK
			p.LargeK += r.LargeK
			c.Add("order_deviation_generations", r.Runs)
			if r.Site != "" && c.SampleCount() < 6 {
				c.Sample(map[string]any{"kind": "map-order deviation", "grammar": g.Name, "k": r.K, "offset": r.Off, "map": r.Note, "iteration_started_in": r.Site + " (" + r.SitePos + ")", "result": "output identical to run 0 unless a violation says otherwise"})
			}
			c.Outcome("order:single-group-map-iteration-explored", r.SmallK)
			c.Outcome("order:table-backed-map-iteration-explored", r.LargeK)
			c.Outcome("order:of-them-over-a-single-entry-map", r.Trivial)
		} else {
			c.Add("pair_deviation_generations", r.Runs)
			if r.Skipped > 0 {
				c.Capped(fmt.Sprintf("pairs for %s: %d first indices not explored before the deadline", g.Name, r.Skipped))
			}
		}
		if r.Unstable != "" {
			c.Capped("iteration count not stable across processes: " + r.Unstable)
		}
	case "order", "pairs":
		if r.Diff == nil {
			return
		}
		c.Outcome("order:differs", 1)
		if len(r.K) == 0 {
			if a.hp != nil && len(r.Prefix) > 0 {
				a.hp.add(r) // reported (and minimised) with the other history effects
				return
			}
			c.Violate("history:"+g.Name+":"+r.Diff.File, fmt.Sprintf("%s: %s: %s", g.Name, r.Note, r.Diff), replayCase{Kind: "seq", Seq: []string{g.Name, g.Name}})
			return
		}
		rc := replayCase{Kind: "order", Grammar: g.Name, K: r.K}
		for _, o := range r.Off {
			rc.E = append(rc.E, o.E)
			rc.D = append(rc.D, o.D)
		}
		site, where := r.Site, ""
		if site == "" {
			site = g.Name + ":" + r.Diff.File
		} else {
			where = fmt.Sprintf(" (the `for range` in %s, %s)", r.Site, r.SitePos)
		}
		if len(r.K) > 1 {
			site = "pair:" + site // needs two simultaneous deviations; the site is that of the later one
		}
		what := fmt.Sprintf("output of %s depends on Go's map iteration order: starting map iteration #%v of the generation%s over %s at entry offset %v instead of 0 changes %s",
			g.Name, r.K, where, r.Note, rc.E, r.Diff)
		a.mu.Lock()
		if a.orderFlagged == nil {
			a.orderFlagged = map[int]bool{}
		}
		a.orderFlagged[r.G] = true
		a.mu.Unlock()
		c.Violate("maporder:"+site, what, rc)
	}
}

// orderPhase explores every single deviation for the given grammars (16 worker processes).
func (a *agg) orderPhase(refdir string, refRecs []*rec, gis []int, dl string, covered map[string]any) {
	c := a.c
	gs := a.gs
	if len(gis) == 0 {
		return
	}
	var ns []int
	for _, gi := range gis {
		ns = append(ns, int(refRecs[gi].N))
	}
	if c.Expired() {
		for _, gi := range gis {
			c.Capped("map order of " + gs[gi].Name + " not explored: budget used up")
		}
		return
	}
	full := "1"
	if c.Quick() {
		full = "0"
	}
	progress := map[int]*rec{}
	c.RunShards(core.ShardOpts{N: 16, Silence: longSilence, Args: []string{"order", refdir, joinInts(gis), joinInts(ns), full, dl},
		OnRecord: func(_ int, raw json.RawMessage) { a.orderRecord(raw, progress) },
		OnDeath: func(idx int, desc, how, tail string) {
			c.Violate("death:"+desc, fmt.Sprintf("%s: the process dies (%s): %s", desc, how, lastLines(tail)), replayCase{Kind: "seq", Seq: []string{}})
		}})
	for i, gi := range gis {
		p := progress[gi]
		if p == nil {
			p = &rec{}
		}
		covered[gs[gi].Name] = map[string]any{"n": ns[i], "iterations_explored": p.SmallK + p.LargeK, "of_them_exact(all real orders)": p.ExactK,
			"of_them_over_single_entry_maps": p.Trivial, "deviating_generations": p.Runs, "iterations_not_reached_before_deadline": p.Skipped}
		if p.Skipped > 0 {
			c.Capped(fmt.Sprintf("map order of %s: %d of %d iterations not explored before the deadline", gs[gi].Name, p.Skipped, ns[i]))
		}
	}
}

// pairsPhase: all pairs of deviations for the two feature grammars with the fewest iterations.
func (a *agg) pairsPhase(refdir string, refRecs []*rec, gis []int, dl string) {
	c := a.c
	gs := a.gs
	type cand struct{ gi, n int }
	var cs []cand
	for _, gi := range gis {
		if !gs[gi].Shipped {
			cs = append(cs, cand{gi, int(refRecs[gi].N)})
		}
	}
	sort.SliceStable(cs, func(i, j int) bool { return cs[i].n < cs[j].n })
	if len(cs) > 2 {
		cs = cs[:2]
	}
	var pg, pn []int
	var pnames []string
	for _, x := range cs {
		pg = append(pg, x.gi)
		pn = append(pn, x.n)
		pnames = append(pnames, gs[x.gi].Name)
	}
	c.Set("pair_deviation_grammars", pnames)
	if len(pg) == 0 {
		return
	}
	if c.Expired() {
		c.Capped("pair deviations not run: budget used up")
		return
	}
	c.RunShards(core.ShardOpts{N: 16, Silence: longSilence, Args: []string{"pairs", refdir, joinInts(pg), joinInts(pn), dl},
		OnRecord: func(_ int, raw json.RawMessage) { a.orderRecord(raw, map[int]*rec{}) },
		OnDeath: func(idx int, desc, how, tail string) {
			c.Violate("death:"+desc, fmt.Sprintf("%s: the process dies (%s): %s", desc, how, lastLines(tail)), replayCase{Kind: "seq", Seq: []string{}})
		}})
}

func (a *agg) repsPhase(refdir, dl string) {
	c := a.c
	c.RunShards(core.ShardOpts{N: 16, Silence: longSilence, Args: []string{"reps", refdir, "32", dl},
		OnRecord: func(_ int, raw json.RawMessage) {
			var r rec
			if json.Unmarshal(raw, &r) != nil {
				return
			}
			switch r.Phase {
			case "reps-done":
				c.Eval(r.Runs)
				c.Transitions(r.Runs)
				c.Traces(r.Runs)
				c.Add("plain_repetitions(sampling)", r.Runs)
				if r.Skipped > 0 {
					c.Capped(fmt.Sprintf("plain repetitions: %d not run before the deadline", r.Skipped))
				}
			case "reps":
				if r.Diff != nil {
					g := a.gs[r.G]
					c.Violate("repeat:"+g.Name+":"+r.Diff.File, fmt.Sprintf("repeated generation of %s differs from the first one: %s", g.Name, r.Diff), replayCase{Kind: "fresh", Grammar: g.Name, Gmp: 16, Mode: "rand"})
				}
			}
		}})
}

// ---------------------------------------------------------------- replay

func replay(c *core.Ctx, raw json.RawMessage) error {
	var rc replayCase
	if err := json.Unmarshal(raw, &rc); err != nil {
		return err
	}
	gs := grammars()
	refdir, err := os.MkdirTemp("", "c18-replay-")
	if err != nil {
		return err
	}
	defer os.RemoveAll(refdir)
	// references for every grammar involved, each from a process of its own
	need := map[int]bool{}
	add := func(name string) error {
		gi := gramIndex(gs, name)
		if gi < 0 {
			return fmt.Errorf("unknown grammar %q", name)
		}
		need[gi] = true
		return nil
	}
	if rc.Grammar != "" {
		if err := add(rc.Grammar); err != nil {
			return err
		}
	}
	for _, n := range rc.Seq {
		if err := add(n); err != nil {
			return err
		}
	}
	measure := bytes.Repeat([]byte("x"), len(gs))
	for gi := range need {
		measure[gi] = '0'
	}
	var failure error
	committed := map[int][]*diffInfo{}
	// the ref worker handles case gi when gi%N == shard; with N = len(gs) every needed grammar gets a process
	c.RunShards(core.ShardOpts{N: len(gs), Silence: longSilence, Args: []string{"ref", refdir, string(measure)},
		OnRecord: func(_ int, raw json.RawMessage) {
			var r rec
			if json.Unmarshal(raw, &r) == nil && r.Phase == "ref" {
				committed[r.G] = r.Committed
			}
		}})
	switch rc.Kind {
	case "committed":
		gi := gramIndex(gs, rc.Grammar)
		for _, d := range committed[gi] {
			if rc.File == "" || d.File == rc.File {
				return fmt.Errorf("regenerating %s: %s", rc.Grammar, d)
			}
		}
		return nil
	case "fresh":
		gi := gramIndex(gs, rc.Grammar)
		gmp := rc.Gmp
		if gmp == 0 {
			gmp = 16
		}
		reps := 1
		if rc.Mode == "rand" {
			reps = 16 // random order: a single run may be lucky
		}
		for i := 0; i < reps && failure == nil; i++ {
			c.RunShards(core.ShardOpts{N: 1, Silence: longSilence, Args: []string{"fresh", refdir, rc.Mode, strconv.Itoa(gmp), strconv.Itoa(gi)}, Env: []string{"GOMAXPROCS=" + strconv.Itoa(gmp)},
				OnRecord: func(_ int, raw json.RawMessage) {
					var r rec
					if json.Unmarshal(raw, &r) == nil && r.Phase == "fresh" && r.G == gi && r.Diff != nil {
						failure = fmt.Errorf("%s in a fresh process: %s", rc.Grammar, r.Diff)
					}
				},
				OnDeath: func(idx int, desc, how, tail string) {
					failure = fmt.Errorf("%s: process died: %s", desc, how)
				}})
		}
		return failure
	case "seq":
		var seq []int
		for _, n := range rc.Seq {
			seq = append(seq, gramIndex(gs, n))
		}
		if diffs := runSeq(c, refdir, seq); len(diffs) > 0 {
			d := diffs[0]
			if d.Diff != nil {
				return fmt.Errorf("generation #%d (%s) of the sequence %v: %s", d.Pos, gs[d.G].Name, rc.Seq, d.Diff)
			}
			return fmt.Errorf("sequence %v: %s", rc.Seq, d.Note)
		}
		return nil
	case "order":
		gi := gramIndex(gs, rc.Grammar)
		var ks, es, ds []int
		for i := range rc.K {
			ks = append(ks, int(rc.K[i]))
			es = append(es, int(rc.E[i]))
			ds = append(ds, int(rc.D[i]))
		}
		c.RunShards(core.ShardOpts{N: 1, Silence: longSilence, Args: []string{"one", strconv.Itoa(gi), joinInts(ks), joinInts(es), joinInts(ds)},
			OnRecord: func(_ int, raw json.RawMessage) {
				var r rec
				if json.Unmarshal(raw, &r) == nil && r.Phase == "one" && r.Diff != nil {
					failure = fmt.Errorf("%s with map iteration %v (%s %s) at offsets e=%v d=%v: %s", rc.Grammar, rc.K, r.Site, r.SitePos, rc.E, rc.D, r.Diff)
				}
			},
			OnDeath: func(idx int, desc, how, tail string) { failure = fmt.Errorf("%s: process died: %s", desc, how) }})
		return failure
	}
	return fmt.Errorf("unknown replay kind %q", rc.Kind)
}
