// C13: desugaring extended notation preserves the language.
//
// Enumerated: one nonterminal S whose rule body is every extended-notation expression of a bounded
// size over the leaves ta, tb, X (X: tc | tc X), set(ta | tb), set(~ta), (?= X) and the operators e?,
// (e | e), e e, e*, e+, (e separator ta)+, (e separator ta)*. A second input Z is declared after S (so
// that nonterminals extracted from S shift it), refers to S and contains a list that S may extract too.
// Layer "tm": the text goes through the real compiler.Compile and the plain rules are read from
// grammar.Parser.Rules (LHS/RHS only, state markers skipped). Layer "model": the same expression is
// built as a syntax.Model in Go with subsets of its lists flagged RightRecursive (the tm front end
// never sets that flag) and run through syntax.Expand + syntax.ResolveSets.
//
// Oracle: the language of the extended expression by structural recursion truncated at L=6 (a set is
// the choice of its terminals, a lookahead marker is the empty string) versus the bounded language of
// the plain rules (extsem.PlainLangs, cross-checked against cfgoracle.Lang for small languages).
//
// Conflicts are irrelevant here: compiler.Compile returns the grammar together with the conflict
// errors, and Parser.Rules is filled before lalr.Compile runs.
package main

import (
	"context"
	"encoding/json"
	"fmt"
	"log"
	"os"
	"runtime"
	"runtime/pprof"
	"sort"
	"strings"
	"sync"
	"sync/atomic"
	"time"

	"github.com/inspirer/textmapper/compiler"
	"github.com/inspirer/textmapper/syntax"

	"verif/internal/cfgoracle"
	"verif/internal/core"
	"verif/internal/extsem"
	"verif/internal/gramenum"
)

const maxLen = 6

// Terminal numbering of every generated grammar (checked against grammar.Syms for each case).
const (
	tEoi = iota
	tInvalid
	tA
	tB
	tC
	numTerms
)

type expr struct {
	K   string   `json:"k"` // a b c X setab setna la | opt star plus sepplus sepstar | seq alt
	S   []*expr  `json:"s,omitempty"`
	Sep []string `json:"sep,omitempty"` // sepplus/sepstar: separator terminals (a b c); default: a

	depth, leaves int
	lang          atomic.Pointer[extsem.Lang] // memoized denotation (nodes are shared between bodies)
}

var leafKinds = []string{"a", "b", "X", "setab", "setna", "la"}
var unaryKinds = []string{"opt", "star", "plus", "sepplus", "sepstar"}
var binaryKinds = []string{"seq", "alt"}

func mk(k string, subs ...*expr) *expr {
	e := &expr{K: k, S: subs}
	e.fix()
	return e
}

func (e *expr) fix() {
	if len(e.S) == 0 {
		e.depth, e.leaves = 0, 1
		return
	}
	e.depth, e.leaves = 0, 0
	for _, s := range e.S {
		s.fix()
		if s.depth+1 > e.depth {
			e.depth = s.depth + 1
		}
		e.leaves += s.leaves
	}
}

func (e *expr) isList() bool {
	switch e.K {
	case "star", "plus", "sepplus", "sepstar":
		return true
	}
	return false
}

// buckets[d][n]: expressions of depth exactly d with exactly n leaves (n <= maxLeaves).
func buildBuckets(leaves []string, maxDepth, maxLeaves int) [][][]*expr {
	b := make([][][]*expr, maxDepth+1)
	for d := range b {
		b[d] = make([][]*expr, maxLeaves+1)
	}
	for _, k := range leaves {
		b[0][1] = append(b[0][1], mk(k))
	}
	for d := 1; d <= maxDepth; d++ {
		for n := 1; n <= maxLeaves; n++ {
			for _, u := range unaryKinds {
				for _, s := range b[d-1][n] {
					b[d][n] = append(b[d][n], mk(u, s))
				}
			}
			for _, op := range binaryKinds {
				for nx := 1; nx < n; nx++ {
					ny := n - nx
					for dx := 0; dx < d; dx++ {
						for dy := 0; dy < d; dy++ {
							if dx != d-1 && dy != d-1 {
								continue
							}
							for _, x := range b[dx][nx] {
								for _, y := range b[dy][ny] {
									b[d][n] = append(b[d][n], mk(op, x, y))
								}
							}
						}
					}
				}
			}
		}
	}
	return b
}

// relabel returns a copy of shape e whose leaves are replaced left to right by labels.
func relabel(e *expr, labels []string, pos *int) *expr {
	if len(e.S) == 0 {
		k := labels[*pos%len(labels)]
		*pos++
		return &expr{K: k, depth: 0, leaves: 1}
	}
	out := &expr{K: e.K, Sep: e.Sep, depth: e.depth, leaves: e.leaves}
	for _, s := range e.S {
		out.S = append(out.S, relabel(s, labels, pos))
	}
	return out
}

// ---------- printing as tm text

func (e *expr) item() string {
	switch e.K {
	case "a":
		return "ta"
	case "b":
		return "tb"
	case "X":
		return "X"
	case "setab":
		return "set(ta | tb)"
	case "setna":
		return "set(~ta)"
	case "setnone":
		return "set(ta & tb)"
	case "la":
		return "(?= X)"
	case "opt":
		return e.S[0].operand() + "?"
	case "star":
		return e.S[0].operand() + "*"
	case "plus":
		return e.S[0].operand() + "+"
	case "c":
		return "tc"
	case "sepplus":
		return "(" + e.S[0].parts() + " separator " + e.sepText() + ")+"
	case "sepstar":
		return "(" + e.S[0].parts() + " separator " + e.sepText() + ")*"
	case "seq":
		return "(" + e.parts() + ")"
	case "alt":
		return "(" + e.S[0].parts() + " | " + e.S[1].parts() + ")"
	}
	panic("kind " + e.K)
}

func (e *expr) seps() []string {
	if len(e.Sep) == 0 {
		return []string{"a"}
	}
	return e.Sep
}

func (e *expr) sepText() string {
	var out []string
	for _, t := range e.seps() {
		out = append(out, "t"+t)
	}
	return strings.Join(out, " ")
}

// parts prints e as a list of rule parts (no top-level '|').
func (e *expr) parts() string {
	if e.K == "seq" {
		return e.S[0].item() + " " + e.S[1].item()
	}
	return e.item()
}

// operand prints e as an rhsPrimary (operand of ?, *, +).
func (e *expr) operand() string {
	switch e.K {
	case "la", "opt":
		return "(" + e.item() + ")"
	}
	return e.item() // leaves, sets, lists and parenthesized groups are primaries
}

// body prints e as the rules of a nonterminal.
func (e *expr) body() string {
	if e.K == "alt" {
		return e.S[0].parts() + "\n  | " + e.S[1].parts()
	}
	return e.parts()
}

func (e *expr) String() string { return e.body() }

// frame says how the body is embedded: the names of the first two nonterminals (the generated names
// of extracted lists, sets and lookaheads sort before, between or after them, which decides how
// Expand permutes the nonterminals) and whether the FIRST nonterminal refers to itself.
type frame struct {
	S   string `json:"s,omitempty"`   // name of the first nonterminal (default S)
	Z   string `json:"z,omitempty"`   // name of the second nonterminal (default Z)
	Rec int    `json:"rec,omitempty"` // 0: S: e   1: S: e | tb S   2: S: S e | tb   3: S: e | tc Z (Z: tb S | ...)
}

func (f frame) sName() string {
	if f.S == "" {
		return "S"
	}
	return f.S
}

func (f frame) zName() string {
	if f.Z == "" {
		return "Z"
	}
	return f.Z
}

func (f frame) String() string {
	return fmt.Sprintf("%s/%s/rec%d", f.sName(), f.zName(), f.Rec)
}

func grammarText(e *expr, f frame) string {
	sn, zn := f.sName(), f.zName()
	var body string
	switch f.Rec {
	case 0:
		body = e.body()
	case 1:
		body = e.body() + "\n  | tb " + sn
	case 2:
		body = sn + " " + e.parts() + "\n  | tb"
	case 3:
		body = e.body() + "\n  | tc " + zn
	}
	return "language x(go);\n\n:: lexer\n\nta: /a/\ntb: /b/\ntc: /c/\n\n:: parser\n\n%input " + sn + ", " + zn + ";\n\n" +
		sn + " :\n    " + body + "\n;\n\n" + zn + " :\n    tb " + sn + "\n  | ta* tc\n;\n\nX :\n    tc\n  | tc X\n;\n"
}

// ---------- reference semantics

type refLangs struct{ S, Z, X *extsem.Lang }

var (
	langOnce             sync.Once
	lA, lB, lC, lX, lEps *extsem.Lang
	lSetAB, lSetNA       *extsem.Lang
)

func initLangs() {
	langOnce.Do(func() {
		k := numTerms
		lA, lB, lC = extsem.LSym(k, maxLen, tA), extsem.LSym(k, maxLen, tB), extsem.LSym(k, maxLen, tC)
		lEps = extsem.LEps(k, maxLen)
		lX = extsem.LPlus(lC) // X: tc | tc X
		lSetAB = extsem.LUnion(lA, lB)
		// set(~ta): complement over all terminals of the grammar. The implementation's universe
		// includes eoi and invalid_token (syntax/set.go: terms = len(m.Terminals)); C15 examines
		// that choice, here we simply side with it.
		lSetNA = extsem.LEmpty(k, maxLen)
		for t := 0; t < k; t++ {
			if t != tA {
				lSetNA.AddAll(extsem.LSym(k, maxLen, t))
			}
		}
	})
}

func denote(e *expr) *extsem.Lang {
	if l := e.lang.Load(); l != nil {
		return l
	}
	l := denote1(e)
	e.lang.Store(l)
	return l
}

func denote1(e *expr) *extsem.Lang {
	switch e.K {
	case "a":
		return lA
	case "b":
		return lB
	case "X":
		return lX
	case "setab":
		return lSetAB
	case "setna":
		return lSetNA
	case "setnone":
		// A set stands for a choice of its terminals: no terminals, no string.
		return extsem.LEmpty(numTerms, maxLen)
	case "la":
		return lEps
	case "opt":
		return extsem.LOpt(denote(e.S[0]))
	case "star":
		return extsem.LStar(denote(e.S[0]))
	case "plus":
		return extsem.LPlus(denote(e.S[0]))
	case "c":
		return lC
	case "sepplus":
		return extsem.LSepPlus(denote(e.S[0]), sepLang(e))
	case "sepstar":
		return extsem.LOpt(extsem.LSepPlus(denote(e.S[0]), sepLang(e)))
	case "seq":
		return extsem.LConcat(denote(e.S[0]), denote(e.S[1]))
	case "alt":
		return extsem.LUnion(denote(e.S[0]), denote(e.S[1]))
	}
	panic("kind " + e.K)
}

func termOf(name string) int {
	switch name {
	case "a":
		return tA
	case "b":
		return tB
	case "c":
		return tC
	}
	panic("terminal " + name)
}

// sepLang is the one-string language of the separator sequence.
func sepLang(e *expr) *extsem.Lang {
	l := lEps
	for _, t := range e.seps() {
		l = extsem.LConcat(l, extsem.LSym(numTerms, maxLen, termOf(t)))
	}
	return l
}

func reference(e *expr, f frame) refLangs {
	initLangs()
	el := denote(e)
	tail := extsem.LConcat(extsem.LStar(lA), lC) // ta* tc
	zOf := func(s *extsem.Lang) *extsem.Lang { return extsem.LUnion(extsem.LConcat(lB, s), tail) }
	var s *extsem.Lang
	switch f.Rec {
	case 0:
		s = el
	case 1: // S: e | tb S
		s = extsem.LConcat(extsem.LStar(lB), el)
	case 2: // S: S e | tb
		s = extsem.LConcat(lB, extsem.LStar(el))
	case 3: // S: e | tc Z, Z: tb S | ta* tc  (least solution by iteration)
		s = el.Clone()
		for {
			if !s.AddAll(extsem.LConcat(lC, zOf(s))) {
				break
			}
		}
	}
	return refLangs{S: s, Z: zOf(s), X: lX}
}

// ---------- observed side

type plain struct {
	names  []string // symbol names
	rules  []extsem.PRule
	inputs []int // symbol numbers of the non-synthetic inputs, in order
}

// observeTM compiles the text; ok=false means no rules were produced (err says why).
func observeTM(text string) (p *plain, confl bool, err error) {
	g, cerr := compiler.Compile(context.Background(), "c13.tm", text, compiler.Params{CheckOnly: false})
	if g == nil || g.Parser == nil || len(g.Parser.Rules) == 0 {
		if cerr == nil {
			cerr = fmt.Errorf("no rules and no error")
		}
		return nil, false, cerr
	}
	if g.NumTokens != numTerms {
		return nil, false, fmt.Errorf("unexpected terminal count %d", g.NumTokens)
	}
	want := []string{"eoi", "invalid_token", "ta", "tb", "tc"}
	p = &plain{}
	for i, s := range g.Syms {
		if i < numTerms && s.Name != want[i] {
			return nil, false, fmt.Errorf("terminal %d is %s, want %s", i, s.Name, want[i])
		}
		p.names = append(p.names, s.Name)
	}
	for _, r := range g.Parser.Rules {
		pr := extsem.PRule{LHS: int(r.LHS)}
		for _, s := range r.RHS {
			if s.IsStateMarker() {
				continue
			}
			pr.RHS = append(pr.RHS, int(s))
		}
		p.rules = append(p.rules, pr)
	}
	for _, in := range g.Parser.Inputs {
		if !in.Synthetic {
			p.inputs = append(p.inputs, g.NumTokens+in.Nonterm)
		}
	}
	return p, cerr != nil, nil
}

// ---------- model layer (syntax API directly)

type modelBuilder struct {
	m      *syntax.Model
	pos    int
	list   int
	rrMask int
}

func (b *modelBuilder) ref(sym int) *syntax.Expr {
	b.pos++
	return &syntax.Expr{Kind: syntax.Reference, Symbol: sym, Pos: b.pos, Model: b.m, Origin: gramenum.Origin{}}
}

func (b *modelBuilder) set(ts *syntax.TokenSet) *syntax.Expr {
	b.pos++
	b.m.Sets = append(b.m.Sets, ts)
	return &syntax.Expr{Kind: syntax.Set, SetIndex: len(b.m.Sets) - 1, Pos: b.pos, Model: b.m, Origin: gramenum.Origin{}}
}

const (
	ntS = numTerms + iota
	ntZ
	ntX
)

func (b *modelBuilder) conv(e *expr) *syntax.Expr {
	o := gramenum.Origin{}
	switch e.K {
	case "a":
		return b.ref(tA)
	case "b":
		return b.ref(tB)
	case "c":
		return b.ref(tC)
	case "X":
		return b.ref(ntX)
	case "setab":
		return b.set(&syntax.TokenSet{Kind: syntax.Union, Origin: o, Sub: []*syntax.TokenSet{
			{Kind: syntax.Any, Symbol: tA, Origin: o}, {Kind: syntax.Any, Symbol: tB, Origin: o}}})
	case "setna":
		return b.set(&syntax.TokenSet{Kind: syntax.Complement, Origin: o, Sub: []*syntax.TokenSet{
			{Kind: syntax.Any, Symbol: tA, Origin: o}}})
	case "setnone":
		return b.set(&syntax.TokenSet{Kind: syntax.Intersection, Origin: o, Sub: []*syntax.TokenSet{
			{Kind: syntax.Any, Symbol: tA, Origin: o}, {Kind: syntax.Any, Symbol: tB, Origin: o}}})
	case "la":
		return &syntax.Expr{Kind: syntax.Lookahead, Origin: o, Sub: []*syntax.Expr{
			{Kind: syntax.Reference, Symbol: ntX, Model: b.m, Origin: o}}}
	case "opt":
		return &syntax.Expr{Kind: syntax.Optional, Origin: o, Sub: []*syntax.Expr{b.conv(e.S[0])}}
	case "star", "plus", "sepplus", "sepstar":
		var flags syntax.ListFlags
		if e.K == "plus" || e.K == "sepplus" {
			flags |= syntax.OneOrMore
		}
		if b.rrMask&(1<<uint(b.list)) != 0 {
			flags |= syntax.RightRecursive
		}
		b.list++
		// like the front end: positions inside a list element start over
		saved := b.pos
		b.pos = 0
		subs := []*syntax.Expr{b.conv(e.S[0])}
		if e.K == "sepplus" || e.K == "sepstar" {
			// like compiler/syntax.go convertSeparator: one reference, or a sequence of them
			var refs []*syntax.Expr
			for _, t := range e.seps() {
				refs = append(refs, &syntax.Expr{Kind: syntax.Reference, Symbol: termOf(t), Model: b.m, Origin: o})
			}
			if len(refs) == 1 {
				subs = append(subs, refs[0])
			} else {
				subs = append(subs, &syntax.Expr{Kind: syntax.Sequence, Sub: refs, Origin: o})
			}
		}
		b.pos = saved + 1
		return &syntax.Expr{Kind: syntax.List, Sub: subs, ListFlags: flags, Pos: b.pos, Origin: o}
	case "seq":
		return &syntax.Expr{Kind: syntax.Sequence, Origin: o, Sub: []*syntax.Expr{b.conv(e.S[0]), b.conv(e.S[1])}}
	case "alt":
		return &syntax.Expr{Kind: syntax.Choice, Origin: o, Sub: []*syntax.Expr{b.conv(e.S[0]), b.conv(e.S[1])}}
	}
	panic("kind " + e.K)
}

func countLists(e *expr) int {
	n := 0
	if e.isList() {
		n = 1
	}
	for _, s := range e.S {
		n += countLists(s)
	}
	return n
}

func observeModel(e *expr, f frame, rrMask int) (*plain, error) {
	o := gramenum.Origin{}
	m := &syntax.Model{
		Terminals: []syntax.Terminal{{Name: "eoi"}, {Name: "invalid_token"}, {Name: "ta"}, {Name: "tb"}, {Name: "tc"}},
		Inputs:    []syntax.Input{{Nonterm: 0}, {Nonterm: 1}},
	}
	b := &modelBuilder{m: m, rrMask: rrMask}
	ev := b.conv(e)
	ref := func(sym int) *syntax.Expr {
		return &syntax.Expr{Kind: syntax.Reference, Symbol: sym, Model: m, Origin: o, Pos: 1}
	}
	seq := func(subs ...*syntax.Expr) *syntax.Expr {
		return &syntax.Expr{Kind: syntax.Sequence, Origin: o, Sub: subs}
	}
	alts := []*syntax.Expr{ev} // the alternatives of the body as the front end sees them
	if ev.Kind == syntax.Choice {
		alts = ev.Sub
	}
	sVal := ev
	switch f.Rec {
	case 1:
		sVal = &syntax.Expr{Kind: syntax.Choice, Origin: o, Sub: append(append([]*syntax.Expr{}, alts...), seq(ref(tB), ref(ntS)))}
	case 2:
		parts := []*syntax.Expr{ev}
		if ev.Kind == syntax.Sequence {
			parts = ev.Sub
		}
		sVal = &syntax.Expr{Kind: syntax.Choice, Origin: o, Sub: []*syntax.Expr{seq(append([]*syntax.Expr{ref(ntS)}, parts...)...), ref(tB)}}
	case 3:
		sVal = &syntax.Expr{Kind: syntax.Choice, Origin: o, Sub: append(append([]*syntax.Expr{}, alts...), seq(ref(tC), ref(ntZ)))}
	}
	zVal := &syntax.Expr{Kind: syntax.Choice, Origin: o, Sub: []*syntax.Expr{
		{Kind: syntax.Sequence, Origin: o, Sub: []*syntax.Expr{ref(tB), ref(ntS)}},
		{Kind: syntax.Sequence, Origin: o, Sub: []*syntax.Expr{
			{Kind: syntax.List, Origin: o, Pos: 1, Sub: []*syntax.Expr{ref(tA)}}, ref(tC)}},
	}}
	xVal := &syntax.Expr{Kind: syntax.Choice, Origin: o, Sub: []*syntax.Expr{
		ref(tC),
		{Kind: syntax.Sequence, Origin: o, Sub: []*syntax.Expr{ref(tC), ref(ntX)}},
	}}
	m.Nonterms = []*syntax.Nonterm{
		{Name: f.sName(), Value: sVal, Origin: o},
		{Name: f.zName(), Value: zVal, Origin: o},
		{Name: "X", Value: xVal, Origin: o},
	}
	if err := syntax.Expand(m, syntax.DefaultExpandOptions()); err != nil {
		return nil, fmt.Errorf("Expand: %v", err)
	}
	if err := syntax.ResolveSets(m); err != nil {
		return nil, fmt.Errorf("ResolveSets: %v", err)
	}
	p := &plain{}
	for _, t := range m.Terminals {
		p.names = append(p.names, t.Name)
	}
	for _, nt := range m.Nonterms {
		p.names = append(p.names, nt.Name)
	}
	var flat func(x *syntax.Expr, out *[]int) error
	flat = func(x *syntax.Expr, out *[]int) error {
		switch x.Kind {
		case syntax.Empty:
		case syntax.Reference:
			*out = append(*out, x.Symbol)
		case syntax.Sequence:
			for _, s := range x.Sub {
				if err := flat(s, out); err != nil {
					return err
				}
			}
		default:
			return fmt.Errorf("unexpected %v inside an expanded rule", x.Kind.GoString())
		}
		return nil
	}
	for i, nt := range m.Nonterms {
		lhs := numTerms + i
		switch nt.Value.Kind {
		case syntax.Lookahead:
			p.rules = append(p.rules, extsem.PRule{LHS: lhs})
		case syntax.Choice:
			for _, alt := range nt.Value.Sub {
				r := extsem.PRule{LHS: lhs}
				if err := flat(alt, &r.RHS); err != nil {
					return nil, fmt.Errorf("%s: %v", nt.Name, err)
				}
				p.rules = append(p.rules, r)
			}
		default:
			return nil, fmt.Errorf("%s is left as %v after expansion", nt.Name, nt.Value.Kind.GoString())
		}
	}
	for _, in := range m.Inputs {
		p.inputs = append(p.inputs, numTerms+in.Nonterm)
	}
	return p, nil
}

// ---------- comparison

type cas struct {
	Mode  string `json:"mode"` // tm | model
	Expr  *expr  `json:"expr"`
	RR    int    `json:"rr,omitempty"` // bit i: i-th list (pre-order) is right-recursive (model mode)
	Text  string `json:"text,omitempty"`
	Frame frame  `json:"frame,omitempty"`

	ref *refLangs
}

func symString(w []int) string {
	names := []string{"eoi", "invalid_token", "ta", "tb", "tc"}
	var parts []string
	for _, d := range w {
		parts = append(parts, names[d])
	}
	if len(parts) == 0 {
		return "ε"
	}
	return strings.Join(parts, " ")
}

func opsSignature(e *expr) string {
	seen := map[string]bool{}
	var walk func(x *expr)
	walk = func(x *expr) {
		if len(x.S) > 0 || x.K == "setab" || x.K == "setna" || x.K == "setnone" || x.K == "la" {
			seen[x.K] = true
		}
		for _, s := range x.S {
			walk(s)
		}
	}
	walk(e)
	var ks []string
	for k := range seen {
		ks = append(ks, k)
	}
	sort.Strings(ks)
	if len(ks) == 0 {
		return "plain"
	}
	return strings.Join(ks, "+")
}

func hasKind(e *expr, k string) bool {
	if e.K == k {
		return true
	}
	for _, s := range e.S {
		if hasKind(s, k) {
			return true
		}
	}
	return false
}

type result struct {
	rejectedEmpty bool
	key, what     string
	confl         bool
	sHash         uint64
	nontriv       bool
	crossed       bool
}

func (p *plain) dump() string {
	var sb strings.Builder
	for _, r := range p.rules {
		sb.WriteString(p.names[r.LHS] + " :")
		for _, s := range r.RHS {
			sb.WriteString(" " + p.names[s])
		}
		sb.WriteString("; ")
	}
	return sb.String()
}

func check(cs *cas) (res result) {
	e := cs.Expr
	var p *plain
	var err error
	gerr := core.Guard(func() {
		if cs.Mode == "tm" {
			p, res.confl, err = observeTM(cs.Text)
		} else {
			p, err = observeModel(e, cs.Frame, cs.RR)
		}
	})
	site := cs.Mode
	if cs.Mode == "model" && cs.RR != 0 {
		site = "model-rr"
	}
	if gerr != nil {
		res.key = site + ":panic:" + core.PanicSite(gerr)
		if m := fatalMessage(gerr); m != "" {
			res.key = site + ":fatal:" + m
		}
		res.what = fmt.Sprintf("%s: %v", e, gerr)
		return
	}
	if err != nil {
		msg := err.Error()
		if i := strings.Index(msg, "\n"); i >= 0 {
			msg = msg[:i]
		}
		if hasKind(e, "setnone") && strings.Contains(err.Error(), "token set is empty") {
			res.rejectedEmpty = true // refusing a set without terminals inside a rule is fine
			return
		}
		res.key = site + ":rejected:" + opsSignature(e)
		res.what = fmt.Sprintf("body %q produced no plain rules: %s", e.String(), msg)
		return
	}
	if cs.ref == nil {
		r := reference(e, cs.Frame)
		cs.ref = &r
	}
	want := *cs.ref
	langs := extsem.PlainLangs(numTerms, maxLen, len(p.names), p.rules)
	byName := map[string]int{}
	for i, n := range p.names {
		if _, dup := byName[n]; dup {
			res.key = site + ":duplicate-symbol-name"
			res.what = fmt.Sprintf("body %q: two symbols are named %s", e.String(), n)
			return
		}
		byName[n] = i
	}
	sn, zn := cs.Frame.sName(), cs.Frame.zName()
	if len(p.inputs) != 2 || p.inputs[0] != byName[sn] || p.inputs[1] != byName[zn] {
		res.key = site + ":inputs-moved"
		res.what = fmt.Sprintf("body %q (frame %s): inputs are %v, want %s=%d %s=%d", e.String(), cs.Frame, p.inputs, sn, byName[sn], zn, byName[zn])
		return
	}
	for _, c := range []struct {
		name string
		want *extsem.Lang
	}{{"S", want.S}, {"X", want.X}, {"Z", want.Z}} {
		idx, ok := byName[map[string]string{"S": sn, "Z": zn, "X": "X"}[c.name]]
		if !ok {
			res.key = site + ":missing-nonterminal:" + c.name
			res.what = fmt.Sprintf("body %q: no symbol %s", e.String(), c.name)
			return
		}
		got := langs[idx]
		if w, inGot, diff := extsem.FirstDiff(got, c.want); diff {
			dir := "missing"
			if inGot {
				dir = "extra"
			}
			res.key = fmt.Sprintf("%s:lang-%s:%s:%s", site, dir, c.name, opsSignature(e))
			if hasKind(e, "setnone") {
				// one root cause: a set without terminals becomes an %empty rule instead of matching nothing
				res.key = "empty-set-in-rule:" + site + ":lang-" + dir
			}
			res.what = fmt.Sprintf("body %q (rr=%b, frame %s): plain rules of %s derive a different language: %q is %s (rules: %s)",
				e.String(), cs.RR, cs.Frame, c.name, symString(w), map[bool]string{true: "derived but not denoted", false: "denoted but not derived"}[inGot], p.dump())
			return
		}
	}
	// Independent cross-check of the bounded-language engine against cfgoracle (same plain rules).
	if cs.Mode == "tm" && want.S.Size() <= 12 {
		g := &gramenum.Gram{T: numTerms, N: len(p.names) - numTerms}
		for _, r := range p.rules {
			gr := gramenum.Rule{LHS: r.LHS + 1}
			for _, s := range r.RHS {
				gr.RHS = append(gr.RHS, s+1)
			}
			g.Rules = append(g.Rules, gr)
		}
		o := cfgoracle.New(g, maxLen)
		for _, name := range []string{"S", "Z"} {
			a := o.Lang(byName[map[string]string{"S": sn, "Z": zn}[name]] + 1)
			wl := want.S
			if name == "Z" {
				wl = want.Z
			}
			b := wl.Strings(0)
			sort.Strings(a)
			sort.Strings(b)
			if strings.Join(a, ",") != strings.Join(b, ",") {
				res.key = site + ":engines-disagree"
				res.what = fmt.Sprintf("body %q: cfgoracle and extsem disagree on %s: %v vs %v", e.String(), name, a, b)
				return
			}
		}
		res.crossed = true
	}
	res.sHash = want.S.Hash()
	res.nontriv = want.S.Size() > 0 && !want.S.Full()
	return
}

// ---------- enumeration

// twins: two lists over the SAME element that differ in one detail (kind of list, separator of one or
// two terminals in every order, + versus *), in one body, so that a wrongly shared extracted
// nonterminal changes the language: `L1 | tc L2` and `L1 tc L2` for every ordered pair.
func twins() []*expr {
	// separators of 1..3 terminals; (a b) / (a b c) and (b c) / (b c a) are proper prefixes of each other
	seps := [][]string{{"a"}, {"b"}, {"c"}, {"a", "b"}, {"b", "a"}, {"b", "c"}, {"c", "b"}, {"b", "b"}, {"a", "b", "c"}, {"b", "c", "a"}}
	elems := []func() *expr{
		func() *expr { return mk("a") },
		func() *expr { return mk("X") },
		func() *expr { return mk("opt", mk("a")) },
	}
	var out []*expr
	for _, el := range elems {
		var variants []func() *expr
		variants = append(variants, func() *expr { return mk("star", el()) }, func() *expr { return mk("plus", el()) })
		for _, sp := range seps {
			sp := sp
			for _, k := range []string{"sepplus", "sepstar"} {
				k := k
				variants = append(variants, func() *expr { e := mk(k, el()); e.Sep = sp; return e })
			}
		}
		for _, v1 := range variants {
			for _, v2 := range variants {
				out = append(out, mk("alt", v1(), mk("seq", mk("c"), v2())))
				out = append(out, mk("seq", v1(), mk("seq", mk("c"), v2())))
			}
		}
	}
	return out
}

type violation struct {
	key, what string
	cs        *cas
}

type level struct {
	name   string
	bodies func() []*expr
	masks  string  // model layer: all | nonzero | ones | none
	frames []frame // nil: the plain frame only
}

func main() { core.Main("C13", "exploration", run, replay, nil) }

// calmDown lowers GOMAXPROCS on a heavily loaded machine: 16 busy threads competing with hundreds of
// other runnable processes spend most of their time in preemption and GC hand-offs.
// fatalTrap turns log.Fatal inside the code under test into a panic that core.Guard recovers: the
// logger writes the message before it calls os.Exit, so a writer that panics keeps the process (and
// the enumeration) alive. Expansion warnings (log.Printf) pass through silently.
type fatalTrap struct{}

func (fatalTrap) Write(p []byte) (int, error) {
	if strings.Contains(string(p), "WARNING") {
		return len(p), nil
	}
	panic("log.Fatal: " + strings.TrimSpace(string(p)))
}

func trapFatal() {
	log.SetFlags(0)
	log.SetOutput(fatalTrap{})
}

// fatalMessage extracts the log.Fatal message from a Guard error ("" if it is an ordinary panic).
func fatalMessage(err error) string {
	s := err.Error()
	i := strings.Index(s, "log.Fatal: ")
	if i < 0 {
		return ""
	}
	s = s[i+len("log.Fatal: "):]
	if j := strings.IndexByte(s, '\n'); j >= 0 {
		s = s[:j]
	}
	return s
}

func calmDown() {
	data, err := os.ReadFile("/proc/loadavg")
	if err != nil {
		return
	}
	var load float64
	fmt.Sscanf(string(data), "%f", &load)
	if load > 32 {
		runtime.GOMAXPROCS(4)
	}
}

func run(c *core.Ctx) {
	trapFatal()
	calmDown()
	if pf := os.Getenv("C13_PROF"); pf != "" {
		f, _ := os.Create(pf)
		pprof.StartCPUProfile(f)
		go func() { time.Sleep(40 * time.Second); pprof.StopCPUProfile(); os.Exit(0) }()
	}
	c.Rule("bodies enumerated by (depth, leaves), simplest first, over 6 leaf kinds {ta, tb, X, set(ta|tb), set(~ta), (?= X)}, 5 unary and 2 binary " +
		"operators: every expression of depth<=2 and of depth 3 with one leaf; first-nonterminal = every body of depth<=1, depth 2 with one leaf and every 8th (thorough: every) body of depth 2 with two leaves, in 13 frames: the first nonterminal named zz / input / Aa / S (generated names sort before, around, after it) x {S: e | tb S, S: S e | tb, S: e | tc Z with Z: tb S | ..., plain}; empty-set = every body of depth<=2 with <=2 leaves over {ta, set(ta & tb)} that contains the set without terminals; twins = every ordered pair of two lists over the same element (3 elements ta, X, ta? x 22 list forms with separators of 1..3 terminals, all orders of two terminals and prefixes of each other, + and *) combined as L1 | tc L2 and L1 tc L2; every depth-3 operator shape with 2..4 leaves under a fixed list of leaf " +
		"labelings (thorough: all 36 labelings for 2 leaves, then all 216 labelings for 3 leaves and 24 more for 4 leaves one labeling per level " +
		"until 18 minutes have passed). Each body goes " +
		"through compiler.Compile (tm layer) and through syntax.Expand on a hand-built model with subsets of its lists right-recursive (model layer). " +
		"nontrivial = bodies (all distinct expressions) whose denoted language of S, as a string set up to length 6, is neither empty nor everything; " +
		"the number of distinct such languages is reported as distinct_languages_of_S")
	c.Assume("set(~ta) is the complement over all terminals of the grammar including eoi and invalid_token (sides with syntax/set.go; C15 owns that question)")
	c.Assume("a lookahead marker (?= X) denotes the empty string")

	d2 := buildBuckets(leafKinds, 2, 4)
	d3 := buildBuckets(leafKinds, 3, 1)
	shapes := buildBuckets([]string{"a"}, 3, 4)

	var levels []level
	for d := 0; d <= 2; d++ {
		for n := 1; n <= 4; n++ {
			if len(d2[d][n]) == 0 {
				continue
			}
			list := d2[d][n]
			masks := "nonzero"
			if d <= 1 || n <= 2 {
				masks = "all" // mask 0 repeats the tm layer: validates the hand-built model
			}
			levels = append(levels, level{name: fmt.Sprintf("depth%d/leaves%d", d, n), bodies: func() []*expr { return list }, masks: masks})
		}
	}
	levels = append(levels, level{name: "depth3/leaves1", bodies: func() []*expr { return d3[3][1] }, masks: "nonzero"})
	labeled := func(n int, labs [][]string, masks string) level {
		sh := shapes[3][n]
		return level{name: fmt.Sprintf("depth3/leaves%d/%d-labelings", n, len(labs)), masks: masks, bodies: func() []*expr {
			var out []*expr
			for _, lab := range labs {
				for _, s := range sh {
					pos := 0
					out = append(out, relabel(s, lab, &pos))
				}
			}
			return out
		}}
	}
	lab2 := [][]string{{"a", "a"}, {"a", "X"}, {"la", "b"}, {"setab", "setna"}}
	lab3 := [][]string{{"a", "a", "la"}}
	lab4 := [][]string{{"a", "la", "a", "X"}}
	// A set without terminals inside a rule: set(ta & tb) denotes no string at all.
	levels = append(levels, level{name: "empty-set", masks: "ones", bodies: func() []*expr {
		b := buildBuckets([]string{"a", "setnone"}, 2, 2)
		var out []*expr
		for d := 0; d <= 2; d++ {
			for n := 1; n <= 2; n++ {
				for _, e := range b[d][n] {
					if hasKind(e, "setnone") {
						out = append(out, e)
					}
				}
			}
		}
		return out
	}})
	levels = append(levels, level{name: "twins", bodies: twins, masks: "nonzero"})
	// The first declared nonterminal refers to itself (right and left recursion, mutual recursion with
	// the second one) and is named so that the generated names sort before it ("zz"), around it
	// ("input": after Ta_list and X_list, before lookahead_X and setof_...) or after it ("Aa").
	firstNT := func() []*expr {
		var out []*expr
		out = append(out, d2[0][1]...)
		out = append(out, d2[1][1]...)
		out = append(out, d2[1][2]...)
		out = append(out, d2[2][1]...)
		for i, e := range d2[2][2] {
			if !c.Quick() || i%8 == 0 {
				out = append(out, e)
			}
		}
		return out
	}
	var frames []frame
	for _, names := range [][2]string{{"zz", "Aa"}, {"input", "zy"}, {"Aa", "zz"}} {
		for rec := 0; rec <= 3; rec++ {
			if names[0] == "Aa" && rec != 1 && rec != 3 {
				continue
			}
			frames = append(frames, frame{S: names[0], Z: names[1], Rec: rec})
		}
	}
	frames = append(frames, frame{Rec: 1}, frame{Rec: 2}, frame{Rec: 3})
	levels = append(levels, level{name: "first-nonterminal", bodies: firstNT, masks: "ones", frames: frames})
	if c.Quick() {
		levels = append(levels, labeled(2, lab2, "ones"), labeled(3, lab3, "ones"), labeled(4, lab4, "none"))
	} else {
		var all2, all3 [][]string
		for _, a := range leafKinds {
			for _, b := range leafKinds {
				all2 = append(all2, []string{a, b})
				for _, d := range leafKinds {
					all3 = append(all3, []string{a, b, d})
				}
			}
		}
		// 4 leaves: the quick labeling plus 24 more (every leaf kind in every position, mixed neighbours)
		more4 := append([][]string{}, lab4...)
		seen := map[string]bool{strings.Join(lab4[0], ","): true}
		for i := 0; i < 24; i++ {
			l := []string{leafKinds[i%6], leafKinds[(i/2+i)%6], leafKinds[(i*5+1)%6], leafKinds[(i/6+i*2)%6]}
			if k := strings.Join(l, ","); !seen[k] {
				seen[k] = true
				more4 = append(more4, l)
			}
		}
		// 2 leaves complete, then 4 leaves under the quick labeling, then 3 leaves one labeling at a
		// time (216 of them), then the remaining labelings of 4 leaves: the tail is cut by the budget.
		levels = append(levels, labeled(2, all2, "nonzero"), labeled(4, more4[:1], "ones"))
		for _, l := range all3 {
			lv := labeled(3, [][]string{l}, "ones")
			lv.name = "depth3/leaves3/" + strings.Join(l, "-")
			levels = append(levels, lv)
		}
		for _, l := range more4[1:] {
			lv := labeled(4, [][]string{l}, "ones")
			lv.name = "depth3/leaves4/" + strings.Join(l, "-")
			levels = append(levels, lv)
		}
	}
	// own soft limit for the thorough tier (the framework's is 25 min)
	overBudget := func() bool { return c.Expired() || (!c.Quick() && time.Since(c.Start) > 18*time.Minute) }

	var mu sync.Mutex
	distinct := map[uint64]bool{}
	var nCross, nConfl, nModel, nRR, nBodies, nNontriv int64
	stopped := false
	otherViolations := 0
	for _, lv := range levels {
		if stopped {
			break
		}
		if overBudget() {
			c.Capped("levels from " + lv.name + " on were not enumerated (budget)")
			break
		}
		batch := lv.bodies()
		const chunk = 64
		nChunks := (len(batch) + chunk - 1) / chunk
		expired := false
		found := make([][]violation, nChunks)
		core.ParallelFor(nChunks, 16, func(ci int) {
			if overBudget() {
				mu.Lock()
				expired = true
				mu.Unlock()
				return
			}
			lo, hi := ci*chunk, (ci+1)*chunk
			if hi > len(batch) {
				hi = len(batch)
			}
			frames := lv.frames
			if frames == nil {
				frames = []frame{{}}
			}
			for _, e := range batch[lo:hi] {
				for _, fr := range frames {
					rl := reference(e, fr)
					todo := []*cas{{Mode: "tm", Expr: e, Frame: fr, Text: grammarText(e, fr), ref: &rl}}
					if nl := countLists(e); lv.masks != "none" {
						ones := 1<<uint(nl) - 1
						switch lv.masks {
						case "ones":
							if nl > 0 {
								todo = append(todo, &cas{Mode: "model", Expr: e, Frame: fr, RR: ones, ref: &rl})
							}
						default:
							for mask := 0; mask <= ones; mask++ {
								if mask == 0 && lv.masks != "all" {
									continue
								}
								todo = append(todo, &cas{Mode: "model", Expr: e, Frame: fr, RR: mask, ref: &rl})
							}
						}
					}
					for _, cs := range todo {
						r := check(cs)
						c.Eval(1)
						mu.Lock()
						if cs.Mode == "tm" {
							nBodies++
							if r.confl {
								nConfl++
							}
							if r.key == "" && r.nontriv {
								distinct[r.sHash] = true
								nNontriv++
							}
							if r.crossed {
								nCross++
							}
						} else {
							nModel++
							if cs.RR != 0 {
								nRR++
							}
						}
						if r.key != "" {
							found[ci] = append(found[ci], violation{r.key, r.what, cs})
						}
						mu.Unlock()
					}
				}
			}
		})
		for _, list := range found { // in enumeration order
			for _, f := range list {
				c.Violate(f.key, f.what, f.cs)
				if !strings.HasPrefix(f.key, "empty-set-in-rule:") {
					otherViolations++
				}
			}
		}
		cls := lv.name
		if parts := strings.Split(cls, "/"); len(parts) == 3 && !c.Quick() && strings.Contains(parts[2], "-") && !strings.HasSuffix(parts[2], "labelings") {
			cls = parts[0] + "/" + parts[1] + "/one-labeling-per-level"
			c.Add("levels:"+cls, 1)
		}
		c.Outcome("level:"+cls, int64(len(batch)))
		if expired {
			c.Capped("level " + lv.name + " was cut short (budget)")
			break
		}
		if otherViolations > 0 {
			c.Capped("stopped after the first level with violations (" + lv.name + ")")
			stopped = true
		}
	}
	c.Nontrivial(nNontriv)
	c.Set("bodies", nBodies)
	c.Set("distinct_languages_of_S", len(distinct))
	c.Set("bodies_with_conflicts_still_checked", nConfl)
	c.Set("cross_checked_with_cfgoracle", nCross)
	c.Set("model_layer_cases", nModel)
	c.Set("model_layer_right_recursive_cases", nRR)
	c.Outcome("tm-compiled-with-conflicts", nConfl)
	c.Outcome("tm-compiled-without-conflicts", nBodies-nConfl)
	c.Outcome("model-right-recursive", nRR)
	for _, e := range []*expr{d2[1][1][0], d2[2][3][17], d2[2][4][5000]} {
		c.Sample(e.String())
	}
}

func replay(c *core.Ctx, raw json.RawMessage) error {
	trapFatal()
	var cs cas
	if err := json.Unmarshal(raw, &cs); err != nil {
		return err
	}
	cs.Expr.fix()
	if cs.Mode == "tm" && cs.Text == "" {
		cs.Text = grammarText(cs.Expr, cs.Frame)
	}
	r := check(&cs)
	if r.key != "" {
		return fmt.Errorf("%s: %s", r.key, r.what)
	}
	return nil
}
