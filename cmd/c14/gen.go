package main

// Generators of the five grammar families. Every family is enumerated completely over the listed
// dimensions, simplest first.

type family struct {
	name string
	gen  func(yield func(g *tgram) bool)
}

func T(name string) *titem { return &titem{Term: name} }
func R(nt string, args ...targ) *titem {
	return &titem{Ref: &tref{NT: nt, Args: append([]targ{}, args...)}}
}
func G(alts ...*talt) *titem           { return &titem{Group: alts} }
func A(items ...*titem) *talt          { return &talt{Body: items} }
func GA(g pred, items ...*titem) *talt { return &talt{Guard: g, Body: items} }
func arg(name, form string) targ       { return targ{Name: name, Form: form} }
func argFrom(name, from string) targ   { return targ{Name: name, Form: "from", From: from} }
func p1(name, form string) pred        { return pred{{prim{name, form}}} }

var terms6 = []string{"ta", "tb", "tc", "td", "te", "tf"}
var terms8 = []string{"ta", "tb", "tc", "td", "te", "tf", "tg", "th"}

// probe2 is a nonterminal whose language names the valuation of F and G.
func probe2Alts() []*talt {
	return []*talt{
		GA(pred{{prim{"F", ""}, prim{"G", ""}}}, T("ta")),
		GA(pred{{prim{"F", ""}, prim{"G", "!"}}}, T("tb")),
		GA(pred{{prim{"F", "!"}, prim{"G", ""}}}, T("tc")),
		GA(pred{{prim{"F", "!"}, prim{"G", "!"}}}, T("td")),
	}
}

func allFour(nt string) []*talt {
	return []*talt{
		A(R(nt, arg("F", "+"), arg("G", "+"))),
		A(R(nt, arg("F", "+"), arg("G", "~"))),
		A(R(nt, arg("F", "~"), arg("G", "+"))),
		A(R(nt, arg("F", "~"), arg("G", "~"))),
	}
}

func generators(quick bool) []family {
	return []family{
		{"P", func(y func(*tgram) bool) { genPredicates(quick, y) }},
		{"R1", func(y func(*tgram) bool) { genR1(quick, y) }},
		{"R3", func(y func(*tgram) bool) { genR3(quick, y) }},
		{"L", func(y func(*tgram) bool) { genL(quick, y) }},
		{"R2", func(y func(*tgram) bool) { genR2(quick, y) }},
	}
}

// ---------- P: predicates

func genPredicates(quick bool, yield func(*tgram) bool) {
	var prims []prim
	for _, n := range []string{"F", "G"} {
		for _, f := range []string{"", "!", "==true", "==false", "!=true", "!=false"} {
			prims = append(prims, prim{n, f})
		}
	}
	prims = append(prims, prim{"F", "==x"}, prim{"G", "!=x"})
	small := []prim{{"F", ""}, {"F", "!"}, {"G", ""}, {"G", "!"}, {"F", "==false"}, {"G", "!=true"}, {"F", "==x"}, {"G", "!=false"}}

	mk := func(p pred, placement int) *tgram {
		g := &tgram{Flags: []gflag{{Name: "F"}, {Name: "G"}}, Inputs: []string{"S"}, Terms: terms6[:4]}
		q := &tnt{Name: "Q", Params: []tparam{{Name: "F"}, {Name: "G"}}}
		switch placement {
		case 0:
			q.Alts = []*talt{GA(p, T("ta")), A(T("tb"))}
		case 1:
			q.Alts = []*talt{GA(p, T("ta"))}
		case 2:
			q.Alts = []*talt{A(T("tc"), G(GA(p, T("ta")), A(T("tb"))), T("td"))}
		case 3:
			q.Alts = []*talt{A(T("tc"), G(GA(p, T("ta"))), T("td"))}
		}
		g.NTs = []*tnt{{Name: "S", Alts: allFour("Q")}, q}
		return g
	}
	emit := func(ps []prim, size int, placements []int) bool {
		n := len(ps)
		idx := make([]int, size)
		for {
			sel := make([]prim, size)
			for i, j := range idx {
				sel[i] = ps[j]
			}
			var shapes []pred
			switch size {
			case 1:
				shapes = []pred{{{sel[0]}}}
			case 2:
				shapes = []pred{{{sel[0], sel[1]}}, {{sel[0]}, {sel[1]}}}
			case 3:
				shapes = []pred{{{sel[0], sel[1], sel[2]}}, {{sel[0], sel[1]}, {sel[2]}}, {{sel[0]}, {sel[1], sel[2]}}, {{sel[0]}, {sel[1]}, {sel[2]}}}
			case 4:
				a, b, c, d := sel[0], sel[1], sel[2], sel[3]
				shapes = []pred{{{a, b, c, d}}, {{a, b, c}, {d}}, {{a}, {b, c, d}}, {{a, b}, {c, d}}, {{a, b}, {c}, {d}}, {{a}, {b, c}, {d}}, {{a}, {b}, {c, d}}, {{a}, {b}, {c}, {d}}}
			}
			for _, sh := range shapes {
				for _, pl := range placements {
					if !yield(mk(sh, pl)) {
						return false
					}
				}
			}
			k := size - 1
			for k >= 0 {
				idx[k]++
				if idx[k] < n {
					break
				}
				idx[k] = 0
				k--
			}
			if k < 0 {
				return true
			}
		}
	}
	all := []int{0, 1, 2, 3}
	if !emit(prims, 1, all) || !emit(prims, 2, all) {
		return
	}
	if quick {
		emit(small, 3, []int{0, 3})
		return
	}
	if !emit(prims, 3, all) {
		return
	}
	emit(small, 4, []int{0, 2}) // beyond the stated bound: 4 primaries over 8 of them
}

// ---------- declaration styles

type style struct {
	global bool
	defM   string // default on the intermediate nonterminal (inline) or of the global flag
	defP   string // default on the probe (inline)
}

func (s style) flag(name string) []gflag {
	if s.global {
		return []gflag{{Name: name, Default: s.defM}}
	}
	return nil
}

func (s style) param(name string, probe bool) tparam {
	if s.global {
		return tparam{Name: name}
	}
	d := s.defM
	if probe {
		d = s.defP
	}
	return tparam{Name: name, Inline: true, Default: d}
}

// ---------- R1: every argument form from a parameterless input

func genR1(quick bool, yield func(*tgram) bool) {
	var styles []style
	for _, d := range []string{"", "true", "false"} {
		styles = append(styles, style{global: true, defM: d}, style{global: false, defP: d})
	}
	forms := func(name, other string) [][]targ {
		return [][]targ{nil, {arg(name, "+")}, {arg(name, "~")}, {arg(name, "true")}, {arg(name, "false")}, {arg(name, "byname")}, {argFrom(name, other)}}
	}
	for _, sf := range styles {
		for _, sg := range styles {
			for _, swapParams := range []bool{false, true} {
				for _, af := range forms("F", "G") {
					for _, ag := range forms("G", "F") {
						for _, swapArgs := range []bool{false, true} {
							if swapArgs && (af == nil || ag == nil) {
								continue
							}
							g := &tgram{Inputs: []string{"S"}, Terms: terms6[:4]}
							g.Flags = append(g.Flags, sf.flag("F")...)
							g.Flags = append(g.Flags, sg.flag("G")...)
							p := &tnt{Name: "P", Params: []tparam{sf.param("F", true), sg.param("G", true)}, Alts: probe2Alts()}
							if swapParams {
								p.Params[0], p.Params[1] = p.Params[1], p.Params[0]
							}
							args := append(append([]targ{}, af...), ag...)
							if swapArgs {
								args = append(append([]targ{}, ag...), af...)
							}
							g.NTs = []*tnt{{Name: "S", Alts: []*talt{A(R("P", args...))}}, p}
							if !yield(g) {
								return
							}
						}
					}
				}
			}
		}
	}
}

// ---------- R2: argument forms x declaration styles through one templated nonterminal

func genR2(quick bool, yield func(*tgram) bool) {
	styles := []style{{global: true}, {global: true, defM: "true"}, {global: false}, {global: false, defM: "true", defP: "false"}, {global: false, defM: "false", defP: "true"}}
	if !quick {
		styles = nil
		for _, d := range []string{"", "true", "false"} {
			styles = append(styles, style{global: true, defM: d})
			for _, e := range []string{"", "true", "false"} {
				styles = append(styles, style{defM: d, defP: e})
			}
		}
	}
	forms := func(name string) [][]targ {
		return [][]targ{nil, {arg(name, "+")}, {arg(name, "~")}, {arg(name, "true")}, {arg(name, "false")}, {arg(name, "byname")}, {argFrom(name, "F")}, {argFrom(name, "G")}}
	}
	for _, mParams := range []string{"FG", "F", "GF"} {
		for _, sf := range styles {
			for _, sg := range styles {
				for _, af := range forms("F") {
					for _, ag := range forms("G") {
						for _, swapArgs := range []bool{false, true} {
							if swapArgs && (af == nil || ag == nil) {
								continue
							}
							g := &tgram{Inputs: []string{"S"}, Terms: terms6[:5]}
							g.Flags = append(g.Flags, sf.flag("F")...)
							g.Flags = append(g.Flags, sg.flag("G")...)
							p := &tnt{Name: "P", Params: []tparam{sf.param("F", true), sg.param("G", true)}, Alts: probe2Alts()}
							m := &tnt{Name: "M"}
							var sAlts []*talt
							switch mParams {
							case "FG":
								m.Params = []tparam{sf.param("F", false), sg.param("G", false)}
								sAlts = allFour("M")
							case "GF":
								m.Params = []tparam{sg.param("G", false), sf.param("F", false)}
								sAlts = allFour("M")
							case "F":
								m.Params = []tparam{sf.param("F", false)}
								sAlts = []*talt{A(R("M", arg("F", "+"))), A(R("M", arg("F", "~")))}
							}
							args := append(append([]targ{}, af...), ag...)
							if swapArgs {
								args = append(append([]targ{}, ag...), af...)
							}
							m.Alts = []*talt{A(T("te"), R("P", args...))}
							g.NTs = []*tnt{{Name: "S", Alts: sAlts}, m, p}
							if !yield(g) {
								return
							}
						}
					}
				}
			}
		}
	}
}

// ---------- R3: chains and recursion through three templated nonterminals (one flag)

func genR3(quick bool, yield func(*tgram) bool) {
	argForms := [][]targ{{arg("F", "+")}, {arg("F", "~")}, nil}
	if !quick {
		argForms = append(argForms, []targ{arg("F", "byname")}, []targ{argFrom("F", "F")})
	}
	guards := []pred{nil, p1("F", ""), p1("F", "!")}
	fp := []tparam{{Name: "F"}}
	for _, a1 := range argForms {
		for _, a2 := range argForms {
			for _, a3 := range argForms {
				for _, a4 := range argForms {
					for _, g1 := range guards {
						for _, g2 := range guards {
							for _, g3 := range guards {
								g := &tgram{Flags: []gflag{{Name: "F"}}, Inputs: []string{"S"}, Terms: terms6}
								g.NTs = []*tnt{
									{Name: "S", Alts: []*talt{A(R("N1", arg("F", "+"))), A(R("N1", arg("F", "~")))}},
									{Name: "N1", Params: fp, Alts: []*talt{A(T("ta"), R("N2", a1...)), GA(g1, T("tb"))}},
									{Name: "N2", Params: fp, Alts: []*talt{A(T("tc"), R("N3", a2...)), GA(g2, T("td"), R("N1", a3...))}},
									{Name: "N3", Params: fp, Alts: []*talt{GA(p1("F", ""), T("te")), GA(p1("F", "!"), T("tf")), GA(g3, T("tf"), R("N2", a4...))}},
								}
								if !yield(g) {
									return
								}
							}
						}
					}
				}
			}
		}
	}
}

// ---------- L: lookahead flags

// bodies returns the ways a nonterminal can refer to `to`.
func laBodies(to string) [][]*talt {
	k := func(form string) targ { return arg("K", form) }
	return [][]*talt{
		{A(R(to))},
		{A(R(to), T("tc"))},
		{A(T("tc"), R(to))},
		{A(G(A(R(to)), A(T("tc"))))},
		{A(G(A(R(to)), A(T("tc"))), T("td"))},
		{A(R(to, k("+")))},
		{A(R(to, k("~")))},
		{A(T("tc"), R(to, k("+")))},
		{A(&titem{Ref: &tref{NT: to}, Plus: true})},
		{A(&titem{Ref: &tref{NT: to}, Opt: true}, T("td"))},
		{GA(p1("K", ""), R(to)), GA(p1("K", "!"), T("tc"), R(to))},
		{A(R(to)), A()},
		{A(T("td"), G(A(R(to), T("tc")), A(T("te"))))},
		{A(R(to, k("byname")))},
		{A(R(to)), A(T("td"), R(to, k("+")))},
	}
}

func genL(quick bool, yield func(*tgram) bool) {
	cVariants := func() [][]*tnt {
		return [][]*tnt{
			{{Name: "C", Alts: []*talt{GA(p1("K", ""), T("ta")), GA(p1("K", "!"), T("tb"))}}},
			{{Name: "C", Alts: []*talt{A(R("P", argFrom("F", "K")))}},
				{Name: "P", Params: []tparam{{Name: "F"}}, Alts: []*talt{GA(p1("F", ""), T("ta")), GA(p1("F", "!"), T("tb"))}}},
			{{Name: "C", Alts: []*talt{GA(p1("K", ""), T("ta")), A(T("tb"), T("tc"))}}},
			{{Name: "C", Alts: []*talt{A(T("ta"))}}},
		}
	}
	sVariants := func() [][]*talt {
		k := func(form string) targ { return arg("K", form) }
		return [][]*talt{
			{A(R("A", k("+"))), A(T("td"), R("A", k("~"))), A(T("te"), T("te"), R("A"))},
			{A(T("tc"), R("A", k("+"))), A(R("A"))},
			{A(R("A"))},
			{A(R("A", k("true"))), A(T("td"), R("A", k("false")))},
		}
	}
	nA := len(laBodies("B"))
	for _, decl := range []string{"", "false"} {
		for ci := range cVariants() {
			for si := range sVariants() {
				for ai := 0; ai < nA; ai++ {
					for bi := 0; bi < nA; bi++ {
						if decl == "false" && quick && (ai+bi+ci)%3 != 0 {
							continue
						}
						g := &tgram{Flags: []gflag{{Name: "K", Default: decl, Lookahead: true}}, Inputs: []string{"S"}, Terms: terms6[:5]}
						cv := cVariants()[ci]
						if len(cv) > 1 {
							g.Flags = append([]gflag{{Name: "F"}}, g.Flags...)
						}
						g.NTs = []*tnt{
							{Name: "S", Alts: sVariants()[si]},
							{Name: "A", Alts: laBodies("B")[ai]},
							{Name: "B", Alts: laBodies("C")[bi]},
						}
						g.NTs = append(g.NTs, cv...)
						if !yield(g) {
							return
						}
					}
				}
			}
		}
	}
	// two lookahead flags: the order of the implicit parameters and of the name suffix
	kj := func(kf, jf string) []targ {
		var out []targ
		if jf != "" {
			out = append(out, arg("J", jf))
		}
		if kf != "" {
			out = append(out, arg("K", kf))
		}
		return out
	}
	probe := []*talt{
		GA(pred{{prim{"K", ""}, prim{"J", ""}}}, T("ta")),
		GA(pred{{prim{"K", ""}, prim{"J", "!"}}}, T("tb")),
		GA(pred{{prim{"K", "!"}, prim{"J", ""}}}, T("tc")),
		GA(pred{{prim{"K", "!"}, prim{"J", "!"}}}, T("td")),
	}
	forms := []string{"", "+", "~"}
	for _, order := range []bool{false, true} {
		for _, k1 := range forms {
			for _, j1 := range forms {
				for _, k2 := range forms {
					for _, j2 := range forms {
						for _, pos := range []int{0, 1} {
							g := &tgram{Inputs: []string{"S"}, Terms: terms6[:5]}
							g.Flags = []gflag{{Name: "K", Lookahead: true}, {Name: "J", Lookahead: true}}
							if order {
								g.Flags[0], g.Flags[1] = g.Flags[1], g.Flags[0]
							}
							bBody := A(R("C", kj(k2, j2)...))
							if pos == 1 {
								bBody = A(T("te"), R("C", kj(k2, j2)...))
							}
							g.NTs = []*tnt{
								{Name: "S", Alts: []*talt{A(R("A", kj(k1, j1)...)), A(T("te"), R("A", kj("+", "+")...))}},
								{Name: "A", Alts: []*talt{A(R("B"), T("te"))}},
								{Name: "B", Alts: []*talt{bBody}},
								{Name: "C", Alts: probe},
							}
							if !yield(g) {
								return
							}
						}
					}
				}
			}
		}
	}

	// Two lookahead flags V, W and a nonterminal M with two references in entry position that set
	// lookahead flags explicitly (every combination, so both orders), reached by propagation only:
	// what M accepts is the union over its entry references of (what the target accepts minus what
	// that reference sets), reference by reference.
	type la2 struct{ v, w string }
	argsOf := func(x la2) []targ {
		var out []targ
		if x.v != "" {
			out = append(out, arg("V", x.v))
		}
		if x.w != "" {
			out = append(out, arg("W", x.w))
		}
		return out
	}
	explicit := []la2{{"", ""}, {"+", ""}, {"~", ""}, {"", "+"}, {"", "~"}, {"+", "+"}, {"~", "+"}}
	sArgs := []la2{{"+", ""}, {"", "+"}, {"+", "+"}, {"", ""}}
	for _, order := range []bool{false, true} {
		for _, sa := range sArgs {
			for aBody := 0; aBody < 3; aBody++ {
				for _, t1 := range []string{"D", "C"} {
					for _, t2 := range []string{"D", "C"} {
						for _, x1 := range explicit {
							for _, x2 := range explicit {
								g := &tgram{Inputs: []string{"S"}, Terms: terms8}
								g.Flags = []gflag{{Name: "V", Lookahead: true}, {Name: "W", Lookahead: true}}
								if order {
									g.Flags[0], g.Flags[1] = g.Flags[1], g.Flags[0]
								}
								m := &tnt{Name: "M", Alts: []*talt{A(R(t1, argsOf(x1)...), T("tf")), A(R(t2, argsOf(x2)...))}}
								var aAlts []*talt
								switch aBody {
								case 0:
									aAlts = []*talt{A(R("M")), A(R("D"), T("tg"))}
								case 1:
									aAlts = []*talt{A(R("M"))}
								case 2:
									aAlts = []*talt{A(R("D"), T("tg")), A(T("th"), R("M")), A(R("M"), T("th"))}
								}
								g.NTs = []*tnt{
									// the last two alternatives make V and W parameters of D and C in every grammar
									{Name: "S", Alts: []*talt{A(R("A", argsOf(sa)...)),
										A(T("th"), T("th"), R("D", arg("V", "+"), arg("W", "+"))),
										A(T("th"), T("tg"), R("C", arg("V", "+"), arg("W", "+")))}},
									{Name: "A", Alts: aAlts},
									m,
									{Name: "D", Alts: []*talt{GA(p1("V", ""), T("ta")), GA(p1("W", ""), T("tb")), A(T("tc"))}},
									{Name: "C", Alts: []*talt{GA(p1("V", ""), T("td")), GA(p1("W", ""), T("th")), A(T("te"))}},
								}
								if !yield(g) {
									return
								}
							}
						}
					}
				}
			}
		}
	}
}
