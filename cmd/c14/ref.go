package main

// Reference semantics of templated grammars (denotational, written from the description of the
// feature, not from syntax/templates.go):
//
//   * a nonterminal N with parameters p1..pn denotes one language per valuation env of its parameters;
//   * an alternative `[pred] body` belongs to N<env> iff pred is true in env; a choice whose
//     alternatives are all disabled denotes the empty string (this is what the implementation does for
//     nested groups — `a ([T] b) c` becomes `a c` — and for whole nonterminals alike; the property
//     statement is silent, so the reference sides with it);
//   * a reference M<args> inside N<env> denotes M<env'> where, for every parameter p of M, env'(p) is
//     the explicit argument (`+p`, `~p`, `p: true|false`, `p: q` = env(q), `p` = env(parameter of N with
//     the same name)), else the value of the parameter of N that has the same NAME, else the default
//     value of p, else the grammar is rejected (uninitialized parameters);
//   * a lookahead flag K needs no declaration in parameter lists: a nonterminal "accepts" K if it uses
//     K (in a predicate or as the source of an argument) or one of the references that START one of
//     its alternatives goes to a nonterminal accepting K without setting K explicitly; an explicit
//     argument K on a reference to M makes K a parameter of M, and from there K travels down through
//     the starting references of each alternative; every other reference passes false.
//
// The result is a plain grammar over instances (N, env); its bounded languages come from
// extsem.PlainLangs.

import (
	"fmt"
	"sort"
	"strings"

	"verif/internal/extsem"
)

// ---------- model

type prim struct {
	Name string `json:"n"`
	Form string `json:"f,omitempty"` // "" (F), "!" (!F), "==true", "==false", "!=true", "!=false", "==x", "!=x"
}

// pred is a disjunction of conjunctions of primaries (the tm predicate syntax has no parentheses;
// && binds tighter than ||).
type pred [][]prim

func (p pred) String() string {
	var ors []string
	for _, conj := range p {
		var ands []string
		for _, q := range conj {
			switch q.Form {
			case "":
				ands = append(ands, q.Name)
			case "!":
				ands = append(ands, "!"+q.Name)
			default:
				ands = append(ands, fmt.Sprintf("%s %s \"%s\"", q.Name, q.Form[:2], q.Form[2:]))
			}
		}
		ors = append(ors, strings.Join(ands, " && "))
	}
	return strings.Join(ors, " || ")
}

type targ struct {
	Name string `json:"n"`
	Form string `json:"f"`              // "+", "~", "true", "false", "byname", "from"
	From string `json:"from,omitempty"` // for "from"
}

type tref struct {
	NT   string `json:"nt"`
	Args []targ `json:"args,omitempty"`
}

type titem struct {
	Term  string  `json:"t,omitempty"`
	Ref   *tref   `json:"r,omitempty"`
	Group []*talt `json:"g,omitempty"`
	Opt   bool    `json:"opt,omitempty"`  // item?
	Plus  bool    `json:"plus,omitempty"` // item+
}

type talt struct {
	Guard pred     `json:"guard,omitempty"`
	Body  []*titem `json:"body,omitempty"`
}

type tparam struct {
	Name    string `json:"n"`
	Inline  bool   `json:"inline,omitempty"` // `flag Name [= Default]` declared in the parameter list
	Default string `json:"def,omitempty"`
}

type tnt struct {
	Name   string   `json:"name"`
	Params []tparam `json:"params,omitempty"`
	Alts   []*talt  `json:"alts"`
}

type gflag struct {
	Name      string `json:"n"`
	Default   string `json:"def,omitempty"`
	Lookahead bool   `json:"la,omitempty"`
}

type tgram struct {
	Flags  []gflag  `json:"flags,omitempty"`
	NTs    []*tnt   `json:"nts"`
	Inputs []string `json:"inputs"`
	Terms  []string `json:"terms"`
	Class  string   `json:"class,omitempty"`
}

// ---------- text

func (a *talt) text() string {
	var sb strings.Builder
	if a.Guard != nil {
		sb.WriteString("[" + a.Guard.String() + "] ")
	}
	if len(a.Body) == 0 {
		sb.WriteString("%empty")
	}
	for i, it := range a.Body {
		if i > 0 {
			sb.WriteString(" ")
		}
		sb.WriteString(it.text())
	}
	return sb.String()
}

func (r *tref) text() string {
	if len(r.Args) == 0 {
		return r.NT
	}
	var as []string
	for _, a := range r.Args {
		switch a.Form {
		case "+":
			as = append(as, "+"+a.Name)
		case "~":
			as = append(as, "~"+a.Name)
		case "true", "false":
			as = append(as, a.Name+": "+a.Form)
		case "byname":
			as = append(as, a.Name)
		case "from":
			as = append(as, a.Name+": "+a.From)
		}
	}
	return r.NT + "<" + strings.Join(as, ", ") + ">"
}

func (it *titem) text() string {
	var s string
	switch {
	case it.Term != "":
		s = it.Term
	case it.Ref != nil:
		s = it.Ref.text()
	default:
		var alts []string
		for _, a := range it.Group {
			alts = append(alts, a.text())
		}
		s = "(" + strings.Join(alts, " | ") + ")"
	}
	if it.Opt {
		s += "?"
	}
	if it.Plus {
		s += "+"
	}
	return s
}

func (g *tgram) text() string {
	var sb strings.Builder
	sb.WriteString("language x(go);\n\n:: lexer\n\n")
	for _, t := range g.Terms {
		fmt.Fprintf(&sb, "%s: /%s/\n", t, t[1:])
	}
	sb.WriteString("\n:: parser\n\n%input " + strings.Join(g.Inputs, ", ") + ";\n\n")
	for _, f := range g.Flags {
		sb.WriteString("%")
		if f.Lookahead {
			sb.WriteString("lookahead ")
		}
		sb.WriteString("flag " + f.Name)
		if f.Default != "" {
			sb.WriteString(" = " + f.Default)
		}
		sb.WriteString(";\n")
	}
	sb.WriteString("\n")
	for _, nt := range g.NTs {
		sb.WriteString(nt.Name)
		if len(nt.Params) > 0 {
			var ps []string
			for _, p := range nt.Params {
				switch {
				case !p.Inline:
					ps = append(ps, p.Name)
				case p.Default != "":
					ps = append(ps, "flag "+p.Name+" = "+p.Default)
				default:
					ps = append(ps, "flag "+p.Name)
				}
			}
			sb.WriteString("<" + strings.Join(ps, ", ") + ">")
		}
		sb.WriteString(" :\n")
		for i, a := range nt.Alts {
			if i == 0 {
				sb.WriteString("    ")
			} else {
				sb.WriteString("  | ")
			}
			sb.WriteString(a.text() + "\n")
		}
		sb.WriteString(";\n\n")
	}
	return sb.String()
}

// ---------- evaluation

type paramInfo struct {
	name  string
	def   string
	la    bool
	owner int // nonterminal index for inline parameters, -1 for global ones
}

type refResult struct {
	errs      map[string]bool         // expected error categories (empty = must compile)
	instances map[string]*extsem.Lang // expected instance name -> language
	valuation map[string]string       // instance name -> printable valuation
	inputs    []string                // expected instance names of the inputs
	k         int                     // alphabet size
}

const maxLen = 5

type evaluator struct {
	g        *tgram
	params   []paramInfo
	ntIndex  map[string]int
	declared [][]int // per nonterminal: parameter ids in declaration order
	termIdx  map[string]int
	errs     map[string]bool

	// lookahead analysis
	entry  []map[*tref]bool
	compat []bool
	accept []map[int]bool
	has    []map[int]bool

	// instances
	instID map[string]int // key -> symbol
	instNm []string
	rules  []extsem.PRule
	nsym   int
	names  map[int]string
	vals   map[int]string
}

func evalGrammar(g *tgram) *refResult {
	ev := &evaluator{g: g, ntIndex: map[string]int{}, termIdx: map[string]int{}, errs: map[string]bool{}, instID: map[string]int{},
		names: map[int]string{}, vals: map[int]string{}}
	res := &refResult{errs: ev.errs, instances: map[string]*extsem.Lang{}, valuation: map[string]string{}, k: len(g.Terms)}
	for i, t := range g.Terms {
		ev.termIdx[t] = i
	}
	for _, f := range g.Flags {
		ev.params = append(ev.params, paramInfo{name: f.Name, def: f.Default, la: f.Lookahead, owner: -1})
	}
	for i, nt := range g.NTs {
		ev.ntIndex[nt.Name] = i
	}
	ev.declared = make([][]int, len(g.NTs))
	for i, nt := range g.NTs {
		for _, p := range nt.Params {
			if p.Inline {
				ev.params = append(ev.params, paramInfo{name: p.Name, def: p.Default, owner: i})
				ev.declared[i] = append(ev.declared[i], len(ev.params)-1)
				continue
			}
			for id, q := range ev.params {
				if q.owner == -1 && q.name == p.Name && !q.la {
					ev.declared[i] = append(ev.declared[i], id)
				}
			}
		}
	}
	// 1. front-end level problems: every reference must initialize every declared parameter of its target
	ev.forEachRef(func(src int, r *tref) {
		t := ev.ntIndex[r.NT]
		for _, p := range ev.declared[t] {
			if _, _, ok := ev.source(src, r, p); !ok {
				// category recorded by source()
				_ = ok
			}
		}
		for _, a := range r.Args {
			ev.checkArgNames(src, r, a)
		}
	})
	if len(ev.errs) > 0 {
		return res
	}
	// 2. lookahead flags
	ev.lookaheads()
	if len(ev.errs) > 0 {
		return res
	}
	// 3. instances reachable from the inputs
	ev.nsym = len(g.Terms)
	for _, in := range g.Inputs {
		sym := ev.instance(ev.ntIndex[in], map[int]bool{})
		res.inputs = append(res.inputs, ev.names[sym])
	}
	if len(ev.errs) > 0 {
		return res
	}
	langs := extsem.PlainLangs(len(g.Terms), maxLen, ev.nsym, ev.rules)
	for sym, name := range ev.names {
		res.instances[name] = langs[sym]
		res.valuation[name] = ev.vals[sym]
	}
	return res
}

func (ev *evaluator) forEachRef(f func(src int, r *tref)) {
	var walkAlts func(src int, alts []*talt)
	walkAlts = func(src int, alts []*talt) {
		for _, a := range alts {
			for _, it := range a.Body {
				if it.Ref != nil {
					f(src, it.Ref)
				}
				if it.Group != nil {
					walkAlts(src, it.Group)
				}
			}
		}
	}
	for i, nt := range ev.g.NTs {
		walkAlts(i, nt.Alts)
	}
}

// lookupIn resolves a parameter name inside nonterminal nt: a declared parameter, else a lookahead flag.
func (ev *evaluator) lookupIn(nt int, name string) (id int, ok bool) {
	for _, p := range ev.declared[nt] {
		if ev.params[p].name == name {
			return p, true
		}
	}
	for id, p := range ev.params {
		if p.la && p.name == name {
			return id, true
		}
	}
	return 0, false
}

func (ev *evaluator) checkArgNames(src int, r *tref, a targ) {
	t := ev.ntIndex[r.NT]
	if _, ok := ev.lookupIn(t, a.Name); !ok {
		ev.errs["unresolved parameter reference"] = true
	}
	switch a.Form {
	case "byname":
		if _, ok := ev.lookupIn(src, a.Name); !ok {
			ev.errs["unresolved parameter reference"] = true
		}
	case "from":
		if _, ok := ev.lookupIn(src, a.From); !ok {
			ev.errs["unresolved parameter reference"] = true
		}
	}
}

// source tells where the value of declared parameter p of r's target comes from: a constant
// ("true"/"false") or a parameter of the source nonterminal (from >= 0).
func (ev *evaluator) source(src int, r *tref, p int) (konst string, from int, ok bool) {
	name := ev.params[p].name
	for _, a := range r.Args {
		if a.Name != name {
			continue
		}
		switch a.Form {
		case "+", "true":
			return "true", -1, true
		case "~", "false":
			return "false", -1, true
		case "byname":
			if id, found := ev.lookupIn(src, a.Name); found {
				return "", id, true
			}
			// The front end reports the unresolved name, drops the argument and carries on as if
			// it had not been written (which may add "uninitialized parameters").
			ev.errs["unresolved parameter reference"] = true
		case "from":
			if id, found := ev.lookupIn(src, a.From); found {
				return "", id, true
			}
			ev.errs["unresolved parameter reference"] = true
		}
	}
	// not mentioned: same-named parameter of the source nonterminal, else the default value
	for _, q := range ev.declared[src] {
		if ev.params[q].name == name {
			return "", q, true
		}
	}
	if d := ev.params[p].def; d != "" {
		return d, -1, true
	}
	ev.errs["uninitialized parameters"] = true
	return "", -1, false
}

// explicitLA returns the lookahead flags r sets explicitly (flag id -> argument).
func (ev *evaluator) explicitLA(r *tref) map[int]targ {
	out := map[int]targ{}
	t := ev.ntIndex[r.NT]
	for _, a := range r.Args {
		declared := false
		for _, p := range ev.declared[t] {
			if ev.params[p].name == a.Name {
				declared = true
			}
		}
		if declared {
			continue
		}
		for id, p := range ev.params {
			if p.la && p.name == a.Name {
				out[id] = a
			}
		}
	}
	return out
}

func (ev *evaluator) lookaheads() {
	n := len(ev.g.NTs)
	ev.entry = make([]map[*tref]bool, n)
	ev.compat = make([]bool, n)
	ev.accept = make([]map[int]bool, n)
	ev.has = make([]map[int]bool, n)
	anyLA := false
	for _, p := range ev.params {
		if p.la {
			anyLA = true
		}
	}
	uses := make([]map[int]bool, n)
	for i, nt := range ev.g.NTs {
		ev.entry[i] = map[*tref]bool{}
		ev.accept[i] = map[int]bool{}
		ev.has[i] = map[int]bool{}
		uses[i] = map[int]bool{}
		ev.compat[i] = ev.entryAlts(i, nt.Alts)
		// uses: predicates and argument sources
		var walk func(alts []*talt)
		walk = func(alts []*talt) {
			for _, a := range alts {
				for _, conj := range a.Guard {
					for _, q := range conj {
						if id, ok := ev.lookupIn(i, q.Name); ok && ev.params[id].la {
							uses[i][id] = true
						}
					}
				}
				for _, it := range a.Body {
					if it.Ref != nil {
						for _, arg := range it.Ref.Args {
							var srcName string
							switch arg.Form {
							case "byname":
								srcName = arg.Name
							case "from":
								srcName = arg.From
							default:
								continue
							}
							if id, ok := ev.lookupIn(i, srcName); ok && ev.params[id].la {
								uses[i][id] = true
							}
						}
					}
					if it.Group != nil {
						walk(it.Group)
					}
				}
			}
		}
		walk(nt.Alts)
	}
	if !anyLA {
		return
	}
	// accept: least fixpoint
	for i := range ev.accept {
		for k := range uses[i] {
			ev.accept[i][k] = true
		}
	}
	for changed := true; changed; {
		changed = false
		for i := range ev.g.NTs {
			for r := range ev.entry[i] {
				ex := ev.explicitLA(r)
				for k := range ev.accept[ev.ntIndex[r.NT]] {
					if _, set := ex[k]; !set && !ev.accept[i][k] {
						ev.accept[i][k] = true
						changed = true
					}
				}
			}
		}
	}
	// explicit arguments: must be accepted by the target; they make the flag a parameter of the target
	dropped := map[*tref]map[int]bool{} // explicit lookahead arguments the target does not accept
	ev.forEachRef(func(src int, r *tref) {
		t := ev.ntIndex[r.NT]
		for k := range ev.explicitLA(r) {
			if !ev.accept[t][k] {
				// reported, and the argument is removed from the reference
				ev.errs["is not used in"] = true
				if dropped[r] == nil {
					dropped[r] = map[int]bool{}
				}
				dropped[r][k] = true
				continue
			}
			ev.has[t][k] = true
		}
	})
	for changed := true; changed; {
		changed = false
		for i := range ev.g.NTs {
			for k := range ev.has[i] {
				for r := range ev.entry[i] {
					t := ev.ntIndex[r.NT]
					if _, set := ev.explicitLA(r)[k]; set || !ev.accept[t][k] || ev.has[t][k] {
						continue
					}
					ev.has[t][k] = true
					changed = true
				}
			}
		}
	}
	for i := range ev.g.NTs {
		if len(ev.has[i]) > 0 && !ev.compat[i] {
			ev.errs["cannot propagate lookahead flag"] = true
		}
	}
	// A flag that is used but is not a parameter of the nonterminal. A use that sat in a removed
	// argument (see above) is gone by the time this is checked.
	for i, nt := range ev.g.NTs {
		still := map[int]bool{}
		var walk func(alts []*talt)
		walk = func(alts []*talt) {
			for _, a := range alts {
				for _, conj := range a.Guard {
					for _, q := range conj {
						if id, ok := ev.lookupIn(i, q.Name); ok && ev.params[id].la {
							still[id] = true
						}
					}
				}
				for _, it := range a.Body {
					if it.Ref != nil {
						ex := ev.explicitLA(it.Ref)
						for _, arg := range it.Ref.Args {
							var srcName string
							switch arg.Form {
							case "byname":
								srcName = arg.Name
							case "from":
								srcName = arg.From
							default:
								continue
							}
							gone := false
							for k, a2 := range ex {
								if a2 == arg && dropped[it.Ref][k] {
									gone = true
								}
							}
							if gone {
								continue
							}
							if id, ok := ev.lookupIn(i, srcName); ok && ev.params[id].la {
								still[id] = true
							}
						}
					}
					if it.Group != nil {
						walk(it.Group)
					}
				}
			}
		}
		walk(nt.Alts)
		for k := range still {
			if uses[i][k] && !ev.has[i][k] {
				ev.errs["is never provided"] = true
			}
		}
	}
}

// entryAlts collects the references that start an alternative and reports whether every alternative
// starts with a non-nullable clause.
func (ev *evaluator) entryAlts(nt int, alts []*talt) bool {
	ok := len(alts) > 0
	for _, a := range alts {
		if !ev.entrySeq(nt, a.Body) {
			ok = false
		}
	}
	return ok
}

func (ev *evaluator) entrySeq(nt int, body []*titem) bool {
	if len(body) == 0 {
		return false
	}
	it := body[0]
	var ok bool
	switch {
	case it.Term != "":
		ok = true
	case it.Ref != nil:
		ev.entry[nt][it.Ref] = true
		ok = true
	default:
		ok = ev.entryAlts(nt, it.Group)
	}
	if it.Opt {
		return false
	}
	return ok // item+ keeps the verdict of its element
}

func evalPred(p pred, val func(name string) string) bool {
	for _, conj := range p {
		all := true
		for _, q := range conj {
			v := val(q.Name)
			var t bool
			switch q.Form {
			case "":
				t = v == "true"
			case "!":
				t = v != "true"
			default:
				if q.Form[:2] == "==" {
					t = v == q.Form[2:]
				} else {
					t = v != q.Form[2:]
				}
			}
			if !t {
				all = false
			}
		}
		if all {
			return true
		}
	}
	return false
}

func (ev *evaluator) paramsOf(nt int) []int {
	ids := append([]int{}, ev.declared[nt]...)
	for k := range ev.has[nt] {
		ids = append(ids, k)
	}
	sort.Ints(ids)
	return ids
}

// instance returns the symbol of (nt, env), creating its rules on first use.
func (ev *evaluator) instance(nt int, env map[int]bool) int {
	ids := ev.paramsOf(nt)
	name := ev.g.NTs[nt].Name
	var vs []string
	key := name
	for _, id := range ids {
		key += fmt.Sprintf("|%d=%v", id, env[id])
		vs = append(vs, fmt.Sprintf("%s=%v", ev.params[id].name, env[id]))
		if env[id] {
			name += "_" + ev.params[id].name
		}
	}
	if sym, ok := ev.instID[key]; ok {
		return sym
	}
	sym := ev.nsym
	ev.nsym++
	ev.instID[key] = sym
	ev.names[sym] = name
	ev.vals[sym] = strings.Join(vs, ",")
	ev.choice(sym, nt, env, ev.g.NTs[nt].Alts)
	return sym
}

func (ev *evaluator) fresh() int {
	s := ev.nsym
	ev.nsym++
	return s
}

// choice gives lhs one rule per enabled alternative; no enabled alternative = the empty string.
func (ev *evaluator) choice(lhs, nt int, env map[int]bool, alts []*talt) {
	enabled := 0
	for _, a := range alts {
		if a.Guard != nil {
			ok := evalPred(a.Guard, func(name string) string {
				id, found := ev.lookupIn(nt, name)
				if !found {
					ev.errs["unresolved parameter reference"] = true
					return ""
				}
				if env[id] {
					return "true"
				}
				return "false"
			})
			if !ok {
				continue
			}
		}
		enabled++
		r := extsem.PRule{LHS: lhs}
		for pos, it := range a.Body {
			var sym int
			switch {
			case it.Term != "":
				sym = ev.termIdx[it.Term]
			case it.Ref != nil:
				sym = ev.refInstance(nt, env, it.Ref, pos == 0)
			default:
				sym = ev.fresh()
				ev.choice(sym, nt, env, it.Group)
			}
			if it.Opt {
				o := ev.fresh()
				ev.rules = append(ev.rules, extsem.PRule{LHS: o, RHS: []int{sym}}, extsem.PRule{LHS: o})
				sym = o
			}
			if it.Plus {
				l := ev.fresh()
				ev.rules = append(ev.rules, extsem.PRule{LHS: l, RHS: []int{l, sym}}, extsem.PRule{LHS: l, RHS: []int{sym}})
				sym = l
			}
			r.RHS = append(r.RHS, sym)
		}
		ev.rules = append(ev.rules, r)
	}
	if enabled == 0 {
		ev.rules = append(ev.rules, extsem.PRule{LHS: lhs})
	}
}

func (ev *evaluator) refInstance(src int, env map[int]bool, r *tref, first bool) int {
	t := ev.ntIndex[r.NT]
	tenv := map[int]bool{}
	for _, p := range ev.declared[t] {
		konst, from, ok := ev.source(src, r, p)
		if !ok {
			continue
		}
		if from >= 0 {
			tenv[p] = env[from]
		} else {
			tenv[p] = konst == "true"
		}
	}
	ex := ev.explicitLA(r)
	isEntry := ev.entry[src][r]
	for k := range ev.has[t] {
		if a, set := ex[k]; set {
			switch a.Form {
			case "+", "true":
				tenv[k] = true
			case "~", "false":
				tenv[k] = false
			case "byname":
				id, _ := ev.lookupIn(src, a.Name)
				tenv[k] = env[id]
			case "from":
				id, _ := ev.lookupIn(src, a.From)
				tenv[k] = env[id]
			}
			continue
		}
		if isEntry && ev.has[src][k] {
			tenv[k] = env[k]
		} else {
			tenv[k] = false
		}
	}
	return ev.instance(t, tenv)
}
