// C14: template instantiation preserves meaning.
//
// Enumerated: templated grammars in five families (gen.go). P: every predicate with up to three
// primaries (F, !F, F == "v", F != "v") joined by && and ||, in four placements. R1: every argument
// form on a reference from a parameterless input. R2: every argument form x declaration style (global
// or inline flags, defaults) through one templated nonterminal. R3: chains and recursion through three
// templated nonterminals. L: lookahead flags propagated through up to two intermediate nonterminals.
//
// Oracle (ref.go): the template is evaluated denotationally to a plain grammar over instances
// (N, valuation) whose bounded language (L=5) is computed by extsem.PlainLangs. Observed through
// compiler.Compile: for every nonterminal in grammar.Parser.Nonterms named <template>[_<Flag>...] the
// language of its plain rules (grammar.Parser.Rules) must equal the denotation under the valuation the
// suffix encodes; the set of such names must be exactly the set of instances reachable from the
// inputs; every input must be the instance with all parameters at their defaults; and grammars the
// description rejects must be rejected with the corresponding message.
package main

import (
	"context"
	"encoding/json"
	"fmt"
	"log"
	"os"
	"runtime"
	"sort"
	"strings"
	"sync"

	"github.com/inspirer/textmapper/compiler"
	"github.com/inspirer/textmapper/status"

	"verif/internal/core"
	"verif/internal/extsem"
)

func main() { core.Main("C14", "exploration", run, replay, nil) }

var errCategories = []string{
	"uninitialized parameters",
	"unresolved parameter reference",
	"is not used in",
	"cannot propagate lookahead flag",
	"is never provided",
}

type observed struct {
	names     []string // all symbols
	nTerms    int
	rules     []extsem.PRule
	ntNames   []string
	inputs    []string
	errs      map[string]bool
	other     []string
	confl     bool
	haveRules bool
}

func observe(text string, k int) (*observed, error) {
	o := &observed{errs: map[string]bool{}}
	err := core.Guard(func() {
		g, cerr := compiler.Compile(context.Background(), "c14.tm", text, compiler.Params{CheckOnly: false})
		for _, e := range status.FromError(cerr) {
			matched := false
			for _, cat := range errCategories {
				if strings.Contains(e.Msg, cat) {
					o.errs[cat] = true
					matched = true
				}
			}
			if !matched {
				if strings.Contains(e.Msg, "conflict") {
					o.confl = true
				} else {
					o.other = append(o.other, e.Msg)
				}
			}
		}
		if g == nil || g.Parser == nil || len(g.Parser.Rules) == 0 {
			return
		}
		o.haveRules = true
		o.nTerms = g.NumTokens
		for _, s := range g.Syms {
			o.names = append(o.names, s.Name)
		}
		conv := func(s int) int { return s - 2 } // drop eoi and invalid_token: they never occur in rules
		for _, r := range g.Parser.Rules {
			pr := extsem.PRule{LHS: conv(int(r.LHS))}
			for _, s := range r.RHS {
				if s.IsStateMarker() {
					continue
				}
				if int(s) < 2 {
					o.other = append(o.other, "eoi/invalid_token inside a rule")
					return
				}
				pr.RHS = append(pr.RHS, conv(int(s)))
			}
			o.rules = append(o.rules, pr)
		}
		for _, nt := range g.Parser.Nonterms {
			o.ntNames = append(o.ntNames, nt.Name)
		}
		for _, in := range g.Parser.Inputs {
			if !in.Synthetic {
				o.inputs = append(o.inputs, g.Parser.Nonterms[in.Nonterm].Name)
			}
		}
	})
	return o, err
}

type verdict struct {
	key, what string
	rejected  bool
	instances []string // "name:hash" of non-trivial instance languages
	nInst     int
}

func keys(m map[string]bool) string {
	var ks []string
	for k := range m {
		ks = append(ks, k)
	}
	sort.Strings(ks)
	return strings.Join(ks, "; ")
}

func langStrings(l *extsem.Lang, terms []string) string {
	var out []string
	for _, s := range l.Strings(12) {
		var w []string
		for i := 0; i < len(s); i++ {
			w = append(w, terms[s[i]-'a'])
		}
		if len(w) == 0 {
			out = append(out, "ε")
		} else {
			out = append(out, strings.Join(w, " "))
		}
	}
	return "{" + strings.Join(out, ", ") + "}"
}

func check(g *tgram) (v verdict) {
	text := g.text()
	ref := evalGrammar(g)
	o, perr := observe(text, len(g.Terms))
	cls := g.Class
	if cls == "" {
		cls = "replay"
	}
	fail := func(site, format string, args ...any) {
		if v.key == "" {
			v.key = cls + ":" + site
			v.what = fmt.Sprintf(format, args...) + "\n--- grammar ---\n" + text
		}
	}
	if ref.errs["is never provided"] && !o.errs["is never provided"] {
		// One root cause (see the final report): the diagnostic is lost; without another error the
		// compiler then runs into log.Fatal during instantiation.
		how := "other diagnostics were reported: [" + keys(o.errs) + "]"
		if perr != nil {
			how = "and compiler.Compile then ends the process with log.Fatal(\"" + fatalMessage(perr) + "\")"
		} else if len(o.errs) == 0 {
			how = "and the grammar compiled"
		}
		fail0 := func() {
			v.key = "lookahead:never-provided-diagnostic-lost"
			v.what = "a lookahead flag is used by a nonterminal that never receives it, but \"lookahead flag ... is never provided\" is not reported, " + how + "\n--- grammar ---\n" + text
		}
		fail0()
		return
	}
	if perr != nil {
		if m := fatalMessage(perr); m != "" {
			// the process would have exited here
			fail("fatal:"+m, "compiler.Compile ends the process with log.Fatal(%q); the description expects: %s", m, expectation(ref))
			return
		}
		fail("panic:"+core.PanicSite(perr), "%v", perr)
		return
	}
	if len(o.other) > 0 {
		fail("unexpected-error", "unexpected compile error: %s", o.other[0])
		return
	}
	if len(ref.errs) > 0 || len(o.errs) > 0 {
		v.rejected = true
		if keys(ref.errs) != keys(o.errs) {
			switch {
			case len(o.errs) == 0:
				fail("not-rejected:"+keys(ref.errs), "the grammar must be rejected (%s) but compiled", keys(ref.errs))
			case len(ref.errs) == 0:
				fail("spurious-rejection:"+keys(o.errs), "the grammar is valid but was rejected: %s", keys(o.errs))
			default:
				fail("wrong-rejection", "rejected with [%s], expected [%s]", keys(o.errs), keys(ref.errs))
			}
		}
		return
	}
	if !o.haveRules {
		fail("no-rules", "compiled without errors but produced no rules")
		return
	}
	if o.nTerms != len(g.Terms)+2 {
		fail("terminals", "%d terminals, expected %d", o.nTerms, len(g.Terms)+2)
		return
	}
	langs := extsem.PlainLangs(len(g.Terms), maxLen, len(o.names)-2, o.rules)
	// instances among the observed nonterminals
	isTemplate := map[string]*tnt{}
	for _, nt := range g.NTs {
		isTemplate[nt.Name] = nt
	}
	flagNames := map[string]bool{}
	for _, f := range g.Flags {
		flagNames[f.Name] = true
	}
	for _, nt := range g.NTs {
		for _, p := range nt.Params {
			flagNames[p.Name] = true
		}
	}
	seen := map[string]bool{}
	for i, name := range o.ntNames {
		parts := strings.Split(name, "_")
		if isTemplate[parts[0]] == nil {
			continue // synthesized by the expansion of lists etc.
		}
		inst := true
		for _, f := range parts[1:] {
			if !flagNames[f] {
				inst = false
			}
		}
		if !inst {
			continue
		}
		if seen[name] {
			fail("duplicate-instance", "two nonterminals are named %s", name)
			return
		}
		seen[name] = true
		want, ok := ref.instances[name]
		if !ok {
			fail("unexpected-instance", "instance %s exists but no reference from the inputs leads to it (expected: %s)", name, keys(boolKeys(ref.instances)))
			return
		}
		got := langs[len(g.Terms)+i]
		if w, inGot, diff := extsem.FirstDiff(got, want); diff {
			dir := "missing"
			if inGot {
				dir = "extra"
			}
			var ws []string
			for _, d := range w {
				ws = append(ws, g.Terms[d])
			}
			fail("instance-language:"+dir, "instance %s (%s) derives %s, the template under that valuation denotes %s (first difference: %q)",
				name, ref.valuation[name], langStrings(got, g.Terms), langStrings(want, g.Terms), strings.Join(ws, " "))
			return
		}
		v.nInst++
		if want.Size() > 0 {
			v.instances = append(v.instances, fmt.Sprintf("%s/%x", ref.valuation[name], want.Hash()))
		}
	}
	for name := range ref.instances {
		if !seen[name] {
			fail("missing-instance", "instance %s (%s) is reachable from the inputs but was not generated (have: %v)", name, ref.valuation[name], o.ntNames)
			return
		}
	}
	if strings.Join(o.inputs, ",") != strings.Join(ref.inputs, ",") {
		fail("inputs", "inputs are %v, expected %v", o.inputs, ref.inputs)
	}
	return
}

func expectation(ref *refResult) string {
	if len(ref.errs) > 0 {
		return "rejection with [" + keys(ref.errs) + "]"
	}
	return "a grammar with instances " + keys(boolKeys(ref.instances))
}

func boolKeys(m map[string]*extsem.Lang) map[string]bool {
	out := map[string]bool{}
	for k := range m {
		out[k] = true
	}
	return out
}

// fatalTrap turns log.Fatal inside the code under test into a panic that core.Guard recovers: the
// logger writes the message before it calls os.Exit, so a writer that panics keeps the process (and
// the enumeration) alive. Expansion warnings (log.Printf) pass through silently.
type fatalTrap struct{}

func (fatalTrap) Write(p []byte) (int, error) {
	if strings.Contains(string(p), "WARNING") {
		return len(p), nil
	}
	panic("log.Fatal: " + strings.TrimSpace(string(p)))
}

func trapFatal() {
	log.SetFlags(0)
	log.SetOutput(fatalTrap{})
}

// fatalMessage extracts the log.Fatal message from a Guard error ("" if it is an ordinary panic).
func fatalMessage(err error) string {
	s := err.Error()
	i := strings.Index(s, "log.Fatal: ")
	if i < 0 {
		return ""
	}
	s = s[i+len("log.Fatal: "):]
	if j := strings.IndexByte(s, '\n'); j >= 0 {
		s = s[:j]
	}
	return s
}

func calmDown() {
	data, err := os.ReadFile("/proc/loadavg")
	if err != nil {
		return
	}
	var load float64
	fmt.Sscanf(string(data), "%f", &load)
	if load > 32 {
		runtime.GOMAXPROCS(4)
	}
}

func run(c *core.Ctx) {
	trapFatal()
	calmDown()
	c.Rule("five families of templated grammars, each enumerated completely over its stated dimensions (see gen.go): P predicates x placements, R1 argument " +
		"forms from an input, R2 argument forms x declaration styles through one templated nonterminal, R3 chains/recursion through three, L lookahead flags. " +
		"nontrivial = distinct grammar texts that compile and whose instances (all compared) include one with a non-empty language; " +
		"grammars the description rejects are counted separately and must be rejected with the matching message")
	c.Assume("a choice whose alternatives are all disabled denotes the empty string (sides with syntax/templates.go doExpr; the statement is silent)")
	c.Assume("lookahead flags default to false whatever their declared default; only `= false` and no default are generated")

	var mu sync.Mutex
	distinct := map[string]bool{}
	texts := map[string]bool{}
	var nRejected, nInst, nGrams int64
	perFamily := map[string]int64{}
	families := generators(c.Quick())
	for _, fam := range families {
		if c.Expired() {
			c.Capped("families from " + fam.name + " on were not enumerated (budget)")
			break
		}
		var batch []*tgram
		flush := func() {
			vs := make([]verdict, len(batch))
			core.ParallelFor(len(batch), 16, func(i int) {
				v := check(batch[i])
				vs[i] = v
				c.Eval(1)
				mu.Lock()
				nGrams++
				perFamily[batch[i].Class]++
				if v.rejected {
					nRejected++
				}
				nInst += int64(v.nInst)
				if len(v.instances) > 0 {
					texts[batch[i].text()] = true
				}
				for _, s := range v.instances {
					distinct[s] = true
				}
				mu.Unlock()
			})
			for i, v := range vs { // in enumeration order: the recorded case of a key is its simplest one
				if v.key != "" {
					c.Violate(v.key, v.what, batch[i])
				}
			}
			batch = batch[:0]
		}
		capped := false
		fam.gen(func(g *tgram) bool {
			if c.Expired() {
				capped = true
				return false
			}
			g.Class = fam.name
			batch = append(batch, g)
			if len(batch) >= 2048 {
				flush()
			}
			return c.ViolationCount() < 25
		})
		flush()
		if capped {
			c.Capped("family " + fam.name + " cut short (budget)")
			break
		}
	}
	for f, n := range perFamily {
		c.Outcome("family:"+f, n)
	}
	c.Outcome("rejected-as-expected", nRejected)
	c.Outcome("compiled", nGrams-nRejected)
	c.Nontrivial(int64(len(texts)))
	c.Set("distinct_valuation_language_pairs", len(distinct))
	c.Set("grammars", nGrams)
	c.Set("instances_compared", nInst)
	c.Set("grammars_rejected_as_expected", nRejected)
	var ds []string
	for d := range distinct {
		ds = append(ds, d)
	}
	sort.Strings(ds)
	for i := 0; i < len(ds); i += len(ds)/8 + 1 {
		c.Sample(ds[i])
	}
}

func replay(c *core.Ctx, raw json.RawMessage) error {
	trapFatal()
	var g tgram
	if err := json.Unmarshal(raw, &g); err != nil {
		return err
	}
	v := check(&g)
	if v.key != "" {
		return fmt.Errorf("%s: %s", v.key, v.what)
	}
	return nil
}
