package main

import (
	"fmt"
	"os"
	"time"

	"verif/internal/genharness"
	"verif/internal/gramenum"
)

func main() {
	var specs []genharness.Spec
	k := 0
	base := int(time.Now().Unix() % 1000 * 100)
	gramenum.Enumerate(gramenum.Scope{N: 1, T: 2, R: 2, K: 2, Reduced: true}, func(idx int, g *gramenum.Gram) bool {
		if k >= 40 {
			return false
		}
		name := fmt.Sprintf("g%d", base+k)
		inputs := []gramenum.Input{{NT: g.T + 1, Eoi: true}}
		tm := g.ToTM(inputs, gramenum.TMOpts{Name: name, Events: true})
		specs = append(specs, genharness.Spec{Name: name, TM: tm, Cases: []genharness.Case{{Text: "ab", Mode: "parse"}}})
		k++
		return true
	})
	t0 := time.Now()
	outs, err := genharness.RunBatch(specs, genharness.BatchOpts{KeepDir: os.Getenv("KEEP") != ""})
	fmt.Println(err, time.Since(t0), len(outs))
}
