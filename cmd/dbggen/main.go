package main

import (
	"fmt"
	"os"

	"github.com/inspirer/textmapper/grammar"

	"verif/internal/genharness"
)

func main() {
	data, _ := os.ReadFile(os.Args[1])
	outs, err := genharness.RunBatch([]genharness.Spec{{Name: "g0001", TM: string(data), Cases: []genharness.Case{{Text: os.Args[2]}}, Driver: func(g *grammar.Grammar, name string) string { return genharness.StdDriver(g, name) + os.Getenv("EXTRA") }}}, genharness.BatchOpts{Vet: true})
	fmt.Println(err)
	o := outs[0]
	fmt.Println("gen:", o.GenErr, o.GenPanic, "build:", o.BuildErr)
	fmt.Printf("%+v\n", o.Results)
}
