package main

import (
	"fmt"
	"strings"

	"verif/internal/core"
	"verif/internal/genharness"
	"verif/internal/gramenum"
	"verif/internal/reflalr"
	"verif/internal/tabinterp"
)

// Layer B: the chosen action observed in a parse of the real generated parser. Operator-family
// cases (without mixed cells) are printed as .tm text with %left/%right/%nonassoc declarations,
// %prec markers and %expect/%expect-rr set to the number of choices precedence leaves undecided,
// generated, built and run on every input <= 5 tokens. The listener's reduction sequence, the
// verdict and the error offset must equal those of the reference LR parser driven by the
// documented resolutions (internal/reflalr + the rule in expect()).
func (k *caseT) tm(name string, sr, rr int, opts []string) string {
	var sb strings.Builder
	g := k.G
	fmt.Fprintf(&sb, "language %s(go);\n\npackage = \"scratch/%s\"\neventBased = true\n", name, name)
	for _, o := range opts {
		sb.WriteString(o + "\n")
	}
	sb.WriteString("\n:: lexer\n\n")
	for t := 1; t <= g.T; t++ {
		fmt.Fprintf(&sb, "%s: /%c/\n", g.SymName(t), gramenum.TermChar(t))
	}
	fmt.Fprintf(&sb, "\n:: parser\n\n%%input %s;\n\n", g.SymName(k.Inputs[0].NT))
	for _, p := range k.Prec {
		kw := []string{"%left", "%right", "%nonassoc"}[p.Assoc]
		sb.WriteString(kw)
		for _, t := range p.Terms {
			sb.WriteString(" " + g.SymName(t))
		}
		sb.WriteString(";\n")
	}
	if sr > 0 {
		fmt.Fprintf(&sb, "%%expect %d;\n", sr)
	}
	if rr > 0 {
		fmt.Fprintf(&sb, "%%expect-rr %d;\n", rr)
	}
	fmt.Fprintf(&sb, "\n%s :\n", g.SymName(k.Inputs[0].NT))
	for i, r := range g.Rules {
		if i == 0 {
			sb.WriteString("    ")
		} else {
			sb.WriteString("  | ")
		}
		for j, s := range r.RHS {
			if j > 0 {
				sb.WriteString(" ")
			}
			sb.WriteString(g.SymName(s))
		}
		if k.RulePrec[i] != 0 {
			sb.WriteString(" %prec " + g.SymName(k.RulePrec[i]))
		}
		fmt.Fprintf(&sb, " -> R%d\n", i)
	}
	sb.WriteString(";\n")
	return sb.String()
}

// table options rotated over the generated grammars (by index): the resolution of a conflict by
// precedence has to survive every table encoding, in particular the explicit error entries of
// %nonassoc under defaultReduce (which replaces the most common reduction of a state by a default).
var layerBOptions = [][]string{
	nil,
	{"optimizeTables = true"},
	{"optimizeTables = true", "defaultReduce = true"},
	{"minimizeDFA = true"},
}

func layerB(c *core.Ctx, cands []caseT, maxGrammars int) {
	if len(cands) > maxGrammars {
		var sel []caseT
		for i := 0; i < maxGrammars; i++ {
			sel = append(sel, cands[i*len(cands)/maxGrammars])
		}
		c.Capped(fmt.Sprintf("Layer B: %d of %d operator-family cases generated and built (deterministic stride)", maxGrammars, len(cands)))
		cands = sel
	}
	const LB = 5
	const batch = 80
	for start := 0; start < len(cands); start += batch {
		if c.Expired() {
			c.Capped(fmt.Sprintf("Layer B stopped after %d grammars (budget)", start))
			return
		}
		end := min(start+batch, len(cands))
		var specs []genharness.Spec
		type refInfo struct {
			ref *reflalr.Automaton
			exp *expected
		}
		infos := make([]refInfo, 0, end-start)
		for i := start; i < end; i++ {
			k := cands[i]
			ref := reflalr.Build(k.G, k.Inputs)
			exp := k.expect(ref, nil)
			infos = append(infos, refInfo{ref, exp})
			name := fmt.Sprintf("g%04d", i)
			var cases []genharness.Case
			gramenum.AllStrings(k.G.T, LB, func(w string) { cases = append(cases, genharness.Case{Text: w, Mode: "parse"}) })
			specs = append(specs, genharness.Spec{Name: name, TM: k.tm(name, exp.sr, exp.rr, layerBOptions[i%len(layerBOptions)]), Cases: cases})
		}
		outs, err := genharness.RunBatch(specs, genharness.BatchOpts{})
		if err != nil {
			c.Violate("layerB:harness", err.Error(), nil)
			return
		}
		for bi, out := range outs {
			k := cands[start+bi]
			rc := map[string]any{"tm": specs[bi].TM}
			switch {
			case out.GenPanic != "":
				c.Violate("layerB:generate-panic", out.GenPanic, rc)
				continue
			case out.GenErr != "":
				// %expect values come from the documented rule: a complaint about conflicts means the
				// compiler counts differently
				if strings.Contains(out.GenErr, "conflict") {
					c.Violate("layerB:conflict-count-differs-from-documented-rule", out.GenErr+" :: "+k.Grammar+fmt.Sprintf(" prec=%v ruleprec=%v", k.Prec, k.RulePrec), rc)
				} else {
					c.Add("layerB_rejected_by_frontend", 1)
					if c.SampleCount() < 8 {
						c.Sample(map[string]any{"frontend_rejects": k.Grammar, "error": out.GenErr})
					}
				}
				continue
			case out.BuildErr != "":
				c.Violate("layerB:generated-code-does-not-build", out.BuildErr, rc)
				continue
			}
			c.Add("layerB_grammars_built", 1)
			info := infos[bi]
			for ci, cs := range specs[bi].Cases {
				res := out.Results[ci]
				w := cs.Text
				c.Eval(1)
				if res.Panic != "" || res.Hang || res.Aborted {
					c.Violate("layerB:parser-crash-or-hang", fmt.Sprintf("%+v on %q", res, w), rc)
					continue
				}
				toks := make([]int, len(w))
				for i := range w {
					toks[i] = int(w[i]-'a') + 1
				}
				tr := refRun(info.ref, info.exp, 0, toks)
				var want, got []string
				for _, st := range tr {
					if st.Kind == tabinterp.Reduce {
						want = append(want, fmt.Sprintf("R%d", st.Arg))
					}
				}
				for _, e := range res.Events {
					got = append(got, e.Type)
				}
				last := tr.Last()
				if last.Kind == tabinterp.Loop {
					continue // the documented resolutions themselves loop (ambiguous grammar resolved into a cycle): nothing is promised
				}
				if last.Kind == tabinterp.Error && strings.Contains(specs[bi].TM, "defaultReduce = true") && len(got) >= len(want) {
					// defaultReduce: the parser may perform further (default) reductions before it
					// notices the error at the same token; the documented reductions must be a prefix
					got = got[:len(want)]
					c.Add("layerB_error_runs_under_defaultReduce", 1)
				}
				bad := fmt.Sprint(got) != fmt.Sprint(want) || (last.Kind == tabinterp.Accept) != res.Accept || (last.Kind == tabinterp.Error && last.Arg != res.ErrOff)
				if bad {
					c.Violate("layerB:parse-differs-from-documented-resolution", fmt.Sprintf("on %q: generated parser reduces %v accept=%v erroff=%d; documented resolutions give [%s] :: %s prec=%v ruleprec=%v", w, got, res.Accept, res.ErrOff, tr, k.Grammar, k.Prec, k.RulePrec), map[string]any{"tm": specs[bi].TM, "text": w})
					continue
				}
				c.Add("layerB_parses_compared", 1)
			}
		}
	}
}
