// C04: precedence and associativity resolve conflicts as documented.
// Layer A: grammars with %left/%right/%nonassoc declarations and %prec markers are compiled with
// lalr.Compile; every lookahead-dependent cell is compared with the statement's resolution rule
// applied to the candidate actions of the reference LALR(1) automaton (internal/reflalr), the
// SR/RR counts and the error status are compared, and a reference LR parser driven by the
// resolved reference cells is run in lock-step with the implementation's tables on every input.
package main

import (
	"encoding/json"
	"fmt"
	"sort"
	"sync"
	"sync/atomic"

	"github.com/inspirer/textmapper/lalr"

	"verif/internal/core"
	"verif/internal/gramenum"
	"verif/internal/reflalr"
	"verif/internal/tabinterp"
)

type precDecl struct {
	Assoc int   `json:"assoc"` // 0 left, 1 right, 2 nonassoc
	Terms []int `json:"terms"`
}

type caseT struct {
	Grammar string           `json:"grammar"`
	G       *gramenum.Gram   `json:"g"`
	Inputs  []gramenum.Input `json:"inputs"`
	Prec    []precDecl       `json:"prec"`
	RulePrec []int           `json:"rule_prec"` // per rule: %prec terminal or 0
	W       string           `json:"w,omitempty"`
}

func main() { core.Main("C04", "exploration", run, replay, nil) }

func (k *caseT) lalrGrammar() *lalr.Grammar {
	lg := k.G.ToLalr(k.Inputs)
	for _, p := range k.Prec {
		var ts []lalr.Sym
		for _, t := range p.Terms {
			ts = append(ts, lalr.Sym(t))
		}
		lg.Precedence = append(lg.Precedence, lalr.Precedence{Associativity: lalr.Associativity(p.Assoc), Terminals: ts})
	}
	for i, t := range k.RulePrec {
		lg.Rules[i].Precedence = lalr.Sym(t)
	}
	return lg
}

// resolution per the statement
const (
	rShift = iota
	rReduce
	rError
	rUnresolved
)

func (k *caseT) group(t int) int {
	for gi, p := range k.Prec {
		for _, x := range p.Terms {
			if x == t {
				return gi
			}
		}
	}
	return -1
}

// resolve decides a {shift t, reduce rule} choice by the documented rule.
func (k *caseT) resolve(rule, t int) int {
	rp := k.RulePrec[rule]
	if rp == 0 {
		rhs := k.G.Rules[rule].RHS
		for i := len(rhs) - 1; i >= 0; i-- {
			if rhs[i] <= k.G.T {
				rp = rhs[i]
				break
			}
		}
	}
	if rp == 0 || t == 0 {
		return rUnresolved
	}
	gr, gt := k.group(rp), k.group(t)
	if gr < 0 || gt < 0 {
		return rUnresolved
	}
	switch {
	case gr > gt:
		return rReduce
	case gr < gt:
		return rShift
	}
	switch k.Prec[gt].Assoc {
	case 0:
		return rReduce
	case 1:
		return rShift
	}
	return rError
}

type expected struct {
	// per (ref state, terminal): kind 's' shift, 'r' reduce(arg), 'e' error, '?' unspecified (mixed cell)
	kind [][]byte
	arg  [][]int
	sr, rr int
	mixed  bool
}

// expect computes the documented action per cell. consultsLA marks input states in which the
// implementation consults the lookahead although the LR(0) shortcut would be permitted (see the
// note in cmd/c03: canonical LALR(1) behaviour, accepted for input states only).
func (k *caseT) expect(ref *reflalr.Automaton, consultsLA map[int]bool) *expected {
	e := &expected{}
	for si, s := range ref.States {
		kinds := make([]byte, k.G.T+1)
		args := make([]int, k.G.T+1)
		for t := 0; t <= k.G.T; t++ {
			if ref.IsLR0(s) && !consultsLA[si] {
				switch {
				case len(s.Reduce) == 1:
					kinds[t], args[t] = 'r', s.Reduce[0]
				default:
					if _, ok := s.Goto[t]; ok {
						kinds[t] = 's'
					} else {
						kinds[t] = 'e'
					}
				}
				continue
			}
			c := ref.CellOf(s, t)
			switch {
			case !c.Shift && len(c.Reduces) == 0:
				kinds[t] = 'e'
			case c.Shift && len(c.Reduces) == 0:
				kinds[t] = 's'
			case !c.Shift && len(c.Reduces) == 1:
				kinds[t], args[t] = 'r', c.Reduces[0]
			case !c.Shift:
				// unresolved reduce/reduce: defaults to the earlier rule
				kinds[t], args[t] = 'r', c.Reduces[0]
				e.rr++
			case len(c.Reduces) == 1:
				switch k.resolve(c.Reduces[0], t) {
				case rShift:
					kinds[t] = 's'
				case rReduce:
					kinds[t], args[t] = 'r', c.Reduces[0]
				case rError:
					kinds[t] = 'e'
				default:
					kinds[t] = 's' // reported, defaults to shift
					e.sr++
				}
			default:
				// shift + several reductions: the statement does not say how the pairwise decisions
				// combine; the implementation's choice is accepted as long as it is one of the candidates
				// or an error, and conflict counts are not compared for this grammar.
				kinds[t] = '?'
				e.mixed = true
			}
		}
		e.kind = append(e.kind, kinds)
		e.arg = append(e.arg, args)
	}
	return e
}

type res struct {
	key, msg string
	sr, rr   int
	resolved int
	mixed    bool
}

func (k *caseT) check(L int, cnt *int64) res {
	lg := k.lalrGrammar()
	var tbl *lalr.Tables
	var cerr error
	if err := core.Guard(func() { tbl, cerr = lalr.Compile(lg, lalr.Options{}) }); err != nil {
		return res{key: "panic:" + core.PanicSite(err), msg: err.Error()}
	}
	ref := reflalr.Build(k.G, k.Inputs)
	if tbl.NumStates != len(ref.States) {
		return res{key: "states:count", msg: fmt.Sprintf("%d states vs reference %d", tbl.NumStates, len(ref.States))}
	}
	// state matching by simultaneous walk
	gotoImpl := func(state, sym int) int {
		for i := tbl.Goto[sym]; i < tbl.Goto[sym+1]; i += 2 {
			if tbl.FromTo[i] == state {
				return tbl.FromTo[i+1]
			}
		}
		return -1
	}
	r2i := make([]int, len(ref.States))
	for i := range r2i {
		r2i[i] = -1
	}
	var queue []int
	for i := range k.Inputs {
		r2i[i] = i
		queue = append(queue, i)
	}
	for len(queue) > 0 {
		rs := queue[0]
		queue = queue[1:]
		for sym, rt := range ref.States[rs].Goto {
			it := gotoImpl(r2i[rs], sym)
			if it < 0 {
				return res{key: "goto:missing", msg: fmt.Sprintf("state %d has no transition on %s", r2i[rs], k.G.SymName(sym))}
			}
			if r2i[rt] == -1 {
				r2i[rt] = it
				queue = append(queue, rt)
			} else if r2i[rt] != it {
				return res{key: "goto:bijection", msg: "state graphs differ"}
			}
		}
	}
	m := &tabinterp.Machine{T: tbl, Terms: k.G.T + 1}
	consultsLA := map[int]bool{}
	for i := range k.Inputs {
		if tbl.Action[i] < -2 && ref.IsLR0(ref.States[i]) && len(ref.States[i].Reduce) == 1 {
			consultsLA[i] = true
		}
	}
	exp := k.expect(ref, consultsLA)
	out := res{sr: exp.sr, rr: exp.rr, mixed: exp.mixed}
	for rs, s := range ref.States {
		is := r2i[rs]
		if is < 0 {
			return res{key: "states:unmatched", msg: "reference state not reached in implementation"}
		}
		if ref.IsLR0(s) && !consultsLA[rs] {
			continue // no lookahead-dependent choice here (C03 checks the LR(0) shortcut)
		}
		for t := 0; t <= k.G.T; t++ {
			kind, arg, _ := m.Decide(is, t, nil)
			c := ref.CellOf(s, t)
			want := exp.kind[rs][t]
			if c.Shift && len(c.Reduces) == 1 && want != '?' {
				out.resolved++
			}
			switch want {
			case 's':
				if kind != tabinterp.ActShift {
					return res{key: cellKey(c) + ":expected-shift", msg: fmt.Sprintf("state %d on %s: candidates %+v, documented resolution is shift, implementation does %s", is, k.G.SymName(t), c, act(kind, arg))}
				}
			case 'r':
				if kind != tabinterp.ActReduce || arg != exp.arg[rs][t] {
					return res{key: cellKey(c) + ":expected-reduce", msg: fmt.Sprintf("state %d on %s: candidates %+v, documented resolution is reduce %d, implementation does %s", is, k.G.SymName(t), c, exp.arg[rs][t], act(kind, arg))}
				}
			case 'e':
				if kind != tabinterp.ActError {
					return res{key: cellKey(c) + ":expected-error", msg: fmt.Sprintf("state %d on %s: candidates %+v, documented resolution is a syntax error, implementation does %s", is, k.G.SymName(t), c, act(kind, arg))}
				}
			case '?':
				ok := kind == tabinterp.ActError || (kind == tabinterp.ActShift && c.Shift)
				if kind == tabinterp.ActReduce {
					for _, r := range c.Reduces {
						if r == arg {
							ok = true
						}
					}
				}
				if !ok {
					return res{key: "mixed-cell:action-not-a-candidate", msg: fmt.Sprintf("state %d on %s: candidates %+v, implementation does %s", is, k.G.SymName(t), c, act(kind, arg))}
				}
			}
		}
	}
	if !exp.mixed {
		if tbl.SR != exp.sr || tbl.RR != exp.rr {
			return res{key: "conflicts:count", msg: fmt.Sprintf("implementation reports %d SR / %d RR; %d / %d choices are undecided by precedence", tbl.SR, tbl.RR, exp.sr, exp.rr)}
		}
		if (cerr != nil) != (exp.sr+exp.rr > 0) {
			return res{key: "conflicts:error-iff-unresolved", msg: fmt.Sprintf("undecided %d/%d but error=%v", exp.sr, exp.rr, cerr)}
		}
		// behaviour: reference LR parser with the documented resolutions vs implementation tables
		for in := range k.Inputs {
			var bad string
			gramenum.AllStrings(k.G.T, L, func(w string) {
				if bad != "" {
					return
				}
				atomic.AddInt64(cnt, 1)
				toks := make([]int, len(w))
				for i := range w {
					toks[i] = int(w[i]-'a') + 1
				}
				t1 := m.Run(in, toks)
				t0 := refRun(ref, exp, in, toks)
				if t0.String() != t1.String() {
					bad = fmt.Sprintf("input %d on %q: documented-resolution parser does [%s], implementation tables do [%s]", in, w, t0, t1)
					k.W = w
				}
			})
			if bad != "" {
				return res{key: "parse-differs", msg: bad}
			}
		}
	}
	return out
}

func cellKey(c reflalr.Cell) string {
	switch {
	case c.Shift && len(c.Reduces) == 1:
		return "shift-reduce"
	case c.Shift:
		return "shift-reduces"
	case len(c.Reduces) > 1:
		return "reduce-reduce"
	}
	return "plain"
}

func act(kind, arg int) string {
	switch kind {
	case tabinterp.ActShift:
		return "shift"
	case tabinterp.ActReduce:
		return fmt.Sprintf("reduce %d", arg)
	}
	return "error"
}

// refRun is a plain LR driver over the reference automaton with resolved cells.
func refRun(ref *reflalr.Automaton, exp *expected, input int, tokens []int) tabinterp.Trace {
	var tr tabinterp.Trace
	stack := []int{input}
	pos := 0
	end := ref.Final[input]
	seen := map[string]bool{}
	for stack[len(stack)-1] != end {
		s := stack[len(stack)-1]
		t := 0
		if pos < len(tokens) {
			t = tokens[pos]
		}
		switch exp.kind[s][t] {
		case 'r':
			r := exp.arg[s][t]
			tr = append(tr, tabinterp.Step{Kind: tabinterp.Reduce, Arg: r})
			rule := ref.G.Rules[r]
			stack = stack[:len(stack)-len(rule.RHS)]
			nx, ok := ref.States[stack[len(stack)-1]].Goto[rule.LHS]
			if !ok {
				return append(tr, tabinterp.Step{Kind: tabinterp.Error, Arg: pos})
			}
			stack = append(stack, nx)
			key := fmt.Sprint(stack)
			if seen[key] || len(stack) > len(ref.States)*(len(tokens)+2)+64 {
				return append(tr, tabinterp.Step{Kind: tabinterp.Loop, Arg: pos})
			}
			seen[key] = true
		case 's':
			nx, ok := ref.States[s].Goto[t]
			if !ok {
				return append(tr, tabinterp.Step{Kind: tabinterp.Error, Arg: pos})
			}
			tr = append(tr, tabinterp.Step{Kind: tabinterp.Shift, Arg: t})
			stack = append(stack, nx)
			if pos < len(tokens) {
				pos++
			}
			seen = map[string]bool{}
		default:
			return append(tr, tabinterp.Step{Kind: tabinterp.Error, Arg: pos})
		}
	}
	return append(tr, tabinterp.Step{Kind: tabinterp.Accept, Arg: pos})
}

// ---- enumeration ----

// precSpaces enumerates precedence declarations over terminals 1..T: each terminal is in no
// group, group 1 or group 2; each used group has every associativity.
func precSpaces(T int) [][]precDecl {
	var out [][]precDecl
	assign := make([]int, T+1)
	var rec func(t int)
	rec = func(t int) {
		if t > T {
			var g1, g2 []int
			for x := 1; x <= T; x++ {
				switch assign[x] {
				case 1:
					g1 = append(g1, x)
				case 2:
					g2 = append(g2, x)
				}
			}
			if len(g1) == 0 && len(g2) > 0 {
				return // canonical: group 1 is used before group 2
			}
			switch {
			case len(g1) == 0:
				out = append(out, nil)
			case len(g2) == 0:
				for a := 0; a < 3; a++ {
					out = append(out, []precDecl{{a, g1}})
				}
			default:
				for a := 0; a < 3; a++ {
					for b := 0; b < 3; b++ {
						out = append(out, []precDecl{{a, g1}, {b, g2}})
					}
				}
			}
			return
		}
		for v := 0; v <= 2; v++ {
			assign[t] = v
			rec(t + 1)
		}
	}
	rec(1)
	return out
}

func operatorFamily() []*gramenum.Gram {
	// terminals: 1 = x (atom), 2 = p, 3 = q; nonterminal 4 = E
	shapes := [][]int{{4, 2, 4}, {4, 3, 4}, {2, 4}, {4, 2}, {4, 2, 4, 3, 4}}
	var out []*gramenum.Gram
	n := len(shapes)
	for mask := 1; mask < 1<<n; mask++ {
		cnt := 0
		for i := 0; i < n; i++ {
			if mask>>i&1 == 1 {
				cnt++
			}
		}
		if cnt > 3 {
			continue
		}
		g := &gramenum.Gram{T: 3, N: 1}
		for i := 0; i < n; i++ {
			if mask>>i&1 == 1 {
				g.Rules = append(g.Rules, gramenum.Rule{LHS: 4, RHS: shapes[i]})
			}
		}
		g.Rules = append(g.Rules, gramenum.Rule{LHS: 4, RHS: []int{1}})
		out = append(out, g)
	}
	return out
}

func run(c *core.Ctx) {
	L := 5
	if !c.Quick() {
		L = 7
	}
	c.Set("L_operator_family", L)
	c.Rule("(a) operator family: E with atom x and operators p,q, every subset (<=3) of rule shapes {E p E, E q E, p E, E p, E p E q E} x every assignment of x,p,q to {no precedence, group 1, group 2} x every associativity per group x every %prec marker in {none,p,q} per operator rule; (b) every raw rule set of the tiny scope x all precedence declarations over its terminals. Every lookahead-dependent cell compared with the documented rule over reference-LALR(1) candidates; counts, error status; documented-resolution LR parser vs implementation tables on every input <= L. non-trivial = case with >=1 shift/reduce choice decided by precedence")
	var parses, nontrivial, mixed int64
	var candMu sync.Mutex
	var cands []caseT
	collect := false
	eval := func(k caseT, l int) {
		r := k.check(l, &parses)
		c.Eval(1)
		if r.key != "" {
			c.Violate(r.key, r.msg+" :: "+k.Grammar+fmt.Sprintf(" prec=%v ruleprec=%v", k.Prec, k.RulePrec), k)
			return
		}
		if r.resolved > 0 {
			atomic.AddInt64(&nontrivial, 1)
			if collect && !r.mixed {
				candMu.Lock()
				cands = append(cands, k)
				candMu.Unlock()
			}
		}
		if r.mixed {
			atomic.AddInt64(&mixed, 1)
			c.Outcome("has-mixed-cell", 1)
		} else if r.sr+r.rr > 0 {
			c.Outcome("undecided-conflicts-left", 1)
		} else {
			c.Outcome("fully-decided", 1)
		}
	}
	// (a)
	fam := operatorFamily()
	precs3 := precSpaces(3)
	type job struct {
		g  *gramenum.Gram
		pd []precDecl
	}
	var jobs []job
	for _, g := range fam {
		for _, pd := range precs3 {
			jobs = append(jobs, job{g, pd})
		}
	}
	collect = true
	core.ParallelFor(len(jobs), 16, func(i int) {
		if c.Expired() {
			c.Capped("operator family not completed (budget)")
			return
		}
		j := jobs[i]
		nr := len(j.g.Rules) - 1 // operator rules (the atom rule never gets %prec)
		total := 1
		for x := 0; x < nr; x++ {
			total *= 3
		}
		for code := 0; code < total; code++ {
			rp := make([]int, len(j.g.Rules))
			x := code
			for r := 0; r < nr; r++ {
				rp[r] = []int{0, 2, 3}[x%3]
				x /= 3
			}
			k := caseT{Grammar: j.g.String(), G: j.g, Inputs: []gramenum.Input{{NT: 4, Eoi: true}}, Prec: j.pd, RulePrec: rp}
			eval(k, L)
		}
	})
	collect = false
	c.Set("operator_family_grammars", len(fam))
	c.Sample(caseT{Grammar: fam[0].String(), Prec: precs3[len(precs3)-1], RulePrec: []int{0, 0}})
	// (b)
	scopes := []gramenum.Scope{{N: 1, T: 2, R: 3, K: 3, AllNTs: true}, {N: 2, T: 2, R: 3, K: 2, AllNTs: true}}
	if !c.Quick() {
		scopes = append(scopes, gramenum.Scope{N: 1, T: 2, R: 4, K: 3, AllNTs: true}, gramenum.Scope{N: 2, T: 2, R: 4, K: 2, AllNTs: true}, gramenum.Scope{N: 2, T: 2, R: 3, K: 3, AllNTs: true})
	}
	precs2 := precSpaces(2)
	for _, sc := range scopes {
		if c.Expired() {
			c.Capped(fmt.Sprintf("scope %+v not started (budget)", sc))
			continue
		}
		const block = 512
		var batch []*gramenum.Gram
		stopped := false
		flush := func() {
			gs := batch
			batch = nil
			core.ParallelFor(len(gs), 16, func(i int) {
				g := gs[i]
				for _, inputs := range [][]gramenum.Input{{{NT: g.T + 1, Eoi: true}}, {{NT: g.T + 1, Eoi: false}}} {
					for _, pd := range precs2[1:] {
						k := caseT{Grammar: g.String(), G: g, Inputs: inputs, Prec: pd, RulePrec: make([]int, len(g.Rules))}
						eval(k, 4)
					}
				}
			})
		}
		n := gramenum.Enumerate(sc, func(idx int, g *gramenum.Gram) bool {
			batch = append(batch, g.Clone())
			if len(batch) >= block {
				flush()
				if c.Expired() {
					stopped = true
					return false
				}
			}
			return true
		})
		flush()
		if stopped {
			c.Capped(fmt.Sprintf("scope %+v stopped after %d grammars (budget)", sc, n))
		}
		c.Add("tiny_scope_grammars", int64(n))
	}
	collect = false
	sort.Slice(cands, func(i, j int) bool {
		a, b := fmt.Sprint(cands[i].Grammar, cands[i].Prec, cands[i].RulePrec), fmt.Sprint(cands[j].Grammar, cands[j].Prec, cands[j].RulePrec)
		return a < b
	})
	if c.Quick() {
		layerB(c, cands, 80)
	} else {
		layerB(c, cands, 3000)
	}
	c.Nontrivial(nontrivial)
	c.Set("parses_compared", parses)
	c.Set("cases_with_mixed_cells_counts_not_compared", mixed)
}

func replay(c *core.Ctx, raw json.RawMessage) error {
	var k caseT
	if err := json.Unmarshal(raw, &k); err != nil {
		return err
	}
	var n int64
	if r := k.check(max(5, len(k.W)), &n); r.key != "" {
		return fmt.Errorf("%s: %s", r.key, r.msg)
	}
	return nil
}
