package main

import (
	"fmt"
	"sort"
	"unicode"
)

// The skeleton grammar of part a2. Everything is produced by nested loops over fixed lists in a
// fixed order (simplest first); nothing is sampled.

const hexDigits = "09aFGz" // G and z: malformed hex digits are inside the space

func words(alphabet string, n int) []string {
	out := []string{""}
	for i := 0; i < n; i++ {
		var next []string
		for _, w := range out {
			for _, ch := range alphabet {
				next = append(next, w+string(ch))
			}
		}
		out = next
	}
	return out
}

func wordsUpTo(alphabet string, n int) []string {
	var out []string
	for i := 0; i <= n; i++ {
		out = append(out, words(alphabet, i)...)
	}
	return out
}

// sparse8 lists the 8-digit words with at most two digits different from '0'.
func sparse8() []string {
	var out []string
	base := []byte("00000000")
	out = append(out, string(base))
	nz := hexDigits[1:]
	for i := 0; i < 8; i++ {
		for _, a := range []byte(nz) {
			w := append([]byte(nil), base...)
			w[i] = a
			out = append(out, string(w))
		}
	}
	for i := 0; i < 8; i++ {
		for j := i + 1; j < 8; j++ {
			for _, a := range []byte(nz) {
				for _, b := range []byte(nz) {
					w := append([]byte(nil), base...)
					w[i], w[j] = a, b
					out = append(out, string(w))
				}
			}
		}
	}
	return out
}

// Code points whose case orbits or encodings are interesting. Written numerically on purpose.
var interesting = []rune{
	0x41, 0x61, 0x4b, 0x6b, 0x212a, 0x53, 0x73, 0x17f, 0xb5, 0x3bc, 0x39c, 0x345, 0x3b9, 0x399, 0x1fbe,
	0x1c4, 0x1c5, 0x1c6, 0xdf, 0x1e9e, 0xff, 0x178, 0x130, 0x131, 0xe0, 0xc0, 0x00, 0x09, 0x0a, 0x7f, 0x80,
	0xbf, 0xfe, 0x100, 0x7ff, 0x800, 0xffff, 0x10000, 0x10400, 0x10428, 0x10ffff, 0xd7ff, 0xd800, 0xdfff,
	0xe000, 0xfffd, 0x23, 0x2d, 0x5b, 0x5d, 0x5e,
}

func spellings(r rune) []string {
	var out []string
	if r <= 0xff {
		out = append(out, fmt.Sprintf(`\x%02x`, r), fmt.Sprintf(`\%03o`, r), fmt.Sprintf(`\x%02X`, r))
	}
	if r <= 0xffff {
		out = append(out, fmt.Sprintf(`\u%04x`, r))
	}
	out = append(out, fmt.Sprintf(`\U%08x`, r), fmt.Sprintf(`\x{%x}`, r), fmt.Sprintf(`\u{%X}`, r), fmt.Sprintf(`\U{%06x}`, r))
	return out
}

var skeletonClassNames = []string{"L", "Lu", "Ll", "Nd", "Z", "Zl", "Zp", "Cs", "Co", "LC", "Greek", "Latin", "Common",
	"Cyrillic", "Hex_Digit", "Other_Lowercase", "White_Space", "Any", "Ascii", "Bogus", "lu", "any", "ASCII", "N", "x", "_", "L_"}

// escapeAtoms returns (light, bulk, heavy): light atoms go through every context; bulk ones (the
// \xHH and octal families and the spellings of the interesting code points) through every context
// but the \p{Any} one; heavy ones (the large hex families) only stand alone and inside one bracket.
func escapeAtoms(quick bool) (light, bulk, heavy []string) {
	// --- hexadecimal families
	for _, w := range words(hexDigits, 2) {
		bulk = append(bulk, `\x`+w)
	}
	for _, w := range words(hexDigits, 4) {
		heavy = append(heavy, `\u`+w)
	}
	if quick {
		for _, w := range sparse8() {
			heavy = append(heavy, `\U`+w)
		}
	} else {
		for _, w := range words(hexDigits, 8) {
			heavy = append(heavy, `\U`+w)
		}
	}
	for _, p := range []string{"x", "u", "U"} {
		n := 3
		if p != "x" {
			n = 2
		}
		for _, w := range wordsUpTo(hexDigits, n) {
			bulk = append(bulk, `\`+p+`{`+w+`}`)
		}
		for _, w := range []string{"10FFFF", "10ffff", "110000", "0010FFFF", "0000000a", "00000000a", "F0000000", "F00000000",
			"a00000000", "F00000041", "FFFFFFFF", "7FFFFFFF", "80000000", "100000000", "0000000000000041", "41", "4G", "g", " 41", "41 ", "-1", "+41", "0x41"} {
			light = append(light, `\`+p+`{`+w+`}`)
		}
		light = append(light, `\`+p, `\`+p+`{`, `\`+p+`{0`, `\`+p+`{0a`, `\`+p+`{0a}}`, `\`+p+`0`, `\`+p+`}`)
	}
	light = append(light, `\u0`, `\u00`, `\u000`, `\U0000000`, `\U000000`, `\x0`, `\x0g`, `\u004`, `\u004G`,
		`\U0010FFFF`, `\U0010ffff`, `\U00110000`, `\UFFFFFFFF`, `\U7FFFFFFF`, `\U80000000`, `\U00010000`, `\uD800`, `\uDFFF`, `￿`)
	// --- octal
	for _, w := range words("013478a", 3) {
		bulk = append(bulk, `\`+w)
	}
	light = append(light, `\0`, `\00`, `\7`, `\77`, `\8`, `\9`, `\08`, `\1`, `\18`, `\0000`, `\1234`)
	// --- named classes
	for _, n := range skeletonClassNames {
		light = append(light, `\p{`+n+`}`, `\P{`+n+`}`, `\p{^`+n+`}`, `\P{^`+n+`}`, `\p{`+n, `\p{`+n+`}}`, `\p{ `+n+`}`, `\p{`+n+` }`, `\p{^^`+n+`}`)
		if len(n) == 1 {
			light = append(light, `\p`+n, `\P`+n)
		}
	}
	light = append(light, `\p`, `\P`, `\p{`, `\p{^`, `\p{^}`, `\p{}`, `\P{}`, `\pLu`, `\p(`, `\p\`, `\p^L`, `\p{L}{2}`, `\pL{2}`)
	// --- \d \w \s and one-character escapes, known and unknown
	for _, ch := range `dDwWsSafnrtv\-][^_.*+?|(){}/ "'#$,:;<=>@~!%&` + "`" {
		light = append(light, `\`+string(ch))
	}
	for _, ch := range `TbceEzABZGilyoNhRkgqQmjCFHIJKLMOVXY89` {
		light = append(light, `\`+string(ch))
	}
	light = append(light, `\cA`, `\é`, `\`+"\n", `\`+"\t")
	// --- interesting code points in every spelling
	for _, r := range interesting {
		bulk = append(bulk, spellings(r)...)
	}
	return
}

// contexts embeds an atom. The \p{Any} context costs the implementation a fold over 1.1M code
// points (~30 ms) when fold is on, so the bulk hex/octal families skip it (withAny=false).
func contexts(e string, withAny bool) []string {
	out := []string{
		e, `[` + e + `]`, `[^` + e + `]`, `[` + e + `-z]`, `[\x00-` + e + `]`, `[0-` + e + `]`, `[a-z-` + e + `]`,
		`[-` + e + `]`, `[a` + e + `]`, `[` + e + e + `]`, `[` + e + `-` + e + `]`, `[a-z-[` + e + `]]`, `[^a-z-[^` + e + `]]`,
		e + `a`, `a` + e, e + `0`, e + `*`, e + `+a`, e + `{2}`, e + `{1,2}a`, `(?i)` + e, `(?i)[` + e + `]`, `(?i)[^` + e + `]`, `(?i:` + e + `)` + e,
		`(?-i)` + e, `(` + e + `)`, `(` + e, e + `)`, e + `|` + e, `(?i)[a-z-` + e + `]`,
	}
	if withAny {
		out = append(out, `[\p{Any}-`+e+`]`) // fold=on covers (?i)[\p{Any}-e]
	}
	return out
}

var brackets = []string{
	`[a]`, `[^a]`, `[a-z]`, `[^a-z]`, `[z-a]`, `[a-a]`, `[]]`, `[^]]`, `[]a]`, `[]-a]`, `[]-]`, `[a-]`, `[-a]`, `[^-a]`, `[a-z-]`, `[-a-z]`,
	`[-a-zA-Z-]`, `[a-z-0]`, `[--a]`, `[a--]`, `[!--]`, `[+--]`, `[---]`, `[--]`, `[-]`, `[^-]`, `[a-z-[aeiou]]`, `[a-z-[^aeiou]]`,
	`[A-Z-[D]-[EF]]`, `[-[a-z]]`, `[--[a-z]]`, `[^a-z-[aeiou]]`, `[a-z-[aeiou]0-9]`, `[a-z-[a-c-[b]]]`, `[a-z-[aeiou]`, `[a-z-[aeiou`,
	`[a-z-[]]`, `[a-z-[]`, `[a-z-[]]]`, `[a-[b]]`, `[A-[B]]`, `[\p{Any}-[a]]`, `[\p{Any}-\p{L}]`, `[\p{L}-\p{Lu}]`,
	`[\p{L}-\p{Lu}-[Ā-\U0010ffff]]`, `[\p{L}-[Ā-\U0010ffff]-\p{Lu}]`, `[\w-\d]`, `[\w-[\d]]`, `[a-z-\d]`, `[-\d]`,
	`[\d-z]`, `[a-\d]`, `[\d-\w]`, `[\W]`, `[^\W]`, `[\D\d]`, `[\s\S]`, `[^\s\S]`, `[\s]`, `[^\s]`, `[.]`, `[^.]`, `[.a-z]`, `[a.]`, `[[]`, `[[a]]`,
	`[a[]`, `[[-a]`, `[[-z]`, `[^^]`, `[a^]`, `[^]`, `[]`, `[`, `[^`, `[a`, `[a-`, `[\]`, `[\]]`, `[a\]]`, `[\-a]`, `[a\-z]`, `[\x41-\x43]`,
	`[\101-\103]`, `[A-\U00000043]`, `[\x{41}-\x{43}]`, `[\x43-\x41]`, `[A-\x43]`, `[\x41-C]`, `[\x00-\xff]`, `[\x00-\x{100}]`,
	`[\x80-\xbf]`, `[\200-\277]`, `[^\x00-\x7f]`, `[Ā]`, `[é]`, `[α-γ]`, `[0-γ]`, `[\p{Zl}]`, `[a-\p{Zl}]`, `[\p{Any}-\p{Zl}]`,
	`[\p{Zl}-\p{Zp}]`, `[\p{Greek}]`, `[^\p{Greek}]`, `[\P{Greek}]`, `[\p{^Greek}]`, `[\p{Lu}\p{Ll}]`, `[\p{Lu}-[A-Z]]`,
	`[\p{Other_Lowercase}]`, `[\000-\010\012-\025]`, `[arz\n-]`, `[\000-\n\014-\125]`, `[-\n\014-\125]`, `[a-c][b-d]`, `[ab][^ab]`,
	`[a-cx-z]`, `[x-za-c]`, `[a-mc-z]`, `[a-cb]`, `[b-da-e]`, `[ac-eg]`, `[\x00]`, `[^\x00]`, `[\x00-\U0010ffff]`, `[^\x00-\U0010ffff]`,
	`[^\p{Any}]`, `[\p{Any}]`, `[^\x01-\U0010fffe]`, `[^\x00-\xfe]`, `[^\x01-\xff]`, `[\x7f-\x80]`, `[k]`, `[s]`,
	// subtraction that splits an early range while later ranges are still to come
	`[A-Za-z-[M]]`, `[a-cx-z-[b]]`, `[a-cx-z-[by]]`, `[0-9A-Za-z-[5Mm]]`, `[a-cx-z-[b]-[y]]`, `[a-ce-gi-k-[bfj]]`, `[a-ce-g-[a-c]]`,
	`[a-ce-g-[e-g]]`, `[a-ce-g-[c-e]]`, `[a-ce-g-[d]]`, `[a-ce-g-[a-g]]`, `[a-ce-g-[\x00-\U0010ffff]]`, `[a-z-[b]-[d]-[f]]`, `[a-z-[bdf]]`,
	`[^a-cx-z-[b]]`, `[\d\w-[5M]]`, `[a-z-[^b-y]]`,
}

var quantBases = []string{`a`, `[ab]`, `(ab)`, `(a|b)`, `\x41`, `a*`, `(?i)a`, `a|b`, ``, `(`, `|`, `(?i)`, `()`, `(a|)`, `\p{Lu}`, `{a}`, `ab`, `aé`,
	// literal runs of length 2 and 3 (lex merges them into one node: the quantifier must still bind
	// to the last character only), also after a class, digits under (?i), escaped characters
	`abc`, `[x]a`, `[x]ab`, `[x]abc`, `12`, `123`, `(?i)12`, `(?i)ab`, `(?i)a1`, `\.\.`, `a\.`, `\.a`, `a.`, `ab|cd`, `(ab|cd)`, `x(ab)`, `--`, `a-`}

func quantifiers() []string {
	nums := []string{"0", "1", "2", "3", "7", "9", "10", "16", "17", "00", "01", "007", "99999999999999999999"}
	var out []string
	for _, m := range nums {
		out = append(out, `{`+m+`}`, `{`+m+`,}`)
		for _, n := range nums {
			out = append(out, `{`+m+`,`+n+`}`)
		}
	}
	out = append(out, `{`, `{}`, `{,}`, `{,1}`, `{1`, `{1,`, `{1,2`, `{1,,2}`, `{1,2,}`, `{1 }`, `{ 1}`, `{1, 2}`, `{-1}`, `{+1}`, `{1}}`, `{1}{2}`,
		`{1}*`, `{1}?`, `{2}+`, `{1a}`, `{a1}`, `{a}`, `{a}{2}`, `{aa`, `{a-}`, `{_}`, `{_a0}`, `{eoi}`, `*`, `+`, `?`, `**`, `*?`, `+?`, `??`, `?*`, `*{2}`)
	return out
}

var flagPrefixes = []struct{ open, close string }{
	{`(?i)`, ``}, {`(?-i)`, ``}, {`(?i-)`, ``}, {`(?i:`, `)`}, {`(?-i:`, `)`}, {`(?:`, `)`}, {`(?i-:`, `)`}, {`(?ii)`, ``}, {`(?-)`, ``}, {`(?)`, ``},
	{`(?i`, ``}, {`(?i:`, ``}, {`(?x)`, ``}, {`(?ix)`, ``}, {`(?s)`, ``}, {`(?m:`, `)`}, {`(?P<n>`, `)`}, {`(?#c)`, ``}, {`(?=`, `)`}, {`(?!`, `)`},
	{`(?-i-)`, ``}, {`(?i-i)`, ``}, {`(?--i)`, ``}, {`(?-:`, `)`}, {`(?I)`, ``}, {`(? i)`, ``}, {`(?`, ``}, {`(?-`, ``},
}

var flagBodies = []string{`a`, `A`, `aZ`, `[a]`, `[^a]`, `[a-c]`, `[^a-c]`, `\x41`, `\101`, `a`, `\x6b`, `\x4b`, `\x{212a}`, `ſ`, `s`, `\xb5`,
	`μ`, `\p{Lu}`, `\P{Lu}`, `\p{Ll}`, `\w`, `\W`, `[\w]`, `[^\w]`, `\d`, `\s`, `\S`, `\p{Greek}`, `\P{Greek}`, `\p{Other_Lowercase}`, `\p{Hex_Digit}`,
	`a|b`, `a*`, `\Qa\E`, `\Qab`, `é`, `γ`, `.`, `+`, `*`, `{a}`, `a{2}`, `[a-z-[aeiou]]`, `[a-z-[A]]`, `[\p{Lu}]`, `[\p{Ll}-[a]]`, `\x{10400}`, `[\x{10400}]`, ``}

func parenWords() []string { return wordsUpTo("()a|", 7) }

var misc = []string{
	// deviations of the unmodified tree listed by the round-3 seeder (all documentation-silent, see
	// the unspec() comments in internal/rxparse): subtraction after a single character, fold x
	// subtraction, \Q..\E under fold, standalone property under fold, high escapes in byte mode,
	// String() of a repeated group
	`[az-[a]]`, `[aA-[a]]`, `[a-cz-[a]]`, `[\x41-[A]]`, `[a-cx-[b]]`, `(?i)[a-c-[B]]`, `(?i)[a-c-[b]]`, `(?i)\Qab\E`, `(?i)\p{Other_Uppercase}`,
	`(?i)[\p{Other_Uppercase}]`, `\xe9`, `[\xe9]`, `\200`, `[\200]`, `\xe9+`, `[\xe9\xea]`, `(ab){0,1}`, `ab?`, `[x]ab{0}`, `[x]ab{0,}`, `[x]ab{0,2}c`,
	`.`, `.*`, `a.b`, `\.`, `.{2}`, `(.|\n)`, `\Qa+b\Ec`, `\Q`, `\Qab`, `a\Q\E*`, `\E`, `\Q(\E`, `[\Qa\E]`, `\Q\E`, `\Q\\E`, `\Qa\Eb\Qc\E`,
	`0o7(_*7)*_+`, `a(b|c)+`, `a+|(b|cd|)`, `abcd{2,}`, `AB|A(BC+)?`, `([0-9]|[a-z])+`, `(a+)+`, `-?0`, `[a-z](-*[a-z])*`,
	`é`, `éa`, `aé+`, `αβ+`, `γ`, "K", "ſ", "\U00010400", "a\U00010400b", "�", `}`, `]`, `a}`, `a]`, `^a`, `a$`, `a^`, `$`, `^`, `-`, `a-z`,
	`/`, `a/b`, `<a>`, `"a"`, `'a'`, ` `, `a b`, "\t", "a\nb", `,`, `a,b`, `:`, `=`, `#`, `a#`, `#a`, `##`,
}

// documentedExamples are the inputs of parseTests in /repo/lex/regexp_test.go (the {#fold}/{#bytes}
// markers removed: every pattern runs in all four modes anyway). They are the closest thing to a
// syntax reference the repository has, so the reference parser must agree with lex on all of them.
var documentedExamples = []string{
	``, `a()`, `(a)`, `((())a())`, `a`, `ab`, `+`, `++`, `|+`, `a|+`, `.+`, `([.a-z])+`, `a.b`, `ab+`, `ab?`, `ab*`, `αβ+`, `{abc}`,
	`{abc}{5}`, `{abc}{5,}`, `{abc}{5,8}`, `{abc}{123,543}`, `ab{1,3}`, `a(b)`, `a(b|c)`, `a(b|c)+`, `[]]`, `[^]]`,
	`[\000-\010\012-\025]`, `[arz\n-]`, `[a-z]`, `[\000-\n\014-\125]`, `[-\n\014-\125]`, `[-a-zA-Z-]`, `0o7(_*7)*_+`, `[-[a-z]]`,
	`[--[a-z]]`, `[A-Z-[D-F]]`, `[A-Z-[D]-[EF]]`, `[\p{Lu}\xc0-\U0010ffff]`, `[\p{Lu}-[\u0100-\U0010ffff]]`,
	`[\p{L}-\p{Lu}-[\u0100-\U0010ffff]]`, `[\p{L}-[\u0100-\U0010ffff]-\p{Lu}]`, `[\p{Any}]`, `[\p{Any}-[\x00\x01\x02]]`,
	`[\p{Any}-[\x00\x01\x02]-[\x80-\U0010ffff]-\p{Lu}]`, `[\p{Any}-\p{L}-[\u0100-\U0010ffff]]`, `(?i)abC`, `(?i)[a-en-q]`,
	`(?i)\u0041`, `(?i)\101b`, `(?i)[^b-e]`, `(?i)+[^]]`, `abc((?i)ab)`, `abc(?i:ab)`, `abc(((?i:ab)))`, `abc(((?:ab)))`, `abc(?i)`,
	`a(?i:a)a`, `(?i)a(?-i:a)a`, `(?i)a(?i-:a(?i)b)a`, `(?i)a(?i-)a(?i)ba`, `a(?i-)a(?i)ba`, `\(\)`, `\a+\f\n\r\t\v`, `\123\000`,
	`\x00\x01`, `\_`, `\Q+?-\Eabc`, `\Q+abc+`, `+\Q+*+\E+`, `\d\D`, `\w`, `[^\W]`, `[\W]`, `[\s]`, `[^\s]`, `\S`, `[\S]`, `+\+`,
	`\p{Any}+\pZ`, `\P{Any}+`, `\p{^Any}+`, `\pZ`, `\u1234`, `\u{1234}a`, `\u{123}`, `\u{aBcD}`, `\U00001234`, `\U00012345`,
	"\u0370", "\u0370\u0371+", `(?i)γ`, "\xfe\xfe", "\\Q\xfe\xfe\\E", "\\Q\u0370\xfe\xfe\\E", `(`, `(a`, `)`, `a\`, `\T`, `(a))`,
	`\p{`, `\p{}`, `\p{Lu}`, `\p{z}`, `{1,3}`, `{abc}{543,123}`, `{abc}{,123}`, `{abc}{99999999999999999999}`,
	`{abc}{1,99999999999999999999}`, `{abc}{1,`, `ab{`, `{`, `[a-z`, `[\p{L}-z`, `[qa-\p{L}]`, `[z-a]`, `\00`, `\00a`, `\400`,
	`\u123`, `\u{ }`, `\U0010ffff`, `\U00110000`, `\u0abc`, `[\u0abc]`, `\u00ff`, `\u0100`, `[\u0100]`, `abc(?`, `abc(?ie`,
	`\u00a0`, `[\u03b1-\u03b3]`, `[α-\u03b3]`, `[0-\u03b3]`, `[α-γ]`, `[0-γ]`,
}

// skeletons assembles part a2, removing duplicates and everything already in part a1.
func skeletons(quick bool, inA1 func(string) bool) []string {
	var out []string
	seen := map[string]bool{}
	add := func(s string) {
		if seen[s] || inA1(s) {
			return
		}
		seen[s] = true
		out = append(out, s)
	}
	light, bulk, heavy := escapeAtoms(quick)
	for _, s := range documentedExamples {
		add(s)
	}
	for _, s := range misc {
		add(s)
	}
	for _, b := range brackets {
		add(b)
	}
	for _, e := range light {
		add(e)
	}
	for _, e := range bulk {
		add(e)
	}
	for _, e := range heavy {
		add(e)
		add(`[` + e + `]`)
	}
	for _, b := range brackets {
		for _, s := range []string{`(?i)` + b, b + `+`, b + `{2}`, `a` + b + `b`, `(` + b + `|a)`, b + b, `(?i:` + b + `)` + b, `[^` + b[1:], `[a-z-` + b + `]`} {
			add(s)
		}
	}
	for _, e := range light {
		for _, s := range contexts(e, true) {
			add(s)
		}
	}
	for _, e := range bulk {
		for _, s := range contexts(e, false) {
			add(s)
		}
	}
	qs := quantifiers()
	for _, base := range quantBases {
		for _, q := range qs {
			add(base + q)
			add(base + q + `b`)
		}
	}
	for _, f := range flagPrefixes {
		for _, body := range flagBodies {
			add(f.open + body + f.close)
			add(`b` + f.open + body + f.close + `a`)
			add(`(` + f.open + body + f.close + `)` + body)
			add(f.open + body + f.close + `|` + body)
			add(`(?i)` + body + f.open + body + f.close + body)
		}
	}
	for _, w := range parenWords() {
		add(w)
	}
	for _, w := range escapeSequences() {
		add(w)
	}
	return out
}

// escapeSequences: parser state carried from one escape to the next. Every kind of escape (and a
// plain character) as PREVIOUS item x every single-character spelling as NEXT item, the next item
// being a single member, the low end, the high end or both ends of a range, or the item after a
// dash; previous and next inside one bracket expression, in two consecutive bracket expressions,
// or previous outside and next inside brackets (and both outside). A class escape earlier in the
// pattern must not change what a later \101, \x41, \t, \- ... means, and vice versa.
func escapeSequences() []string {
	prev := []string{`\d`, `\w`, `\s`, `\pL`, `\p{Lu}`, `\D`, `\S`, `\P{Lu}`, `\p{Zl}`, `\101`, `\x41`, `\u0041`, `\x{41}`, `\t`, `\-`, `\.`, `a`}
	// next: spelling of a character, spelling of a character two above it (range partner).
	next := []struct{ lo, hi string }{
		{`\101`, `\103`}, {`\060`, `\061`}, {`\x41`, `\x43`}, {`\u0041`, `\u0043`}, {`\U00000041`, `\U00000043`}, {`\x{41}`, `\x{43}`},
		{`\t`, `\n`}, {`\-`, `\.`}, {`\_`, `\_`}, {`A`, `C`},
	}
	var out []string
	for _, pv := range prev {
		for _, nx := range next {
			inside := []string{
				nx.lo,                     // single member
				nx.lo + `-z`,              // low end (every lo above is below 'z')
				"\x01-" + nx.hi,           // high end, raw U+0001 as low end
				nx.lo + `-` + nx.hi,       // both ends
				nx.lo + `-` + nx.hi + `b`, // range followed by a member
				`-` + nx.lo,               // right after a dash
				nx.lo + nx.hi,             // two members
			}
			for _, in := range inside {
				out = append(out,
					`[`+pv+in+`]`,                  // same bracket expression, previous first
					`[`+pv+`][`+in+`]`,             // two bracket expressions
					pv+`[`+in+`]`,                  // previous outside
					`[^`+pv+in+`]`,                 // negated
					`[`+in+pv+`]`,                  // previous last (must not matter either)
					`[a-z-[`+pv+`]`+`]`+`[`+in+`]`, // previous inside a subtracted class
					`[`+pv+`-[`+in+`]]`,            // next inside a subtracted class
				)
			}
			out = append(out, pv+nx.lo, pv+nx.lo+`+`, `[`+pv+`]`+nx.lo, pv+nx.lo+pv+nx.hi)
		}
	}
	return out
}

// classNames lists every class name of part b.
func classNames() []string {
	set := map[string]bool{"Any": true, "Ascii": true}
	for n := range unicode.Categories {
		set[n] = true
	}
	for n := range unicode.Scripts {
		set[n] = true
	}
	for n := range unicode.Properties {
		set[n] = true
	}
	var out []string
	for n := range set {
		out = append(out, n)
	}
	sort.Strings(out)
	return out
}

// classCases: every name alone, negated (three spellings), in brackets and subtracted from
// \p{Any}; with and without fold; in byte mode only the plain spelling (must be rejected except
// for Any and Ascii). Likewise \d \w \s \D \W \S.
func classCases(names []string) []Case {
	var out []Case
	var atoms []string
	for _, ch := range "dwsDWS" {
		atoms = append(atoms, `\`+string(ch))
	}
	for _, a := range atoms {
		for _, p := range []string{a, `[` + a + `]`, `[^` + a + `]`, `[\p{Any}-` + a + `]`} {
			for _, m := range modes {
				out = append(out, Case{Pattern: p, Fold: m.fold, Bytes: m.bytes})
			}
		}
	}
	for _, n := range names {
		a := `\p{` + n + `}`
		for _, p := range []string{a, `\P{` + n + `}`, `\p{^` + n + `}`, `[` + a + `]`, `[^` + a + `]`, `[\p{Any}-` + a + `]`} {
			for _, fold := range []bool{false, true} {
				out = append(out, Case{Pattern: p, Fold: fold})
			}
		}
		for _, fold := range []bool{false, true} {
			out = append(out, Case{Pattern: a, Fold: fold, Bytes: true})
		}
	}
	return out
}
