// C10: regular expressions and character classes denote their documented sets.
//
// (a) Every string of length <= N over the meta alphabet {a Z 0 7 \ x u { } [ ] ^ - ( ) | * ? p}
// plus longer strings from a grammar of escape skeletons (gen.go), under fold {off,on} x byte mode
// {off,on}: the independent reference parser (internal/rxparse) and lex.ParseRegexp must agree on
// accept/reject, a reject must carry offsets inside the pattern, and for accepted patterns the
// language of the reference AST must equal the language of the real thing: the lex.Regexp is
// compiled with lex.Compile and decided by lex.Tables.Scan on every word of length <= 3 over a
// per-pattern probe alphabet.
//
// (b) Every name of unicode.Categories/Scripts/Properties + Any + Ascii and \d\w\s\D\W\S, alone,
// negated (three spellings), in brackets and subtracted from \p{Any}, with and without (?i):
// exact set equality against Go's unicode tables (quick: per symbol class + a Scan of both ends of
// every range of either side; thorough: a Scan of every code point 0..0x10FFFF).
//
// How the implementation is observed. The pattern P under test is referenced as {__c10__} from
// the rule /{__c10__}#/ (so P may match the empty string), compiled with backtracking allowed:
// w is in L(P) <=> Scan(w+"#") consumes all of it with the rule's action ('#' may also occur in P;
// the equivalence holds for any language). Other {name} references resolve to the one-character
// pattern name[0]. The probe alphabet is exact, not sampled: the units 0..max are cut at every
// range boundary of every leaf set of the reference AST and at every Start of the implementation's
// SymbolMap; two cells are merged when they agree on membership in every reference leaf and on the
// implementation's symbol — by construction neither side can tell such units apart (Scan looks at
// a unit only through SymbolMap). One representative per class therefore covers "every boundary
// rune +-1 of either side".
package main

import (
	"encoding/json"
	"errors"
	"fmt"
	"log"
	"os"
	"runtime/debug"
	"runtime/pprof"
	"sort"
	"strconv"
	"strings"
	"sync"
	"unicode/utf8"

	"github.com/inspirer/textmapper/lex"
	"github.com/inspirer/textmapper/status"

	"verif/internal/core"
	"verif/internal/rxparse"
)

func main() {
	// lex.Compile reports broken invariants with log.Fatalf (= os.Exit). A writer that panics turns
	// that into an ordinary panic inside log.Output (the logger unlocks with defer), which
	// core.Guard contains; nothing is ever printed through the log package by this binary.
	log.SetFlags(0)
	log.SetOutput(fatalTrap{})
	debug.SetGCPercent(400)                        // millions of short-lived parses; memory is not the constraint
	if f := os.Getenv("C10_CPUPROFILE"); f != "" { // debugging aid
		w, err := os.Create(f)
		if err == nil {
			pprof.StartCPUProfile(w)
			stopProfile = pprof.StopCPUProfile
		}
	}
	core.Main("C10", "exploration", run, replay, nil)
}

var stopProfile = func() {}

type fatalTrap struct{}

func (fatalTrap) Write(b []byte) (int, error) {
	panic("log.Fatal: " + strings.TrimSpace(string(b)))
}

const (
	wrapName = "__c10__"
	wrapText = "{" + wrapName + "}#"
	action   = 2
)

var wrapper [2]*lex.Pattern // by byte mode

func init() {
	for i, bytes := range []bool{false, true} {
		re, err := lex.ParseRegexp(wrapText, lex.CharsetOptions{ScanBytes: bytes})
		if err != nil {
			panic(err)
		}
		wrapper[i] = &lex.Pattern{Name: "wrapper", RE: re, Text: wrapText}
	}
}

type resolver struct {
	p     *lex.Pattern
	bytes bool
}

func (r resolver) Resolve(name string) *lex.Pattern {
	if name == wrapName {
		return r.p
	}
	// Convention shared with rxparse.ExtSet: {name} is the single character name[0].
	re, err := lex.ParseRegexp(name[:1], lex.CharsetOptions{ScanBytes: r.bytes})
	if err != nil {
		return nil
	}
	return &lex.Pattern{Name: name, RE: re, Text: name[:1]}
}

// Case is one enumerated input; it is also the replay record.
type Case struct {
	Pattern string `json:"pattern"`
	Fold    bool   `json:"fold"`
	Bytes   bool   `json:"bytes"`
	Scan    string `json:"scan,omitempty"` // "" probe words; "boundary": + both ends of every range; "full": + every code point
	Quoted  string `json:"quoted,omitempty"`
}

type finding struct{ key, what string }

// stats are per-goroutine counters merged into the evidence.
type stats struct {
	cases, nontrivial           int64
	probes, scans, codepoints   int64
	unspecified                 int64
	langChecked, alphabetCapped int64
	outcomes                    map[string]int64
	unspecBy                    map[string]int64
	tags                        map[string]int64
	maxClasses                  int
	refAccept, refReject        int64
	repeatLimitSkipped          int64
	surrogateCellsSkipped       int64
	perPart                     map[string]int64
}

func newStats() *stats {
	return &stats{outcomes: map[string]int64{}, unspecBy: map[string]int64{}, tags: map[string]int64{}, perPart: map[string]int64{}}
}

func (s *stats) merge(o *stats) {
	s.cases += o.cases
	s.nontrivial += o.nontrivial
	s.probes += o.probes
	s.scans += o.scans
	s.codepoints += o.codepoints
	s.unspecified += o.unspecified
	s.langChecked += o.langChecked
	s.alphabetCapped += o.alphabetCapped
	s.refAccept += o.refAccept
	s.refReject += o.refReject
	s.repeatLimitSkipped += o.repeatLimitSkipped
	s.surrogateCellsSkipped += o.surrogateCellsSkipped
	if o.maxClasses > s.maxClasses {
		s.maxClasses = o.maxClasses
	}
	for k, v := range o.outcomes {
		s.outcomes[k] += v
	}
	for k, v := range o.unspecBy {
		s.unspecBy[k] += v
	}
	for k, v := range o.tags {
		s.tags[k] += v
	}
	for k, v := range o.perPart {
		s.perPart[k] += v
	}
}

// ---------------------------------------------------------------------------------------------
// Observation of the implementation.

type implLang struct {
	t     *lex.Tables
	st    *stats
	bytes bool
}

func (l implLang) accepts(w string) bool {
	l.st.scans++
	size, act := l.t.Scan(0, w+"#")
	return act == action && size == len(w)+1
}

// compile builds the tables for one parsed pattern; crash != nil reports a panic or log.Fatal inside lex.Compile.
func compile(re *lex.Regexp, text string, bytes bool) (t *lex.Tables, cerr error, crash error) {
	b := 0
	if bytes {
		b = 1
	}
	rule := &lex.Rule{
		Pattern:         wrapper[b],
		Resolver:        resolver{p: &lex.Pattern{Name: wrapName, RE: re, Text: text}, bytes: bytes},
		StartConditions: []int{0},
		Action:          action,
		Origin:          origin{},
	}
	crash = core.Guard(func() { t, cerr = lex.Compile([]*lex.Rule{rule}, bytes, true) })
	return
}

type origin struct{}

func (origin) SourceRange() status.SourceRange { return status.SourceRange{Filename: "c10"} }

// symClass is one class of units that neither side can tell apart.
type symClass struct {
	rep      rune
	anyLeaf  bool
	cellsLo  []rune // first unit of each cell of the class (observable cells only)
	cellsHi  []rune
	nOfCells int
}

func isSurrogate(r rune) bool { return r >= 0xd800 && r <= 0xdfff }

// partition cuts 0..max into classes (see the file comment) and fills has[leaf][class].
func partition(leaves []*rxparse.Node, t *lex.Tables, bytes bool, st *stats) ([]symClass, [][]bool) {
	max := rune(rxparse.MaxRune)
	if bytes {
		max = 0xff
	}
	bounds := []rune{0}
	for _, l := range leaves {
		for _, r := range l.Set {
			if r.Lo <= max {
				bounds = append(bounds, r.Lo)
			}
			if r.Hi+1 <= max {
				bounds = append(bounds, r.Hi+1)
			}
		}
	}
	for _, e := range t.SymbolMap {
		if e.Start >= 0 && e.Start <= max {
			bounds = append(bounds, e.Start)
		}
	}
	if !bytes {
		bounds = append(bounds, 0xd800, 0xe000) // unencodable units get cells of their own
	}
	sort.Slice(bounds, func(i, j int) bool { return bounds[i] < bounds[j] })
	n := 0
	for i, b := range bounds {
		if i == 0 || b != bounds[n-1] {
			bounds[n] = b
			n++
		}
	}
	bounds = bounds[:n]

	var classes []symClass
	index := map[string]int{}
	has := make([][]bool, len(leaves))
	sig := make([]byte, 0, len(leaves)+12)
	for i, lo := range bounds {
		hi := max
		if i+1 < len(bounds) {
			hi = bounds[i+1] - 1
		}
		if !bytes && isSurrogate(lo) {
			// Scan decodes UTF-8; a surrogate can never reach the tables. Unobservable.
			st.surrogateCellsSkipped++
			continue
		}
		sig = sig[:0]
		any := false
		for _, l := range leaves {
			if l.Set.Contains(lo) {
				sig = append(sig, '1')
				any = true
			} else {
				sig = append(sig, '0')
			}
		}
		// The implementation's symbol, looked up independently of Scan.
		k := sort.Search(len(t.SymbolMap), func(k int) bool { return t.SymbolMap[k].Start > lo }) - 1
		sym := -1
		if k >= 0 {
			sym = int(t.SymbolMap[k].Target)
		}
		sig = append(sig, '/')
		sig = append(sig, fmt.Sprint(sym)...)
		ci, ok := index[string(sig)]
		if !ok {
			ci = len(classes)
			index[string(sig)] = ci
			classes = append(classes, symClass{rep: lo, anyLeaf: any})
			for li, l := range leaves {
				has[li] = append(has[li], l.Set.Contains(lo))
			}
		}
		classes[ci].cellsLo = append(classes[ci].cellsLo, lo)
		classes[ci].cellsHi = append(classes[ci].cellsHi, hi)
		classes[ci].nOfCells++
	}
	return classes, has
}

func unitString(bytes bool, units ...rune) string {
	if bytes {
		b := make([]byte, len(units))
		for i, u := range units {
			b[i] = byte(u)
		}
		return string(b)
	}
	return string(units)
}

type langDiff struct {
	word []rune
	ref  bool
	impl bool
}

func (d *langDiff) String() string {
	var parts []string
	for _, r := range d.word {
		parts = append(parts, fmt.Sprintf("U+%04X", r))
	}
	return fmt.Sprintf("word [%s]: reference %v, implementation %v", strings.Join(parts, " "), d.ref, d.impl)
}

// compare decides language equality of node (whose leaves are numbered in `leaves`) against the
// compiled tables. scan selects the additional single-unit sweeps of part (b).
func compare(node *rxparse.Node, leaves []*rxparse.Node, maxRepeat int, t *lex.Tables, bytes bool, scan string, st *stats) (diff *langDiff, sawYes, sawNo bool) {
	classes, has := partition(leaves, t, bytes, st)
	impl := implLang{t: t, st: st, bytes: bytes}
	if len(classes) > st.maxClasses {
		st.maxClasses = len(classes)
	}
	// Alphabets for words of length 2 and 3 are capped (classes mentioned by a reference leaf
	// first); length 1 always uses every class.
	order := make([]int, 0, len(classes))
	for i, c := range classes {
		if c.anyLeaf {
			order = append(order, i)
		}
	}
	for i, c := range classes {
		if !c.anyLeaf {
			order = append(order, i)
		}
	}
	caps := [4]int{0, len(classes), 24, 9}
	capped := false
	word := make([]int, 0, 3)
	units := make([]rune, 0, 3)
	var rec func(length, alpha int) *langDiff
	rec = func(length, alpha int) *langDiff {
		if len(word) == length {
			st.probes++
			r := rxparse.Matches(node, word, has)
			units = units[:0]
			for _, ci := range word {
				units = append(units, classes[ci].rep)
			}
			i := impl.accepts(unitString(bytes, units...))
			if r {
				sawYes = true
			} else {
				sawNo = true
			}
			if r != i {
				return &langDiff{word: append([]rune(nil), units...), ref: r, impl: i}
			}
			return nil
		}
		for k := 0; k < alpha; k++ {
			word = append(word, order[k])
			d := rec(length, alpha)
			word = word[:len(word)-1]
			if d != nil {
				return d
			}
		}
		return nil
	}
	for length := 0; length <= 3; length++ {
		alpha := len(classes)
		if length >= 1 && caps[length] < alpha {
			alpha = caps[length]
			capped = true
		}
		if d := rec(length, alpha); d != nil {
			return d, sawYes, sawNo
		}
	}
	if capped {
		st.alphabetCapped++
	}
	if maxRepeat >= 3 {
		// Words of length <= 3 cannot tell a{4} from a{5}: add the powers x^k and (xy)^k up to
		// maxRepeat+2 (at most 20 units) over the first three classes.
		n := len(order)
		if n > 3 {
			n = 3
		}
		limit := maxRepeat + 2
		if limit > 20 {
			limit = 20
		}
		var periods [][]int
		for a := 0; a < n; a++ {
			periods = append(periods, []int{order[a]})
		}
		for a := 0; a < n && a < 2; a++ {
			for b := 0; b < n && b < 2; b++ {
				if a != b {
					periods = append(periods, []int{order[a], order[b]})
				}
			}
		}
		for _, per := range periods {
			for length := 4; length <= limit; length++ {
				long := make([]int, length)
				lu := make([]rune, length)
				for i := range long {
					long[i] = per[i%len(per)]
					lu[i] = classes[long[i]].rep
				}
				st.probes++
				r := rxparse.Matches(node, long, has)
				i := impl.accepts(unitString(bytes, lu...))
				if r != i {
					return &langDiff{word: lu, ref: r, impl: i}, sawYes, sawNo
				}
			}
		}
	}
	if scan == "" {
		return nil, sawYes, sawNo
	}
	// Part (b): single units, directly.
	one := make([]int, 1)
	for ci, c := range classes {
		one[0] = ci
		want := rxparse.Matches(node, one, has)
		for k := range c.cellsLo {
			lo, hi := c.cellsLo[k], c.cellsHi[k]
			if scan == "full" {
				for r := lo; r <= hi; r++ {
					if !bytes && isSurrogate(r) {
						continue
					}
					st.codepoints++
					if got := impl.accepts(unitString(bytes, r)); got != want {
						return &langDiff{word: []rune{r}, ref: want, impl: got}, sawYes, sawNo
					}
				}
				continue
			}
			for _, r := range []rune{lo, hi} { // no cell straddles the surrogate block (see partition)
				st.codepoints++
				if got := impl.accepts(unitString(bytes, r)); got != want {
					return &langDiff{word: []rune{r}, ref: want, impl: got}, sawYes, sawNo
				}
			}
		}
	}
	return nil, sawYes, sawNo
}

// ---------------------------------------------------------------------------------------------
// One case.

var quirkList = []struct {
	key string
	q   rxparse.Quirks
}{
	{"class:script-always-folded", rxparse.Quirks{ScriptAlwaysFolded: true}},
	{"class:single-member-class-escape-taken-as-character", rxparse.Quirks{SingleRuneClassIsChar: true}},
}

func msgClass(msg string) string {
	var sb strings.Builder
	for _, r := range strings.ToLower(msg) {
		switch {
		case r >= 'a' && r <= 'z':
			sb.WriteRune(r)
		case r == ' ' || r == '-':
			sb.WriteByte('-')
		case r == '(' || r == '\\':
			return strings.Trim(sb.String(), "-")
		}
	}
	return strings.Trim(sb.String(), "-")
}

func describe(c Case) string {
	return fmt.Sprintf("pattern %q fold=%v bytes=%v", c.Pattern, c.Fold, c.Bytes)
}

// checkCase runs one (pattern, fold, bytes) case and returns its findings (empty = fine).
func checkCase(c Case, st *stats) []finding {
	st.cases++
	opts := rxparse.Opts{Fold: c.Fold, Bytes: c.Bytes}
	lopts := lex.CharsetOptions{Fold: c.Fold, ScanBytes: c.Bytes}
	ref := rxparse.Parse(c.Pattern, opts, rxparse.Quirks{})
	for t := range ref.Tags {
		st.tags[t]++
	}

	var re *lex.Regexp
	var perr error
	if crash := core.Guard(func() { re, perr = lex.ParseRegexp(c.Pattern, lopts) }); crash != nil {
		st.outcomes["parse-panic"]++
		return []finding{{"parse:panic:" + core.PanicSite(crash), describe(c) + ": lex.ParseRegexp panics: " + crash.Error()}}
	}
	implOK := perr == nil
	if !implOK {
		var pe lex.ParseError
		if !errors.As(perr, &pe) {
			return []finding{{"parse:error-type", describe(c) + fmt.Sprintf(": error is %T, not lex.ParseError", perr)}}
		}
		if !(0 <= pe.Offset && pe.Offset <= pe.EndOffset && pe.EndOffset <= len(c.Pattern)) {
			st.outcomes["reject-bad-offsets"]++
			return []finding{{"parse:error-offsets:" + msgClass(pe.Msg), describe(c) + fmt.Sprintf(": error %q located at [%d,%d) outside the pattern of length %d", pe.Msg, pe.Offset, pe.EndOffset, len(c.Pattern))}}
		}
	} else if re == nil {
		return []finding{{"parse:nil-without-error", describe(c) + ": ParseRegexp returned (nil, nil)"}}
	}
	if ref.OK {
		st.refAccept++
	} else {
		st.refReject++
	}

	unspecified := len(ref.Unspecified) > 0
	if unspecified {
		st.unspecified++
		for _, u := range ref.Unspecified {
			st.unspecBy[u]++
		}
	}

	if !unspecified && ref.OK != implOK {
		// Accept/reject disagreement. (Checked before compiling: what lex.Compile does with a
		// pattern that should not have parsed is secondary.)
		st.outcomes["accept-mismatch"]++
		msg := ""
		if perr != nil {
			msg = perr.(lex.ParseError).Msg
		}
		if key := explainedByQuirk(c, opts, implOK, re); key != "" {
			return []finding{{key, acceptMismatch(c, ref, implOK, msg).what}}
		}
		return []finding{acceptMismatch(c, ref, implOK, msg)}
	}

	// Compile whenever the implementation accepted: a crash of lex.Compile on a pattern that
	// ParseRegexp let through is a defect whatever the pattern was meant to say.
	var tables *lex.Tables
	if implOK {
		t, cerr, crash := compile(re, c.Pattern, c.Bytes)
		if crash != nil {
			st.outcomes["compile-crash"]++
			site := core.PanicSite(crash)
			if strings.Contains(crash.Error(), "log.Fatal") {
				site = "log-fatal"
				if strings.Contains(crash.Error(), "not compatible with scanBytes") {
					site = "log-fatal:charset-above-0xff-in-byte-mode"
				}
			}
			// Name the kind of construct that crashes on its own (keeps distinct causes apart).
			family := "structure"
			for _, a := range ref.Atoms {
				text := c.Pattern[a.Start:a.End]
				var are *lex.Regexp
				var aerr error
				aopts := lex.CharsetOptions{Fold: a.Fold, ScanBytes: c.Bytes}
				if ac := core.Guard(func() { are, aerr = lex.ParseRegexp(text, aopts) }); ac != nil || aerr != nil {
					continue
				}
				if _, _, ac := compile(are, text, c.Bytes); ac != nil {
					family = strings.SplitN(a.Tag, "-", 2)[0]
					break
				}
			}
			return []finding{{"compile:crash:" + site + ":" + family, describe(c) + ": lex.Compile dies on a pattern ParseRegexp accepted: " + firstLine(crash.Error())}}
		}
		if cerr != nil {
			if strings.Contains(cerr.Error(), "too many entities to repeat") {
				// Implementation limit stated by the message itself (max. 16); not syntax.
				st.outcomes["accept:repeat-limit"]++
				st.repeatLimitSkipped++
				return nil
			}
			if !unspecified {
				st.outcomes["compile-error"]++
				return []finding{{"compile:unexpected-error", describe(c) + ": lex.Compile: " + firstLine(cerr.Error())}}
			}
		}
		tables = t
	}

	if unspecified {
		// Documentation-silent corner: side with the implementation, never alarm.
		st.outcomes["unspecified"]++
		return nil
	}
	if !ref.OK {
		st.outcomes["reject:"+ref.Reason]++
		if ref.Pos > 0 {
			st.nontrivial++
		}
		return nil
	}
	if ref.MaxRepeat > 16 {
		st.outcomes["accept:repeat-limit"]++
		st.repeatLimitSkipped++
		return nil
	}

	st.langChecked++
	diff, yes, no := compare(ref.Node, ref.Leaves, ref.MaxRepeat, tables, c.Bytes, c.Scan, st)
	if diff == nil {
		st.outcomes["accept:language-equal"]++
		if yes && no {
			st.nontrivial++
		}
		return nil
	}
	st.outcomes["language-mismatch"]++
	what := describe(c) + ": " + diff.String() + fmt.Sprintf(" (lex prints the pattern as %s)", clip(fmt.Sprintf("%q", re.String()), 160))

	// Does one known deviation explain everything?
	if key := explainedByQuirk(c, opts, true, re); key != "" {
		return []finding{{key, what}}
	}
	// Otherwise attribute it to the first construct that is wrong on its own — without folding if
	// it is already wrong there, so that one cause gets one key.
	for _, a := range ref.Atoms {
		text := c.Pattern[a.Start:a.End]
		folds := []bool{false}
		if a.Fold {
			folds = []bool{false, true}
		}
		for _, fold := range folds {
			aref := rxparse.Parse(text, rxparse.Opts{Fold: fold, Bytes: c.Bytes}, rxparse.Quirks{})
			if !aref.OK || len(aref.Unspecified) > 0 || aref.MaxRepeat > 16 {
				continue
			}
			var are *lex.Regexp
			var aerr error
			aopts := lex.CharsetOptions{Fold: fold, ScanBytes: c.Bytes}
			if crash := core.Guard(func() { are, aerr = lex.ParseRegexp(text, aopts) }); crash != nil || aerr != nil {
				continue
			}
			at, cerr, crash := compile(are, text, c.Bytes)
			if crash != nil || cerr != nil {
				continue
			}
			if d, _, _ := compare(aref.Node, aref.Leaves, aref.MaxRepeat, at, c.Bytes, "", newStats()); d != nil {
				suffix := ""
				if fold {
					suffix = ":fold"
				}
				return []finding{{"set:" + a.Tag + suffix, what + fmt.Sprintf("; already the piece %q alone (fold=%v) differs: %s", text, fold, d)}}
			}
		}
	}
	return []finding{{"lang:structure", what}}
}

// explainedByQuirk: is there ONE known deviation under which the reference and the implementation
// agree completely on this case (same accept/reject decision and, if accepted, same language)?
// Only used to name a disagreement that has already been established.
func explainedByQuirk(c Case, opts rxparse.Opts, implOK bool, re *lex.Regexp) string {
	if !implOK {
		// Two rejections agree about nothing but the rejection: too weak to name a cause.
		return ""
	}
	var tables *lex.Tables
	if implOK {
		t, cerr, crash := compile(re, c.Pattern, c.Bytes)
		if crash != nil || cerr != nil {
			return ""
		}
		tables = t
	}
	for _, q := range quirkList {
		alt := rxparse.Parse(c.Pattern, opts, q.q)
		if alt.OK != implOK {
			continue
		}
		if alt.MaxRepeat > 16 {
			continue
		}
		if d, _, _ := compare(alt.Node, alt.Leaves, alt.MaxRepeat, tables, c.Bytes, c.Scan, newStats()); d == nil {
			return q.key
		}
	}
	return ""
}

func clip(s string, n int) string {
	if len(s) > n {
		return s[:n] + "…"
	}
	return s
}

func firstLine(s string) string {
	if i := strings.IndexByte(s, '\n'); i >= 0 {
		return s[:i]
	}
	return s
}

func acceptMismatch(c Case, ref *rxparse.Result, implOK bool, implMsg string) finding {
	if implOK {
		key := "parse:impl-accepts:" + ref.Reason
		if ref.Reason == "bad-hex-digit" && ref.BadChar >= 'G' && ref.BadChar <= 'Z' {
			key = "parse:hex-digit-accepts-G-Z"
		}
		return finding{key, describe(c) + fmt.Sprintf(": accepted by lex.ParseRegexp, but the documented syntax rejects it at offset %d: %s (%s)", ref.Pos, ref.Detail, ref.Reason)}
	}
	return finding{"parse:impl-rejects:" + msgClass(implMsg), describe(c) + fmt.Sprintf(": well-formed in the documented syntax, but lex.ParseRegexp fails with %q", implMsg)}
}

// ---------------------------------------------------------------------------------------------
// Enumeration.

const metaAlphabet = `aZ07\xu{}[]^-()|*?p`

func pow(b, e int) int {
	r := 1
	for ; e > 0; e-- {
		r *= b
	}
	return r
}

type modeT struct{ fold, bytes bool }

var modes = []modeT{{false, false}, {true, false}, {false, true}, {true, true}}

func run(c *core.Ctx) {
	maxLen := 6
	if c.Quick() {
		maxLen = 5
	}
	// Debugging knobs (never set by ./run): C10_MAXLEN=<n> and C10_PARTS=a1,a2,b restrict the run;
	// any restriction is recorded as a cap, so such a run can never pass for an exhaustive one.
	if v, err := strconv.Atoi(os.Getenv("C10_MAXLEN")); err == nil {
		maxLen = v
		c.Capped("C10_MAXLEN override")
	}
	parts := map[string]bool{"a1": true, "a2": true, "b": true}
	if v := os.Getenv("C10_PARTS"); v != "" {
		parts = map[string]bool{}
		for _, p := range strings.Split(v, ",") {
			parts[p] = true
		}
		c.Capped("C10_PARTS override")
	}
	c.Rule("one case = (pattern, fold, bytes). Part a1: every string of length <= N over the 19-character meta alphabet, shortest first; part a2: the escape-skeleton grammar of gen.go (hex digits from {0,9,a,F,G,z}), de-duplicated against a1 and itself; part b: every Unicode class name x 6 spellings. Non-trivial = accepted by the reference AND the language comparison saw both a matching and a non-matching probe word, or rejected by the reference at an offset > 0 (something well-formed precedes the error); cases are distinct by construction")
	c.Assume("lex.Tables.Scan consults a unit only through Tables.SymbolMap (read in lex.go), so units in one SymbolMap range are indistinguishable to the implementation; part b thorough does not rely on this (every code point is scanned)")
	c.Assume("lex.Compile/Scan (checked by C09/C24) faithfully execute the parsed lex.Regexp; a defect there would surface here as a lang:/set: violation")
	c.Assume("surrogate code points U+D800..U+DFFF cannot be delivered to Scan (UTF-8 decoding) and are not observed")
	c.Assume("the reference uses the unicode package of the same Go toolchain as the code under test")

	total := newStats()
	var mu sync.Mutex
	// Per key the simplest failing case is reported (shortest pattern, then lexicographic, then
	// fold/bytes off first), independent of goroutine scheduling.
	type best struct {
		cs   Case
		what string
		n    int
	}
	bests := map[string]*best{}
	simpler := func(a, b Case) bool {
		if len(a.Pattern) != len(b.Pattern) {
			return len(a.Pattern) < len(b.Pattern)
		}
		if a.Pattern != b.Pattern {
			return a.Pattern < b.Pattern
		}
		if a.Bytes != b.Bytes {
			return !a.Bytes
		}
		return !a.Fold && b.Fold
	}
	report := func(cs Case, fs []finding) {
		mu.Lock()
		defer mu.Unlock()
		for _, f := range fs {
			cs.Quoted = fmt.Sprintf("%+q", cs.Pattern)
			b := bests[f.key]
			if b == nil {
				bests[f.key] = &best{cs: cs, what: f.what, n: 1}
				continue
			}
			b.n++
			if simpler(cs, b.cs) {
				b.cs, b.what = cs, f.what
			}
		}
	}
	flush := func(part string, st *stats) {
		mu.Lock()
		st.perPart[part] += st.cases
		total.merge(st)
		mu.Unlock()
	}

	// --- part a1: exhaustive over the meta alphabet, shortest first. The short lengths run first,
	// the long (expensive, least likely to show anything new) lengths after parts b and a2, so that
	// a budget cap never costs the cheap parts.
	k := len(metaAlphabet)
	const chunk = 1 << 13
	capped := false
	runA1 := func(from, to int) {
		for length := from; parts["a1"] && length <= to && !capped; length++ {
			n := pow(k, length)
			chunks := (n + chunk - 1) / chunk
			core.ParallelFor(chunks, 16, func(ci int) {
				if c.Expired() {
					mu.Lock()
					capped = true
					mu.Unlock()
					return
				}
				st := newStats()
				buf := make([]byte, length)
				hi := (ci + 1) * chunk
				if hi > n {
					hi = n
				}
				for idx := ci * chunk; idx < hi; idx++ {
					v := idx
					for p := length - 1; p >= 0; p-- {
						buf[p] = metaAlphabet[v%k]
						v /= k
					}
					pat := string(buf)
					for _, m := range modes {
						cs := Case{Pattern: pat, Fold: m.fold, Bytes: m.bytes}
						if fs := checkCase(cs, st); len(fs) > 0 {
							report(cs, fs)
						}
					}
				}
				flush(fmt.Sprintf("a1_len%d", length), st)
			})
			if capped {
				c.Capped(fmt.Sprintf("part a1: strings of length %d over the meta alphabet not completed", length))
			}
		}
	}
	firstStage := 4
	if maxLen < firstStage {
		firstStage = maxLen
	}
	runA1(0, firstStage)
	c.Set("meta_alphabet", metaAlphabet)
	c.Set("meta_max_length", maxLen)

	// --- part b: every Unicode class.
	scan := "full"
	if c.Quick() {
		scan = "boundary"
	}
	names := classNames()
	c.Set("unicode_class_names", len(names))
	var b []Case
	for _, cs := range classCases(names) {
		cs.Scan = scan
		b = append(b, cs)
	}
	// Heaviest first does not matter for determinism; keep the generator's order (simplest first).
	runListSmall := func(part string, list []Case) {
		skipped := false
		core.ParallelFor(len(list), 16, func(i int) {
			if c.Expired() {
				mu.Lock()
				skipped = true
				mu.Unlock()
				return
			}
			st := newStats()
			if fs := checkCase(list[i], st); len(fs) > 0 {
				report(list[i], fs)
			}
			flush(part, st)
		})
		if skipped {
			c.Capped("part " + part + " not completed")
		}
	}
	if parts["b"] {
		runListSmall("b_classes", b)
	}

	// --- part a2: skeleton grammar.
	inA1 := func(s string) bool {
		if len(s) > maxLen {
			return false
		}
		for i := 0; i < len(s); i++ {
			if strings.IndexByte(metaAlphabet, s[i]) < 0 {
				return false
			}
		}
		return true
	}
	skel := skeletons(c.Quick(), inA1)
	c.Set("skeleton_patterns", len(skel))
	runList := func(part string, list []Case) {
		const lchunk = 256
		chunks := (len(list) + lchunk - 1) / lchunk
		skipped := false
		core.ParallelFor(chunks, 16, func(ci int) {
			if c.Expired() {
				mu.Lock()
				skipped = true
				mu.Unlock()
				return
			}
			st := newStats()
			hi := (ci + 1) * lchunk
			if hi > len(list) {
				hi = len(list)
			}
			for _, cs := range list[ci*lchunk : hi] {
				if fs := checkCase(cs, st); len(fs) > 0 {
					report(cs, fs)
				}
			}
			flush(part, st)
		})
		if skipped {
			c.Capped("part " + part + " not completed")
		}
	}
	a2 := make([]Case, 0, 4*len(skel))
	for _, p := range skel {
		for _, m := range modes {
			a2 = append(a2, Case{Pattern: p, Fold: m.fold, Bytes: m.bytes})
		}
	}
	if parts["a2"] {
		runList("a2_skeletons", a2)
	}

	// --- part a1, long lengths.
	runA1(firstStage+1, maxLen)

	stopProfile()

	for key, b := range bests {
		for i := 0; i < b.n; i++ {
			c.Violate(key, b.what, b.cs)
		}
	}

	// --- evidence.
	c.Eval(total.cases)
	c.Nontrivial(total.nontrivial)
	for k, v := range total.outcomes {
		c.Outcome(k, v)
	}
	c.Add("unspecified_syntax_cases", total.unspecified)
	c.Set("unspecified_by_reason", total.unspecBy)
	c.Set("constructs_seen", total.tags)
	c.Set("cases_per_part", total.perPart)
	c.Add("reference_accepts", total.refAccept)
	c.Add("reference_rejects", total.refReject)
	c.Add("language_comparisons", total.langChecked)
	c.Add("probe_words", total.probes)
	c.Add("scans", total.scans)
	c.Add("single_unit_scans_part_b", total.codepoints)
	c.Add("repeat_limit_skipped", total.repeatLimitSkipped)
	c.Add("probe_alphabet_capped_cases", total.alphabetCapped)
	c.Add("surrogate_cells_unobservable", total.surrogateCellsSkipped)
	c.Set("max_symbol_classes", total.maxClasses)
	c.Set("part_b_scan", scan)
	for _, s := range []Case{{Pattern: `[a-z-[aeiou]]`}, {Pattern: `(?i)\x41{2,3}|\p{Greek}`, Fold: false}, {Pattern: `[^\x00-\x7f]`, Bytes: true}, {Pattern: `\xZZ`}} {
		c.Sample(s)
	}
}

func replay(c *core.Ctx, raw json.RawMessage) error {
	var cs Case
	if err := json.Unmarshal(raw, &cs); err != nil {
		return err
	}
	if !utf8.ValidString(cs.Pattern) && cs.Quoted != "" {
		// JSON cannot carry invalid UTF-8; not produced by the enumerators.
		return fmt.Errorf("pattern is not valid UTF-8; see quoted form %s", cs.Quoted)
	}
	fs := checkCase(cs, newStats())
	if len(fs) == 0 {
		return nil
	}
	var parts []string
	for _, f := range fs {
		parts = append(parts, f.key+": "+f.what)
	}
	return errors.New(strings.Join(parts, "; "))
}
