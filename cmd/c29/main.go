// C29: cancellation never yields a wrong parse.
//
// What "moment" means here. A parser can observe a context only when it calls ctx.Done() /
// ctx.Err(); what matters is WHERE in its progress the context turns cancelled. Progress is
// measured by a clock that the parser itself advances:
//
//   - generated parsers (Layer B, custom driver): every lexer rule of the grammar carries the action
//     `{ verifTick() }`, so the clock counts the tokens DELIVERED by the generated lexer(s) — the
//     parser's own lexer / token stream and the copies made by runtime lookaheads — i.e. exactly
//     the tokens the lexer was asked for;
//   - shipped parsers (js, tm, test; public API only): the clock counts listener calls.
//
// "Cancelled at moment s" = a real context.WithCancel context is cancelled (cancel() is called
// synchronously from the tick) at the instant the clock reaches s; s = 0 is "cancelled before
// Parse is called", s beyond the final clock value is "never". An already expired deadline
// context (ctx.Err() == context.DeadlineExceeded) is run as well. The context handed to Parse is a
// thin wrapper that counts Done()/Err() calls and records the clock value at every poll. Every
// moment s in 0..final clock is enumerated (quick: every 8th moment plus all poll boundaries +-2
// for the shipped parsers).
//
// Oracle: Parse returns either exactly ctx.Err() — then the listener events reported so far are a
// prefix of the uncancelled run's events — or nil with exactly the events (and semantic value)
// of the uncancelled run; nothing else (two outcome classes). A context that is never cancelled
// must give the identical result. After the moment of cancellation at most 0x200 + 1 +
// (number of lookahead invocations) further tokens are delivered by the lexer: the template polls
// ctx.Done() before every 0x200-th shift (go_parser.go.tmpl, parseFunc and lookahead share one
// counter), every shift consumes one delivered token, and one token per running parse loop may be
// fetched but not shifted. For the shipped parsers the same bound is checked on the number of
// lexer tokens between the text position reported at the moment of cancellation and the position
// reported at return (+64 tokens of slack for tokens shifted but not yet reported).
//
// Input families: (1) valid long inputs (above); (2) MALFORMED inputs for the recovering
// cancellable parsers — a generated recovering grammar (errors recovered at the first candidate,
// errors whose first recovery candidate is rejected, an error inside a block, an unrecoverable
// error at the end), long malformed js/tm texts, and every 1-token deletion / duplication /
// foreign-token insertion of short js/tm texts at every moment; the reference is the uncancelled
// run whatever it returns (nil after recovery or the SyntaxError), error-handler calls are part of
// the event stream ("!error") and of the clock; tokens discarded by recovery are delivered but
// not shifted, so the token bound is widened per handler call of the reference run; (3) the
// PHASE between main-loop shifts and lookahead shifts, which share one counter: k one-token
// statements + one statement with a runtime lookahead + a long tail for k in 0..600 (quick: every
// 8th k, 0..5 and all k = 500..520 mod 512), cancelled at the first callbacks and on both sides
// of every poll boundary — generated grammar (plain and optimizeTables+tokenStream), shipped test
// and js parsers; (4) the same phase family on DECISION LISTS with two predicate tests in
// sequence (`(?= PA) | (?= !PA & PB) | (?= !PA & !PB)`: the poll can fall inside the first
// predicate, inside the second, or between them), evaluated by applyRule (glmc, glmo) and inside
// a lookahead by lookaheadRule (glmr, recursiveLookaheads).
//
// Histories (values are reused): a parse that was CANCELLED (pads x k + a comment + one statement +
// tail, k over the same phases, so that the poll lands before, on and after the shift that follows
// the comment; cancelled before Parse and at the first callbacks) is followed by a second,
// uncancelled parse on the SAME Parser and TokenStream / Lexer values after Init; its error,
// value and events must equal what fresh values give. Generated parsers whose comment-like token
// is reported through the listener (tokenStream, plain Lexer, optimizeTables+cancellableFetch)
// and the shipped js, tm and test parsers.
//
// Reported white-space-like tokens (comments): long and short valid inputs with comments after
// every possible cancellation point, also right before the end of input, for the shipped js, tm
// and test parsers and for the generated glhs/glhl/glho parsers (every moment): a cancelled parse
// that finishes must still report them, one that stops must have reported a prefix. Comments,
// white space and invalid tokens are not shifted and do not count towards the token bound.
//
// Order: the shipped parsers run first (in-process, seconds), so the time budget that the
// generate+build batches may exhaust on a loaded machine never cuts them.
//
// A finding whose run polled the context at least twice after the cancellation gets the key
// prefix "poll-saw-cancellation-but-parse-continued": some poll saw the closed Done channel and
// its answer was dropped on the way to Parse's return.
package main

import (
	"context"
	"encoding/json"
	"fmt"
	"os"
	"sort"
	"strconv"
	"strings"
	"time"

	"github.com/inspirer/textmapper/grammar"
	"github.com/inspirer/textmapper/parsers/js"
	jstoken "github.com/inspirer/textmapper/parsers/js/token"
	"github.com/inspirer/textmapper/parsers/test"
	testtoken "github.com/inspirer/textmapper/parsers/test/token"
	"github.com/inspirer/textmapper/parsers/tm"
	tmtoken "github.com/inspirer/textmapper/parsers/tm/token"

	"verif/internal/core"
	"verif/internal/genharness"
)

func main() { core.Main("C29", "model_checking", run, replay, nil) }

const pollEvery = 0x200 // go_parser.go.tmpl: shiftCounter&0x1ff == 0

func debugf(format string, args ...any) {
	if os.Getenv("VERIF_DEBUG") != "" {
		fmt.Fprintf(os.Stderr, "[c29 %s] "+format+"\n", append([]any{time.Now().Format("15:04:05")}, args...)...)
	}
}

// evHash is the event chain hash (FNV-1a); the driver has the same function.
func evHash(h uint64, typ string, off, end int) uint64 {
	for i := 0; i < len(typ); i++ {
		h ^= uint64(typ[i])
		h *= 1099511628211
	}
	for _, v := range [2]int{off, end} {
		for k := 0; k < 4; k++ {
			h ^= uint64(byte(v >> (8 * k)))
			h *= 1099511628211
		}
	}
	return h
}

const hashSeed = 14695981039346656037

// ---------------------------------------------------------------------------------------------
// Generated parsers.

type genParser struct {
	Name       string
	TM         string
	Lookaheads int // lookahead invocations per parse of the inputs below
	NotBuiltOK bool
	Inputs     []genInput
}

type genInput struct {
	Name string
	Text string
}

func header(name string, opts ...string) string {
	return fmt.Sprintf("language %s(go);\n\npackage = \"scratch/%s\"\neventBased = true\ncancellable = true\n%s\n", name, name, strings.Join(opts, "\n"))
}

const listLexer = `
:: lexer

WhiteSpace: /[ \n]+/ (space)
ta: /a/  { verifTick() }
tb: /b/  { verifTick() }
tc: /c/  { verifTick() }
td: /d/  { verifTick() }
`

const listParser = `
:: parser

%input S;

S -> Root: Elem+ ;
Elem -> Elem: ta | tb | tc td -> Pair ;
`

const valueParser = `
:: parser

%input S;

S {int} -> Root: L { $$ = $L } ;
L {int}: Elem { $$ = 1 } | L[prev] Elem { $$ = $prev + 1 } ;
Elem -> Elem: ta | tb ;
`

// The predicate P spans the whole input, so the runtime lookahead itself shifts > 600 tokens and
// polls the context; after it the main loop shifts the same tokens again. If a cancelled
// lookahead answered "false" instead of returning the error, the main loop would take the ViaB
// branch, report ElemB events and fail on the last token.
const laParser = `
:: parser

%input S;

S -> Root:
    (?= P) ta LA tc -> ViaA
  | (?= !P) ta LB td -> ViaB
;
P: ta LA tc ;
LA: ElemA+ ;
LB: ElemB+ ;
ElemA -> ElemA: tb ;
ElemB -> ElemB: tb ;
`

func listInput(n int) string {
	var sb strings.Builder
	for i := 0; i < n; i++ {
		switch {
		case i%7 == 5 && i+1 < n:
			sb.WriteString("cd")
			i++
		case i%3 == 1:
			sb.WriteByte('b')
		default:
			sb.WriteByte('a')
		}
		if i%11 == 10 {
			sb.WriteByte(' ')
		}
	}
	return sb.String()
}

func abInput(n int) string {
	var sb strings.Builder
	for i := 0; i < n; i++ {
		if i%3 == 1 {
			sb.WriteByte('b')
		} else {
			sb.WriteByte('a')
		}
	}
	return sb.String()
}

func genParsers(quick bool) []genParser {
	li := []genInput{{"list1300", listInput(1300)}, {"list1111", listInput(1111)}}
	if !quick {
		for _, n := range []int{1024, 1201, 1450, 1600} {
			li = append(li, genInput{fmt.Sprintf("list%d", n), listInput(n)})
		}
	}
	ps := []genParser{
		{Name: "gl00", TM: header("gl00") + listLexer + listParser, Inputs: li},
		{Name: "gl01", TM: header("gl01", "cancellableFetch = true") + listLexer + listParser, Inputs: li},
		{Name: "gl10", TM: header("gl10", "tokenStream = true") + listLexer + listParser, Inputs: li},
		{Name: "gl11", TM: header("gl11", "tokenStream = true", "cancellableFetch = true") + listLexer + listParser, Inputs: li},
		{Name: "glop", TM: header("glop", "optimizeTables = true") + listLexer + listParser, Inputs: li},
		{Name: "glva", TM: header("glva") + listLexer + valueParser, Inputs: []genInput{{"ab1600", abInput(1600)}}},
		{Name: "glla", TM: header("glla") + listLexer + laParser, Lookaheads: 1, Inputs: []genInput{
			{"laA1200", "a" + strings.Repeat("b", 1198) + "c"}, // P holds: lookahead shifts 1200 tokens
			{"laB1150", "a" + strings.Repeat("b", 1148) + "d"}, // P fails at the last token
		}},
		{Name: "glls", TM: header("glls", "tokenStream = true", "optimizeTables = true") + listLexer + laParser, Lookaheads: 1, Inputs: []genInput{
			{"laA1100", "a" + strings.Repeat("b", 1098) + "c"},
		}},
		// tokenStream + cancellableFetch + a runtime lookahead: on the unchanged tree the generated
		// code does not compile (go_parser.go.tmpl, lookahead: stream.next(stack, end) is called
		// without the ctx argument that go_stream.go.tmpl adds under cancellableFetch). That is a
		// C17 matter (generated code builds), not a cancellation result: NotBuiltOK records it
		// in the evidence instead of reporting a C29 violation; once it builds it is checked.
		{Name: "glsf", TM: header("glsf", "tokenStream = true", "cancellableFetch = true") + listLexer + laParser, Lookaheads: 1, NotBuiltOK: true, Inputs: []genInput{
			{"laA1100", "a" + strings.Repeat("b", 1098) + "c"},
		}},
	}
	if !quick {
		for i := range ps {
			if ps[i].Lookaheads > 0 {
				ps[i].Inputs = append(ps[i].Inputs,
					genInput{"laA1537", "a" + strings.Repeat("b", 1535) + "c"},
					genInput{"laB1300", "a" + strings.Repeat("b", 1298) + "d"},
					genInput{"laA700", "a" + strings.Repeat("b", 698) + "c"})
			}
		}
	}
	return ps
}

const drvSrc = `package PKGNAME

import (
	"context"
	"fmt"
	"strconv"
	"strings"
	"time"

	"scratch/rt"
)

var verifTick = func() {}

type vctx struct {
	context.Context
	done, errs int
	onPoll     func()
}

func (c *vctx) Done() <-chan struct{} {
	c.done++
	if c.onPoll != nil {
		c.onPoll()
	}
	return c.Context.Done()
}

func (c *vctx) Err() error { c.errs++; return c.Context.Err() }

func evHash(h uint64, typ string, off, end int) uint64 {
	for i := 0; i < len(typ); i++ {
		h ^= uint64(typ[i])
		h *= 1099511628211
	}
	for _, v := range [2]int{off, end} {
		for k := 0; k < 4; k++ {
			h ^= uint64(byte(v >> (8 * k)))
			h *= 1099511628211
		}
	}
	return h
}

type vOut struct {
	errKind    string
	value      int
	events     []rt.Event
	evN        int
	evH        uint64
	delivered  int   // clock at return
	atCancel   int   // clock when cancel() was called, -1 = never
	polls      int   // ctx.Done() calls
	pollsAfter int   // ... of which after the cancellation
	errCalls   int
	pollClock  []int // clock at every poll
}

// verifParse parses text; the context is cancelled when the lexers have delivered s tokens
// (s == 0: before Parse is called; s < 0: never; s == -3: an expired deadline context).
func verifParse(text string, s int, keep bool) vOut { return verifParseOn(&vInst{}, text, s, keep) }

// vInst is one Parser value together with its Lexer / TokenStream value. verifParse uses a fresh
// one per parse; histories parse several inputs on the same one (Init is called before each parse,
// as the parsers' own tests do).
type vInst struct {
	p Parser
	INSTFIELD
}

func verifParseOn(inst *vInst, text string, s int, keep bool) (o vOut) {
	base, cancel := context.WithCancel(context.Background())
	defer cancel()
	if s == -3 {
		var c2 context.CancelFunc
		base, c2 = context.WithDeadline(context.Background(), time.Unix(1, 0))
		defer c2()
		<-base.Done()
	}
	o.atCancel = -1
	clock := 0
	if s == -3 {
		o.atCancel = 0
	}
	ctx := &vctx{Context: base}
	ctx.onPoll = func() {
		if keep {
			o.pollClock = append(o.pollClock, clock)
		}
		if o.atCancel >= 0 {
			o.pollsAfter++
		}
	}
	verifTick = func() {
		clock++
		if clock == s {
			o.atCancel = clock
			cancel()
		}
	}
	defer func() { verifTick = func() {} }()
	o.evH = 14695981039346656037
	listener := func(t NodeType, offset, endoffset int) {
		o.evN++
		o.evH = evHash(o.evH, t.String(), offset, endoffset)
		if keep {
			o.events = append(o.events, rt.Event{Type: t.String(), Off: offset, End: endoffset})
		}
	}
	if s == 0 {
		o.atCancel = 0
		cancel()
	}
	// error-handler calls are part of the observable outcome: they go into the event stream as
	// pseudo events "!error" (recovering parsers only)
	eh := func(se SyntaxError) bool {
		o.evN++
		o.evH = evHash(o.evH, "!error", se.Offset, se.Endoffset)
		if keep {
			o.events = append(o.events, rt.Event{Type: "!error", Off: se.Offset, End: se.Endoffset})
		}
		return true
	}
	_ = eh
	p := &inst.p
	PARSERINIT
	var err error
	PARSECALL
	o.delivered = clock
	o.polls, o.errCalls = ctx.done, ctx.errs
	switch {
	case err == nil:
		o.errKind = "nil"
	case base.Err() != nil && err == base.Err():
		o.errKind = "ctx"
	default:
		if se, ok := err.(SyntaxError); ok {
			o.errKind = fmt.Sprintf("syntax@%d-%d", se.Offset, se.Endoffset)
		} else {
			o.errKind = "other:" + strings.NewReplacer("|", "/", "\n", " ").Replace(err.Error())
		}
	}
	return o
}

// outcome is what a caller can observe of one parse: error, value, events (count + chain hash).
func (o *vOut) outcome() string {
	return fmt.Sprintf("%s value=%d events=%d hash=%d", o.errKind, o.value, o.evN, o.evH)
}

func (o *vOut) record(s int) string {
	return fmt.Sprintf("%d|%s|%d|%d|%d|%d|%d|%d|%d", s, o.errKind, o.value, o.evN, o.evH, o.delivered, o.atCancel, o.polls, o.pollsAfter)
}

// VerifRun. text = "m=<from>:<to>:<step>;x=<s>,<s>,...;in=<input>" (in= is last).
// mode "ref": uncancelled run, full events; mode "one": the single moment m=<s>, full events;
// mode "sweep": one record per moment.
func VerifRun(entry, mode, text string) (res rt.Result) {
	i := strings.Index(text, "in=")
	input := text[i+3:]
	var moments []int
	for _, f := range strings.Split(text[:i], ";") {
		switch {
		case strings.HasPrefix(f, "m="):
			p := strings.Split(f[2:], ":")
			from, _ := strconv.Atoi(p[0])
			to, step := from, 1
			if len(p) > 1 {
				to, _ = strconv.Atoi(p[1])
			}
			if len(p) > 2 {
				step, _ = strconv.Atoi(p[2])
			}
			for s := from; s <= to; s += step {
				moments = append(moments, s)
			}
		case strings.HasPrefix(f, "x=") && len(f) > 2:
			for _, e := range strings.Split(f[2:], ",") {
				s, _ := strconv.Atoi(e)
				moments = append(moments, s)
			}
		}
	}
	switch mode {
	case "ref", "one":
		s := -1
		if mode == "one" {
			s = moments[0]
		}
		o := verifParse(input, s, true)
		res.Events = o.events
		res.ErrMsg = o.errKind
		res.Accept = o.errKind == "nil"
		res.Extra = map[string]any{"record": o.record(s), "pollClock": o.pollClock}
		return res
	}
	if mode == "hist" {
		// input = p1 NUL p2 NUL p2' ...: for every moment s, p1 is parsed with the context
		// cancelled at s, then each p2 is parsed (never cancelled) on the SAME parser and
		// lexer/stream values; its outcome must equal a fresh instance's outcome on p2.
		parts := strings.Split(input, "\x00")
		var diffs []any
		runs := 0
		for j := 1; j < len(parts); j++ {
			f := verifParse(parts[j], -1, false)
			want := f.outcome()
			for _, s := range moments {
				inst := &vInst{}
				first := verifParseOn(inst, parts[0], s, false)
				o := verifParseOn(inst, parts[j], -1, false)
				runs++
				if got := o.outcome(); got != want && len(diffs) < 8 {
					diffs = append(diffs, []any{s, j, first.errKind, got, want})
				}
			}
		}
		res.Accept = true
		res.Extra = map[string]any{"diffs": diffs, "runs": runs}
		return res
	}
	extra := map[string]any{}
	if mode == "refsweep" {
		// the uncancelled reference run and the sweep in one case; "all" in the moment list
		// stands for every moment 0..final clock+3
		o := verifParse(input, -1, true)
		res.Events = o.events
		extra["record"] = o.record(-1)
		extra["pollClock"] = o.pollClock
		if strings.Contains(text[:i], "all") {
			for s := 0; s <= o.delivered+3; s++ {
				moments = append(moments, s)
			}
		}
	}
	recs := make([]string, 0, len(moments))
	for _, s := range moments {
		o := verifParse(input, s, false)
		recs = append(recs, o.record(s))
	}
	res.Accept = true
	extra["records"] = recs
	res.Extra = extra
	return res
}
`

func driver(g *grammar.Grammar, name string) string {
	src := strings.ReplaceAll(drvSrc, "PKGNAME", name)
	valued := false
	for _, in := range g.Parser.Inputs {
		if !in.Synthetic && g.Parser.Nonterms[in.Nonterm].Type != "" {
			valued = true
		}
	}
	lhs := "err ="
	if valued {
		lhs = "o.value, err ="
	}
	var call string
	if g.Options.TokenStream {
		src = strings.ReplaceAll(src, "INSTFIELD", "st TokenStream")
		call = "inst.st.Init(text, listener)\n\t" + lhs + " p.Parse(ctx, &inst.st)"
	} else {
		src = strings.ReplaceAll(src, "INSTFIELD", "l Lexer")
		call = "inst.l.Init(text)\n\t" + lhs + " p.Parse(ctx, &inst.l)"
	}
	if g.Parser.IsRecovering {
		src = strings.ReplaceAll(src, "PARSERINIT", "p.Init(eh, listener)")
	} else {
		src = strings.ReplaceAll(src, "PARSERINIT", "p.Init(listener)")
	}
	return strings.ReplaceAll(src, "PARSECALL", call)
}

// record of one cancelled run (decoded from the driver / produced in-process for shipped parsers).
type record struct {
	S          int
	ErrKind    string
	Value      int
	EvN        int
	EvH        uint64
	Delivered  int
	AtCancel   int
	Polls      int
	PollsAfter int
}

func parseRecord(s string) (r record, err error) {
	f := strings.Split(s, "|")
	if len(f) != 9 {
		return r, fmt.Errorf("bad record %q", s)
	}
	r.S, _ = strconv.Atoi(f[0])
	r.ErrKind = f[1]
	r.Value, _ = strconv.Atoi(f[2])
	r.EvN, _ = strconv.Atoi(f[3])
	r.EvH, _ = strconv.ParseUint(f[4], 10, 64)
	r.Delivered, _ = strconv.Atoi(f[5])
	r.AtCancel, _ = strconv.Atoi(f[6])
	r.Polls, _ = strconv.Atoi(f[7])
	r.PollsAfter, _ = strconv.Atoi(f[8])
	return r, nil
}

// reference is the uncancelled run.
type reference struct {
	rec       record
	prefixH   []uint64 // chain hash of the first k events
	pollClock []int
}

type finding struct{ key, what string }

// judge is the C29 oracle for one run. bound = maximal number of clock ticks (tokens) after the
// cancellation; progress(r) converts the two clock values into the quantity that is bounded.
func judge(ref *reference, r record, bound int, after func(r record) int) (fs []finding, class string) {
	add := func(k, w string) { fs = append(fs, finding{k, w}) }
	identical := r.ErrKind == ref.rec.ErrKind && r.EvN == ref.rec.EvN && r.EvH == ref.rec.EvH && r.Value == ref.rec.Value
	switch {
	case r.ErrKind == "ctx":
		class = "ctx error"
		if r.AtCancel < 0 {
			add("ctx-error-without-cancellation", "Parse returns the context's error although the context was never cancelled")
		}
		if r.EvN > len(ref.prefixH)-1 || ref.prefixH[r.EvN] != r.EvH {
			add("events-not-a-prefix", fmt.Sprintf("the %d events reported before the cancelled return are not a prefix of the uncancelled run's %d events", r.EvN, ref.rec.EvN))
		}
	case identical:
		class = "identical to uncancelled"
	case r.ErrKind == "nil":
		class = "WRONG: nil error, different result"
		add("nil-error-but-different-result", fmt.Sprintf("Parse returns nil but %d events / value %d (uncancelled: %d events / value %d, event hashes %d vs %d)", r.EvN, r.Value, ref.rec.EvN, ref.rec.Value, r.EvH, ref.rec.EvH))
	default:
		class = "WRONG: other error"
		add("wrong-error", fmt.Sprintf("Parse returns %q, neither the context's error nor the uncancelled result (%s)", r.ErrKind, ref.rec.ErrKind))
	}
	if r.AtCancel < 0 && !identical {
		add("uncancelled-run-differs", "the context was never cancelled but the result differs from the reference run")
	}
	if r.AtCancel >= 0 {
		if d := after(r); d > bound {
			add("stops-too-late", fmt.Sprintf("%d tokens were delivered after the cancellation (bound %d)", d, bound))
		}
	}
	// Site discriminator: the parse polled the context after the cancellation (ctx.Done() was
	// closed at that poll) and went on nevertheless - the poll's answer was swallowed somewhere
	// between the polling loop and Parse's return. The symptoms above are its consequences.
	if r.PollsAfter >= 2 {
		for i := range fs {
			fs[i].key = "poll-saw-cancellation-but-parse-continued:" + fs[i].key
			fs[i].what += fmt.Sprintf(" [the context was polled %d times after the cancellation; the first of these polls did not end the parse]", r.PollsAfter)
		}
	}
	return
}

type genCase struct {
	Parser string `json:"parser"`
	TM     string `json:"tm"`
	Input  string `json:"input_name"`
	Text   string `json:"text"`
	S      int    `json:"s"`
	LA     int    `json:"lookaheads"`
	Slack  int    `json:"slack,omitempty"`
}

func buildRef(res genharness.Result) (*reference, error) {
	if res.Panic != "" || res.Hang || res.Extra == nil {
		return nil, fmt.Errorf("reference run failed: panic=%q hang=%v", res.Panic, res.Hang)
	}
	rec, err := parseRecord(res.Extra["record"].(string))
	if err != nil {
		return nil, err
	}
	ref := &reference{rec: rec}
	h := uint64(hashSeed)
	ref.prefixH = append(ref.prefixH, h)
	for _, e := range res.Events {
		h = evHash(h, e.Type, e.Off, e.End)
		ref.prefixH = append(ref.prefixH, h)
	}
	if pc, ok := res.Extra["pollClock"].([]any); ok {
		for _, v := range pc {
			ref.pollClock = append(ref.pollClock, int(v.(float64)))
		}
	}
	if len(res.Events) != rec.EvN || h != rec.EvH {
		return nil, fmt.Errorf("driver/check hash mismatch: %d events, %d in record", len(res.Events), rec.EvN)
	}
	return ref, nil
}

func layerB(c *core.Ctx, st *stats) {
	ps := genParsers(c.Quick())
	// pass 1: reference runs
	var specs []genharness.Spec
	for _, p := range ps {
		var cases []genharness.Case
		for _, in := range p.Inputs {
			cases = append(cases, genharness.Case{Mode: "ref", Text: "in=" + in.Text})
		}
		specs = append(specs, genharness.Spec{Name: p.Name, TM: p.TM, Driver: driver, Cases: cases})
	}
	// The same scratch module is used for both passes: the reference pass tells the final clock
	// value, which bounds the moments of the sweep. Build once, run twice = two RunBatch calls
	// (the second build hits the Go build cache).
	t0 := time.Now()
	outs, err := genharness.RunBatch(specs, genharness.BatchOpts{CaseTimeout: 120 * time.Second})
	debugf("reference batch %.1fs", time.Since(t0).Seconds())
	if err != nil {
		c.Violate("layerB:harness", err.Error(), nil)
		return
	}
	refs := map[string]*reference{}
	var sweep []genharness.Spec
	type sref struct {
		p  genParser
		in genInput
	}
	var order [][]sref
	for i, p := range ps {
		out := outs[i]
		if p.NotBuiltOK && out.GenPanic == "" && out.GenErr == "" && out.BuildErr != "" {
			c.Set("outside_domain_does_not_build_"+p.Name, out.BuildErr)
			continue
		}
		if out.GenErr != "" || out.GenPanic != "" || out.BuildErr != "" || len(out.Results) != len(p.Inputs) {
			c.Violate("layerB:parser-not-built:"+p.Name, fmt.Sprintf("generate/build failed: %s %s %s", out.GenErr, out.GenPanic, out.BuildErr), genCase{Parser: p.Name, TM: p.TM})
			continue
		}
		if !out.Grammar.Options.Cancellable {
			c.Violate("layerB:not-cancellable:"+p.Name, "cancellable = true was not honoured", genCase{Parser: p.Name, TM: p.TM})
			continue
		}
		var cases []genharness.Case
		var srefs []sref
		for j, in := range p.Inputs {
			ref, err := buildRef(out.Results[j])
			if err != nil {
				c.Violate("layerB:reference-run:"+p.Name, err.Error(), genCase{Parser: p.Name, TM: p.TM, Input: in.Name, Text: in.Text, S: -1})
				continue
			}
			if ref.rec.ErrKind != "nil" {
				c.Violate("layerB:reference-run-rejected:"+p.Name, "the uncancelled parse of a valid input fails: "+ref.rec.ErrKind, genCase{Parser: p.Name, TM: p.TM, Input: in.Name, Text: in.Text, S: -1})
				continue
			}
			refs[p.Name+"/"+in.Name] = ref
			c.Set("gen_"+p.Name+"_"+in.Name, map[string]any{"tokens_delivered": ref.rec.Delivered, "events": ref.rec.EvN, "polls": ref.rec.Polls, "poll_clock": ref.pollClock})
			// every moment 0..final clock + 3 (beyond = never), plus "never" (-1) and the expired deadline (-3)
			cases = append(cases, genharness.Case{Mode: "sweep", Text: fmt.Sprintf("m=0:%d:1;x=-1,-3;in=%s", ref.rec.Delivered+3, in.Text)})
			srefs = append(srefs, sref{p, in})
		}
		if len(cases) > 0 {
			sweep = append(sweep, genharness.Spec{Name: p.Name, TM: p.TM, Driver: driver, Cases: cases})
			order = append(order, srefs)
		}
	}
	if c.Expired() {
		c.Capped("generated parsers: sweeps not run (budget)")
		return
	}
	t0 = time.Now()
	outs, err = genharness.RunBatch(sweep, genharness.BatchOpts{CaseTimeout: 300 * time.Second})
	debugf("sweep batch %.1fs", time.Since(t0).Seconds())
	if err != nil {
		c.Violate("layerB:harness", err.Error(), nil)
		return
	}
	for i, out := range outs {
		for j, sr := range order[i] {
			if j >= len(out.Results) {
				c.Violate("layerB:sweep-missing:"+sr.p.Name, "no sweep result: "+out.BuildErr+out.GenErr, genCase{Parser: sr.p.Name, TM: sr.p.TM})
				continue
			}
			res := out.Results[j]
			gc := genCase{Parser: sr.p.Name, TM: sr.p.TM, Input: sr.in.Name, Text: sr.in.Text, LA: sr.p.Lookaheads}
			if res.Hang || res.Panic != "" || res.Extra == nil || res.Extra["records"] == nil {
				c.Violate("layerB:sweep-failed:"+sr.p.Name, fmt.Sprintf("the sweep did not complete: hang=%v panic=%q", res.Hang, res.Panic), gc)
				continue
			}
			ref := refs[sr.p.Name+"/"+sr.in.Name]
			maxAfter := judgeGenRecords(c, st, sr.p, sr.in, ref, res.Extra["records"].([]any), 0)
			c.Set("gen_"+sr.p.Name+"_"+sr.in.Name+"_max_tokens_after_cancel", maxAfter)
			// sensitivity of the bound: the stop distance must actually reach (almost) the bound,
			// otherwise the inputs are too short to see a late stop
			if maxAfter < pollEvery-2 {
				c.Capped(fmt.Sprintf("%s/%s: the largest observed stop distance is only %d tokens", sr.p.Name, sr.in.Name, maxAfter))
			}
		}
	}
}

// judgeGenRecords judges the records of one sweep of a generated parser; returns the largest
// number of tokens delivered after a cancellation.
//
// slack: tokens that are delivered but never shifted. Error recovery discards input tokens
// (skipBrokenCode); the statement bounds SHIFTED tokens, so for malformed inputs the bound on
// delivered tokens is widened by the number of error-handler calls of the uncancelled run times
// the largest number of tokens one recovery of these inputs discards (1).
func judgeGenRecords(c *core.Ctx, st *stats, p genParser, in genInput, ref *reference, recs []any, slack int) (maxAfter int) {
	gc := genCase{Parser: p.Name, TM: p.TM, Input: in.Name, Text: in.Text, LA: p.Lookaheads, Slack: slack}
	bound := pollEvery + 1 + p.Lookaheads + slack
	for _, rs := range recs {
		r, err := parseRecord(rs.(string))
		if err != nil {
			c.Violate("layerB:harness", err.Error(), gc)
			continue
		}
		fs, class := judge(ref, r, bound, func(r record) int { return r.Delivered - r.AtCancel })
		if r.AtCancel >= 0 && r.Delivered-r.AtCancel > maxAfter {
			maxAfter = r.Delivered - r.AtCancel
		}
		st.note(c, p.Name, in.Name, r, class)
		g := gc
		g.S = r.S
		for _, f := range fs {
			c.Violate("generated:"+p.Name+":"+f.key, fmt.Sprintf("%s; parser %s, input %s (%d tokens, uncancelled outcome %s), cancelled at moment s=%d (clock at cancel %d, at return %d, %d polls)", f.what, p.Name, in.Name, ref.rec.Delivered, ref.rec.ErrKind, r.S, r.AtCancel, r.Delivered, r.Polls), g)
		}
	}
	return maxAfter
}

// --- malformed inputs and the phase between main-loop shifts and lookahead shifts -------------

// A recovering cancellable parser. afterErr = {tb, td}: at the top level a 'd' is a recovery
// candidate that cannot be used (no open block), so "a d b" goes through the retry path of
// recoverFromError (candidate rejected, removed from the set, skipped); "a a b" recovers at the
// first candidate; "c a d" recovers inside a block.
const recLexer = `
:: lexer

WhiteSpace: /[ \n]+/ (space)
ta: /a/  { verifTick() }
tb: /b/  { verifTick() }
tc: /c/  { verifTick() }
td: /d/  { verifTick() }
error:
`

const recParser = `
:: parser

%input S;

S -> Root: Stmt+ ;
Stmt:
    ta tb -> AB
  | tc S td -> Block
  | tc error td -> BadBlock
  | error tb -> Bad
;
`

func recInput(n int, unrecoverable bool) string {
	var sb strings.Builder
	for i := 0; i < n; i++ {
		switch {
		case i%13 == 7:
			sb.WriteString("aab ") // recovered at the first candidate
		case i%17 == 11:
			sb.WriteString("adb ") // first candidate ('d') is rejected, retry
		case i%29 == 20:
			sb.WriteString("cabadd ") // error inside a block, recovered by BadBlock
		case i%7 == 3:
			sb.WriteString("cababd ")
		default:
			sb.WriteString("ab")
		}
	}
	if unrecoverable {
		sb.WriteString("a") // error at the end of input: nothing to recover with, SyntaxError returned
	}
	return sb.String()
}

// The phase family: k one-token statements, then one statement with a runtime lookahead (the
// predicate shifts 3 tokens), then a long tail. The main loop and lookahead() share the shift
// counter; k decides on which side of a 0x200 boundary the lookahead's shifts fall.
const phaseParser = `
:: parser

%input S;

S -> Root: Stmt+ ;
Stmt:
    ta -> Pad
  | tb (?= P) tc tc td -> ViaA
  | tb (?= !P) tc tc ta -> ViaB
;
P: tc tc td ;
`

// Decision lists with two predicate tests in sequence: the generated chain is
// `if ok, err = AtPA(..); ok {..} else if ok, err = AtPB(..); ok {..} else {..}`. The 0x200-th
// counted shift (and with it the poll) can fall inside the first predicate, inside the second or
// between them; k decides which.
const multiParser = `
:: parser

%input S;

S -> Root: Stmt+ ;
Stmt:
    ta -> Pad
  | tb (?= PA) tc tc tc td -> ViaA
  | tb (?= !PA & PB) tc tc tc ta -> ViaB
  | tb (?= !PA & !PB) tc tc tc tb -> ViaC
;
PA: tc tc tc td ;
PB: tc tc tc ta ;
`

// The same decision list evaluated INSIDE a lookahead (lookaheadRule instead of applyRule's
// cases); needs recursiveLookaheads.
const multiNestedParser = `
:: parser

%input S;

S -> Root: Stmt+ ;
Stmt:
    ta -> Pad
  | (?= Q) tb X -> ViaQ
  | (?= !Q) tb tb -> ViaN
;
Q: tb X ;
X:
    (?= PA) tc tc tc td -> XA
  | (?= !PA & PB) tc tc tc ta -> XB
  | (?= !PA & !PB) tc tc tc tb -> XC
;
PA: tc tc tc td ;
PB: tc tc tc ta ;
`

func phaseKs(quick bool) []int {
	var ks []int
	for k := 0; k <= 600; k++ {
		if !quick || k%8 == 0 || k < 6 || (k%512 >= 500 && k%512 <= 520) {
			ks = append(ks, k)
		}
	}
	return ks
}

// phaseMoments: the first callbacks / tokens and both sides of every 0x200 boundary.
const phaseMoments = "m=0:10:1;m=500:526:1;m=1012:1038:1;x=-1,-3"

func layerB2(c *core.Ctx, st *stats) {
	rec := genParser{Name: "glrc", TM: header("glrc") + recLexer + recParser, Inputs: []genInput{
		{"rec420", recInput(420, false)},
		{"rec333fail", recInput(333, true)},
	}}
	recO := genParser{Name: "glro", TM: header("glro", "optimizeTables = true", "tokenStream = true") + recLexer + recParser, Inputs: []genInput{
		{"rec400", recInput(400, false)},
	}}
	phase := genParser{Name: "glph", TM: header("glph") + listLexer + phaseParser, Lookaheads: 1}
	phaseO := genParser{Name: "glpo", TM: header("glpo", "optimizeTables = true", "tokenStream = true") + listLexer + phaseParser, Lookaheads: 1}
	for _, k := range phaseKs(c.Quick()) {
		phase.Inputs = append(phase.Inputs, genInput{fmt.Sprintf("pad%d+A", k), strings.Repeat("a", k) + "bccd" + strings.Repeat("a", 700)})
		if k%2 == 1 || !c.Quick() {
			phase.Inputs = append(phase.Inputs, genInput{fmt.Sprintf("pad%d+B", k), strings.Repeat("a", k) + "bcca" + strings.Repeat("a", 700)})
		}
		if k%512 >= 500 && k%512 <= 520 {
			phaseO.Inputs = append(phaseO.Inputs, genInput{fmt.Sprintf("pad%d+A", k), strings.Repeat("a", k) + "bccd" + strings.Repeat("a", 700)})
		}
	}
	multi := genParser{Name: "glmc", TM: header("glmc") + listLexer + multiParser, Lookaheads: 2}
	multiO := genParser{Name: "glmo", TM: header("glmo", "optimizeTables = true", "tokenStream = true") + listLexer + multiParser, Lookaheads: 2}
	multiR := genParser{Name: "glmr", TM: header("glmr", "recursiveLookaheads = true") + listLexer + multiNestedParser, Lookaheads: 5}
	for _, k := range phaseKs(c.Quick()) {
		dense := k%512 >= 495 && k%512 <= 520
		for vi, tail := range []string{"bcccd", "bccca", "bcccb"} {
			in := genInput{fmt.Sprintf("pad%d+%c", k, 'A'+vi), strings.Repeat("a", k) + tail + strings.Repeat("a", 700)}
			if dense || !c.Quick() || k%24 == 8*vi {
				multi.Inputs = append(multi.Inputs, in)
			}
			if dense {
				multiO.Inputs = append(multiO.Inputs, in)
				multiR.Inputs = append(multiR.Inputs, in)
			}
		}
	}
	ps := []genParser{rec, recO, phase, phaseO, multi, multiO, multiR}
	var specs []genharness.Spec
	for i, p := range ps {
		var cases []genharness.Case
		for _, in := range p.Inputs {
			m := "all;x=-3"
			if i >= 2 {
				m = phaseMoments
			}
			cases = append(cases, genharness.Case{Mode: "refsweep", Text: m + ";in=" + in.Text})
		}
		specs = append(specs, genharness.Spec{Name: p.Name, TM: p.TM, Driver: driver, Cases: cases})
	}
	t0 := time.Now()
	outs, err := genharness.RunBatch(specs, genharness.BatchOpts{CaseTimeout: 300 * time.Second})
	debugf("malformed + phase batch %.1fs", time.Since(t0).Seconds())
	if err != nil {
		c.Violate("layerB:harness", err.Error(), nil)
		return
	}
	for i, p := range ps {
		out := outs[i]
		if out.GenErr != "" || out.GenPanic != "" || out.BuildErr != "" || len(out.Results) != len(p.Inputs) {
			c.Violate("layerB:parser-not-built:"+p.Name, fmt.Sprintf("generate/build failed: %s %s %s", out.GenErr, out.GenPanic, out.BuildErr), genCase{Parser: p.Name, TM: p.TM})
			continue
		}
		if i < 2 && !out.Grammar.Parser.IsRecovering {
			c.Violate("layerB:not-recovering:"+p.Name, "the error rules did not turn recovery on", genCase{Parser: p.Name, TM: p.TM})
			continue
		}
		maxAll, handlerCalls := 0, 0
		for j, in := range p.Inputs {
			res := out.Results[j]
			gc := genCase{Parser: p.Name, TM: p.TM, Input: in.Name, Text: in.Text, LA: p.Lookaheads, S: -1}
			if res.Hang || res.Panic != "" || res.Extra == nil || res.Extra["records"] == nil {
				c.Violate("layerB:sweep-failed:"+p.Name, fmt.Sprintf("the sweep did not complete: hang=%v panic=%q", res.Hang, res.Panic), gc)
				continue
			}
			ref, err := buildRef(res)
			if err != nil {
				c.Violate("layerB:reference-run:"+p.Name, err.Error(), gc)
				continue
			}
			slack := 0
			for _, e := range res.Events {
				if e.Type == "!error" {
					handlerCalls++
					slack++
				}
			}
			if i >= 2 && ref.rec.ErrKind != "nil" {
				c.Violate("layerB:reference-run-rejected:"+p.Name, "the uncancelled parse of a valid input fails: "+ref.rec.ErrKind, gc)
				continue
			}
			if m := judgeGenRecords(c, st, p, in, ref, res.Extra["records"].([]any), slack); m > maxAll {
				maxAll = m
			}
		}
		c.Set("gen_"+p.Name, map[string]any{"inputs": len(p.Inputs), "handler_calls_in_reference_runs": handlerCalls, "max_tokens_after_cancel": maxAll})
		if i < 2 && handlerCalls == 0 {
			c.Capped(p.Name + ": no error-handler call in the reference runs (malformed inputs are not malformed)")
		}
	}
}

// --- histories: a cancelled parse followed by another parse on the same values -----------------

// A list grammar whose white-space-like token '!' ("comment") is reported through the listener:
// such tokens wait in the parser's / token stream's `pending` queue until the next shift.
const histLexer = `
:: lexer

WhiteSpace: /[ \n]+/ (space)
cm: /!/ (space)
ta: /a/  { verifTick() }
tb: /b/  { verifTick() }
`

const histParser = `
:: parser

%input S;

%inject cm -> Comment;

S -> Root: Elem+ ;
Elem -> Elem: ta | tb ;
`

type histCase struct {
	Parser string   `json:"hist_parser"`
	TM     string   `json:"tm"`
	First  string   `json:"first"`
	Second []string `json:"second"`
	S      int      `json:"s"`
}

// histSeconds are the inputs parsed after the cancelled one: a leading comment, a comment in the
// middle, no comment but longer than the position where the first parse stopped, and a plain one.
var histSeconds = []string{"!a", "ab!a!", strings.Repeat(" ", 700) + "a!b", "ab"}

const histMoments = "m=0:3:1;m=505:516:1"

func layerB3(c *core.Ctx, st *stats) {
	ps := []genParser{
		{Name: "glhs", TM: header("glhs", "tokenStream = true") + histLexer + histParser},
		{Name: "glhl", TM: header("glhl") + histLexer + histParser},
		{Name: "glho", TM: header("glho", "tokenStream = true", "optimizeTables = true", "cancellableFetch = true") + histLexer + histParser},
	}
	var firsts []genInput
	for _, k := range phaseKs(c.Quick()) {
		// the comment sits in front of token k+1; k decides where that token is relative to the poll
		firsts = append(firsts, genInput{fmt.Sprintf("pad%d", k), strings.Repeat("a", k) + " ! a" + strings.Repeat("b", 700)})
	}
	var long strings.Builder
	for i := 0; i < 1200; i++ {
		if i%5 == 0 {
			long.WriteString("!")
		}
		if i%3 == 1 {
			long.WriteString("b")
		} else {
			long.WriteString("a ")
		}
	}
	long.WriteString(" !")
	commented := []genInput{{"commented1200", long.String()}, {"short1", "a !"}, {"short2", "!a!b ! a !"}}
	var specs []genharness.Spec
	for _, p := range ps {
		var cases []genharness.Case
		for _, f := range firsts {
			cases = append(cases, genharness.Case{Mode: "hist", Text: histMoments + ";in=" + f.Text + "\x00" + strings.Join(histSeconds, "\x00")})
		}
		// and single parses of commented inputs at EVERY moment: reported white-space-like tokens
		// after the cancellation point (also right before the end of input)
		for _, in := range commented {
			cases = append(cases, genharness.Case{Mode: "refsweep", Text: "all;x=-3;in=" + in.Text})
		}
		specs = append(specs, genharness.Spec{Name: p.Name, TM: p.TM, Driver: driver, Cases: cases})
	}
	t0 := time.Now()
	outs, err := genharness.RunBatch(specs, genharness.BatchOpts{CaseTimeout: 300 * time.Second})
	debugf("history batch %.1fs", time.Since(t0).Seconds())
	if err != nil {
		c.Violate("layerB:harness", err.Error(), nil)
		return
	}
	for i, p := range ps {
		out := outs[i]
		if out.GenErr != "" || out.GenPanic != "" || out.BuildErr != "" || len(out.Results) != len(firsts)+len(commented) {
			c.Violate("layerB:parser-not-built:"+p.Name, fmt.Sprintf("generate/build failed: %s %s %s", out.GenErr, out.GenPanic, out.BuildErr), genCase{Parser: p.Name, TM: p.TM})
			continue
		}
		runs := 0
		for j, f := range firsts {
			res := out.Results[j]
			hc := histCase{Parser: p.Name, TM: p.TM, First: f.Text, Second: histSeconds}
			if res.Hang || res.Panic != "" || res.Extra == nil {
				c.Violate("layerB:history-failed:"+p.Name, fmt.Sprintf("the history sweep did not complete: hang=%v panic=%q", res.Hang, res.Panic), hc)
				continue
			}
			n, _ := res.Extra["runs"].(float64)
			runs += int(n)
			ds, _ := res.Extra["diffs"].([]any)
			for _, d := range ds {
				t := d.([]any)
				s, j2 := int(t[0].(float64)), int(t[1].(float64))
				k := hc
				k.S = s
				k.Second = []string{histSeconds[j2-1]}
				c.Violate("generated:"+p.Name+":history:parse-after-cancelled-parse-differs-from-fresh", fmt.Sprintf("the same Parser and Lexer/TokenStream values parse %s + \" ! a\" + 700 x b (context cancelled at moment %d, returned %v) and then, after Init, %q: outcome %v, a fresh instance gives %v", f.Name, s, t[2], clip(histSeconds[j2-1]), t[3], t[4]), k)
			}
		}
		st.runs += int64(runs)
		st.compared += int64(runs)
		c.Eval(int64(runs))
		c.Add("history_runs_generated", int64(runs))
		for j, in := range commented {
			res := out.Results[len(firsts)+j]
			gc := genCase{Parser: p.Name, TM: p.TM, Input: in.Name, Text: in.Text, S: -1}
			if res.Hang || res.Panic != "" || res.Extra == nil || res.Extra["records"] == nil {
				c.Violate("layerB:sweep-failed:"+p.Name, fmt.Sprintf("the sweep did not complete: hang=%v panic=%q", res.Hang, res.Panic), gc)
				continue
			}
			ref, err := buildRef(res)
			if err != nil || ref.rec.ErrKind != "nil" {
				c.Violate("layerB:reference-run:"+p.Name, fmt.Sprintf("reference run of a valid input: %v %s", err, res.ErrMsg), gc)
				continue
			}
			comments := 0
			for _, e := range res.Events {
				if e.Type == "Comment" {
					comments++
				}
			}
			if comments == 0 {
				c.Capped(p.Name + "/" + in.Name + ": no Comment event in the reference run")
			}
			judgeGenRecords(c, st, p, in, ref, res.Extra["records"].([]any), 0)
		}
	}
}

func replayHist(k histCase) error {
	outs, err := genharness.RunBatch([]genharness.Spec{{Name: k.Parser, TM: k.TM, Driver: driver, Cases: []genharness.Case{
		{Mode: "hist", Text: fmt.Sprintf("m=%d;in=%s\x00%s", k.S, k.First, strings.Join(k.Second, "\x00"))},
	}}}, genharness.BatchOpts{CaseTimeout: 120 * time.Second})
	if err != nil {
		return err
	}
	if len(outs) != 1 || len(outs[0].Results) != 1 || outs[0].Results[0].Extra == nil {
		return fmt.Errorf("generate/build/run failed: %s %s %s", outs[0].GenErr, outs[0].GenPanic, outs[0].BuildErr)
	}
	if ds, _ := outs[0].Results[0].Extra["diffs"].([]any); len(ds) > 0 {
		return fmt.Errorf("parse after the cancelled parse differs from a fresh instance: %v", ds[0])
	}
	return nil
}

// ---------------------------------------------------------------------------------------------
// Statistics.

type stats struct {
	states, runs, compared int64
	seen                   map[string]bool
}

func (st *stats) note(c *core.Ctx, parser, input string, r record, class string) {
	st.runs++
	st.compared++
	k := fmt.Sprintf("%s/%s/%d/%d", parser, input, r.S, r.Polls)
	if !st.seen[k] {
		st.seen[k] = true
		st.states++
	}
	c.Eval(1)
	c.Outcome(class, 1)
	if r.AtCancel >= 0 && r.ErrKind == "nil" {
		c.Add("cancelled_but_finished_identically", 1)
	}
	if r.ErrKind == "ctx" && r.EvN > 0 {
		c.Nontrivial(1) // cancelled in the middle: a non-empty proper prefix of events was reported
	}
}

// ---------------------------------------------------------------------------------------------
// Shipped parsers.

type ev struct {
	T        int
	Off, End int
}

type shippedParser struct {
	Name   string
	Inputs []genInput
	// run parses src, calling node for every listener event and onErr for every error-handler
	// call; returns Parse's error and, for a SyntaxError, its description "syntax@off-end".
	run    func(ctx context.Context, src string, node func(t, off, end int), onErr func(off, end int)) (err error, syntax string)
	tokens func(src string) []int // start offsets of the lexer's tokens
	typ    func(t int) string
}

func shippedParsers() []shippedParser {
	var tmText strings.Builder
	tmText.WriteString("language l(go);\n\n:: lexer\n\n")
	for i := 0; i < 260; i++ {
		fmt.Fprintf(&tmText, "tok%d: /a%d/\n", i, i)
	}
	tmText.WriteString("\n:: parser\n\n")
	for i := 0; i < 120; i++ {
		fmt.Fprintf(&tmText, "r%d -> N%d: tok%d r%d? | (tok1 tok2)+ ;\n", i, i, i, (i+1)%120)
	}
	var tmLong strings.Builder
	tmLong.WriteString("language l(go);\n:: lexer\nk: /b/\n:: parser\nx:\n")
	for i := 0; i < 700; i++ {
		tmLong.WriteString(" k x?")
		if i%9 == 8 {
			tmLong.WriteString("\n  |")
		}
	}
	tmLong.WriteString(" ;\n")
	return []shippedParser{
		{
			Name: "js",
			Inputs: []genInput{
				{"assign400", strings.Repeat("a = b + 1;\n", 400)},
				{"commented300", strings.Repeat("a = b /*c*/ + 1; // d\n", 300) + "/*e*/"},
				{"func150", strings.Repeat("function f(x) { return x * 2; }\n", 150)},
				{"ifelse80", strings.Repeat("if (a) { b(c, d); } else { e = [1, 2, 3]; }\n", 80)},
			},
			run: func(ctx context.Context, src string, node func(t, off, end int), onErr func(off, end int)) (error, string) {
				var s js.TokenStream
				var p js.Parser
				l := func(nt js.NodeType, off, end int) { node(int(nt), off, end) }
				s.Init(src, l)
				p.Init(func(se js.SyntaxError) bool { onErr(se.Offset, se.Endoffset); return true }, l)
				err := p.ParseModule(ctx, &s)
				if se, ok := err.(js.SyntaxError); ok {
					return err, fmt.Sprintf("syntax@%d-%d", se.Offset, se.Endoffset)
				}
				return err, ""
			},
			tokens: func(src string) []int {
				var l js.Lexer
				l.Init(src)
				var out []int
				for {
					t := l.Next()
					if t == jstoken.EOI {
						return out
					}
					if ignoredToken(t.String()) {
						continue
					}
					s, _ := l.Pos()
					out = append(out, s)
				}
			},
			typ: func(t int) string { return js.NodeType(t).String() },
		},
		{
			Name: "tm",
			Inputs: []genInput{
				{"lexer260parser120", tmText.String()},
				{"longrule700", tmLong.String()},
				{"commented", "language l(go); # c\n:: lexer /*d*/\n" + strings.Repeat("k: /b/ # e\n", 250) + ":: parser\n" + strings.Repeat("r /*f*/ : k r | ; # g\n", 120) + "/*h*/"},
			},
			run: func(ctx context.Context, src string, node func(t, off, end int), onErr func(off, end int)) (error, string) {
				var s tm.TokenStream
				var p tm.Parser
				l := func(nt tm.NodeType, off, end int) { node(int(nt), off, end) }
				s.Init(src, l)
				p.Init(func(se tm.SyntaxError) bool { onErr(se.Offset, se.Endoffset); return true }, l)
				err := p.ParseFile(ctx, &s)
				if se, ok := err.(tm.SyntaxError); ok {
					return err, fmt.Sprintf("syntax@%d-%d", se.Offset, se.Endoffset)
				}
				return err, ""
			},
			tokens: func(src string) []int {
				var l tm.Lexer
				l.Init(src)
				var out []int
				for {
					t := l.Next()
					if t == tmtoken.EOI {
						return out
					}
					if ignoredToken(t.String()) {
						continue
					}
					s, _ := l.Pos()
					out = append(out, s)
				}
			},
			typ: func(t int) string { return tm.NodeType(t).String() },
		},
		{
			Name: "test",
			Inputs: []genInput{
				{"decl1x300", strings.Repeat("decl1(a.b.c)\n", 300)},
				{"commented250", strings.Repeat("decl2 /*c*/ decl1(a.b) // d\n", 250) + "decl2 // e"},
				{"block250", strings.Repeat("{ - decl2 7 [] test 5 } ", 250)},
				{"eval120", strings.Repeat("eval(1.2+3+4) decl2 ", 120)},
			},
			run: func(ctx context.Context, src string, node func(t, off, end int), onErr func(off, end int)) (error, string) {
				var l test.Lexer
				var p test.Parser
				l.Init(src)
				p.Init(func(nt test.NodeType, flags test.NodeFlags, off, end int) { node(int(nt), off, end) })
				err := p.ParseTest(ctx, &l)
				if se, ok := err.(test.SyntaxError); ok {
					return err, fmt.Sprintf("syntax@%d-%d", se.Offset, se.Endoffset)
				}
				return err, ""
			},
			tokens: func(src string) []int {
				var l test.Lexer
				l.Init(src)
				var out []int
				for {
					t := l.Next()
					if t == testtoken.EOI {
						return out
					}
					if ignoredToken(t.String()) {
						continue
					}
					s, _ := l.Pos()
					out = append(out, s)
				}
			},
			typ: func(t int) string { return test.NodeType(t).String() },
		},
	}
}

// ignoredToken: comments, white space and invalid tokens are returned by the lexers (they are
// reported through the listener) but never shifted; the token bound counts shifted tokens.
func ignoredToken(name string) bool {
	n := strings.ToLower(name)
	return strings.Contains(n, "comment") || strings.Contains(n, "whitespace") || strings.Contains(n, "invalid")
}

type pollCtx struct {
	context.Context
	onPoll func()
	polls  int
}

func (c *pollCtx) Done() <-chan struct{} {
	c.polls++
	if c.onPoll != nil {
		c.onPoll()
	}
	return c.Context.Done()
}

type shippedOut struct {
	rec       record
	events    []ev
	pollClock []int
	handler   int
}

// runShipped parses src and cancels the context when the listener has been called s times
// (s == 0: before Parse; s < 0: never; s == -3: expired deadline).
func runShipped(p *shippedParser, src string, s int, keep bool) shippedOut {
	var o shippedOut
	base, cancel := context.WithCancel(context.Background())
	defer cancel()
	o.rec.S = s
	o.rec.AtCancel = -1
	if s == -3 {
		var c2 context.CancelFunc
		base, c2 = context.WithDeadline(context.Background(), time.Unix(1, 0))
		defer c2()
		<-base.Done()
		o.rec.AtCancel = 0
	}
	clock := 0
	ctx := &pollCtx{Context: base}
	ctx.onPoll = func() {
		if keep {
			o.pollClock = append(o.pollClock, clock)
		}
		if o.rec.AtCancel >= 0 {
			o.rec.PollsAfter++
		}
	}
	h := uint64(hashSeed)
	node := func(t, off, end int) {
		clock++
		h = evHash(h, p.typeName(t), off, end)
		if keep {
			o.events = append(o.events, ev{t, off, end})
		}
		if clock == s {
			o.rec.AtCancel = clock
			cancel()
		}
	}
	if s == 0 {
		o.rec.AtCancel = 0
		cancel()
	}
	// an error-handler call is part of the observable outcome and a tick of the clock: it enters
	// the event stream as the pseudo event "!error"
	err, syn := p.run(ctx, src, node, func(off, end int) { o.handler++; node(-1, off, end) })
	o.rec.EvN, o.rec.EvH, o.rec.Delivered, o.rec.Polls = clock, h, clock, ctx.polls
	switch {
	case err == nil:
		o.rec.ErrKind = "nil"
	case base.Err() != nil && err == base.Err():
		o.rec.ErrKind = "ctx"
	case syn != "":
		o.rec.ErrKind = syn
	default:
		o.rec.ErrKind = "other: " + err.Error()
	}
	return o
}

type shippedCase struct {
	Parser string `json:"shipped_parser"`
	Input  string `json:"input_name"`
	S      int    `json:"s"`
	Text   string `json:"text,omitempty"` // inputs that are not in the parser's fixed list
	Valid  bool   `json:"valid,omitempty"`
	Slack  int    `json:"slack,omitempty"`
}

func (p *shippedParser) typeName(t int) string {
	if t < 0 {
		return "!error"
	}
	return p.typ(t)
}

// shippedRef is the uncancelled run plus the conversion clock -> number of lexer tokens that
// start before the furthest text position reported so far.
type shippedRef struct {
	reference
	tokAt        []int // tokAt[k] = tokens starting before max endoffset of the first k events
	handlerCalls int
	ntok         int
}

func buildShippedRef(p *shippedParser, src string, valid bool) (*shippedRef, error) {
	o := runShipped(p, src, -1, true)
	if valid && (o.rec.ErrKind != "nil" || o.handler != 0) {
		return nil, fmt.Errorf("the uncancelled parse fails: %s, %d handler calls", o.rec.ErrKind, o.handler)
	}
	if o.rec.ErrKind == "ctx" || strings.HasPrefix(o.rec.ErrKind, "other") {
		return nil, fmt.Errorf("the uncancelled parse returns %s", o.rec.ErrKind)
	}
	r := &shippedRef{handlerCalls: o.handler}
	r.rec = o.rec
	r.pollClock = o.pollClock
	toks := p.tokens(src)
	r.ntok = len(toks)
	h := uint64(hashSeed)
	r.prefixH = append(r.prefixH, h)
	r.tokAt = append(r.tokAt, 0)
	maxEnd := 0
	for _, e := range o.events {
		h = evHash(h, p.typeName(e.T), e.Off, e.End)
		r.prefixH = append(r.prefixH, h)
		if e.End > maxEnd {
			maxEnd = e.End
		}
		r.tokAt = append(r.tokAt, sort.SearchInts(toks, maxEnd))
	}
	return r, nil
}

const shippedSlack = 64

func shippedMoments(ref *shippedRef, quick bool) []int {
	set := map[int]bool{-1: true, -3: true}
	M := ref.rec.EvN
	step := 1
	if quick {
		step = 8
	}
	for s := 0; s <= M+2; s += step {
		set[s] = true
	}
	for _, pc := range ref.pollClock {
		for d := -2; d <= 2; d++ {
			if pc+d >= 0 {
				set[pc+d] = true
			}
		}
	}
	for d := 0; d <= 3; d++ {
		set[d] = true
		set[M-d] = true
		set[M+d] = true
	}
	var out []int
	for s := range set {
		out = append(out, s)
	}
	sort.Ints(out)
	return out
}

// slack: further lexer tokens that are passed over without being shifted (discarded by error
// recovery); 0 for valid inputs.
func judgeShipped(ref *shippedRef, r record, slack int) ([]finding, string) {
	return judge(&ref.reference, r, pollEvery+shippedSlack+slack, func(r record) int {
		a, b := min(r.AtCancel, len(ref.tokAt)-1), min(r.Delivered, len(ref.tokAt)-1)
		return ref.tokAt[b] - ref.tokAt[a]
	})
}

// shippedInput is one input of a shipped parser with its family's parameters.
type shippedInput struct {
	genInput
	valid  bool // the uncancelled parse must succeed without handler calls
	all    bool // every moment (short inputs) instead of shippedMoments
	phase  bool // moments: the first callbacks and both sides of every poll
	fixed  bool // the input is in the parser's fixed list (replay finds it by name)
	family string
}

func momentsFor(ref *shippedRef, in shippedInput, quick bool) []int {
	switch {
	case in.all:
		ms := []int{-1, -3}
		for s := 0; s <= ref.rec.EvN+1; s++ {
			ms = append(ms, s)
		}
		return ms
	case in.phase:
		set := map[int]bool{-1: true, 0: true, 1: true, 2: true, 3: true}
		for _, pc := range ref.pollClock {
			for d := -2; d <= 2; d++ {
				if pc+d >= 0 {
					set[pc+d] = true
				}
			}
		}
		var ms []int
		for s := range set {
			ms = append(ms, s)
		}
		sort.Ints(ms)
		return ms
	}
	return shippedMoments(ref, quick)
}

// slackFor: error recovery passes over tokens without shifting them; the statement bounds
// SHIFTED tokens, so for malformed inputs the bound on the text distance is widened by 8 tokens
// per error-handler call of the uncancelled run.
func slackFor(ref *shippedRef) int { return 8 * ref.handlerCalls }

func sweepShipped(c *core.Ctx, st *stats, p *shippedParser, in shippedInput, agg map[string]*famStat) {
	sc := shippedCase{Parser: p.Name, Input: in.Name, S: -1, Valid: in.valid}
	if !in.fixed {
		sc.Text = in.Text
	}
	ref, err := buildShippedRef(p, in.Text, in.valid)
	if err != nil {
		c.Violate("shipped:"+p.Name+":reference-run", err.Error()+" on input "+in.Name, sc)
		return
	}
	sc.Slack = slackFor(ref)
	fs := agg[p.Name+"/"+in.family]
	if fs == nil {
		fs = &famStat{}
		agg[p.Name+"/"+in.family] = fs
	}
	fs.inputs++
	fs.handlerCalls += ref.handlerCalls
	if ref.rec.ErrKind != "nil" {
		fs.failing++
	}
	if in.fixed {
		// the reference run itself: polls are at most 0x200 tokens apart
		prev := 0
		maxGap := 0
		for _, pc := range append(append([]int{}, ref.pollClock...), ref.rec.EvN) {
			if g := ref.tokAt[pc] - prev; g > maxGap {
				maxGap = g
			}
			prev = ref.tokAt[pc]
		}
		c.Set("shipped_"+p.Name+"_"+in.Name, map[string]any{"tokens": ref.ntok, "events": ref.rec.EvN, "polls": len(ref.pollClock), "max_tokens_between_polls": maxGap, "handler_calls": ref.handlerCalls, "uncancelled": ref.rec.ErrKind})
		if len(ref.pollClock) < 2 {
			c.Capped(fmt.Sprintf("shipped %s/%s: only %d polls, input too short", p.Name, in.Name, len(ref.pollClock)))
		}
	}
	ms := momentsFor(ref, in, c.Quick())
	recs := make([]record, len(ms))
	if len(ms)*len(in.Text) > 200000 {
		core.ParallelFor(len(ms), 8, func(i int) { recs[i] = runShipped(p, in.Text, ms[i], false).rec })
	} else {
		for i := range ms {
			recs[i] = runShipped(p, in.Text, ms[i], false).rec
		}
	}
	for _, r := range recs {
		fds, class := judgeShipped(ref, r, sc.Slack)
		st.note(c, p.Name, in.Name, r, class)
		fs.runs++
		if r.AtCancel >= 0 {
			a, b := min(r.AtCancel, len(ref.tokAt)-1), min(r.Delivered, len(ref.tokAt)-1)
			if d := ref.tokAt[b] - ref.tokAt[a]; d > fs.maxAfter {
				fs.maxAfter = d
			}
		}
		for _, f := range fds {
			k := sc
			k.S = r.S
			c.Violate("shipped:"+p.Name+":"+f.key, fmt.Sprintf("%s; parser %s, input %s %q (uncancelled outcome %s with %d handler calls), cancelled after %d listener/handler calls (returned after %d, %d polls)", f.what, p.Name, in.Name, clip(in.Text), ref.rec.ErrKind, ref.handlerCalls, r.AtCancel, r.Delivered, r.Polls), k)
		}
	}
}

func clip(s string) string {
	if len(s) > 90 {
		return s[:60] + "…" + s[len(s)-25:]
	}
	return s
}

type famStat struct {
	inputs, failing, handlerCalls, runs, maxAfter int
}

// tokenMutations: the seed, every 1-token deletion and duplication, and a foreign token (")" and
// ";") inserted in front of every token.
func tokenMutations(p *shippedParser, seed string) []string {
	out := []string{seed}
	seen := map[string]bool{seed: true}
	add := func(s string) {
		if !seen[s] {
			seen[s] = true
			out = append(out, s)
		}
	}
	starts := p.tokens(seed)
	for i, a := range starts {
		b := len(seed)
		if i+1 < len(starts) {
			b = starts[i+1]
		}
		tok := seed[a:b]
		add(seed[:a] + seed[b:])
		add(seed[:b] + tok + seed[b:])
		add(seed[:a] + ") " + seed[a:])
		add(seed[:a] + "; " + seed[a:])
	}
	return out
}

var shortSeeds = map[string][]string{
	"tm": {
		"language l(a); :: lexer\n a: /a/ b: /b/ :: parser\n x: a b | b ;",
		"language l(go);\n:: lexer\n<s> k: /x/ (space)\n:: parser\n%input z;\nz -> Z: k (k | k)* ;\n",
	},
	"js": {
		"var a = 1;\nfunction f(x) { return x + 1; }\n",
		"if (a) { b(); } else { c = [1, 2]; }",
	},
}

// shortCommented: short valid inputs whose comments (reported white-space-like tokens) come after
// every possible cancellation point, including right before the end of input.
var shortCommented = map[string][]string{
	"js":   {"y; // c", "/*a*/ x = 1 /*b*/; // c\ny /*d*/"},
	"tm":   {"language l(go); # c", "language /*a*/ l(go); :: lexer # b\nk: /x/ /*c*/"},
	"test": {"decl2 // c", "/*a*/ decl2 /*b*/ decl1(q) // c\ndecl2 /*d*/"},
}

func malformedLong(name string) []genInput {
	var sb strings.Builder
	switch name {
	case "js":
		for i := 0; i < 400; i++ {
			switch {
			case i%37 == 5:
				sb.WriteString("a = ) b + 1;\n")
			case i%41 == 7:
				sb.WriteString("a = b + ;\n")
			case i%59 == 13:
				sb.WriteString("} a = 1;\n")
			default:
				sb.WriteString("a = b + 1;\n")
			}
		}
		return []genInput{{"assign400-malformed", sb.String()}}
	case "tm":
		sb.WriteString("language l(go);\n\n:: lexer\n\n")
		for i := 0; i < 260; i++ {
			switch {
			case i%31 == 5:
				fmt.Fprintf(&sb, "tok%d: ) /a%d/\n", i, i)
			case i%43 == 7:
				fmt.Fprintf(&sb, "tok%d /a%d/\n", i, i)
			default:
				fmt.Fprintf(&sb, "tok%d: /a%d/\n", i, i)
			}
		}
		sb.WriteString("\n:: parser\n\n")
		for i := 0; i < 120; i++ {
			switch {
			case i%17 == 3:
				fmt.Fprintf(&sb, "r%d -> N%d: tok%d ) r%d? | (tok1 tok2)+ ;\n", i, i, i, (i+1)%120)
			case i%23 == 9:
				fmt.Fprintf(&sb, "r%d -> : tok%d | ;\n", i, i)
			default:
				fmt.Fprintf(&sb, "r%d -> N%d: tok%d r%d? | (tok1 tok2)+ ;\n", i, i, i, (i+1)%120)
			}
		}
		return []genInput{{"lexer260parser120-malformed", sb.String()}}
	}
	return nil
}

// phaseInput: k one-token statements, one statement that needs a runtime lookahead, a long tail.
func phaseInput(name string, k int) (string, bool) {
	switch name {
	case "test":
		return strings.Repeat("decl2 ", k) + "eval(1 . 2) " + strings.Repeat("decl2 ", 700), true
	case "js":
		return strings.Repeat(";", k) + "x = (a, b) => a;\n" + strings.Repeat(";", 1300), true
	}
	return "", false
}

func shippedInputs(p *shippedParser, quick bool) []shippedInput {
	var out []shippedInput
	for _, in := range p.Inputs {
		out = append(out, shippedInput{genInput: in, valid: true, fixed: true, family: "valid-long"})
	}
	for _, in := range malformedLong(p.Name) {
		out = append(out, shippedInput{genInput: in, family: "malformed-long"})
	}
	for si, seed := range shortSeeds[p.Name] {
		for mi, m := range tokenMutations(p, seed) {
			out = append(out, shippedInput{genInput: genInput{fmt.Sprintf("short%d-mut%d", si, mi), m}, all: true, family: "malformed-short"})
		}
	}
	for i, text := range shortCommented[p.Name] {
		out = append(out, shippedInput{genInput: genInput{fmt.Sprintf("short-commented%d", i), text}, valid: true, all: true, family: "valid-short-commented"})
	}
	for _, k := range phaseKs(quick) {
		if text, ok := phaseInput(p.Name, k); ok {
			out = append(out, shippedInput{genInput: genInput{fmt.Sprintf("phase-pad%d", k), text}, valid: true, phase: true, family: "phase"})
		}
	}
	return out
}

func shippedPart(c *core.Ctx, st *stats) {
	agg := map[string]*famStat{}
	for _, p := range shippedParsers() {
		p := p
		for _, in := range shippedInputs(&p, c.Quick()) {
			if c.Expired() {
				c.Capped(fmt.Sprintf("shipped %s: inputs from %s on not run (budget)", p.Name, in.Name))
				break
			}
			sweepShipped(c, st, &p, in, agg)
		}
		debugf("shipped %s done", p.Name)
	}
	for k, f := range agg {
		c.Set("shipped_family_"+k, map[string]any{"inputs": f.inputs, "inputs_with_returned_syntax_error": f.failing, "handler_calls_in_reference_runs": f.handlerCalls, "runs": f.runs, "max_tokens_after_cancel": f.maxAfter})
	}
}

// --- shipped parsers: a cancelled parse followed by another parse on the same values -----------

// shipSession holds ONE parser value and ONE token stream / lexer value of a shipped language;
// every parse calls Init on both first, exactly as the parsers' own tests reuse them.
type shipSession struct {
	lang  string
	jsP   js.Parser
	jsS   js.TokenStream
	tmP   tm.Parser
	tmS   tm.TokenStream
	testP test.Parser
	testL test.Lexer
}

func (ss *shipSession) parse(ctx context.Context, src string, node func(t, off, end int), onErr func(off, end int)) string {
	var err error
	switch ss.lang {
	case "js":
		l := func(nt js.NodeType, off, end int) { node(int(nt), off, end) }
		ss.jsS.Init(src, l)
		ss.jsP.Init(func(se js.SyntaxError) bool { onErr(se.Offset, se.Endoffset); return true }, l)
		err = ss.jsP.ParseModule(ctx, &ss.jsS)
	case "tm":
		l := func(nt tm.NodeType, off, end int) { node(int(nt), off, end) }
		ss.tmS.Init(src, l)
		ss.tmP.Init(func(se tm.SyntaxError) bool { onErr(se.Offset, se.Endoffset); return true }, l)
		err = ss.tmP.ParseFile(ctx, &ss.tmS)
	case "test":
		ss.testL.Init(src)
		ss.testP.Init(func(nt test.NodeType, flags test.NodeFlags, off, end int) { node(int(nt), off, end) })
		err = ss.testP.ParseTest(ctx, &ss.testL)
	}
	switch e := err.(type) {
	case nil:
		return "nil"
	case js.SyntaxError:
		return fmt.Sprintf("syntax@%d-%d", e.Offset, e.Endoffset)
	case tm.SyntaxError:
		return fmt.Sprintf("syntax@%d-%d", e.Offset, e.Endoffset)
	case test.SyntaxError:
		return fmt.Sprintf("syntax@%d-%d", e.Offset, e.Endoffset)
	}
	if err == ctx.Err() {
		return "ctx"
	}
	return "other: " + err.Error()
}

type shippedHistCase struct {
	Lang   string `json:"shipped_hist"`
	First  string `json:"first"`
	Second string `json:"second"`
	S      int    `json:"s"` // the first parse's context is cancelled before Parse (0) or at its S-th listener/handler call
}

// runShippedHist returns what the second parse reports after the cancelled first parse on the
// same values (got) and on fresh values (want): error and every event.
func runShippedHist(k shippedHistCase) (got, want string) {
	var sp *shippedParser
	for _, p := range shippedParsers() {
		if p.Name == k.Lang {
			p := p
			sp = &p
		}
	}
	observe := func(ss *shipSession) string {
		var sb strings.Builder
		node := func(t, off, end int) { fmt.Fprintf(&sb, " %s[%d,%d)", sp.typeName(t), off, end) }
		res := ss.parse(context.Background(), k.Second, node, func(off, end int) { node(-1, off, end) })
		return res + ":" + sb.String()
	}
	want = observe(&shipSession{lang: k.Lang})
	ss := &shipSession{lang: k.Lang}
	ctx, cancel := context.WithCancel(context.Background())
	defer cancel()
	n := 0
	tick := func() {
		if n++; n == k.S {
			cancel()
		}
	}
	if k.S == 0 {
		cancel()
	}
	ss.parse(ctx, k.First, func(t, off, end int) { tick() }, func(off, end int) { tick() })
	got = observe(ss)
	return got, want
}

func clipMid(s string) string {
	if len(s) > 220 {
		return s[:150] + " … " + s[len(s)-60:]
	}
	return s
}

// shippedHistFirst: k one-token statements, a comment, one more statement, a long tail: k decides
// where the token after the comment is relative to the 0x200-th shift.
func shippedHistFirst(lang string, k int) string {
	switch lang {
	case "js":
		return strings.Repeat(";", k) + " /*c*/ x;" + strings.Repeat(";", 700)
	case "test":
		return strings.Repeat("decl2 ", k) + "/*c*/ decl2 " + strings.Repeat("decl2 ", 700)
	case "tm":
		return "language l(go); :: lexer a: /x/ :: parser r:" + strings.Repeat(" a", k) + " /*c*/ a" + strings.Repeat(" a", 700) + " ;"
	}
	return ""
}

var shippedHistSeconds = map[string][]string{
	"js":   {"/*d*/ y;", "y; /*e*/ z;", strings.Repeat(" ", 700) + "y; /*f*/", "y;"},
	"test": {"/*d*/ decl2", "decl2 /*e*/ decl2", strings.Repeat(" ", 700) + "decl2 /*f*/ decl2", "decl2"},
	"tm":   {"/*d*/ language l(go);", "language /*e*/ l(go);", strings.Repeat(" ", 700) + "language l(go); /*f*/", "language l(go);"},
}

func shippedHistories(c *core.Ctx, st *stats) {
	for _, lang := range []string{"js", "tm", "test"} {
		ks := phaseKs(c.Quick())
		var jobs []shippedHistCase
		for _, k := range ks {
			first := shippedHistFirst(lang, k)
			for _, second := range shippedHistSeconds[lang] {
				for _, s := range []int{0, 1} {
					jobs = append(jobs, shippedHistCase{lang, first, second, s})
				}
			}
		}
		got := make([]string, len(jobs))
		want := make([]string, len(jobs))
		core.ParallelFor(len(jobs), 8, func(i int) { got[i], want[i] = runShippedHist(jobs[i]) })
		for i, j := range jobs {
			st.runs++
			st.compared++
			c.Eval(1)
			if got[i] != want[i] {
				c.Violate("shipped:"+lang+":history:parse-after-cancelled-parse-differs-from-fresh", fmt.Sprintf("the same %s parser and stream/lexer values parse %q with a cancelled context (s=%d) and then, after Init, %q: the second parse gives %s, fresh values give %s", lang, clip(j.First), j.S, clip(j.Second), clipMid(got[i]), clipMid(want[i])), j)
			}
		}
		c.Add("history_runs_shipped", int64(len(jobs)))
	}
}

// ---------------------------------------------------------------------------------------------

func run(c *core.Ctx) {
	c.Rule("generated cancellable parsers (list grammar x cancellableFetch on/off x tokenStream on/off, optimizeTables, a value-returning list, a runtime lookahead (?= P) whose predicate shifts > 1000 tokens, accepting and failing) x inputs of 1100-1600 tokens x EVERY moment s = number of tokens delivered by the lexer(s) at which the context is cancelled (0 = before Parse .. final clock + 3 = never), plus never and an expired deadline context; shipped js/tm/test parsers x 2-3 long inputs x moments counted in listener calls (quick: every 8th + poll boundaries +-2, thorough: every); plus malformed inputs (generated recovering grammar, long and short malformed js/tm texts: every moment for the short ones) with the uncancelled run, whatever it returns, as reference; plus the phase family pad x k + lookahead statement + tail, k in 0..600 (quick: strided, all k = 500..520 mod 512), cancelled at the first callbacks and around every poll, also for grammars whose lookahead decision list tests two predicates in sequence (applyRule and lookaheadRule chains); histories: a cancelled parse (every phase, a reported comment next to the poll point) followed, after Init, by a second parse on the same Parser + TokenStream/Lexer values, compared with fresh values (generated and shipped js/tm/test). non-trivial = cancelled run that returned the ctx error after reporting a non-empty proper prefix of the events. states = distinct (parser, input, moment, polls made when the parse stopped); transitions = parses run; traces = parses compared with the uncancelled reference")
	c.Assume("generated parsers: the clock is advanced by a lexer-rule action `{ verifTick() }` on every token rule; shipped parsers: by the listener")
	c.Assume("event lists are compared through a 64-bit FNV-1a chain hash over (type, offset, endoffset)")
	st := &stats{seen: map[string]bool{}}
	// the shipped parsers first: in-process, a few seconds, and so never cut by the time budget
	// that the generate+build batches of the generated parsers may use up on a loaded machine
	shippedPart(c, st)
	shippedHistories(c, st)
	debugf("shipped done")
	layerB(c, st)
	layerB2(c, st)
	layerB3(c, st)
	debugf("layer B done")
	c.States(st.states)
	c.Transitions(st.runs)
	c.Traces(st.compared)
}

func replay(c *core.Ctx, raw json.RawMessage) error {
	var probe map[string]any
	if err := json.Unmarshal(raw, &probe); err != nil {
		return err
	}
	if _, ok := probe["hist_parser"]; ok {
		var k histCase
		if err := json.Unmarshal(raw, &k); err != nil {
			return err
		}
		return replayHist(k)
	}
	if _, ok := probe["shipped_hist"]; ok {
		var k shippedHistCase
		if err := json.Unmarshal(raw, &k); err != nil {
			return err
		}
		if got, want := runShippedHist(k); got != want {
			return fmt.Errorf("parse after the cancelled parse gives %s, fresh values give %s", clipMid(got), clipMid(want))
		}
		return nil
	}
	if _, ok := probe["shipped_parser"]; ok {
		var k shippedCase
		json.Unmarshal(raw, &k)
		for _, p := range shippedParsers() {
			if p.Name != k.Parser {
				continue
			}
			text := k.Text
			if text == "" {
				for _, in := range p.Inputs {
					if in.Name == k.Input {
						text = in.Text
					}
				}
			}
			if text == "" {
				break
			}
			ref, err := buildShippedRef(&p, text, k.Valid)
			if err != nil {
				return err
			}
			o := runShipped(&p, text, k.S, true)
			fs, _ := judgeShipped(ref, o.rec, k.Slack)
			if len(fs) > 0 {
				// where the event streams part
				uo := runShipped(&p, text, -1, true)
				d := 0
				for d < len(o.events) && d < len(uo.events) && o.events[d] == uo.events[d] {
					d++
				}
				show := func(es []ev) string {
					var parts []string
					for i := max(0, d-2); i < min(len(es), d+4); i++ {
						parts = append(parts, fmt.Sprintf("#%d %s[%d,%d)", i, p.typeName(es[i].T), es[i].Off, es[i].End))
					}
					return strings.Join(parts, " ")
				}
				var all []string
				for _, f := range fs {
					all = append(all, f.key+": "+f.what)
				}
				return fmt.Errorf("%s; returned %s after %d events, polls at clock %v; first differing event #%d: cancelled run {%s} uncancelled run {%s}", strings.Join(all, "; "), o.rec.ErrKind, o.rec.EvN, o.pollClock, d, show(o.events), show(uo.events))
			}
			return nil
		}
		return fmt.Errorf("unknown shipped case %+v", k)
	}
	var k genCase
	if err := json.Unmarshal(raw, &k); err != nil {
		return err
	}
	if k.TM == "" {
		return fmt.Errorf("no grammar recorded")
	}
	outs, err := genharness.RunBatch([]genharness.Spec{{Name: k.Parser, TM: k.TM, Driver: driver, Cases: []genharness.Case{
		{Mode: "ref", Text: "in=" + k.Text},
		{Mode: "one", Text: fmt.Sprintf("m=%d;in=%s", k.S, k.Text)},
	}}}, genharness.BatchOpts{CaseTimeout: 120 * time.Second})
	if err != nil {
		return err
	}
	out := outs[0]
	if len(out.Results) != 2 {
		return fmt.Errorf("generate/build failed: %s %s %s", out.GenErr, out.GenPanic, out.BuildErr)
	}
	ref, err := buildRef(out.Results[0])
	if err != nil {
		return err
	}
	if out.Results[1].Extra == nil {
		return fmt.Errorf("run failed: %+v", out.Results[1])
	}
	r, err := parseRecord(out.Results[1].Extra["record"].(string))
	if err != nil {
		return err
	}
	fs, _ := judge(ref, r, pollEvery+1+k.LA+k.Slack, func(r record) int { return r.Delivered - r.AtCancel })
	if len(fs) > 0 {
		return fmt.Errorf("%s: %s", fs[0].key, fs[0].what)
	}
	return nil
}
