package main

import (
	"encoding/json"
	"fmt"
	"os"
	"strings"

	"verif/internal/core"
	"verif/internal/genharness"
)

func main() { core.Main("C16", "exploration", run, replay, nil) }

type rCase struct {
	TM   string `json:"tm"`
	Text string `json:"text"`
}

func run(c *core.Ctx) {}

func replay(c *core.Ctx, raw json.RawMessage) error {
	var k rCase
	if err := json.Unmarshal(raw, &k); err != nil {
		return err
	}
	outs, err := genharness.RunBatch([]genharness.Spec{{Name: "g0000", TM: k.TM, Cases: []genharness.Case{{Text: k.Text, Mode: "parse"}}}}, genharness.BatchOpts{})
	if err != nil {
		return err
	}
	o := outs[0]
	fmt.Println("generr:", o.GenErr, o.GenPanic)
	fmt.Println("builderr:", o.BuildErr)
	if os.Getenv("C16_DUMP") != "" {
		src := o.Files["parser.go"]
		if i := strings.Index(src, "func (p *Parser) applyRule"); i >= 0 {
			fmt.Println(src[i:])
		}
	}
	for _, r := range o.Results {
		fmt.Printf("%+v\n", r)
	}
	return nil
}
